(* Common/Prelude.v — shared definitions and lemmas (stdlib only).
   String order, insertion sort by a string key with canonicity under
   permutation, delimiter-splitting lemmas for printed text, decimal printing. *)
From Coq Require Import List String Ascii NArith ZArith Bool Lia Permutation Sorted.
From Coq Require Import DecimalString DecimalN DecimalZ.
Import ListNotations.

(* ------------------------------------------------------------------ *)
(* String order: String.leb is a total preorder, antisymmetric.        *)

Lemma ascii_compare_lt_trans a b c :
  Ascii.compare a b = Lt -> Ascii.compare b c = Lt -> Ascii.compare a c = Lt.
Proof. unfold Ascii.compare. rewrite !N.compare_lt_iff. lia. Qed.

Lemma ascii_compare_refl a : Ascii.compare a a = Eq.
Proof. unfold Ascii.compare. apply N.compare_refl. Qed.

Lemma str_compare_lt_trans : forall s1 s2 s3,
  String.compare s1 s2 = Lt -> String.compare s2 s3 = Lt -> String.compare s1 s3 = Lt.
Proof.
  induction s1 as [|a s1 IH]; intros [|b s2] [|c s3]; simpl; try discriminate; auto.
  destruct (Ascii.compare a b) eqn:Hab; try discriminate.
  - apply Ascii.compare_eq_iff in Hab; subst b.
    destruct (Ascii.compare a c) eqn:Hac; try discriminate; auto.
    intros H1 H2. eapply IH; eauto.
  - intros _. destruct (Ascii.compare b c) eqn:Hbc; try discriminate.
    + apply Ascii.compare_eq_iff in Hbc; subst c. rewrite Hab. auto.
    + rewrite (ascii_compare_lt_trans _ _ _ Hab Hbc). auto.
Qed.

Lemma str_compare_refl s : String.compare s s = Eq.
Proof. induction s as [|a s IH]; simpl; auto. rewrite ascii_compare_refl; auto. Qed.

Lemma str_leb_refl s : String.leb s s = true.
Proof. unfold String.leb. rewrite str_compare_refl. reflexivity. Qed.

Lemma str_leb_trans s1 s2 s3 :
  String.leb s1 s2 = true -> String.leb s2 s3 = true -> String.leb s1 s3 = true.
Proof.
  unfold String.leb.
  destruct (String.compare s1 s2) eqn:H12; try discriminate;
  destruct (String.compare s2 s3) eqn:H23; try discriminate; intros _ _.
  - apply String.compare_eq_iff in H12; apply String.compare_eq_iff in H23; subst.
    rewrite str_compare_refl; auto.
  - apply String.compare_eq_iff in H12; subst. rewrite H23; auto.
  - apply String.compare_eq_iff in H23; subst. rewrite H12; auto.
  - rewrite (str_compare_lt_trans _ _ _ H12 H23); auto.
Qed.

(* ------------------------------------------------------------------ *)
(* Insertion sort by a string key.                                     *)

Section KeySort.
Variable A : Type.
Variable key : A -> string.

Definition kle (a b : A) : Prop := String.leb (key a) (key b) = true.

Fixpoint kinsert (t : A) (l : list A) : list A :=
  match l with
  | [] => [t]
  | h :: tl => if String.leb (key t) (key h) then t :: l else h :: kinsert t tl
  end.
Definition ksort (l : list A) : list A := fold_right kinsert [] l.

Lemma kinsert_perm t l : Permutation (t :: l) (kinsert t l).
Proof. induction l as [|h tl IH]; simpl; auto. destruct (String.leb _ _); auto.
  eapply perm_trans; [apply perm_swap|]. constructor; auto. Qed.

Lemma ksort_perm l : Permutation l (ksort l).
Proof. induction l as [|h tl IH]; simpl; auto. eapply perm_trans; [|apply kinsert_perm]. auto. Qed.

Lemma ksort_length l : List.length (ksort l) = List.length l.
Proof. symmetry. apply Permutation_length, ksort_perm. Qed.

Lemma kinsert_sorted t l : StronglySorted kle l -> StronglySorted kle (kinsert t l).
Proof.
  induction 1 as [|h tl Hs IH Hall]; simpl; [repeat constructor|].
  destruct (String.leb (key t) (key h)) eqn:E.
  - constructor; [constructor; auto|]. constructor; [exact E|].
    rewrite Forall_forall in *. intros x Hx. unfold kle in *. eapply str_leb_trans; eauto.
  - constructor; auto.
    assert (Hht : kle h t). { unfold kle. destruct (String.leb_total (key h) (key t)); congruence. }
    rewrite Forall_forall in *. intros x Hx.
    apply (Permutation_in _ (Permutation_sym (kinsert_perm t tl))) in Hx. destruct Hx; subst; auto.
Qed.

Lemma ksort_sorted l : StronglySorted kle (ksort l).
Proof. induction l; simpl; [constructor|apply kinsert_sorted; auto]. Qed.

(* Canonicity needs the key to be injective on the elements being sorted. *)
Lemma sorted_perm_eq_on (P : A -> Prop) :
  (forall a b, P a -> P b -> key a = key b -> a = b) ->
  forall l1 l2, Forall P l1 -> StronglySorted kle l1 -> StronglySorted kle l2 ->
  Permutation l1 l2 -> l1 = l2.
Proof.
  intros key_inj.
  induction l1 as [|a l1 IH]; intros l2 HP S1 S2 Pm.
  - apply Permutation_nil in Pm; subst; auto.
  - destruct l2 as [|b l2]; [apply Permutation_sym, Permutation_nil in Pm; discriminate|].
    inversion S1 as [|? ? S1' F1]; inversion S2 as [|? ? S2' F2]; subst.
    inversion HP as [|? ? Pa HP']; subst.
    assert (a = b).
    { assert (Ia : In a (b :: l2)) by (eapply Permutation_in; [exact Pm|left; auto]).
      assert (Ib : In b (a :: l1)) by (eapply Permutation_in; [exact (Permutation_sym Pm)|left; auto]).
      rewrite Forall_forall in F1, F2.
      destruct Ia as [->|Ia]; auto. destruct Ib as [->|Ib]; auto.
      rewrite Forall_forall in HP'.
      apply key_inj; auto.
      apply String.leb_antisym; [apply (F1 _ Ib)|apply (F2 _ Ia)]. }
    subst b. f_equal. apply IH; auto. eapply Permutation_cons_inv; eauto.
Qed.

Theorem ksort_canonical_on (P : A -> Prop) :
  (forall a b, P a -> P b -> key a = key b -> a = b) ->
  forall l1 l2, Forall P l1 -> Permutation l1 l2 -> ksort l1 = ksort l2.
Proof.
  intros key_inj l1 l2 HP Pm. apply (sorted_perm_eq_on P key_inj); try apply ksort_sorted.
  - rewrite Forall_forall in *. intros x Hx. apply HP.
    eapply Permutation_in; [apply Permutation_sym, ksort_perm|exact Hx].
  - eapply perm_trans; [apply Permutation_sym, ksort_perm|].
    eapply perm_trans; [exact Pm|apply ksort_perm].
Qed.

Theorem ksort_canonical :
  (forall a b, key a = key b -> a = b) ->
  forall l1 l2, Permutation l1 l2 -> ksort l1 = ksort l2.
Proof.
  intros key_inj l1 l2 Pm.
  apply (ksort_canonical_on (fun _ => True)); auto.
  rewrite Forall_forall; auto.
Qed.

Lemma ksort_id_sorted :
  forall l, StronglySorted (fun a b => String.ltb (key a) (key b) = true) l -> ksort l = l.
Proof.
  induction l as [|a l IH]; intros S; simpl; auto.
  inversion S as [|? ? S' F]; subst. rewrite IH by auto.
  destruct l as [|b l]; simpl; auto.
  inversion F as [|? ? Hab _]; subst.
  unfold String.ltb in Hab. unfold String.leb.
  destruct (String.compare (key a) (key b)); try discriminate; auto.
Qed.
End KeySort.

Arguments kinsert {A} key t l.
Arguments ksort {A} key l.
Arguments kle {A} key a b.

(* ------------------------------------------------------------------ *)
(* Text lemmas: appending, delimiters.                                 *)

Lemma append_assoc (a b c : string) : ((a ++ b) ++ c = a ++ (b ++ c))%string.
Proof. induction a; simpl; congruence. Qed.

Lemma append_nil_r (a : string) : (a ++ "" = a)%string.
Proof. induction a; simpl; congruence. Qed.

Lemma append_inj_l (p a b : string) : (p ++ a = p ++ b)%string -> a = b.
Proof. induction p; simpl; intros H; auto. injection H; auto. Qed.

Fixpoint str_forall (P : ascii -> bool) (s : string) : bool :=
  match s with EmptyString => true | String c r => P c && str_forall P r end.

(* If neither s1 nor s2 contains the delimiter c, the split point is unique. *)
Lemma delim_split (c : ascii) : forall s1 s2 r1 r2,
  str_forall (fun x => negb (Ascii.eqb x c)) s1 = true ->
  str_forall (fun x => negb (Ascii.eqb x c)) s2 = true ->
  (s1 ++ String c r1 = s2 ++ String c r2)%string -> s1 = s2 /\ r1 = r2.
Proof.
  induction s1 as [|a s1 IH]; intros [|b s2] r1 r2 H1 H2 E; simpl in *.
  - injection E; auto.
  - injection E as Ec _. subst b. rewrite Ascii.eqb_refl in H2. discriminate.
  - injection E as Ec _. subst a. rewrite Ascii.eqb_refl in H1. discriminate.
  - injection E as Ec E'. subst b.
    apply andb_true_iff in H1 as [_ H1]. apply andb_true_iff in H2 as [_ H2].
    destruct (IH _ _ _ H1 H2 E'); subst; auto.
Qed.

(* Decimal printing of natural numbers (Python's repr of a non-negative int). *)
Definition print_N (n : N) : string := NilZero.string_of_uint (N.to_uint n).

Lemma print_N_inj a b : print_N a = print_N b -> a = b.
Proof.
  unfold print_N. intros H.
  assert (E : Some (N.to_uint a) = Some (N.to_uint b)).
  { rewrite <- (NilZero.usu (N.to_uint a)), <- (NilZero.usu (N.to_uint b)).
    - rewrite H. reflexivity.
    - intro Hn. destruct b; simpl in Hn; [discriminate|].
      unfold N.to_uint in Hn. simpl in Hn.
      pose proof (DecimalPos.Unsigned.to_uint_nonnil p). congruence.
    - intro Hn. destruct a; simpl in Hn; [discriminate|].
      pose proof (DecimalPos.Unsigned.to_uint_nonnil p). congruence. }
  injection E as E. rewrite <- (DecimalN.Unsigned.of_to a), <- (DecimalN.Unsigned.of_to b).
  congruence.
Qed.

Definition is_digit (c : ascii) : bool :=
  let n := N_of_ascii c in (48 <=? n)%N && (n <=? 57)%N.

Lemma string_of_uint_digits d : str_forall is_digit (NilEmpty.string_of_uint d) = true.
Proof. induction d; simpl; auto. Qed.

Lemma print_N_digits n : str_forall is_digit (print_N n) = true.
Proof.
  unfold print_N, NilZero.string_of_uint.
  destruct (N.to_uint n); try apply string_of_uint_digits; reflexivity.
Qed.

Lemma str_forall_impl (P Q : ascii -> bool) s :
  (forall c, P c = true -> Q c = true) -> str_forall P s = true -> str_forall Q s = true.
Proof.
  intros HPQ. induction s as [|c s IH]; simpl; auto.
  rewrite !andb_true_iff. intros [H1 H2]. auto.
Qed.

Lemma digit_not (c : ascii) : (N_of_ascii c < 48 \/ 57 < N_of_ascii c)%N ->
  forall x, is_digit x = true -> negb (Ascii.eqb x c) = true.
Proof.
  intros Hc x Hx. unfold is_digit in Hx. apply andb_true_iff in Hx as [H1 H2].
  apply N.leb_le in H1, H2. apply negb_true_iff. apply Ascii.eqb_neq. intro E; subst. lia.
Qed.

Lemma str_forall_app P a b : str_forall P (a ++ b) = str_forall P a && str_forall P b.
Proof. induction a as [|c a IH]; simpl; auto. rewrite IH, andb_assoc. reflexivity. Qed.

(* Generic list helpers *)
Lemma Forall2_eq_map {A B} (f g : A -> B) l :
  Forall (fun a => f a = g a) l -> map f l = map g l.
Proof. induction 1; simpl; congruence. Qed.
