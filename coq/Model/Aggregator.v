(* Model/Aggregator.v — executable model of semantiva/trace/aggregation/aggregator.py
   (TraceAggregator.ingest / finalize_run / finalize_launch) restricted to the fields that can
   influence a completeness verdict.  Definitions only.

   Conventions (established by the correspondence harness, harness/props/c13.py):
   * identifiers (run ids, node ids, launch ids) are [N]: 0 is the empty string, every other
     string of a case is numbered by its rank in Python's string order (so [N.compare] is
     Python's [<] on the strings and [sorted(...)] is [sort_dedup]); [None] = absent / JSON null;
   * timestamps are [option Z]: [None] = absent or falsy (None, ""), otherwise the rank of the
     string among the timestamps of the case (the code only compares them with [<] / [>]);
   * a run_space_attempt is given after the code's [_coerce_int] ([None] = not coercible);
   * SER status is a code: 0 = "unknown" (also what the code substitutes for a missing/falsy
     status), other codes from the table in harness/translate/aggregator.py;
   * Python dicts/sets keyed by identifiers are key-sorted association lists (iteration order
     of the dicts is never observable in a verdict: it only feeds min/max folds and [sorted]). *)
From Coq Require Import List NArith ZArith Bool.
Import ListNotations.

(* ------------------------------------------------------------------ *)
(* Key-sorted association lists over an arbitrary comparison.          *)
Section SMap.
  Variables K V : Type.
  Variable cmp : K -> K -> comparison.

  Fixpoint mget (k : K) (m : list (K * V)) : option V :=
    match m with
    | [] => None
    | (k', v) :: tl => match cmp k k' with Eq => Some v | _ => mget k tl end
    end.

  Fixpoint mset (k : K) (v : V) (m : list (K * V)) : list (K * V) :=
    match m with
    | [] => [(k, v)]
    | (k', v') :: tl =>
        match cmp k k' with
        | Eq => (k, v) :: tl
        | Lt => (k, v) :: m
        | Gt => (k', v') :: mset k v tl
        end
    end.

  Definition mgetd (d : V) (k : K) (m : list (K * V)) : V :=
    match mget k m with Some v => v | None => d end.

  (* "get or create, then mutate" *)
  Definition mupd (d : V) (k : K) (f : V -> V) (m : list (K * V)) : list (K * V) :=
    mset k (f (mgetd d k m)) m.
End SMap.
Arguments mget {K V} cmp k m.
Arguments mset {K V} cmp k v m.
Arguments mgetd {K V} cmp d k m.
Arguments mupd {K V} cmp d k f m.

Definition lkey := (N * Z)%type.
Definition cmpK (a b : lkey) : comparison :=
  match N.compare (fst a) (fst b) with Eq => Z.compare (snd a) (snd b) | c => c end.

(* sorted(set(l)) *)
Fixpoint sins (x : N) (l : list N) : list N :=
  match l with
  | [] => [x]
  | h :: tl => match N.compare x h with Eq => l | Lt => x :: l | Gt => h :: sins x tl end
  end.
Definition sort_dedup (l : list N) : list N := fold_right sins [] l.
Definition memN (x : N) (l : list N) : bool := existsb (N.eqb x) l.
Definition lenN {A} (l : list A) : N := N.of_nat (length l).

(* ------------------------------------------------------------------ *)
(* Optional timestamps: min / max merges                               *)
Definition omin (a b : option Z) : option Z :=
  match a, b with
  | Some x, Some y => Some (Z.min x y)
  | Some x, None => Some x
  | None, _ => b
  end.
Definition omax (a b : option Z) : option Z :=
  match a, b with
  | Some x, Some y => Some (Z.max x y)
  | Some x, None => Some x
  | None, _ => b
  end.
(* record.get("timestamp") or (record.get("timing") or {}).get(<key>) *)
Definition or_else (a b : option Z) : option Z := match a with Some _ => a | None => b end.

(* ------------------------------------------------------------------ *)
(* Trace records (verdict-relevant fields only)                        *)
Inductive record :=
| RSStart (lid : option N) (att : option Z) (planned : option Z)
| RSEnd (lid : option N) (att : option Z)
| PStart (rid : option N) (spec : option (list N)) (ts started : option Z) (lid : option N) (att : option Z)
    (* spec = None: no pipeline_spec_canonical (or null); Some l: the node_uuid list that
       _expected_nodes extracts from it ([] when it yields nothing) *)
| PEnd (rid : option N) (ts finished : option Z)
| Ser (rid nid : option N) (ts started finished : option Z) (status : N)
| Other.                    (* unknown record_type: tolerated and ignored *)

(* `if not x` on an identifier *)
Definition truthy (i : option N) : option N :=
  match i with Some 0%N => None | Some n => Some n | None => None end.

(* ------------------------------------------------------------------ *)
(* Aggregation state                                                   *)
Record node_agg := mkNode {
  n_first : option Z; n_last : option Z; n_status : N;
  n_started : option Z; n_finished : option Z }.      (* timing of the last SER ingested *)
Definition node0 := mkNode None None 0 None None.

Record run_agg := mkRun {
  r_saw_start : bool; r_saw_end : bool; r_spec : option (list N);
  r_start : option Z; r_end : option Z; r_nodes : list (N * node_agg) }.
Definition run0 := mkRun false false None None None [].

Record launch_agg := mkLaunch {
  l_saw_start : bool; l_saw_end : bool; l_planned : option Z; l_pipes : list (N * unit) }.
Definition launch0 := mkLaunch false false None [].

Record agg := mkAgg { a_runs : list (N * run_agg); a_launches : list (lkey * launch_agg) }.
Definition empty : agg := mkAgg [] [].

(* ------------------------------------------------------------------ *)
(* ingest                                                              *)
Definition ser_node (ts started finished : option Z) (st : N) (na : node_agg) : node_agg :=
  let t := or_else ts started in
  mkNode (omin (n_first na) t) (omax (n_last na) t) st started finished.

Definition run_start (spec : option (list N)) (ts started : option Z) (ra : run_agg) : run_agg :=
  mkRun true (r_saw_end ra)
        (match spec with Some s => Some s | None => r_spec ra end)
        (omin (r_start ra) (or_else ts started)) (r_end ra) (r_nodes ra).
Definition run_end (ts finished : option Z) (ra : run_agg) : run_agg :=
  mkRun (r_saw_start ra) true (r_spec ra) (r_start ra)
        (omax (r_end ra) (or_else ts finished)) (r_nodes ra).
Definition run_ser (n : N) (ts started finished : option Z) (st : N) (ra : run_agg) : run_agg :=
  mkRun (r_saw_start ra) (r_saw_end ra) (r_spec ra) (r_start ra) (r_end ra)
        (mupd N.compare node0 n (ser_node ts started finished st) (r_nodes ra)).

Definition launch_start (planned : option Z) (la : launch_agg) : launch_agg :=
  mkLaunch true (l_saw_end la)
           (match planned with Some p => Some p | None => l_planned la end) (l_pipes la).
Definition launch_end (la : launch_agg) : launch_agg :=
  mkLaunch (l_saw_start la) true (l_planned la) (l_pipes la).
Definition launch_add (r : N) (la : launch_agg) : launch_agg :=
  mkLaunch (l_saw_start la) (l_saw_end la) (l_planned la) (mset N.compare r tt (l_pipes la)).

(* which run aggregate a record mutates, and how *)
Definition run_effect (x : record) : option (N * (run_agg -> run_agg)) :=
  match x with
  | PStart rid spec ts started _ _ =>
      match truthy rid with Some r => Some (r, run_start spec ts started) | None => None end
  | PEnd rid ts finished =>
      match truthy rid with Some r => Some (r, run_end ts finished) | None => None end
  | Ser rid nid ts started finished st =>
      match truthy rid, truthy nid with
      | Some r, Some n => Some (r, run_ser n ts started finished st)
      | _, _ => None
      end
  | _ => None
  end.

(* which launch aggregate a record mutates, and how *)
Definition launch_effect (x : record) : option (lkey * (launch_agg -> launch_agg)) :=
  match x with
  | RSStart lid att planned =>
      match truthy lid, att with
      | Some l, Some t => Some ((l, t), launch_start planned)
      | _, _ => None
      end
  | RSEnd lid att =>
      match truthy lid, att with
      | Some l, Some t => Some ((l, t), launch_end)
      | _, _ => None
      end
  | PStart rid _ _ _ lid att =>
      match truthy rid, lid, att with       (* launch_id is tested with `is not None` here *)
      | Some r, Some l, Some t => Some ((l, t), launch_add r)
      | _, _, _ => None
      end
  | _ => None
  end.

Definition apply_run (x : record) (m : list (N * run_agg)) :=
  match run_effect x with Some (r, f) => mupd N.compare run0 r f m | None => m end.
Definition apply_launch (x : record) (m : list (lkey * launch_agg)) :=
  match launch_effect x with Some (k, f) => mupd cmpK launch0 k f m | None => m end.

Definition ingest (a : agg) (x : record) : agg :=
  mkAgg (apply_run x (a_runs a)) (apply_launch x (a_launches a)).
Definition ingest_all (l : list record) : agg := fold_left ingest l empty.

(* ------------------------------------------------------------------ *)
(* Verdict rules: decision chains read from the source                 *)
Inductive vstatus := Complete | Partial | Invalid.
Inductive atom := ASawStart | ASawEnd | AObserved | APipes | ARunsPartial | ARunsInvalid.
Inductive bexpr := BAtom (a : atom) | BNot (b : bexpr) | BAnd (a b : bexpr) | BOr (a b : bexpr) | BTrue.
Definition chain := list (bexpr * vstatus).

Fixpoint beval (env : atom -> bool) (b : bexpr) : bool :=
  match b with
  | BAtom a => env a
  | BNot x => negb (beval env x)
  | BAnd x y => beval env x && beval env y
  | BOr x y => beval env x || beval env y
  | BTrue => true
  end.
Fixpoint eval_chain (env : atom -> bool) (c : chain) (dflt : vstatus) : vstatus :=
  match c with
  | [] => dflt
  | (b, s) :: tl => if beval env b then s else eval_chain env tl dflt
  end.

Record Rules := mkRules {
  run_chain : chain; run_default : vstatus;
  launch_chain : chain; launch_default : vstatus;
  terminal : list N }.

(* ------------------------------------------------------------------ *)
(* finalize_run                                                        *)
Record run_verdict := mkRV {
  rv_unknown : bool;                      (* problems = ["unknown_run"] *)
  rv_status : vstatus;
  rv_missing_start : bool; rv_missing_end : bool; rv_time_inverted : bool;
  rv_missing : list N; rv_orphan : list N; rv_nonterminal : list N;
  rv_expected : option N;                 (* summary.nodes_total_expected *)
  rv_observed : N;                        (* summary.nodes_observed *)
  rv_covered : N }.                       (* |observed & expected| (numerator of coverage_pct) *)
Definition unknown_run := mkRV true Invalid false false false [] [] [] None 0 0.

(* _expected_nodes(...) or None *)
Definition expected_of (ra : run_agg) : option (list N) :=
  match r_spec ra with Some (x :: l) => Some (x :: l) | _ => None end.

(* the timestamp fallback of finalize_run, which writes into the aggregate *)
Definition node_firsts (m : list (N * node_agg)) : list (option Z) :=
  flat_map (fun kv => [n_first (snd kv); n_started (snd kv)]) m.
Definition node_lasts (m : list (N * node_agg)) : list (option Z) :=
  flat_map (fun kv => [n_last (snd kv); n_finished (snd kv)]) m.
Definition is_none {A} (o : option A) : bool := match o with None => true | Some _ => false end.
Definition synth (ra : run_agg) : run_agg :=
  if is_none (r_start ra) || is_none (r_end ra) then
    mkRun (r_saw_start ra) (r_saw_end ra) (r_spec ra)
          (fold_left omin (node_firsts (r_nodes ra)) (r_start ra))
          (fold_left omax (node_lasts (r_nodes ra)) (r_end ra)) (r_nodes ra)
  else ra.

Definition run_env_of (s e o : bool) (a : atom) : bool :=
  match a with ASawStart => s | ASawEnd => e | AObserved => o | _ => false end.
Definition run_env (ra : run_agg) : atom -> bool :=
  run_env_of (r_saw_start ra) (r_saw_end ra) (negb (is_none (hd_error (r_nodes ra)))).

Definition verdict_of (R : Rules) (ra : run_agg) : run_verdict :=
  let keys := map fst (r_nodes ra) in
  let inverted := match r_start ra, r_end ra with Some s, Some e => Z.ltb e s | _, _ => false end in
  let nonterm := sort_dedup (map fst (filter (fun kv => negb (memN (n_status (snd kv)) (terminal R))) (r_nodes ra))) in
  let st := eval_chain (run_env ra) (run_chain R) (run_default R) in
  match expected_of ra with
  | Some ex =>
      mkRV false st (negb (r_saw_start ra)) (negb (r_saw_end ra)) inverted
           (sort_dedup (filter (fun c => negb (memN c keys)) ex))
           (sort_dedup (filter (fun k => negb (memN k ex)) keys))
           nonterm (Some (lenN (sort_dedup ex))) (lenN keys)
           (lenN (sort_dedup (filter (fun c => memN c keys) ex)))
  | None =>
      mkRV false st (negb (r_saw_start ra)) (negb (r_saw_end ra)) inverted
           [] [] nonterm None (lenN keys) 0
  end.

Definition finalize_run (R : Rules) (a : agg) (r : N) : agg * run_verdict :=
  match mget N.compare r (a_runs a) with
  | None => (a, unknown_run)
  | Some ra =>
      let ra' := synth ra in
      (mkAgg (mset N.compare r ra' (a_runs a)) (a_launches a), verdict_of R ra')
  end.

(* ------------------------------------------------------------------ *)
(* finalize_launch                                                     *)
Record counts := mkCounts { c_complete : N; c_partial : N; c_invalid : N }.
Definition bump (c : counts) (s : vstatus) : counts :=
  match s with
  | Complete => mkCounts (c_complete c + 1) (c_partial c) (c_invalid c)
  | Partial => mkCounts (c_complete c) (c_partial c + 1) (c_invalid c)
  | Invalid => mkCounts (c_complete c) (c_partial c) (c_invalid c + 1)
  end.

Record launch_verdict := mkLV {
  lv_unknown : bool; lv_status : vstatus; lv_missing_start : bool; lv_missing_end : bool;
  lv_total : N; lv_counts : counts; lv_planned : option Z }.
Definition unknown_launch := mkLV true Invalid false false 0 (mkCounts 0 0 0) None.

Definition launch_env (la : launch_agg) (c : counts) (a : atom) : bool :=
  match a with
  | ASawStart => l_saw_start la
  | ASawEnd => l_saw_end la
  | APipes => negb (is_none (hd_error (l_pipes la)))
  | ARunsPartial => negb (N.eqb (c_partial c) 0)
  | ARunsInvalid => negb (N.eqb (c_invalid c) 0)
  | AObserved => false
  end.

Definition launch_verdict_of (R : Rules) (la : launch_agg) (c : counts) : launch_verdict :=
  mkLV false (eval_chain (launch_env la c) (launch_chain R) (launch_default R))
       (negb (l_saw_start la)) (negb (l_saw_end la)) (lenN (l_pipes la)) c (l_planned la).

(* the loop `for run_id in launch.pipelines: completeness = self.finalize_run(run_id); ...` *)
Definition launch_loop (R : Rules) (pipes : list N) (a : agg) : agg * counts :=
  fold_left (fun (st : agg * counts) r =>
               let (a2, v) := finalize_run R (fst st) r in (a2, bump (snd st) (rv_status v)))
            pipes (a, mkCounts 0 0 0).

Definition finalize_launch (R : Rules) (a : agg) (lid : N) (att : option Z) : agg * launch_verdict :=
  match att with
  | None => (a, unknown_launch)
  | Some t =>
      match mget cmpK (lid, t) (a_launches a) with
      | None => (a, unknown_launch)
      | Some la =>
          let (a', c) := launch_loop R (map fst (l_pipes la)) a in
          (a', launch_verdict_of R la c)
      end
  end.

(* Pure verdict views *)
Definition run_verdict_at (R : Rules) (a : agg) (r : N) : run_verdict := snd (finalize_run R a r).
Definition launch_verdict_at (R : Rules) (a : agg) (k : N * option Z) : launch_verdict :=
  snd (finalize_launch R a (fst k) (snd k)).

(* ------------------------------------------------------------------ *)
(* Well-formed record multisets: what may not occur twice.             *)
(* Two records conflict when a last-writer-wins field of the same aggregate is written by both:
   two SERs of one (run, node); two pipeline_start of one run; two run_space_start of one launch
   attempt.  (Repeated pipeline_end / run_space_end merge commutatively and are harmless.) *)
Definition oN_eqb (a b : option N) : bool :=
  match a, b with Some x, Some y => N.eqb x y | _, _ => false end.
Definition conflict (x y : record) : bool :=
  match x, y with
  | Ser r1 n1 _ _ _ _, Ser r2 n2 _ _ _ _ =>
      oN_eqb (truthy r1) (truthy r2) && oN_eqb (truthy n1) (truthy n2)
  | PStart r1 _ _ _ _ _, PStart r2 _ _ _ _ _ => oN_eqb (truthy r1) (truthy r2)
  | RSStart l1 (Some t1) _, RSStart l2 (Some t2) _ => oN_eqb (truthy l1) (truthy l2) && Z.eqb t1 t2
  | _, _ => false
  end.
Fixpoint wf (l : list record) : bool :=
  match l with
  | [] => true
  | x :: tl => forallb (fun y => negb (conflict x y)) tl && wf tl
  end.

(* The stricter shape the runtime guarantees: at most one of each lifecycle record too. *)
Definition conflict_strict (x y : record) : bool :=
  conflict x y ||
  match x, y with
  | PEnd r1 _ _, PEnd r2 _ _ => oN_eqb (truthy r1) (truthy r2)
  | RSEnd l1 (Some t1), RSEnd l2 (Some t2) => oN_eqb (truthy l1) (truthy l2) && Z.eqb t1 t2
  | _, _ => false
  end.
Fixpoint wf_strict (l : list record) : bool :=
  match l with
  | [] => true
  | x :: tl => forallb (fun y => negb (conflict_strict x y)) tl && wf_strict tl
  end.

(* ------------------------------------------------------------------ *)
(* Shapes of runtime traces (used by the prefix theorem)               *)
Definition is_start (r : N) (canon : list N) (x : record) : bool :=
  match x with
  | PStart (Some r') (Some c) _ _ _ _ => N.eqb r' r && (if list_eq_dec N.eq_dec c canon then true else false)
  | _ => false
  end.
Definition is_end (r : N) (x : record) : bool :=
  match x with PEnd (Some r') _ _ => N.eqb r' r | _ => false end.
(* node id of a SER of run r *)
Definition ser_of (r : N) (x : record) : option N :=
  match x with
  | Ser (Some r') (Some n) _ _ _ _ => if N.eqb r' r && negb (N.eqb n 0) then Some n else None
  | _ => None
  end.
Definition is_ser (r : N) (x : record) : bool := negb (is_none (ser_of r x)).
Fixpoint ser_nodes (r : N) (l : list record) : list N :=
  match l with
  | [] => []
  | x :: tl => match ser_of r x with Some n => n :: ser_nodes r tl | None => ser_nodes r tl end
  end.
(* does a record touch the aggregate of run r? *)
Definition touches (r : N) (x : record) : bool :=
  match run_effect x with Some (r', _) => N.eqb r' r | None => false end.

(* Sanity predicates on generated rule tables (finite: decided by computation). *)
Definition bools := [true; false].
Definition run_chain_ok (R : Rules) : bool :=
  forallb (fun o =>
    match eval_chain (run_env_of true true o) (run_chain R) (run_default R),
          eval_chain (run_env_of true false o) (run_chain R) (run_default R) with
    | Complete, Partial => true
    | _, _ => false
    end) bools.

(* Sequences of finalize calls (used to state idempotence) *)
Inductive fin_op := FRun (r : N) | FLaunch (l : N) (t : option Z).
Definition apply_fin (R : Rules) (a : agg) (o : fin_op) : agg :=
  match o with
  | FRun r => fst (finalize_run R a r)
  | FLaunch l t => fst (finalize_launch R a l t)
  end.
Definition status_is (s t : vstatus) : bool :=
  match s, t with Complete, Complete | Partial, Partial | Invalid, Invalid => true | _, _ => false end.

(* ------------------------------------------------------------------ *)
(* Shapes of launch traces (used by the launch-level prefix theorem)   *)
Definition keyb (k k' : lkey) : bool := N.eqb (fst k) (fst k') && Z.eqb (snd k) (snd k').

(* what a record does to the aggregate of launch k *)
Definition laction (k : lkey) (x : record) : option (launch_agg -> launch_agg) :=
  match launch_effect x with
  | Some (k', f) => if keyb k' k then Some f else None
  | None => None
  end.


(* Shapes of a launch's records *)
Definition is_lstart (k : lkey) (planned : option Z) (x : record) : bool :=
  match x with
  | RSStart (Some l) (Some t) p =>
      keyb (l, t) k && negb (N.eqb l 0) &&
      match p, planned with Some a, Some b => Z.eqb a b | None, None => true | _, _ => false end
  | _ => false
  end.
Definition is_lend (k : lkey) (x : record) : bool :=
  match x with RSEnd (Some l) (Some t) => keyb (l, t) k && negb (N.eqb l 0) | _ => false end.
(* a record of the launch's body: not one of its two lifecycle edges *)
Definition not_ledge (k : lkey) (x : record) : bool :=
  match x with
  | RSStart (Some l) (Some t) _ | RSEnd (Some l) (Some t) => negb (keyb (l, t) k)
  | _ => true
  end.
(* the run a body record attaches to launch k, if any *)
Definition lrun_of (k : lkey) (x : record) : option N :=
  match x with
  | PStart rid _ _ _ (Some l) (Some t) =>
      match truthy rid with Some r => if keyb (l, t) k then Some r else None | None => None end
  | _ => None
  end.
Fixpoint lruns (k : lkey) (l : list record) : list N :=
  match l with
  | [] => []
  | x :: tl => match lrun_of k x with Some r => r :: lruns k tl | None => lruns k tl end
  end.


(* finite sanity predicate on the generated launch chain *)
Definition launch_env_of (s e p rp ri : bool) (a : atom) : bool :=
  match a with
  | ASawStart => s | ASawEnd => e | APipes => p | ARunsPartial => rp | ARunsInvalid => ri | AObserved => false
  end.
Definition launch_chain_ok (R : Rules) : bool :=
  forallb (fun p => forallb (fun rp => forallb (fun ri =>
    match eval_chain (launch_env_of true false p rp ri) (launch_chain R) (launch_default R),
          eval_chain (launch_env_of true true p rp ri) (launch_chain R) (launch_default R) with
    | Partial, Complete => negb (rp || ri)
    | Partial, Partial => rp || ri
    | _, _ => false
    end) bools) bools) bools.

