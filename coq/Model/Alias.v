(* Model/Alias.v — the context OBJECT of a queued job (semantiva/execution/job_queue/queue_orchestrator.py: enqueue;
   worker.py: the worker writes job_id into the context it was handed; the in-memory transport passes objects by reference).
   A heap of context objects; a caller hands an object (possibly the same one several times) to enqueue; the worker of job j
   writes j into the job's object; the master reads the id from the object the status message refers to - at any later time,
   so after any number of other workers wrote.  Whether enqueue copies the object is a generated fact.  Definitions only. *)
From Coq Require Import List Arith Bool.
Import ListNotations.

Definition oid := nat.
(* what matters of a context object here: the job id written into it (None: not yet) *)
Definition heap := list (oid * option nat).

Fixpoint hget (h : heap) (a : oid) : option (option nat) :=
  match h with [] => None | (b, v) :: tl => if Nat.eqb a b then Some v else hget tl a end.
Fixpoint hset (h : heap) (a : oid) (v : option nat) : heap :=
  match h with
  | [] => [(a, v)]
  | (b, w) :: tl => if Nat.eqb a b then (b, v) :: tl else (b, w) :: hset tl a v
  end.

(* enqueue: the object the job will work on.  Objects the callers made have ids below `base`; copies are allocated from
   `base` upwards, one per job *)
Definition job_object (copies : bool) (base : nat) (j : nat) (given : oid) : oid :=
  if copies then base + j else given.

(* all workers run (in any order `order` of job numbers): the worker of job j writes j into job j's object *)
Fixpoint run_workers (copies : bool) (base : nat) (given : list oid) (order : list nat) (h : heap) : heap :=
  match order with
  | [] => h
  | j :: tl => run_workers copies base given tl (hset h (job_object copies base j (nth j given 0)) (Some j))
  end.

(* the master reads the status of job j: the id found in the object that message refers to *)
Definition status_id (copies : bool) (base : nat) (given : list oid) (order : list nat) (j : nat) : option (option nat) :=
  hget (run_workers copies base given order []) (job_object copies base j (nth j given 0)).
