(* Model/Cli.v — `semantiva run` (semantiva/cli/__init__.py: _run) as a function
     cli : knobs -> request -> exit code * list effect.
   The function body is not transcribed by hand: `_run` is read by harness/translate/cli.py as an
   ordered decision chain (Gen/CliGen.v: chain) and interpreted here.  A chain is a list of steps:
   `Check st c` = "if the condition of pre-flight stage st holds, print and return the constant named c";
   the markers MkTrace / MkPipeline / Expand / LaunchStart for the places where the trace driver and the
   pipeline object are built, the run space is planned and the launch record is emitted; `Loop` for the
   run loop.  Conditions of the stages are total functions of the request, composed from
   Model/Inspect.v (inspect, valid, required keys), Model/RunSpace.v (expand) and, for the runs,
   the executor of Model/Pipeline.v.  Definitions only. *)
From Coq Require Import List String ZArith Bool Arith.
From SV Require Import Common.Prelude Model.Pipeline Model.Inspect.
From SV Require Model.RunSpace.
Import ListNotations.
Open Scope string_scope.

(* ---- stages of the pre-flight --------------------------------------------------------------- *)
Inductive stage :=
| StLoadMissing | StLoadYaml | StLoadNotMapping      (* reading the pipeline YAML file *)
| StOverride                                         (* --set item malformed / addresses no existing key *)
| StCliMerge                                         (* execution./trace./run-space option merging *)
| StRsFileMissing | StRsFileYaml | StRsFileShape     (* --run-space-file *)
| StParse                                            (* parse_pipeline_config: structure, run-space block shape, duplicate keys across blocks *)
| StValidate                                         (* build_pipeline_inspection + validate_pipeline *)
| StContextArg                                       (* --context item without '=' *)
| StValidateFlag                                     (* --validate: early return *)
| StTraceDriver | StExecComponents                   (* unknown trace driver / orchestrator / executor / transport *)
| StRunSpace                                         (* expand_run_space: configuration error *)
| StMaxRuns                                          (* expand_run_space: more runs than max_runs *)
| StMissingKeys                                      (* required context keys not supplied *)
| StRunSpaceDry                                      (* run_space.dry_run / --run-space-dry-run: early return *)
| StDryRun                                           (* --dry-run: early return *)
| StAttempt | StRsSourceMissing.                     (* launch arguments *)

Definition stage_eqb (a b : stage) : bool :=
  match a, b with
  | StLoadMissing, StLoadMissing | StLoadYaml, StLoadYaml | StLoadNotMapping, StLoadNotMapping
  | StOverride, StOverride | StCliMerge, StCliMerge | StRsFileMissing, StRsFileMissing
  | StRsFileYaml, StRsFileYaml | StRsFileShape, StRsFileShape | StParse, StParse | StValidate, StValidate
  | StContextArg, StContextArg | StValidateFlag, StValidateFlag | StTraceDriver, StTraceDriver
  | StExecComponents, StExecComponents | StRunSpace, StRunSpace | StMaxRuns, StMaxRuns
  | StMissingKeys, StMissingKeys | StRunSpaceDry, StRunSpaceDry | StDryRun, StDryRun
  | StAttempt, StAttempt | StRsSourceMissing, StRsSourceMissing => true
  | _, _ => false
  end.
Definition stage_mem (s : stage) (l : list stage) : bool := existsb (stage_eqb s) l.

Inductive step := Check (st : stage) (code : string) | MkTrace | MkPipeline | Expand | LaunchStart | Loop.

(* documented classes of outcome (docs/source/cli.rst, "Exit codes") *)
Inductive class := CSuccess | CUsage | CFile | CConfig | CRuntime | CInterrupt.
Definition documented (c : class) : Z :=
  match c with CSuccess => 0 | CUsage => 1 | CFile => 2 | CConfig => 3 | CRuntime => 4 | CInterrupt => 5 end%Z.
Definition stage_class (st : stage) : class :=
  match st with
  | StLoadMissing | StRsFileMissing | StRsSourceMissing => CFile
  | StValidateFlag | StRunSpaceDry | StDryRun => CSuccess
  | _ => CConfig
  end.
(* the stages the property names *)
Definition gate_stages : list stage :=
  [StLoadMissing; StLoadYaml; StLoadNotMapping; StOverride; StParse; StValidate; StContextArg; StValidateFlag;
   StRunSpace; StMaxRuns; StMissingKeys; StRunSpaceDry; StDryRun].

(* ---- the code's variant ---------------------------------------------------------------------- *)
Record knobs := mkKnobs {
  k_chain : list step;
  k_codes : list (string * Z);
  k_trace_lazy : bool;            (* building the trace driver opens / creates nothing *)
  k_stop : bool;                  (* a failed run ends the loop *)
  k_ok_code : string;             (* exit_code before the loop *)
  k_fail_code : string;           (* exit_code set by the `except Exception` of the loop *)
  k_iv : Inspect.variant;
  k_rv : RunSpace.variant
}.

Fixpoint zlookup (k : string) (m : list (string * Z)) : option Z :=
  match m with [] => None | (k', v) :: tl => if String.eqb k k' then Some v else zlookup k tl end.
Definition code (K : knobs) (name : string) : Z :=
  match zlookup name (k_codes K) with Some z => z | None => (-1)%Z end.

(* ---- requests ----------------------------------------------------------------------------------- *)
Record request := mkReq {
  q_fail : list stage;                 (* stages whose condition is a plain fact of the request (unreadable file,
                                          malformed --set / --context item, unknown processor, unknown driver, ...) *)
  q_nodes : list inode;                (* pipeline.nodes after --set *)
  q_ctx : ctx;                         (* --context key=value, in order *)
  q_rs : RunSpace.spec;                (* run_space block (the default one when absent) *)
  q_rs_declared : bool;
  q_rs_dry_cfg : bool;                 (* run_space.dry_run *)
  q_max_runs_flag : option Z;          (* --run-space-max-runs *)
  q_rs_dry_flag : bool;                (* --run-space-dry-run *)
  q_validate : bool;
  q_dry_run : bool;
  q_traced : bool                      (* a trace driver is configured *)
}.

Definition default_spec : RunSpace.spec := RunSpace.mkSpec RunSpace.Combinatorial 1000 [].

Definition eff_spec (r : request) : RunSpace.spec :=
  match q_max_runs_flag r with
  | Some m => RunSpace.mkSpec (RunSpace.sp_combine (q_rs r)) m (RunSpace.sp_blocks (q_rs r))
  | None => q_rs r
  end.
Definition rs_active (r : request) : bool :=
  q_rs_declared r || (match q_max_runs_flag r with Some _ => true | None => false end) || q_rs_dry_flag r.
Definition rs_dry (r : request) : bool := q_rs_dry_cfg r || q_rs_dry_flag r.

(* duplicate context keys across blocks are already refused by the configuration parser *)
Fixpoint dup_across (bs : list RunSpace.block) (seen : list string) : bool :=
  match bs with
  | [] => false
  | b :: tl =>
      let ks := RunSpace.keys (RunSpace.b_ctx b) in
      existsb (fun k => RunSpace.mem k seen) ks || dup_across tl (seen ++ ks)%list
  end.

Definition nodes_of (r : request) : list node := map fst (q_nodes r).
Definition report (K : knobs) (r : request) := inspect (k_iv K) (q_nodes r).
Definition required (K : knobs) (r : request) : list string := snd (report K r).
Definition config_valid (K : knobs) (r : request) : bool := valid (k_iv K) (fst (report K r)).

Definition expansion (K : knobs) (r : request) : RunSpace.res (list RunSpace.run) := RunSpace.expand (k_rv K) (eff_spec r).
Definition planned (K : knobs) (r : request) : list RunSpace.run :=
  match expansion K r with RunSpace.Ok runs => runs | RunSpace.Err _ => [] end.

(* keys the gate counts as supplied: --context keys and the keys of the first planned run *)
Definition supplied (K : knobs) (r : request) : list string :=
  (map fst (q_ctx r) ++ match planned K r with r0 :: _ => map fst r0 | [] => [] end)%list.
Definition missing (K : knobs) (r : request) : list string :=
  filter (fun k => negb (smem k (supplied K r))) (required K r).

Definition fires (K : knobs) (r : request) (st : stage) : bool :=
  stage_mem st (q_fail r) ||
  match st with
  | StParse => dup_across (RunSpace.sp_blocks (q_rs r)) []
  | StValidate => negb (config_valid K r)
  | StValidateFlag => q_validate r
  | StRunSpace => match expansion K r with
                  | RunSpace.Err RunSpace.EMaxRuns => false
                  | RunSpace.Err _ => true
                  | RunSpace.Ok _ => false
                  end
  | StMaxRuns => match expansion K r with RunSpace.Err RunSpace.EMaxRuns => true | _ => false end
  | StMissingKeys => match missing K r with [] => false | _ => true end
  | StRunSpaceDry => rs_dry r
  | StDryRun => q_dry_run r
  | _ => false
  end.

(* ---- effects ---------------------------------------------------------------------------------------- *)
Inductive effect :=
| NodeRan (run idx : nat)        (* node idx of planned run `run` was started *)
| SinkWrote (path : string)      (* a file sink wrote its file *)
| TraceFile                      (* a trace file was created / appended to *)
| Printed (st : stage).          (* the message of a pre-flight stage *)

Definition is_quiet (e : effect) : bool := match e with Printed _ => true | _ => false end.
Definition quiet (l : list effect) : bool := forallb is_quiet l.

(* run values enter the context as the pipeline's values *)
Definition conv (v : RunSpace.val) : val :=
  match v with RunSpace.VInt z => VNum z | RunSpace.VStr s => VStr s end.
Definition run_ctx (c0 : ctx) (rv : RunSpace.run) : ctx :=
  fold_left (fun c kv => update (fst kv) (conv (snd kv)) c) rv c0.

(* a sink with a `path` parameter writes the file it is pointed at *)
Definition is_filesink (n : node) : bool :=
  match pr_kind (n_proc n) with KSink => smem "path" (pr_params (n_proc n)) | _ => false end.
Definition sink_effect (n : node) (s : state) : list effect :=
  if is_filesink n then
    match resolve (n_cfg n) (snd s) (pr_defaults (n_proc n)) "path" with
    | Ok (VStr p) => [SinkWrote p]
    | _ => []
    end
  else [].

(* effects of the nodes of one run, and whether the run completed *)
Fixpoint node_effects (ri i : nat) (p : list node) (s : state) : list effect * bool :=
  match p with
  | [] => ([], true)
  | n :: tl =>
      match exec_node n s with
      | Ok s' => let '(e, ok) := node_effects ri (S i) tl s' in
                 ((NodeRan ri i :: sink_effect n s) ++ e, ok)%list
      | Fail _ => ([NodeRan ri i], false)
      end
  end.

Definition one_run (traced : bool) (p : list node) (ri : nat) (c : ctx) : list effect * bool :=
  let t := if traced then [TraceFile] else [] in
  match first_unconstructible 0 p with
  | Some _ => (t, false)
  | None => let '(e, ok) := node_effects ri 0 p (DNone, c) in ((t ++ e)%list, ok)
  end.

Fixpoint loop (stop traced : bool) (p : list node) (c0 : ctx) (runs : list RunSpace.run) (ri : nat)
  : list effect * bool :=
  match runs with
  | [] => ([], true)
  | rv :: tl =>
      let '(e, ok) := one_run traced p ri (run_ctx c0 rv) in
      if ok then let '(e', ok') := loop stop traced p c0 tl (S ri) in ((e ++ e')%list, ok')
      else if stop then (e, false)
      else let '(e', _) := loop stop traced p c0 tl (S ri) in ((e ++ e')%list, false)
  end.

(* ---- the interpreter of the decision chain ----------------------------------------------------------- *)
Fixpoint interp (K : knobs) (ch : list step) (r : request) (acc : list effect) : Z * list effect :=
  match ch with
  | [] => (code K (k_ok_code K), acc)
  | Check st c :: tl =>
      if fires K r st then (code K c, (acc ++ [Printed st])%list) else interp K tl r acc
  | MkTrace :: tl =>
      interp K tl r (acc ++ (if q_traced r && negb (k_trace_lazy K) then [TraceFile] else []))%list
  | MkPipeline :: tl => interp K tl r acc
  | Expand :: tl => interp K tl r acc
  | LaunchStart :: tl =>
      interp K tl r (acc ++ (if rs_active r && q_traced r then [TraceFile] else []))%list
  | Loop :: _ =>
      let '(e, ok) := loop (k_stop K) (q_traced r) (nodes_of r) (q_ctx r) (planned K r) 0 in
      (code K (if ok then k_ok_code K else k_fail_code K), (acc ++ e)%list)
  end.

Definition cli (K : knobs) (r : request) : Z * list effect := interp K (k_chain K) r [].

(* first stage of the chain whose condition holds (None: the request reaches the run loop) *)
Fixpoint first_fire (K : knobs) (ch : list step) (r : request) : option (stage * string) :=
  match ch with
  | [] => None
  | Check st c :: tl => if fires K r st then Some (st, c) else first_fire K tl r
  | Loop :: _ => None
  | _ :: tl => first_fire K tl r
  end.
Definition rejected_at (K : knobs) (r : request) : option (stage * string) := first_fire K (k_chain K) r.

(* ---- conditions on a chain under which the property's theorems hold ------------------------------------- *)
Definition is_check (s : step) : bool := match s with Check _ _ => true | _ => false end.
Definition has_check (ch : list step) : bool := existsb is_check ch.
Fixpoint check_stages (ch : list step) : list stage :=
  match ch with
  | [] => []
  | Check st _ :: tl => st :: check_stages tl
  | Loop :: _ => []
  | _ :: tl => check_stages tl
  end.

(* no step that can leave an effect precedes a check; the chain ends in the loop *)
Fixpoint wf (lazy : bool) (ch : list step) : bool :=
  match ch with
  | [] => false
  | Check _ _ :: tl => wf lazy tl
  | MkTrace :: tl => (lazy || negb (has_check tl)) && wf lazy tl
  | MkPipeline :: tl => wf lazy tl
  | Expand :: tl => wf lazy tl
  | LaunchStart :: tl => negb (has_check tl) && wf lazy tl
  | Loop :: tl => negb (has_check tl)
  end.
Definition covers (ch : list step) : bool := forallb (fun st => stage_mem st (check_stages ch)) gate_stages.
Definition codes_documented (K : knobs) : bool :=
  forallb (fun s => match s with
                    | Check st c => Z.eqb (code K c) (documented (stage_class st))
                    | _ => true
                    end) (k_chain K)
  && Z.eqb (code K (k_ok_code K)) (documented CSuccess)
  && Z.eqb (code K (k_fail_code K)) (documented CRuntime).
Definition good (K : knobs) : bool :=
  wf (k_trace_lazy K) (k_chain K) && covers (k_chain K) && codes_documented K.

(* the documented behaviour: the order of the pre-flight as the documents and the code agree on it *)
Definition spec_chain : list step := [
  Check StLoadMissing "EXIT_FILE_ERROR"; Check StLoadYaml "EXIT_CONFIG_ERROR"; Check StLoadNotMapping "EXIT_CONFIG_ERROR";
  Check StOverride "EXIT_CONFIG_ERROR"; Check StCliMerge "EXIT_CONFIG_ERROR";
  Check StRsFileMissing "EXIT_FILE_ERROR"; Check StRsFileYaml "EXIT_CONFIG_ERROR"; Check StRsFileShape "EXIT_CONFIG_ERROR";
  Check StCliMerge "EXIT_CONFIG_ERROR";
  Check StParse "EXIT_CONFIG_ERROR"; Check StValidate "EXIT_CONFIG_ERROR"; Check StContextArg "EXIT_CONFIG_ERROR";
  Check StValidateFlag "EXIT_SUCCESS";
  MkTrace; Check StTraceDriver "EXIT_CONFIG_ERROR"; Check StExecComponents "EXIT_CONFIG_ERROR"; MkPipeline;
  Expand; Check StRunSpace "EXIT_CONFIG_ERROR"; Check StMaxRuns "EXIT_CONFIG_ERROR";
  Check StMissingKeys "EXIT_CONFIG_ERROR";
  Check StRunSpaceDry "EXIT_SUCCESS"; Check StDryRun "EXIT_SUCCESS";
  Check StAttempt "EXIT_CONFIG_ERROR"; Check StRsSourceMissing "EXIT_FILE_ERROR";
  LaunchStart; Loop ].
Definition spec_codes : list (string * Z) :=
  [("EXIT_SUCCESS", 0); ("EXIT_CLI_ERROR", 1); ("EXIT_FILE_ERROR", 2); ("EXIT_CONFIG_ERROR", 3);
   ("EXIT_RUNTIME_ERROR", 4); ("EXIT_INTERRUPT", 5)]%Z.
Definition spec_knobs (iv : Inspect.variant) (rv : RunSpace.variant) : knobs :=
  mkKnobs spec_chain spec_codes true true "EXIT_SUCCESS" "EXIT_RUNTIME_ERROR" iv rv.

(* stages that come before st in a chain *)
Fixpoint preds (ch : list step) (st : stage) : list stage :=
  match ch with
  | [] => []
  | Check s _ :: tl => if stage_eqb s st then [] else s :: preds tl st
  | Loop :: _ => []
  | _ :: tl => preds tl st
  end.

(* ---- what the harness observed on the implementation --------------------------------------------------------- *)
Record observed := mkObs {
  o_exit : Z;
  o_sinks : list string;              (* sink files present afterwards, sorted *)
  o_trace : bool;                     (* any file in the trace directory *)
  o_counts : option (list nat);       (* per started run: number of nodes started (from the trace), when traced *)
  o_stage : list stage                (* pre-flight stages whose message was printed (empty: none) *)
}.

Fixpoint sink_paths (l : list effect) : list string :=
  match l with [] => [] | SinkWrote p :: tl => sadd p (sink_paths tl) | _ :: tl => sink_paths tl end.
Definition any_trace (l : list effect) : bool := existsb (fun e => match e with TraceFile => true | _ => false end) l.
Definition count_run (ri : nat) (l : list effect) : nat :=
  List.length (filter (fun e => match e with NodeRan r _ => Nat.eqb r ri | _ => false end) l).
(* node starts of runs 0 .. n-1, dropping the runs after the last one that started a node *)
Fixpoint counts_upto (n : nat) (l : list effect) : list nat :=
  match n with
  | O => []
  | S m => (counts_upto m l ++ [count_run m l])%list
  end.
Fixpoint strip_zeros_rev (l : list nat) : list nat :=
  match l with O :: tl => strip_zeros_rev tl | _ => l end.
Definition run_counts (n : nat) (l : list effect) : list nat := rev (strip_zeros_rev (rev (counts_upto n l))).

Fixpoint slist_eqb (a b : list string) : bool :=
  match a, b with
  | [], [] => true
  | x :: a', y :: b' => String.eqb x y && slist_eqb a' b'
  | _, _ => false
  end.
Fixpoint nlist_eqb (a b : list nat) : bool :=
  match a, b with
  | [], [] => true
  | x :: a', y :: b' => Nat.eqb x y && nlist_eqb a' b'
  | _, _ => false
  end.

Definition case_ok (K : knobs) (c : request * observed) : bool :=
  let '(r, o) := c in
  let '(ex, effs) := cli K r in
  Z.eqb ex (o_exit o)
  && slist_eqb (ksort (fun s => s) (sink_paths effs)) (o_sinks o)
  && Bool.eqb (q_traced r && any_trace effs) (o_trace o)
  && match o_counts o with
     | Some cs => nlist_eqb (run_counts (List.length (planned K r)) effs) cs
     | None => true
     end
  && match rejected_at K r with
     | Some (st, _) => stage_mem st (o_stage o)
     | None => match o_stage o with [] => true | _ => false end
     end.

Fixpoint bad_from {A} (ok : A -> bool) (l : list A) (i : nat) : list nat :=
  match l with [] => [] | x :: tl => if ok x then bad_from ok tl (S i) else i :: bad_from ok tl (S i) end.
Definition mismatches (K : knobs) (cases : list (request * observed)) : list nat := bad_from (case_ok K) cases 0.
