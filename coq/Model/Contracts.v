(* Model/Contracts.v — C16: the classes the factories generate, as metadata records,
   and the metadata-level SVA contract rules as boolean functions.  Definitions only.

   Sources modelled:
     semantiva/pipeline/nodes/_pipeline_node_factory.py  (dispatch, context_key policy, class names)
     semantiva/pipeline/nodes/nodes.py                   (node _define_metadata / in / out / created keys)
     semantiva/data_processors/io_operation_factory.py   (IO adapters)
     semantiva/data_processors/data_slicer_factory.py    (slicers)
     semantiva/data_processors/parametric_sweep_factory.py + pipeline/node_preprocess.py (sweeps)
     semantiva/context_processors/factory.py             (rename / delete / template)
     semantiva/contracts/expectations.py                 (RULES)                                   *)
From Coq Require Import List String Ascii Bool Arith.
Import ListNotations.
Local Open Scope string_scope.
Local Notation "a +++ b" := (@List.app _ a b) (at level 60, right associativity).

(* ------------------------------------------------------------------ *)
(* small helpers                                                        *)

Definition mem (x : string) (l : list string) : bool := existsb (String.eqb x) l.

Fixpoint nodupb (l : list string) : bool :=
  match l with [] => true | x :: tl => negb (mem x tl) && nodupb tl end.

Definition is_nil {A} (l : list A) : bool := match l with [] => true | _ => false end.

Definition opt_str_eqb (a b : option string) : bool :=
  match a, b with Some x, Some y => String.eqb x y | None, None => true | _, _ => false end.

Fixpoint list_str_eqb (a b : list string) : bool :=
  match a, b with
  | [], [] => true
  | x :: a', y :: b' => String.eqb x y && list_str_eqb a' b'
  | _, _ => false
  end.

Definition opt_list_eqb (a b : option (list string)) : bool :=
  match a, b with Some x, Some y => list_str_eqb x y | None, None => true | _, _ => false end.

(* character classes of the key patterns in context_processors/factory.py *)
Definition is_alpha_ (c : ascii) : bool :=
  let n := nat_of_ascii c in
  (((65 <=? n) && (n <=? 90)) || ((97 <=? n) && (n <=? 122)) || (n =? 95))%nat.
Definition is_digit_c (c : ascii) : bool := let n := nat_of_ascii c in ((48 <=? n) && (n <=? 57))%nat.
Fixpoint all_chars (P : ascii -> bool) (s : string) : bool :=
  match s with EmptyString => true | String c r => P c && all_chars P r end.
(* ^[A-Za-z_][A-Za-z0-9_.]*$ *)
Definition valid_key (s : string) : bool :=
  match s with
  | EmptyString => false
  | String c r => is_alpha_ c && all_chars (fun x => is_alpha_ x || is_digit_c x || (nat_of_ascii x =? 46)%nat) r
  end.
(* ^[A-Za-z_][A-Za-z0-9_]*$ *)
Definition valid_placeholder (s : string) : bool :=
  match s with
  | EmptyString => false
  | String c r => is_alpha_ c && all_chars (fun x => is_alpha_ x || is_digit_c x) r
  end.
(* key.replace(".", "_") *)
Fixpoint sanitize (s : string) : string :=
  match s with
  | EmptyString => EmptyString
  | String c r => String (if (nat_of_ascii c =? 46)%nat then "_"%char else c) (sanitize r)
  end.
(* str.strip() non-empty, printable ASCII: some character other than the space *)
Fixpoint nonblank (s : string) : bool :=
  match s with EmptyString => false | String c r => negb (nat_of_ascii c =? 32)%nat || nonblank r end.

(* ------------------------------------------------------------------ *)
(* component kinds and the processor class as the factories see it      *)

Inductive kind := KDataSource | KPayloadSource | KDataOperation | KDataProbe
                | KDataSink | KPayloadSink | KContextProcessor.

Definition kind_eqb (a b : kind) : bool :=
  match a, b with
  | KDataSource, KDataSource | KPayloadSource, KPayloadSource | KDataOperation, KDataOperation
  | KDataProbe, KDataProbe | KDataSink, KDataSink | KPayloadSink, KPayloadSink
  | KContextProcessor, KContextProcessor => true
  | _, _ => false
  end.

(* component_type of the base classes *)
Definition kind_name (k : kind) : string :=
  match k with
  | KDataSource => "DataSource" | KPayloadSource => "PayloadSource" | KDataOperation => "DataOperation"
  | KDataProbe => "DataProbe" | KDataSink => "DataSink" | KPayloadSink => "PayloadSink"
  | KContextProcessor => "ContextProcessor"
  end.

Record pinfo := mkP {
  pk : kind;
  pname : string;                      (* __name__ *)
  pin : string;                        (* input_data_type().__name__, "" when the kind has none *)
  pout : string;                       (* output_data_type().__name__, "" when the kind has none *)
  pparams : list (string * bool);      (* metadata "parameters": name, has-default *)
  pcreated : list string;              (* get_created_keys() / injected_context_keys() *)
  psupp : list string;                 (* get_suppressed_keys() (context processors) *)
  preq : list string;                  (* get_required_keys()   (context processors) *)
  ppre : bool                          (* metadata carries a "preprocessor" entry *)
}.

(* ------------------------------------------------------------------ *)
(* configurations                                                       *)

Inductive cfg :=
| Base (b : pinfo)                                   (* a hand-written component (facts read from the class) *)
| Slice (c : cfg) (coll : string)                    (* slice(<c>, <DataCollectionType>) / "slice:P:C" *)
| Sweep (c : cfg) (vars : list (string * option string))   (* variable, Some key = from_context *)
        (bound : list string)                        (* parameters computed by expressions *)
        (coll : option (string * bool))              (* collection name, is a DataCollectionType *)
| WithContextKey (c : cfg) (key : string)            (* node-level context_key *)
| Rename (a b : string)
| Delete (a : string)
| Template (out : string) (holes : list string).

(* facts about the current code that select a variant of the model (Gen/ContractsGen.v) *)
Record flags := mkF {
  sweep_dedup : bool;      (* sweep get_created_keys drops inherited keys it already lists *)
  probe_mirror : bool      (* probe node get_created_keys = processor's keys + context_key *)
}.

Definition values_key (v : string) : string := v ++ "_values".

Definition sweep_created (f : flags) (vs base : list string) : list string :=
  vs +++ (if sweep_dedup f then filter (fun k => negb (mem k vs)) base else base).

Definition ext_params (bound : list string) (ps : list (string * bool)) (ctxk : list string)
  : list (string * bool) :=
  map (fun k => (k, false)) ctxk
  +++ filter (fun q => negb (snd q) && negb (mem (fst q) bound)) ps
  +++ filter (fun q => snd q && negb (mem (fst q) bound)) ps.

Fixpoint ctx_keys (vars : list (string * option string)) : list string :=
  match vars with
  | [] => []
  | (_, Some k) :: tl => k :: ctx_keys tl
  | (_, None) :: tl => ctx_keys tl
  end.

Definition sweep_of (f : flags) (p : pinfo) (vars : list (string * option string))
           (bound : list string) (coll : option (string * bool)) : option pinfo :=
  if is_nil vars || negb (nodupb (map fst vars)) then None else
  if negb (forallb (fun b => mem b (map fst (pparams p))) bound) then None else
  let np := ext_params bound (pparams p) (ctx_keys vars) in
  if negb (nodupb (map fst np)) then None else
  let vs := map (fun v => values_key (fst v)) vars in
  let nm := pname p ++ "ParametricSweep" in
  match pk p, coll with
  | KDataSource, Some (cn, true) => Some (mkP KDataSource nm "" cn np vs [] [] true)
  | KDataOperation, Some (cn, true) =>
      Some (mkP KDataOperation nm (pin p) cn np (sweep_created f vs (pcreated p)) [] [] true)
  | KDataProbe, None =>
      Some (mkP KDataProbe nm (pin p) "" np (sweep_created f vs (pcreated p)) [] [] true)
  | _, _ => None
  end.

Definition slice_of (p : pinfo) (coll : string) : option pinfo :=
  match pk p with
  | KDataOperation =>
      if String.eqb (pin p) (pout p)
      then Some (mkP KDataOperation ("SlicerFor" ++ pname p) coll coll (pparams p) (pcreated p) [] [] (ppre p))
      else None
  | KDataProbe =>
      Some (mkP KDataProbe ("SlicerFor" ++ pname p) coll "" (pparams p) (pcreated p) [] [] (ppre p))
  | _ => None
  end.

(* the processor class a configuration denotes (None = the factories raise) *)
Fixpoint proc (f : flags) (c : cfg) : option pinfo :=
  match c with
  | Base b => Some b
  | Slice c' coll => match proc f c' with Some p => slice_of p coll | None => None end
  | Sweep c' vars bound coll => match proc f c' with Some p => sweep_of f p vars bound coll | None => None end
  | WithContextKey _ _ => None
  | Rename a b =>
      if valid_key a && valid_key b
      then Some (mkP KContextProcessor ("Rename_" ++ sanitize a ++ "_to_" ++ sanitize b) "" "" [] [b] [a] [] false)
      else None
  | Delete a =>
      if valid_key a
      then Some (mkP KContextProcessor ("Delete_" ++ sanitize a) "" "" [] [] [a] [] false)
      else None
  | Template out holes =>
      if valid_key out && negb (is_nil holes) && forallb valid_placeholder holes
      then Some (mkP KContextProcessor ("Template_" ++ sanitize out) "" "" [] [out] [] [] false)
      else None
  end.

(* ------------------------------------------------------------------ *)
(* metadata dictionaries and class views                                *)

Inductive mval := MS (s : string) | ML (l : list string).
Definition md := list (string * mval).

Fixpoint lookup (k : string) (m : md) : option mval :=
  match m with
  | [] => None
  | (k', v) :: tl => if String.eqb k k' then Some v else lookup k tl
  end.
Definition has (k : string) (m : md) : bool := match lookup k m with Some _ => true | None => false end.

Definition mval_eqb (a b : mval) : bool :=
  match a, b with
  | MS x, MS y => String.eqb x y
  | ML x, ML y => list_str_eqb x y
  | _, _ => false
  end.
Definition opt_mval_eqb (a b : option mval) : bool :=
  match a, b with Some x, Some y => mval_eqb x y | None, None => true | _, _ => false end.

(* what the correspondence and the rules look at, per generated class *)
Record cview := mkV {
  v_md : md;                              (* get_metadata(); docstrings and preprocessor content blanked *)
  v_in : option string;                   (* input_data_type().__name__ when the classmethod exists *)
  v_out : option string;
  v_created : option (list string);       (* get_created_keys() *)
  v_supp : option (list string);          (* get_suppressed_keys() *)
  v_req : option (list string);           (* get_required_keys() *)
  v_reg : list string;                    (* registry categories that list the class *)
  v_proc_in : option string;              (* node classes: cls.processor.input_data_type().__name__ *)
  v_proc_out : option string
}.

Inductive node_kind := NDataSource | NPayloadSource | NDataSink | NPayloadSink
                     | NDataOperation | NProbeInjector | NContextProcessor.

Inductive key_policy := KeyForbidden | KeyRequired | KeyIgnored.

Record tables := mkT {
  dispatch : list (kind * (node_kind * key_policy));       (* first match wins *)
  node_lits : list (node_kind * (string * string));        (* component_type, wraps_component_type *)
  tflags : flags
}.

Definition node_kind_eqb (a b : node_kind) : bool :=
  match a, b with
  | NDataSource, NDataSource | NPayloadSource, NPayloadSource | NDataSink, NDataSink
  | NPayloadSink, NPayloadSink | NDataOperation, NDataOperation | NProbeInjector, NProbeInjector
  | NContextProcessor, NContextProcessor => true
  | _, _ => false
  end.

Fixpoint find_kind {A} (k : kind) (l : list (kind * A)) : option A :=
  match l with [] => None | (k', a) :: tl => if kind_eqb k k' then Some a else find_kind k tl end.
Fixpoint find_nk {A} (k : node_kind) (l : list (node_kind * A)) : option A :=
  match l with [] => None | (k', a) :: tl => if node_kind_eqb k k' then Some a else find_nk k tl end.

Definition pre_entry (p : pinfo) : md := if ppre p then [("preprocessor", MS "")] else [].
Definition base_md (cls : string) : md := [("class_name", MS cls); ("docstring", MS "")].

(* the class type(node.processor) *)
Definition proc_view (p : pinfo) : cview :=
  let params := ("parameters", ML (map fst (pparams p))) in
  match pk p with
  | KDataOperation =>
      mkV (base_md (pname p) +++ [("component_type", MS "DataOperation"); params;
                                 ("input_data_type", MS (pin p)); ("output_data_type", MS (pout p))] +++ pre_entry p)
          (Some (pin p)) (Some (pout p)) (Some (pcreated p)) None None ["DataOperation"] None None
  | KDataProbe =>
      mkV (base_md (pname p) +++ [("component_type", MS "DataProbe"); params;
                                 ("input_data_type", MS (pin p))] +++ pre_entry p)
          (Some (pin p)) None (Some (pcreated p)) None None ["DataProbe"] None None
  | KContextProcessor =>
      mkV (base_md (pname p) +++ [("component_type", MS "ContextProcessor"); params])
          (Some "BaseDataType") None (Some (pcreated p)) (Some (psupp p)) (Some (preq p))
          ["ContextProcessor"] None None
  | KDataSource | KPayloadSource =>      (* _IOOperationFactory adapter of a source *)
      mkV (base_md (pname p) +++ [("component_type", MS (kind_name (pk p))); params;
                                 ("input_data_type", MS "NoDataType"); ("output_data_type", MS (pout p))] +++ pre_entry p)
          (Some "NoDataType") (Some (pout p)) (Some (pcreated p)) None None [kind_name (pk p)] None None
  | KDataSink | KPayloadSink =>          (* adapter of a sink: pass-through *)
      mkV (base_md (pname p) +++ [("component_type", MS (kind_name (pk p))); params;
                                 ("input_data_type", MS (pin p)); ("output_data_type", MS (pin p))])
          (Some (pin p)) (Some (pin p)) (Some []) None None [kind_name (pk p)] None None
  end.

Definition add_key (k : string) (l : list string) : list string := if mem k l then l else l +++ [k].

Definition probe_node_created (f : flags) (p : pinfo) (k : string) : list string :=
  if probe_mirror f then add_key k (pcreated p) else [k].

(* the class type(node) *)
Definition node_view (f : flags) (nk : node_kind) (ct wr : string) (p : pinfo) (key : string) : cview :=
  let head := base_md (pname p ++ "_" ++ ct)
              +++ [("component_type", MS ct); ("wraps_component_type", MS wr);
                  ("wrapped_component", MS (pname p)); ("wrapped_component_docstring", MS "")] in
  match nk with
  | NDataSource | NPayloadSource =>
      mkV (head +++ [("input_data_type", MS "NoDataType"); ("output_data_type", MS (pout p));
                    ("injected_context_keys", ML (pcreated p))])
          (Some "NoDataType") (Some (pout p)) (Some (pcreated p)) None None [ct] None (Some (pout p))
  | NDataSink =>
      mkV (head +++ [("input_data_type", MS (pin p)); ("output_data_type", MS (pin p));
                    ("injected_context_keys", ML [])])
          (Some (pin p)) (Some (pin p)) (Some []) None None [ct] (Some (pin p)) None
  | NPayloadSink =>
      mkV (head +++ [("input_data_type", MS (pin p)); ("output_data_type", MS (pin p))])
          (Some (pin p)) (Some (pin p)) (Some []) None None [ct] (Some (pin p)) None
  | NDataOperation =>
      mkV (head +++ [("input_data_type", MS (pin p)); ("output_data_type", MS (pout p));
                    ("injected_context_keys", ML (pcreated p))])
          (Some (pin p)) (Some (pout p)) (Some (pcreated p)) None None [ct] (Some (pin p)) (Some (pout p))
  | NProbeInjector =>
      let cr := probe_node_created f p key in
      mkV (head +++ [("input_data_type", MS (pin p)); ("output_data_type", MS (pin p));
                    ("injected_context_keys", ML cr)])
          (Some (pin p)) (Some (pin p)) (Some cr) None None [ct] (Some (pin p)) None
  | NContextProcessor =>
      mkV (head +++ [("required_context_keys", ML (preq p)); ("suppressed_context_keys", ML (psupp p));
                    ("injected_context_keys", ML (pcreated p))])
          None None (Some (pcreated p)) (Some (psupp p)) (Some (preq p)) [ct] (Some "BaseDataType") None
  end.

Definition strip_key (c : cfg) : cfg * option string :=
  match c with WithContextKey c' k => (c', Some k) | _ => (c, None) end.

(* _pipeline_node_factory, after the processor class is known: dispatch, context_key policy, node class *)
Definition node_of (t : tables) (p : pinfo) (key : option string) : option (cview * cview) :=
  match find_kind (pk p) (dispatch t) with
  | None => None
  | Some (nk, pol) =>
      match find_nk nk (node_lits t) with
      | None => None
      | Some (ct, wr) =>
          match pol, key with
          | KeyForbidden, Some _ => None
          | KeyRequired, None => None
          | KeyRequired, Some k =>
              if nonblank k then Some (node_view (tflags t) nk ct wr p k, proc_view p) else None
          | _, _ => Some (node_view (tflags t) nk ct wr p "", proc_view p)
          end
      end
  end.

(* (node class view, processor class view) of a configuration; None = the factories raise *)
Definition gen (t : tables) (c : cfg) : option (cview * cview) :=
  match proc (tflags t) (fst (strip_key c)) with
  | None => None
  | Some p => node_of t p (snd (strip_key c))
  end.

(* the tables as documented; Properties/C16.v proves the generated ones equal to these *)
Definition dispatch_spec : list (kind * (node_kind * key_policy)) :=
  [ (KContextProcessor, (NContextProcessor, KeyIgnored));
    (KDataOperation, (NDataOperation, KeyForbidden));
    (KDataProbe, (NProbeInjector, KeyRequired));
    (KDataSource, (NDataSource, KeyIgnored));
    (KPayloadSource, (NPayloadSource, KeyIgnored));
    (KDataSink, (NDataSink, KeyIgnored));
    (KPayloadSink, (NPayloadSink, KeyIgnored)) ].

Definition node_lits_spec : list (node_kind * (string * string)) :=
  [ (NDataSource, ("DataSourceNode", "DataSource"));
    (NPayloadSource, ("PayloadSourceNode", "PayloadSource"));
    (NDataSink, ("DataSinkNode", "DataSink"));
    (NPayloadSink, ("PayloadSinkNode", "PayloadSink"));
    (NDataOperation, ("DataOperationNode", "DataOperation"));
    (NProbeInjector, ("ProbeContextInjectorNode", "DataProbe"));
    (NContextProcessor, ("ContextProcessorNode", "ContextProcessor")) ].

Definition spec_tables (f : flags) : tables := mkT dispatch_spec node_lits_spec f.

(* ------------------------------------------------------------------ *)
(* the SVA rules on metadata                                            *)

Inductive sev := SError | SWarn | SInfo.
Inductive side := SideIn | SideOut.

Inductive pred :=
| PReflect                                              (* reflection-level: not expressible on metadata *)
| PTrue                                                 (* informational / true by construction of a view *)
| PRequiredKeys (ks : list string)                      (* SVA101 *)
| PParamsShape (cts : list string)                      (* SVA103 (cts = []: any), 221, 232 *)
| PUniqueList (k : string)                              (* SVA104, 105 *)
| PNoOverlap (a b : string)                             (* SVA106 *)
| PRegistered                                           (* SVA107 *)
| PHasKeys (cts ks : list string)                       (* SVA200, 210, 220, 230 *)
| PLacksKey (cts : list string) (k : string)            (* SVA201, 211, 231 *)
| PFieldIs (cts : list string) (k v : string)           (* SVA300 *)
| PFieldsEq (cts : list string) (k1 k2 : string)        (* SVA310, 320 *)
| PMatchProc (cts : list string) (s : side) (ks : list string).  (* SVA301, 311, 321 *)

Fixpoint chars (s : string) : list string :=
  match s with EmptyString => [] | String c r => String c EmptyString :: chars r end.
Definition as_items (x : mval) : list string := match x with ML l => l | MS s => chars s end.

Definition ctype_in (cts : list string) (m : md) : bool :=
  match lookup "component_type" m with Some (MS s) => mem s cts | _ => false end.

Definition check (r : pred) (v : cview) : bool :=
  let m := v_md v in
  match r with
  | PReflect | PTrue => true
  | PRequiredKeys ks => forallb (fun k => has k m) ks
  | PParamsShape cts =>
      if is_nil cts || ctype_in cts m then
        match lookup "parameters" m with
        | None => true
        | Some (ML _) => true
        | Some (MS s) => String.eqb s "None"
        end
      else true
  | PUniqueList k =>
      match lookup k m with None => true | Some (ML l) => nodupb l | Some (MS _) => false end
  | PNoOverlap a b =>
      (* set(md[a]) & set(md[b]): a string value iterates as its characters *)
      match lookup a m, lookup b m with
      | Some xa, Some xb => negb (existsb (fun x => mem x (as_items xb)) (as_items xa))
      | _, _ => true
      end
  | PRegistered =>
      match lookup "component_type" m with Some (MS s) => mem s (v_reg v) | _ => false end
  | PHasKeys cts ks => if ctype_in cts m then forallb (fun k => has k m) ks else true
  | PLacksKey cts k => if ctype_in cts m then negb (has k m) else true
  | PFieldIs cts k x => if ctype_in cts m then opt_mval_eqb (lookup k m) (Some (MS x)) else true
  | PFieldsEq cts k1 k2 => if ctype_in cts m then opt_mval_eqb (lookup k1 m) (lookup k2 m) else true
  | PMatchProc cts s ks =>
      if ctype_in cts m then
        match (match s with SideIn => v_proc_in v | SideOut => v_proc_out v end) with
        | None => true
        | Some e => forallb (fun k => opt_mval_eqb (lookup k m) (Some (MS e))) ks
        end
      else true
  end.

Definition rule := (string * (sev * pred))%type.

(* the diagnostic code a failing rule emits: the restricted parameter-shape rules (SVA221/232)
   delegate to the SVA103 validator and therefore report SVA103 *)
Definition emitted (r : rule) : string :=
  match snd (snd r) with PParamsShape _ => "SVA103" | _ => fst r end.

Definition run_rules (rs : list rule) (v : cview) : list (string * sev) :=
  map (fun r => (emitted r, fst (snd r))) (filter (fun r => negb (check (snd (snd r)) v)) rs).

Definition is_error (d : string * sev) : bool := match snd d with SError => true | _ => false end.
Definition errors (ds : list (string * sev)) : list (string * sev) := filter is_error ds.

Definition SRC := ["DataSource"; "PayloadSource"].
Definition SNK := ["DataSink"; "PayloadSink"].
Definition SRCN := ["DataSourceNode"; "PayloadSourceNode"].
Definition SNKN := ["DataSinkNode"; "PayloadSinkNode"].
Definition PRBN := ["ProbeContextInjectorNode"; "ProbeResultCollectorNode"].
Definition OPP := ["DataOperation"; "DataProbe"; "ContextProcessor"].

(* the catalogue as published (expectations.RULES); Properties/C16.v proves the generated table equal *)
Definition spec_rules : list rule :=
  [ ("SVA001", (SError, PReflect)); ("SVA002", (SError, PReflect)); ("SVA003", (SError, PReflect));
    ("SVA004", (SError, PReflect)); ("SVA005", (SError, PReflect)); ("SVA007", (SError, PReflect));
    ("SVA009", (SError, PReflect)); ("SVA011", (SError, PReflect));
    ("SVA100", (SError, PTrue));
    ("SVA101", (SError, PRequiredKeys ["class_name"; "component_type"; "docstring"]));
    ("SVA102", (SWarn, PReflect));
    ("SVA103", (SError, PParamsShape []));
    ("SVA104", (SError, PUniqueList "injected_context_keys"));
    ("SVA105", (SError, PUniqueList "suppressed_context_keys"));
    ("SVA106", (SWarn, PNoOverlap "injected_context_keys" "suppressed_context_keys"));
    ("SVA107", (SError, PRegistered));
    ("SVA200", (SError, PHasKeys SRC ["output_data_type"]));
    ("SVA201", (SWarn, PLacksKey SRC "input_data_type"));
    ("SVA210", (SError, PHasKeys SNK ["input_data_type"]));
    ("SVA211", (SWarn, PLacksKey SNK "output_data_type"));
    ("SVA220", (SError, PHasKeys ["DataOperation"] ["input_data_type"; "output_data_type"]));
    ("SVA221", (SError, PParamsShape ["DataOperation"]));
    ("SVA230", (SError, PHasKeys ["DataProbe"] ["input_data_type"]));
    ("SVA231", (SWarn, PLacksKey ["DataProbe"] "output_data_type"));
    ("SVA232", (SError, PParamsShape ["DataProbe"]));
    ("SVA240", (SInfo, PTrue));
    ("SVA241", (SError, PReflect));
    ("SVA250", (SError, PReflect));
    ("SVA300", (SError, PFieldIs SRCN "input_data_type" "NoDataType"));
    ("SVA301", (SError, PMatchProc SRCN SideOut ["output_data_type"]));
    ("SVA310", (SError, PFieldsEq SNKN "input_data_type" "output_data_type"));
    ("SVA311", (SError, PMatchProc SNKN SideIn ["input_data_type"; "output_data_type"]));
    ("SVA320", (SError, PFieldsEq PRBN "input_data_type" "output_data_type"));
    ("SVA321", (SError, PMatchProc PRBN SideIn ["input_data_type"; "output_data_type"])) ].

(* ------------------------------------------------------------------ *)
(* the documented validity of a configuration, stated without `proc`    *)

Fixpoint ckind (c : cfg) : kind :=
  match c with
  | Base b => pk b
  | Slice c' _ | Sweep c' _ _ _ | WithContextKey c' _ => ckind c'
  | Rename _ _ | Delete _ | Template _ _ => KContextProcessor
  end.

Fixpoint cin (c : cfg) : string :=
  match c with
  | Base b => pin b
  | Slice _ coll => coll
  | Sweep c' _ _ _ => match ckind c' with KDataSource => "" | _ => cin c' end
  | WithContextKey c' _ => cin c'
  | _ => ""
  end.

Fixpoint cout (c : cfg) : string :=
  match c with
  | Base b => pout b
  | Slice c' coll => match ckind c' with KDataProbe => "" | _ => coll end
  | Sweep c' _ _ coll => match ckind c', coll with KDataProbe, _ => "" | _, Some (cn, _) => cn | _, None => "" end
  | WithContextKey c' _ => cout c'
  | _ => ""
  end.

Fixpoint cparams (c : cfg) : list (string * bool) :=
  match c with
  | Base b => pparams b
  | Slice c' _ | WithContextKey c' _ => cparams c'
  | Sweep c' vars bound _ => ext_params bound (cparams c') (ctx_keys vars)
  | _ => []
  end.

Fixpoint validp (c : cfg) : bool :=
  match c with
  | Base _ => true
  | Slice c' _ =>
      validp c' && match ckind c' with
                   | KDataOperation => String.eqb (cin c') (cout c')
                   | KDataProbe => true
                   | _ => false
                   end
  | Sweep c' vars bound coll =>
      validp c' && negb (is_nil vars) && nodupb (map fst vars)
      && forallb (fun b => mem b (map fst (cparams c'))) bound
      && nodupb (map fst (ext_params bound (cparams c') (ctx_keys vars)))
      && match ckind c', coll with
         | KDataSource, Some (_, true) | KDataOperation, Some (_, true) | KDataProbe, None => true
         | _, _ => false
         end
  | WithContextKey _ _ => false
  | Rename a b => valid_key a && valid_key b
  | Delete a => valid_key a
  | Template out holes => valid_key out && negb (is_nil holes) && forallb valid_placeholder holes
  end.

(* the node-level context_key policy: forbidden on operations, required (non-blank) on probes, ignored elsewhere *)
Definition key_ok (k : kind) (key : option string) : bool :=
  match k, key with
  | KDataOperation, Some _ => false
  | KDataProbe, None => false
  | KDataProbe, Some s => nonblank s
  | _, _ => true
  end.

Definition valid (c : cfg) : bool :=
  validp (fst (strip_key c)) && key_ok (ckind (fst (strip_key c))) (snd (strip_key c)).

(* base components must themselves be well formed (their own contract) *)
Fixpoint bases_ok (c : cfg) : bool :=
  match c with
  | Base b => nodupb (pcreated b) && nodupb (psupp b)
  | Slice c' _ | Sweep c' _ _ _ | WithContextKey c' _ => bases_ok c'
  | _ => true
  end.

(* no sweep re-declares a "<var>_values" key that the swept class already creates *)
Fixpoint fresh (f : flags) (c : cfg) : bool :=
  match c with
  | Sweep c' vars _ _ =>
      fresh f c' && match proc f c' with
                    | Some p => forallb (fun v => negb (mem (values_key (fst v)) (pcreated p))) vars
                    | None => true
                    end
  | Slice c' _ | WithContextKey c' _ => fresh f c'
  | _ => true
  end.

(* the mirror relation of the property text *)
Definition mirrors (k : kind) (key : option string) (n p : cview) : Prop :=
  match k with
  | KDataSource | KPayloadSource =>
      v_in n = Some "NoDataType" /\ v_out n = v_out p /\ v_created n = v_created p
  | KDataSink | KPayloadSink =>
      v_in n = v_in p /\ v_out n = v_in p /\ v_created n = v_created p
  | KDataProbe =>
      v_in n = v_in p /\ v_out n = v_in p /\
      exists k l, key = Some k /\ v_created p = Some l /\ v_created n = Some (add_key k l)
  | KDataOperation =>
      v_in n = v_in p /\ v_out n = v_out p /\ v_created n = v_created p
  | KContextProcessor =>
      v_created n = v_created p /\ v_supp n = v_supp p /\ v_req n = v_req p
  end.

(* ------------------------------------------------------------------ *)
(* comparison used by the correspondence shards                         *)

Definition md_eqb (a b : md) : bool :=
  Nat.eqb (List.length a) (List.length b)
  && forallb (fun kv => opt_mval_eqb (lookup (fst kv) b) (Some (snd kv))) a
  && forallb (fun kv => opt_mval_eqb (lookup (fst kv) a) (Some (snd kv))) b.

Definition cview_eqb (a b : cview) : bool :=
  md_eqb (v_md a) (v_md b) && opt_str_eqb (v_in a) (v_in b) && opt_str_eqb (v_out a) (v_out b)
  && opt_list_eqb (v_created a) (v_created b) && opt_list_eqb (v_supp a) (v_supp b)
  && opt_list_eqb (v_req a) (v_req b) && list_str_eqb (v_reg a) (v_reg b)
  && opt_str_eqb (v_proc_in a) (v_proc_in b) && opt_str_eqb (v_proc_out a) (v_proc_out b).

Definition obs_eqb (a b : option (cview * cview)) : bool :=
  match a, b with
  | None, None => true
  | Some (n1, p1), Some (n2, p2) => cview_eqb n1 n2 && cview_eqb p1 p2
  | _, _ => false
  end.

Fixpoint diag_eqb (a b : list (string * sev)) : bool :=
  match a, b with
  | [], [] => true
  | (c1, s1) :: a', (c2, s2) :: b' =>
      String.eqb c1 c2 && match s1, s2 with SError, SError | SWarn, SWarn | SInfo, SInfo => true | _, _ => false end
      && diag_eqb a' b'
  | _, _ => false
  end.

Fixpoint bad_idx {A} (ok : A -> bool) (l : list A) (i : nat) : list nat :=
  match l with [] => [] | x :: tl => if ok x then bad_idx ok tl (S i) else i :: bad_idx ok tl (S i) end.
