(* Model/Expr.v — numeric sweep expressions: syntax, exact evaluation,
   Python's ast.dump text, and the ExpressionSigV1 normaliser of
   semantiva/metadata/semantic_id.py (_dump_ast_commutative).
   Definitions only; proofs live in Proofs/Norm.v. *)
From Coq Require Import List String Ascii NArith ZArith Bool.
From SV Require Import Common.Prelude.
Import ListNotations.
Open Scope string_scope.

Inductive binop := Add | Sub | Mult | FloorDiv | Mod | Pow.
Inductive unop := USub | UAdd | Not.
Inductive cmpop := Eq | NotEq | Lt | LtE | Gt | GtE.
Inductive boolop := And | Or.

Inductive expr :=
| Var (x : string)
| Const (n : N)
| Un (o : unop) (e : expr)
| Bin (o : binop) (l r : expr)
| IfE (c t f : expr)
| Call (f : string) (args : list expr)
| Cmp (l : expr) (rest : list (cmpop * expr))
| BoolE (o : boolop) (vs : list expr).

Definition binop_eqb (a b : binop) : bool :=
  match a, b with
  | Add, Add | Sub, Sub | Mult, Mult | FloorDiv, FloorDiv | Mod, Mod | Pow, Pow => true
  | _, _ => false
  end.

(* ------------------------------------------------------------------ *)
(* Exact integer evaluation, Python semantics.  None = the evaluation raises
   (unbound name, division by zero, bad call) or leaves the integers
   (negative exponent). *)

Definition truthy (z : Z) : bool := negb (z =? 0)%Z.
Definition of_bool (b : bool) : Z := if b then 1%Z else 0%Z.

Definition binop_eval (o : binop) (a b : Z) : option Z :=
  match o with
  | Add => Some (a + b)%Z
  | Sub => Some (a - b)%Z
  | Mult => Some (a * b)%Z
  | FloorDiv => if (b =? 0)%Z then None else Some (a / b)%Z
  | Mod => if (b =? 0)%Z then None else Some (a mod b)%Z
  | Pow => if (b <? 0)%Z then None else Some (a ^ b)%Z
  end.

Definition unop_eval (o : unop) (v : Z) : Z :=
  match o with USub => (- v)%Z | UAdd => v | Not => of_bool (negb (truthy v)) end.

Definition cmp_eval (o : cmpop) (a b : Z) : bool :=
  match o with
  | Eq => (a =? b)%Z | NotEq => negb (a =? b)%Z
  | Lt => (a <? b)%Z | LtE => (a <=? b)%Z
  | Gt => (b <? a)%Z | GtE => (b <=? a)%Z
  end.

Fixpoint sequence (l : list (option Z)) : option (list Z) :=
  match l with
  | [] => Some []
  | None :: _ => None
  | Some v :: tl => match sequence tl with None => None | Some vs => Some (v :: vs) end
  end.

Definition call_eval (f : string) (vs : list Z) : option Z :=
  if String.eqb f "abs" then match vs with [v] => Some (Z.abs v) | _ => None end
  else if String.eqb f "min" then match vs with v :: w :: tl => Some (fold_left Z.min (w :: tl) v) | _ => None end
  else if String.eqb f "max" then match vs with v :: w :: tl => Some (fold_left Z.max (w :: tl) v) | _ => None end
  else None.

Section Eval.
Variable rho : string -> option Z.

Fixpoint eval (e : expr) : option Z :=
  match e with
  | Var x => rho x
  | Const n => Some (Z.of_N n)
  | Un o a => match eval a with None => None | Some v => Some (unop_eval o v) end
  | Bin o l r =>
      match eval l, eval r with
      | Some a, Some b => binop_eval o a b
      | _, _ => None
      end
  | IfE c t f =>
      match eval c with
      | None => None
      | Some v => if truthy v then eval t else eval f
      end
  | Call f args =>
      match sequence (map eval args) with
      | None => None
      | Some vs => call_eval f vs
      end
  | Cmp l rest =>
      match eval l with
      | None => None
      | Some v0 =>
          (fix chain (v : Z) (rest : list (cmpop * expr)) {struct rest} : option Z :=
             match rest with
             | [] => Some 1%Z
             | (o, a) :: tl =>
                 match eval a with
                 | None => None
                 | Some w => if cmp_eval o v w then chain w tl else Some 0%Z
                 end
             end) v0 rest
      end
  | BoolE o vs =>
      (fix go (vs : list expr) {struct vs} : option Z :=
         match vs with
         | [] => None
         | a :: tl =>
             match eval a with
             | None => None
             | Some v =>
                 match tl with
                 | [] => Some v
                 | _ :: _ =>
                     match o with
                     | And => if truthy v then go tl else Some v
                     | Or => if truthy v then Some v else go tl
                     end
                 end
             end
         end) vs
  end.
End Eval.

(* ------------------------------------------------------------------ *)
(* ast.dump(node, include_attributes=False), written with an explicit
   continuation k so that dumpk e k = dump e ++ k by construction. *)

Definition binop_name (o : binop) : string :=
  match o with Add => "Add" | Sub => "Sub" | Mult => "Mult"
             | FloorDiv => "FloorDiv" | Mod => "Mod" | Pow => "Pow" end.
Definition unop_name (o : unop) : string :=
  match o with USub => "USub" | UAdd => "UAdd" | Not => "Not" end.
Definition cmpop_name (o : cmpop) : string :=
  match o with Eq => "Eq" | NotEq => "NotEq" | Lt => "Lt" | LtE => "LtE" | Gt => "Gt" | GtE => "GtE" end.
Definition boolop_name (o : boolop) : string :=
  match o with And => "And" | Or => "Or" end.

(* "X(), Y(), Z()" *)
Fixpoint dump_ops (l : list cmpop) (k : string) : string :=
  match l with
  | [] => k
  | [o] => cmpop_name o ++ "()" ++ k
  | o :: tl => cmpop_name o ++ "(), " ++ dump_ops tl k
  end.

Fixpoint dumpk (e : expr) (k : string) {struct e} : string :=
  match e with
  | Var x => "Name(id='" ++ x ++ "', ctx=Load())" ++ k
  | Const n => "Constant(value=" ++ print_N n ++ ")" ++ k
  | Un o a => "UnaryOp(op=" ++ unop_name o ++ "(), operand=" ++ dumpk a (")" ++ k)
  | Bin o l r =>
      "BinOp(left=" ++ dumpk l (", op=" ++ binop_name o ++ "(), right=" ++ dumpk r (")" ++ k))
  | IfE c t f =>
      "IfExp(test=" ++ dumpk c (", body=" ++ dumpk t (", orelse=" ++ dumpk f (")" ++ k)))
  | Call f args =>
      "Call(func=Name(id='" ++ f ++ "', ctx=Load()), args=[" ++
      (fix dl (l : list expr) (k : string) {struct l} : string :=
         match l with
         | [] => k
         | a :: tl => match tl with [] => dumpk a k | _ :: _ => dumpk a (", " ++ dl tl k) end
         end) args ("], keywords=[])" ++ k)
  | Cmp l rest =>
      "Compare(left=" ++ dumpk l (", ops=[" ++ dump_ops (map fst rest) ("], comparators=[" ++
      (fix dl (l : list (cmpop * expr)) (k : string) {struct l} : string :=
         match l with
         | [] => k
         | (_, a) :: tl => match tl with [] => dumpk a k | _ :: _ => dumpk a (", " ++ dl tl k) end
         end) rest ("])" ++ k)))
  | BoolE o vs =>
      "BoolOp(op=" ++ boolop_name o ++ "(), values=[" ++
      (fix dl (l : list expr) (k : string) {struct l} : string :=
         match l with
         | [] => k
         | a :: tl => match tl with [] => dumpk a k | _ :: _ => dumpk a (", " ++ dl tl k) end
         end) vs ("])" ++ k)
  end.

Definition dump (e : expr) : string := dumpk e "".

(* ------------------------------------------------------------------ *)
(* The normaliser.  nt c e returns the head term and the spliced siblings
   of e as seen from chain context c (Some op = e is an operand of an
   op-chain that is being flattened). *)

Section Norm.
Variable comm : binop -> bool.

Fixpoint rebuild (op : binop) (acc : expr) (l : list expr) : expr :=
  match l with [] => acc | h :: tl => rebuild op (Bin op acc h) tl end.

Definition rebuild_sorted (op : binop) (dflt : expr) (ts : list expr) : expr :=
  match ksort dump ts with [] => dflt | h :: tl => rebuild op h tl end.

Fixpoint nt (c : option binop) (e : expr) {struct e} : expr * list expr :=
  match e with
  | Bin op l r =>
      if comm op then
        let '(l1, ls) := nt (Some op) l in
        let '(r1, rs) := nt (Some op) r in
        let ts := ((l1 :: ls) ++ (r1 :: rs))%list in
        match c with
        | Some op' =>
            if binop_eqb op op' then (l1, (ls ++ r1 :: rs)%list)
            else (rebuild_sorted op l1 ts, [])
        | None => (rebuild_sorted op l1 ts, [])
        end
      else (Bin op (fst (nt None l)) (fst (nt None r)), [])
  | Un o a => (Un o (fst (nt None a)), [])
  | IfE a b d => (IfE (fst (nt None a)) (fst (nt None b)) (fst (nt None d)), [])
  | Call f args => (Call f (map (fun a => fst (nt None a)) args), [])
  | Cmp l rest =>
      (Cmp (fst (nt None l)) (map (fun p => match p with (o, a) => (o, fst (nt None a)) end) rest), [])
  | BoolE o vs => (BoolE o (map (fun a => fst (nt None a)) vs), [])
  | Var _ | Const _ => (e, [])
  end.

Definition norm (e : expr) : expr := fst (nt None e).
Definition sig (e : expr) : string := dump (norm e).
End Norm.
