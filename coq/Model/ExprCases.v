(* Model/ExprCases.v — evaluation helpers for the C12 correspondence shards. *)
From Coq Require Import List String ZArith Bool.
From SV Require Import Common.Prelude Model.Expr.
Import ListNotations.

Definition env_of (l : list (string * Z)) : string -> option Z :=
  fun x => match find (fun p => String.eqb (fst p) x) l with Some p => Some (snd p) | None => None end.

Definition optZ_eqb (a b : option Z) : bool :=
  match a, b with
  | None, None => true
  | Some x, Some y => Z.eqb x y
  | _, _ => false
  end.

(* one case: expression, ast.dump of the parsed source, implementation signature,
   and the implementation's values on some assignments (None = raised) *)
Definition ecase := (expr * string * string * list (list (string * Z) * option Z))%type.

Definition case_ok (comm : binop -> bool) (c : ecase) : bool :=
  match c with
  | (e, d, s, evs) =>
      String.eqb (dump e) d && String.eqb (sig comm e) s
      && forallb (fun p => optZ_eqb (eval (env_of (fst p)) e) (snd p)) evs
  end.

Fixpoint bad_indices {A} (ok : A -> bool) (l : list A) (i : nat) : list nat :=
  match l with
  | [] => []
  | x :: tl => if ok x then bad_indices ok tl (S i) else i :: bad_indices ok tl (S i)
  end.

Definition mismatches (comm : binop -> bool) (cs : list ecase) : list nat :=
  bad_indices (case_ok comm) cs 0.
