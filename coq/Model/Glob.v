(* Model/Glob.v -- Unix shell-style pattern matching as the in-memory transport uses it to route messages
   (fnmatch.fnmatch on POSIX: case-sensitive): `*` any run of characters, `?` exactly one, `[seq]` / `[!seq]` one
   character in / not in seq (single characters and ranges lo-hi); every other character stands for itself.
   A `[` with no closing `]` stands for itself; a `]` directly after `[` or `[!` is a member, not the end.
   Definitions only. *)
From Coq Require Import List String Ascii Bool Arith NArith.
Import ListNotations.

Inductive gtok :=
| GChar (a : ascii)
| GAny
| GStar
| GSet (neg : bool) (items : list (ascii * ascii)).      (* ranges lo..hi; a single character c is (c, c) *)

Definition in_range (c : ascii) (r : ascii * ascii) : bool :=
  (N.leb (N_of_ascii (fst r)) (N_of_ascii c)) && (N.leb (N_of_ascii c) (N_of_ascii (snd r))).

Fixpoint gmatch (p : list gtok) (s : list ascii) {struct p} : bool :=
  match p with
  | [] => match s with [] => true | _ :: _ => false end
  | GStar :: p' =>
      (fix star (s : list ascii) : bool :=
         gmatch p' s || match s with [] => false | _ :: s' => star s' end) s
  | GChar a :: p' => match s with c :: s' => Ascii.eqb a c && gmatch p' s' | [] => false end
  | GAny :: p' => match s with _ :: s' => gmatch p' s' | [] => false end
  | GSet neg items :: p' =>
      match s with c :: s' => xorb neg (existsb (in_range c) items) && gmatch p' s' | [] => false end
  end.

(* ---- pattern text -> tokens ---------------------------------------------------------------------------------- *)
Definition rbr : ascii := "]"%char.
Definition lbr : ascii := "["%char.
Definition bang : ascii := "!"%char.
Definition dash : ascii := "-"%char.

(* members of a bracket expression, up to the closing `]`; None if there is none.  [first] = no member read yet
   (a `]` then is a member). *)
Fixpoint set_items (first : bool) (l : list ascii) : option (list (ascii * ascii) * list ascii) :=
  match l with
  | [] => None
  | c :: tl =>
      if Ascii.eqb c rbr && negb first then Some ([], tl)
      else
        match tl with
        | d :: hi :: tl2 =>
            if Ascii.eqb d dash && negb (Ascii.eqb hi rbr)
            then match set_items false tl2 with Some (its, rest) => Some ((c, hi) :: its, rest) | None => None end
            else match set_items false tl with Some (its, rest) => Some ((c, c) :: its, rest) | None => None end
        | _ => match set_items false tl with Some (its, rest) => Some ((c, c) :: its, rest) | None => None end
        end
  end.

Definition parse_set (l : list ascii) : option (gtok * list ascii) :=
  match l with
  | c :: tl => if Ascii.eqb c bang
               then match set_items true tl with Some (its, rest) => Some (GSet true its, rest) | None => None end
               else match set_items true l with Some (its, rest) => Some (GSet false its, rest) | None => None end
  | [] => None
  end.

Fixpoint parse_fuel (fuel : nat) (l : list ascii) : list gtok :=
  match fuel with
  | O => []
  | S f =>
      match l with
      | [] => []
      | c :: tl =>
          if Ascii.eqb c "*"%char then GStar :: parse_fuel f tl
          else if Ascii.eqb c "?"%char then GAny :: parse_fuel f tl
          else if Ascii.eqb c lbr
               then match parse_set tl with
                    | Some (tok, rest) => tok :: parse_fuel f rest
                    | None => GChar c :: parse_fuel f tl
                    end
          else GChar c :: parse_fuel f tl
      end
  end.

Definition parse (l : list ascii) : list gtok := parse_fuel (S (List.length l)) l.

Definition glob (pattern name : string) : bool :=
  gmatch (parse (list_ascii_of_string pattern)) (list_ascii_of_string name).

(* ---- the two pattern families the property names, as instances ----------------------------------------------- *)
Definition is_meta (c : ascii) : bool := Ascii.eqb c "*"%char || Ascii.eqb c "?"%char || Ascii.eqb c lbr.
Definition plain (s : list ascii) : bool := forallb (fun c => negb (is_meta c)) s.

(* correspondence case: pattern, name, what fnmatch.fnmatch returned *)
Definition gcase := (string * string * bool)%type.
Fixpoint gbad (l : list gcase) (i : nat) : list nat :=
  match l with
  | [] => []
  | (p, n, b) :: tl => if Bool.eqb (glob p n) b then gbad tl (S i) else i :: gbad tl (S i)
  end.
