(* Model/Identity.v — configuration identities of semantiva as preimage strings + hashes.
   Transcribes graph_builder.py (_canonical_node, build_canonical_spec, compute_pipeline_id),
   semantic_id.py (compute_node_semantic_id, compute_pipeline_semantic_id, compute_pipeline_config_id,
   variable_domain_signature), parametric_sweep_factory.py (_preprocessor_metadata) and the
   orchestrator's shared, in-place enriched canonical spec.  Definitions only.

   Inputs that are not configuration text but facts about the component library are carried in
   [procinfo] (fully qualified class name, kind, required parameter names in signature order,
   declared created keys); the harness reads them from the registry. *)
From Coq Require Import List String Ascii NArith Bool.
From SV Require Import Common.Prelude Model.Json Model.Expr Gen.SemanticIdGen Gen.IdentityGen.
Import ListNotations.
Open Scope string_scope.

Inductive kind := KSource | KOp | KProbe | KOther.

Record procinfo := {
  pi_fqcn : string;               (* module.qualname of the class named by `processor` *)
  pi_kind : kind;
  pi_required : list string;      (* parameter names without default, signature order *)
  pi_created : list string;       (* declared created context keys *)
  pi_suppressed : list string     (* context keys the node deletes (rename source, delete) *)
}.

Inductive vspec :=
| VRange (lo hi steps scale : string) (endpoint : bool)   (* lo/hi/steps: printed number tokens *)
| VSeq (vals : list json)
| VCtx (key : string).

Record sweep := {
  sw_exprs : list (string * expr);       (* derive.parameter_sweep.parameters *)
  sw_vars : list (string * vspec);       (* derive.parameter_sweep.variables *)
  sw_mode : string;
  sw_broadcast : bool;
  sw_collection : option string          (* fully qualified name of the collection class *)
}.

Record node := {
  n_proc : string;                       (* the `processor` string as written *)
  n_params : list (string * json);       (* the `parameters` mapping *)
  n_info : procinfo;
  n_ctxkey : option string;              (* context_key of a probe node *)
  n_sweep : option sweep
}.

Definition config := list node.

Definition jnat (n : nat) : json := JNum (print_N (N.of_nat n)).
Definition jstrs (l : list string) : json := JArr (map JStr l).
Definition sid (s : string) : string := s.

Definition processor_ref (n : node) : string :=
  match n_sweep n with
  | None => n_proc n
  | Some _ => match pi_kind (n_info n) with
              | KSource => sweep_ref_source
              | KOp => sweep_ref_operation
              | _ => sweep_ref_probe
              end
  end.

(* value of one field of the canonical node mapping (field names are generated) *)
Definition canon_field (i : nat) (n : node) (f : string) : json :=
  if String.eqb f "role" then JStr "processor"
  else if String.eqb f "processor_ref" then JStr (processor_ref n)
  else if String.eqb f "params" then JObj (n_params n)
  else if String.eqb f "ports" then JObj []
  else if String.eqb f "declaration_index" then jnat i
  else if String.eqb f "declaration_subindex" then JNum "0"
  else JNull.

Definition canon_node (i : nat) (n : node) : json :=
  JObj (map (fun f => (f, canon_field i n f)) canon_fields).

Definition node_json (i : nat) (n : node) : string := dumps_sorted (canon_node i n).

(* drop UI-only keys and the raw-expression key at any depth *)
Definition dropped (k : string) : bool := mem_str k ui_only_keys || String.eqb k node_sem_dropped_key.
Fixpoint strip (j : json) : json :=
  match j with
  | JArr l => JArr (map strip l)
  | JObj m =>
      JObj ((fix go (m : list (string * json)) : list (string * json) :=
               match m with
               | [] => []
               | (k, v) :: r => if dropped k then go r else (k, strip v) :: go r
               end) m)
  | _ => j
  end.

(* the repaired shape: the UI-only block is dropped at the top level of the metadata only and the raw source only
   inside the entries of param_expressions; parameter and variable NAMES are kept whatever they are spelled *)
Definition kfilter (g : string -> bool) (m : list (string * json)) : list (string * json) :=
  filter (fun kv => g (fst kv)) m.
Definition kmap (F : string -> json -> json) (m : list (string * json)) : list (string * json) :=
  map (fun kv => (fst kv, F (fst kv) (snd kv))) m.
Definition strip_entry (j : json) : json :=
  match j with
  | JObj m => JObj (kfilter (fun k => negb (String.eqb k node_sem_dropped_key)) m)
  | _ => j
  end.
Definition strip_entries (j : json) : json :=
  match j with
  | JObj es => JObj (kmap (fun _ => strip_entry) es)
  | _ => j
  end.
Definition strip_top (m : list (string * json)) : list (string * json) :=
  kmap (fun k v => if String.eqb k "param_expressions" then strip_entries v else v)
       (kfilter (fun k => negb (mem_str k ui_only_keys)) m).
Definition strip_scoped (j : json) : json := match j with JObj m => JObj (strip_top m) | _ => j end.
(* which of the two the code does is read from compute_node_semantic_id on every run *)
Definition strip_block (j : json) : json := if node_sem_strip_scoped then strip_scoped j else strip j.

Definition lastn {A} (k : nat) (l : list A) : list A := skipn (List.length l - k) l.

Definition raw_ctx_keys (s : sweep) : list string :=
  flat_map (fun kv => match snd kv with VCtx k => [k] | _ => [] end) (sw_vars s).
Definition ctx_keys (s : sweep) : list string :=
  if context_keys_sorted then ksort sid (raw_ctx_keys s) else raw_ctx_keys s.
Definition req_external (n : node) (s : sweep) : list string :=
  filter (fun p => negb (mem_str p (map fst (sw_exprs s)))) (pi_required (n_info n)).

Definition expr_sig_json (e : expr) : json :=
  JObj [("format", JStr "ExpressionSigV1"); ("ast", JStr (sig comm e))].

Definition has_sweep (c : config) : bool :=
  existsb (fun n => match n_sweep n with Some _ => true | None => false end) c.

Section Ids.
Variable U5 : string -> string.   (* s |-> str(uuid.uuid5(NAMESPACE, s)) *)
Variable H : string -> string.    (* s |-> hashlib.sha256(s.encode()).hexdigest() *)

Definition node_uuid (i : nat) (n : node) : string := U5 (node_json i n).

Definition vspec_json (v : vspec) : json :=
  match v with
  | VRange lo hi steps scale ep =>
      JObj [("kind", JStr "range"); ("lo", JNum lo); ("hi", JNum hi); ("steps", JNum steps);
            ("scale", JStr scale); ("endpoint", JBool ep)]
  | VSeq vals =>
      JObj [("kind", JStr "sequence"); ("count", jnat (List.length vals));
            ("sample", JObj [("head", JArr (firstn 3 vals)); ("tail", JArr (lastn 3 vals));
                             ("digest_sha256", JStr (H (dumps_sorted (JArr vals))))])]
  | VCtx key => JObj [("kind", JStr "from_context"); ("key", JStr key)]
  end.

Definition sweep_meta (n : node) (s : sweep) : json :=
  JObj [("type", JStr "derive.parameter_sweep"); ("version", JNum "1");
        ("element_ref", JStr (pi_fqcn (n_info n)));
        ("param_expressions",
           JObj (map (fun ke => (fst ke, JObj [("sig", expr_sig_json (snd ke))])) (sw_exprs s)));
        ("variables", JObj (map (fun kv => (fst kv, vspec_json (snd kv))) (sw_vars s)));
        ("mode", JStr (sw_mode s)); ("broadcast", JBool (sw_broadcast s));
        ("collection", match sw_collection s with Some c => JStr c | None => JNull end);
        ("dependencies",
           JObj [("required_external_parameters", jstrs (req_external n s));
                 ("context_keys", jstrs (ctx_keys s))])].

Definition node_sem_pre (n : node) (s : sweep) : string :=
  node_sem_prefix ++ dumps_sorted (strip_block (sweep_meta n s)).
Definition node_sem_id (n : node) : string :=
  match n_sweep n with Some s => H (node_sem_pre n s) | None => "none" end.

Fixpoint uuids_from (k : nat) (c : list node) : list string :=
  match c with [] => [] | n :: r => node_uuid k n :: uuids_from (S k) r end.
Definition uuids (c : config) : list string := uuids_from 0 c.
Definition node_sems (c : config) : list string := map node_sem_id c.

(* canonical GraphV1 spec; [enriched] = preprocessor metadata attached to sweep nodes *)
Fixpoint spec_nodes (enriched : bool) (k : nat) (c : list node) : list json :=
  match c with
  | [] => []
  | n :: r =>
      JObj (map (fun f => (f, canon_field k n f)) canon_fields ++ [("node_uuid", JStr (node_uuid k n))] ++
            match n_sweep n with
            | Some s => if enriched then [("preprocessor_metadata", sweep_meta n s)] else []
            | None => []
            end) :: spec_nodes enriched (S k) r
  end.
Fixpoint edges (us : list string) : list json :=
  match us with
  | a :: ((b :: _) as r) => JObj [("source", JStr a); ("target", JStr b)] :: edges r
  | _ => []
  end.
Definition spec_json (enriched : bool) (c : config) : json :=
  JObj [("version", JNum "1"); ("nodes", JArr (spec_nodes enriched 0 c)); ("edges", JArr (edges (uuids c)))].
Definition pipeline_pre (enriched : bool) (c : config) : string := dumps_sorted (spec_json enriched c).
Definition pipeline_id (enriched : bool) (c : config) : string := pipeline_id_prefix ++ H (pipeline_pre enriched c).

(* pipeline semantic id: structure of nodes *)
Definition sem_entry (u : string) (n : node) : json :=
  JObj (map (fun f => (f, if String.eqb f "node_uuid" then JStr u else JNull)) pipeline_sem_fields ++
        match n_sweep n with
        | Some _ => if sem_includes_sweep then [("node_semantic_id", JStr (node_sem_id n))] else []
        | None => []
        end).
Fixpoint sem_entries (k : nat) (c : list node) : list json :=
  match c with [] => [] | n :: r => sem_entry (node_uuid k n) n :: sem_entries (S k) r end.
Definition semantic_struct (c : config) : json := JObj [("nodes", JArr (sem_entries 0 c))].
Definition semantic_pre (c : config) : string := pipeline_sem_prefix ++ dumps_sorted (semantic_struct c).
Definition semantic_id (c : config) : string := semantic_id_prefix ++ H (semantic_pre c).

(* config id: (uuid, node semantic id) pairs, sorted by uuid *)
Definition pairs (c : config) : list (string * string) := combine (uuids c) (node_sems c).
Definition pair_json (p : string * string) : json := JArr [JStr (fst p); JStr (snd p)].
Definition config_struct (c : config) : json := JArr (map pair_json (ksort fst (pairs c))).
Definition config_pre (c : config) : string := dumps_sorted (config_struct c).
Definition config_id (c : config) : string := config_id_prefix ++ H (config_pre c).

(* sorted required-context-key list of the inspection payload *)
Definition node_required (n : node) : list string :=
  let free := fun p => negb (mem_str p (map fst (n_params n))) in
  match n_sweep n with
  | None => filter free (pi_required (n_info n))
  | Some s => raw_ctx_keys s ++ filter free (req_external n s)
  end.
Definition node_created (n : node) : list string :=
  (match n_ctxkey n with Some k => [k] | None => [] end) ++
  (match n_sweep n with Some s => map (fun kv => fst kv ++ "_values") (sw_vars s) | None => [] end) ++
  pi_created (n_info n).
Fixpoint dedup (l : list string) : list string :=
  match l with [] => [] | x :: r => if mem_str x r then dedup r else x :: dedup r end.
(* older variant: global set difference (all required) - (all created) *)
Definition required_global (c : config) : list string :=
  let created := flat_map node_created c in
  filter (fun k => negb (mem_str k created)) (flat_map node_required c).
(* current variant: in node order; a name is externally required when no earlier node created it
   or an earlier node deleted it *)
Definition req_step (st : list string * list string * list string) (n : node)
  : list string * list string * list string :=
  match st with
  | (origin, deleted, req) =>
      let r := filter (fun x => negb (mem_str x origin) || mem_str x deleted) (node_required n) in
      let cr := node_created n in
      ((origin ++ cr)%list,
       (filter (fun y => negb (mem_str y cr)) deleted ++ pi_suppressed (n_info n))%list,
       (req ++ r)%list)
  end.
Definition required_ordered (c : config) : list string :=
  match fold_left req_step c ([], [], []) with (_, _, req) => req end.
Definition required_keys (c : config) : list string :=
  ksort sid (dedup (if required_in_node_order then required_ordered c else required_global c)).

Record ids := {
  i_uuids : list string;
  i_nodesem : list string;
  i_plid : string;
  i_semid : string;
  i_cfgid : string;
  i_required : list string
}.

(* Spec: identities are a function of the configuration alone *)
Definition spec_ids (c : config) : ids :=
  {| i_uuids := uuids c; i_nodesem := node_sems c; i_plid := pipeline_id false c;
     i_semid := semantic_id c; i_cfgid := config_id c; i_required := required_keys c |}.

(* Impl: the interpreter holds Pipeline objects; each owns ONE canonical spec that the
   orchestrator hashes and then (unless it works on a copy) enriches in place. *)
Inductive event :=
| EBuild (c : config)                    (* Pipeline(c) constructed *)
| ERun (obj : nat) (traced : bool)       (* obj.process(...) *)
| EInspect (c : config).                 (* build_inspection_payload(c) / inspect *)

Definition istate := list (config * bool).

Fixpoint mark (i : nat) (st : istate) : istate :=
  match st, i with
  | [], _ => []
  | (c, _) :: r, O => (c, true) :: r
  | x :: r, S j => x :: mark j r
  end.

Definition step (st : istate) (e : event) : istate :=
  match e with
  | EBuild c => (st ++ [(c, false)])%list
  | ERun i traced => if traced && negb enrich_on_copy then mark i st else st
  | EInspect _ => st
  end.
Definition run_hist (hist : list event) : istate := fold_left step hist [].

Definition ids_of (enriched : bool) (c : config) : ids :=
  {| i_uuids := uuids c; i_nodesem := node_sems c; i_plid := pipeline_id enriched c;
     i_semid := semantic_id c; i_cfgid := config_id c; i_required := required_keys c |}.

(* identities on the pipeline_start record of the next traced run of object i after hist *)
Definition impl_run_ids (hist : list event) (i : nat) : option ids :=
  match nth_error (run_hist hist) i with
  | Some (c, enr) => Some (ids_of enr c)
  | None => None
  end.
(* identities printed by inspect / build_inspection_payload after hist: a fresh canonical spec *)
Definition impl_inspect_ids (hist : list event) (c : config) : ids := ids_of false c.

End Ids.

Definition Collision (f : string -> string) : Prop := exists a b, a <> b /\ f a = f b.

(* ---- the fragment *)
Definition vspec_ok (v : vspec) : bool :=
  match v with
  | VRange lo hi steps scale _ => numlit_ok lo && numlit_ok hi && numlit_ok steps && str_ok scale
  | VSeq vals => forallb jok vals
  | VCtx k => str_ok k
  end.

(* ---- lookup tables standing for the real hash functions in correspondence shards *)
Fixpoint lookup (t : list (string * string)) (s : string) : string :=
  match t with [] => "?" | (k, v) :: r => if String.eqb k s then v else lookup r s end.
