(* Model/Inspect.v — static inspection and validation of a pipeline configuration
   (semantiva/inspection/builder.py: build_pipeline_inspection; validator.py), over the same
   node records the executor of Model/Pipeline.v runs, each annotated with its declared
   output data type.  Three generated facts select the code's variant:
     order_sensitive : required keys are accumulated in node order (a key counts as required
                        unless an EARLIER node created it and it was not deleted since), instead of
                        the global difference all_required - all_created;
     track_last_data : the type-flow check compares each data node with the last data-carrying
                        node before it, instead of only with an adjacent data node;
     origin_last     : key_origin records the LAST creator of a key, not the first;
     deleted_at_entry: the "requires a deleted key" check looks at the keys deleted BEFORE the node
                        (instead of the set after the node's own suppression, minus its own keys);
     default_second_pass : after the node loop, a parameter classified 'default' whose name is one of
                        the required context keys (another node requires it from the initial context)
                        and was not deleted before the node is re-classified as 'initial context'.
   Definitions only. *)
From Coq Require Import List String ZArith Bool Arith.
From SV Require Import Common.Prelude Model.Pipeline.
Import ListNotations.
Open Scope string_scope.

Record variant := mkVariant { order_sensitive : bool; track_last_data : bool; origin_last : bool; deleted_at_entry : bool;
                              default_second_pass : bool }.

Definition inode := (node * dtype)%type.       (* node, declared output type (ignored for context processors) *)

Definition is_ctx (n : node) : bool := match pr_kind (n_proc n) with KCtx => true | _ => false end.

Definition sremove (k : string) (l : list string) : list string := filter (fun x => negb (String.eqb x k)) l.
Definition sadd (k : string) (l : list string) : list string := if smem k l then l else (l ++ [k])%list.
Definition sunion (a b : list string) : list string := fold_left (fun acc k => sadd k acc) b a.

(* created keys as a set (no duplicates) *)
Definition created_of (n : node) : list string :=
  sunion [] (pr_created (n_proc n) ++
             match pr_kind (n_proc n), n_ckey n with KProbe, Some k => [k] | _, _ => [] end)%list.
Definition suppressed_of (n : node) : list string := if is_ctx n then pr_suppressed (n_proc n) else [].
Definition in_of (n : node) : option dtype := if is_ctx n then None else Some (pr_in (n_proc n)).
Definition out_of (x : inode) : option dtype :=
  let '(n, o) := x in
  if is_ctx n then None
  else match pr_kind (n_proc n) with KProbe | KSink => Some (pr_in (n_proc n)) | _ => Some o end.

(* how inspection says a parameter will be obtained *)
Inductive origin := OConfig | ODefault | OContext (creator : option nat).   (* None = initial context *)

Record nreport := mkNReport {
  r_invalid : bool;                              (* node could not be constructed *)
  r_invalid_params : list string;
  r_origins : list (string * origin);            (* per parameter, signature order *)
  r_created : list string;
  r_suppressed : list string;
  r_in : option dtype;
  r_out : option dtype;
  r_errors : list string                         (* "deleted" | "type" | construction class *)
}.

Record istate := mkIState {
  key_origin : list (string * nat);              (* key -> 1-based index of the creating node *)
  deleted : list string;
  all_required : list string;
  all_created : list string
}.

Fixpoint nlookup (k : string) (m : list (string * nat)) : option nat :=
  match m with [] => None | (k', v) :: tl => if String.eqb k k' then Some v else nlookup k tl end.
Fixpoint nupdate (k : string) (v : nat) (m : list (string * nat)) : list (string * nat) :=
  match m with
  | [] => [(k, v)]
  | (k', v') :: tl => if String.eqb k k' then (k, v) :: tl else (k', v') :: nupdate k v tl
  end.
Definition nsetdefault (k : string) (v : nat) (m : list (string * nat)) :=
  match nlookup k m with Some _ => m | None => nupdate k v m end.


Definition classify (n : node) (st : istate) (name : string) : origin :=
  if has name (n_cfg n) then OConfig
  else match nlookup name (key_origin st) with
       | Some idx => if smem name (deleted st) then
                       (if has name (pr_defaults (n_proc n)) then ODefault else OContext None)
                     else OContext (Some idx)
       | None => if has name (pr_defaults (n_proc n)) then ODefault else OContext None
       end.

Definition is_ctx_origin (o : origin) : bool := match o with OContext _ => true | _ => false end.

Definition inspect_node (v : variant) (idx : nat) (x : inode) (st : istate) : nreport * istate :=
  let '(n, o) := x in
  match construct n with
  | Fail (Err _ cls what) =>
      (mkNReport true (match n_ckey n, pr_kind (n_proc n) with
                       | None, KProbe => []
                       | _, _ => map fst (filter (fun kv => negb (smem (fst kv) (pr_params (n_proc n)))) (n_cfg n))
                       end) [] [] [] None None [cls], st)
  | Ok _ =>
      let origins := map (fun name => (name, classify n st name))
                         (filter (fun name => negb (has name (n_cfg n))) (pr_params (n_proc n))) in
      let required := map fst (filter (fun p => is_ctx_origin (snd p)) origins) in
      let new_required :=
        if order_sensitive v
        then filter (fun name => match nlookup name (key_origin st) with
                                 | Some _ => smem name (deleted st)
                                 | None => true
                                 end) required
        else required in
      let created := created_of n in
      let ko1 := match pr_kind (n_proc n), n_ckey n with
                 | KProbe, Some k => nupdate k idx (key_origin st)
                 | _, _ => key_origin st
                 end in
      let ko2 := fold_left (fun m k => if origin_last v then nupdate k idx m else nsetdefault k idx m) created ko1 in
      let del1 := fold_left (fun d k => sremove k d) created (deleted st) in
      let supp := suppressed_of n in
      let del2 := sunion del1 supp in
      let missing_deleted :=
        if deleted_at_entry v then filter (fun k => smem k (deleted st)) required
        else filter (fun k => smem k del2 && negb (smem k supp)) required in
      let cfgish := (map fst (n_cfg n) ++ map fst (filter (fun p => match snd p with ODefault => true | _ => false end) origins))%list in
      let errs := if existsb (fun k => negb (smem k cfgish)) missing_deleted then ["deleted"] else [] in
      (mkNReport false [] origins created supp (in_of n) (out_of x) errs,
       mkIState ko2 del2 (sunion (all_required st) new_required) (sunion (all_created st) created))
  end.

(* the second pass over default-classified parameters (builder.py, after the node loop): [req] is the
   final set of required context keys, [del_entry] the keys deleted before the node *)
Definition reclass (req del_entry : list string) (p : string * origin) : string * origin :=
  match snd p with
  | ODefault => if smem (fst p) req && negb (smem (fst p) del_entry) then (fst p, OContext None) else p
  | _ => p
  end.
Definition shadow (v : variant) (req del_entry : list string) (r : nreport) : nreport :=
  if default_second_pass v then
    mkNReport (r_invalid r) (r_invalid_params r) (map (reclass req del_entry) (r_origins r))
              (r_created r) (r_suppressed r) (r_in r) (r_out r) (r_errors r)
  else r.

Fixpoint inspect_from (v : variant) (idx : nat) (p : list inode) (st : istate) : list nreport * istate :=
  match p with
  | [] => ([], st)
  | x :: tl =>
      let '(r, st') := inspect_node v idx x st in
      let '(rs, stf) := inspect_from v (S idx) tl st' in
      (shadow v (all_required stf) (deleted st) r :: rs, stf)
  end.

Definition init_state : istate := mkIState [] [] [] [].

Definition inspect (v : variant) (p : list inode) : list nreport * list string :=
  let '(rs, st) := inspect_from v 1 p init_state in
  (rs, if order_sensitive v then all_required st
       else filter (fun k => negb (smem k (all_created st))) (all_required st)).

(* ---- validation: data-flow compatibility ------------------------------------------------------ *)
Definition compat (out inp : dtype) : bool :=
  match inp with TAny => true | _ => dtype_eqb out inp end.

(* returns the per-node list of type errors (true = incompatible input) *)
Fixpoint typeflow_adjacent (prev : option nreport) (rs : list nreport) : list bool :=
  match rs with
  | [] => []
  | r :: tl =>
      (match prev with
       | Some p => match r_out p, r_in r with
                   | Some o, Some i => negb (compat o i)
                   | _, _ => false
                   end
       | None => false
       end) :: typeflow_adjacent (Some r) tl
  end.

Fixpoint typeflow_last (cur : option dtype) (rs : list nreport) : list bool :=
  match rs with
  | [] => []
  | r :: tl =>
      (match cur, r_in r with
       | Some o, Some i => negb (compat o i)
       | _, _ => false
       end) :: typeflow_last (match r_out r with Some o => Some o | None => cur end) tl
  end.

Definition typeflow (v : variant) (rs : list nreport) : list bool :=
  if track_last_data v then typeflow_last None rs else typeflow_adjacent None rs.

(* validate_pipeline raises iff some node has an error *)
Definition valid (v : variant) (rs : list nreport) : bool :=
  forallb (fun r : nreport => match r_errors r with [] => true | _ => false end) rs
  && forallb negb (typeflow v rs).

Definition all_errors (v : variant) (rs : list nreport) : list (list string) :=
  map (fun p : nreport * bool => (r_errors (fst p) ++ (if snd p then ["type"] else []))%list) (combine rs (typeflow v rs)).
