(* Model/InspectCases.v — comparison of the model's inspection report with the implementation's. *)
From Coq Require Import List String ZArith Bool Arith.
From SV Require Import Common.Prelude Model.Pipeline Model.Inspect.
Import ListNotations.
Open Scope string_scope.

Record xnode := mkX {
  x_invalid : bool;
  x_invalid_params : list string;
  x_origins : list (string * origin);
  x_created : list string;
  x_suppressed : list string;
  x_in : option dtype;
  x_out : option dtype;
  x_errors : list string
}.

Definition ssort (l : list string) : list string := ksort (fun s => s) l.
Fixpoint slist_eqb (a b : list string) : bool :=
  match a, b with
  | [], [] => true
  | x :: a', y :: b' => String.eqb x y && slist_eqb a' b'
  | _, _ => false
  end.
Definition sset_eqb (a b : list string) : bool := slist_eqb (ssort a) (ssort b).

Definition origin_eqb (a b : origin) : bool :=
  match a, b with
  | OConfig, OConfig | ODefault, ODefault => true
  | OContext None, OContext None => true
  | OContext (Some i), OContext (Some j) => Nat.eqb i j
  | _, _ => false
  end.

Definition origins_eqb (a b : list (string * origin)) : bool :=
  let sa := ksort fst a in let sb := ksort fst b in
  Nat.eqb (List.length sa) (List.length sb)
  && forallb (fun p => String.eqb (fst (fst p)) (fst (snd p)) && origin_eqb (snd (fst p)) (snd (snd p))) (combine sa sb).

Definition odt_eqb (a b : option dtype) : bool :=
  match a, b with
  | None, None => true
  | Some x, Some y => dtype_eqb x y
  | _, _ => false
  end.

Definition node_matches (r : nreport) (errs : list string) (x : xnode) : bool :=
  Bool.eqb (r_invalid r) (x_invalid x)
  && (if r_invalid r then sset_eqb (r_invalid_params r) (x_invalid_params x)
      else origins_eqb (r_origins r) (x_origins x)
           && sset_eqb (r_created r) (x_created x) && sset_eqb (r_suppressed r) (x_suppressed x)
           && odt_eqb (r_in r) (x_in x) && odt_eqb (r_out r) (x_out x))
  && sset_eqb errs (x_errors x).

Definition icase := (list inode * list xnode * list string * bool)%type.

Definition icase_ok (v : variant) (c : icase) : bool :=
  match c with
  | (p, xs, req, ok) =>
      let '(rs, required) := inspect v p in
      Nat.eqb (List.length rs) (List.length xs)
      && forallb (fun t => node_matches (fst (fst t)) (snd (fst t)) (snd t)) (combine (combine rs (all_errors v rs)) xs)
      && sset_eqb required req
      && Bool.eqb (valid v rs) ok
  end.
