(* Model/JobQueue.v -- queue orchestrator (master) + workers over the ABSTRACT transport that the C14
   theorems justify (publish and pop are atomic, nothing is lost or duplicated; here every channel
   `jobs.<id>.cfg` / `jobs.<id>.status` carries exactly one message, so a wildcard subscription simply
   takes *some* queued message: the position taken is part of the actor, the theorems hold for every choice).

   state  = client's not-yet-enqueued jobs, master's FIFO job queue, cfg channel contents, each worker's hands,
            status channel contents, futures (job id -> Pending | Done | Failed), the log of status messages
            the master consumed, the log of set_result / set_exception calls, jobs a worker gave up on.
   actors = CEnqueue (client thread: enqueue the next job, creating its Future), MDequeue (master: job_queue.get
            -> publish jobs.<id>.cfg), MPoll k (master: pop one jobs.*.status message -> resolve a Future),
            WTake w k (worker w pops a cfg message), WFinish w (worker w: build + run the pipeline, annotate with the
            job id, publish the status -- or only log, depending on the generated facts).
   `step : state -> actor -> option state`; schedules are `list actor`, disabled steps are skipped (the real
   loops time out on `job_queue.get(timeout=0.2)` / sleep `poll_interval` and come round again).
   Definitions only. *)
From Coq Require Import List String Bool Arith ZArith.
From SV Require Import Model.Pipeline Model.PipelineLib.
Import ListNotations.

(* facts read from queue_orchestrator.py / worker.py (Gen/JobQueueGen.v) *)
Record facts := mkFacts {
  worker_reports_failures : bool;            (* pipeline raises: worker publishes a failure status and the master fails the Future *)
  future_resolved_by_job_id : bool;          (* master picks the Future by the job_id found in the result context *)
  non_list_config_rejected_silently : bool;  (* rejected configuration (not a list of dicts / unloadable YAML): error line only *)
}.

Inductive fkind := Raised | BadConfig.

Notation jid := nat (only parsing).

Section JobQueue.
  Variables J R E : Type.

  Inductive outcome := Succ (r : R) | Fail (k : fkind) (e : E).

  Variable exec : J -> outcome.      (* building and running the job's pipeline on the job's payload: total *)
  Variable prep : J -> J.            (* what the worker does to the received payload before running (`msg.data or NoDataType()`) *)
  Variable F : facts.

  Local Notation qjob := (jid * J)%type (only parsing).

  (* a status message: the job id is the `job_id` annotation of the result context *)
  Inductive status := SOk (i : jid) (r : R) | SErr (i : jid) (e : E).
  Definition sid (m : status) : jid := match m with SOk i _ => i | SErr i _ => i end.

  (* FDone i r : the Future returned (data, context) = r with context["job_id"] = i *)
  Inductive fstate := Pending | FDone (i : jid) (r : R) | FFailed (e : E).
  Definition fut_of (m : status) : fstate := match m with SOk i r => FDone i r | SErr _ e => FFailed e end.

  Definition reports (k : fkind) : bool :=
    match k with
    | Raised => worker_reports_failures F
    | BadConfig => negb (non_list_config_rejected_silently F)
    end.

  (* the status message a worker publishes for a job, if any *)
  Definition produced (q : qjob) : option status :=
    match exec (prep (snd q)) with
    | Succ r => Some (SOk (fst q) r)
    | Fail k e => if reports k then Some (SErr (fst q) e) else None
    end.

  Record state := mkState {
    toenq : list qjob;
    queue : list qjob;
    cfgch : list qjob;
    hands : list (option qjob);
    statch : list status;
    futs : list (jid * fstate);
    resolved : list status;
    setlog : list jid;
    dropped : list qjob
  }.

  Fixpoint remove_nth {A} (k : nat) (l : list A) : list A :=
    match l, k with
    | [], _ => []
    | _ :: t, O => t
    | x :: t, S k' => x :: remove_nth k' t
    end.

  Fixpoint set_nth {A} (k : nat) (v : A) (l : list A) : list A :=
    match l, k with
    | [], _ => []
    | _ :: t, O => v :: t
    | x :: t, S k' => x :: set_nth k' v t
    end.

  Fixpoint lookup_fut (i : jid) (fs : list (jid * fstate)) : option fstate :=
    match fs with
    | [] => None
    | (i', f) :: t => if Nat.eqb i i' then Some f else lookup_fut i t
    end.

  Fixpoint set_fut (i : jid) (v : fstate) (fs : list (jid * fstate)) : list (jid * fstate) :=
    match fs with
    | [] => []
    | (i', f) :: t => if Nat.eqb i i' then (i', v) :: t else (i', f) :: set_fut i v t
    end.

  (* first key of the pending_futures dict (insertion order) -- only used by the arrival-order variant *)
  Fixpoint first_pending (fs : list (jid * fstate)) : option jid :=
    match fs with
    | [] => None
    | (i, Pending) :: _ => Some i
    | _ :: t => first_pending t
    end.

  Inductive actor := CEnqueue | MDequeue | MPoll (k : nat) | WTake (w k : nat) | WFinish (w : nat).

  Definition with_futs (s : state) (fs : list (jid * fstate)) (sl : list jid) : state :=
    mkState (toenq s) (queue s) (cfgch s) (hands s) (statch s) fs (resolved s) sl (dropped s).

  (* `if jid in pending_futures: set_result(..); del pending_futures[jid]` *)
  Definition resolve (m : status) (s : state) : state :=
    match (if future_resolved_by_job_id F then Some (sid m) else first_pending (futs s)) with
    | Some t =>
        match lookup_fut t (futs s) with
        | Some Pending => with_futs s (set_fut t (fut_of m) (futs s)) (setlog s ++ [t])
        | _ => s
        end
    | None => s
    end.

  Definition step (s : state) (a : actor) : option state :=
    match a with
    | CEnqueue =>
        match toenq s with
        | [] => None
        | q :: t => Some (mkState t (queue s ++ [q]) (cfgch s) (hands s) (statch s)
                                  (futs s ++ [(fst q, Pending)]) (resolved s) (setlog s) (dropped s))
        end
    | MDequeue =>
        match queue s with
        | [] => None
        | q :: t => Some (mkState (toenq s) t (cfgch s ++ [q]) (hands s) (statch s) (futs s) (resolved s) (setlog s) (dropped s))
        end
    | WTake w k =>
        match nth_error (hands s) w, nth_error (cfgch s) k with
        | Some None, Some q =>
            Some (mkState (toenq s) (queue s) (remove_nth k (cfgch s)) (set_nth w (Some q) (hands s)) (statch s)
                          (futs s) (resolved s) (setlog s) (dropped s))
        | _, _ => None
        end
    | WFinish w =>
        match nth_error (hands s) w with
        | Some (Some q) =>
            match produced q with
            | Some m => Some (mkState (toenq s) (queue s) (cfgch s) (set_nth w None (hands s)) (statch s ++ [m])
                                      (futs s) (resolved s) (setlog s) (dropped s))
            | None => Some (mkState (toenq s) (queue s) (cfgch s) (set_nth w None (hands s)) (statch s)
                                    (futs s) (resolved s) (setlog s) (dropped s ++ [q]))
            end
        | _ => None
        end
    | MPoll k =>
        match nth_error (statch s) k with
        | Some m => Some (resolve m (mkState (toenq s) (queue s) (cfgch s) (hands s) (remove_nth k (statch s))
                                             (futs s) (resolved s ++ [m]) (setlog s) (dropped s)))
        | None => None
        end
    end.

  Definition step' (s : state) (a : actor) : state := match step s a with Some s' => s' | None => s end.
  Definition run (sch : list actor) (s : state) : state := fold_left step' sch s.

  Definition init (all : list qjob) (nw : nat) : state :=
    mkState all [] [] (repeat None nw) [] [] [] [] [].

  (* job ids: uuid4 in the code, only distinctness matters; positions in enqueue order here *)
  Definition number (js : list J) : list qjob := combine (seq 0 (List.length js)) js.

  Definition held (h : list (option qjob)) : list qjob :=
    flat_map (fun o => match o with Some q => [q] | None => [] end) h.

  (* where the jobs are *)
  Definition places (s : state) : list jid :=
    map fst (toenq s) ++ map fst (queue s) ++ map fst (cfgch s) ++ map fst (held (hands s))
    ++ map sid (statch s) ++ map sid (resolved s) ++ map fst (dropped s).

  (* progress measure: stages still ahead of all jobs *)
  Definition measure (s : state) : nat :=
    5 * List.length (toenq s) + 4 * List.length (queue s) + 3 * List.length (cfgch s) + 2 * List.length (held (hands s)) + List.length (statch s).

  Definition quiescent (s : state) : Prop := forall a, step s a = None.

  Definition is_pending (f : fstate) : bool := match f with Pending => true | _ => false end.

  (* decidable counterpart of `quiescent` for the correspondence *)
  Definition quiescentb (s : state) : bool :=
    match toenq s, queue s, statch s, held (hands s) with
    | [], [], [], [] => match cfgch s, hands s with [], _ => true | _ :: _, [] => true | _ :: _, _ :: _ => false end
    | _, _, _, _ => false
    end.

  (* ---- trace validation: observed events name job ids, not positions ---- *)
  Inductive event := EEnq (i : jid) | EDeq (i : jid) | ETake (w : nat) (i : jid) | EFin (w : nat) (i : jid) | EPoll (i : jid).

  Fixpoint index_of {A} (p : A -> bool) (l : list A) : option nat :=
    match l with
    | [] => None
    | x :: t => if p x then Some 0 else match index_of p t with Some k => Some (S k) | None => None end
    end.

  Definition actor_of (s : state) (e : event) : option actor :=
    match e with
    | EEnq i => match toenq s with q :: _ => if Nat.eqb (fst q) i then Some CEnqueue else None | [] => None end
    | EDeq i => match queue s with q :: _ => if Nat.eqb (fst q) i then Some MDequeue else None | [] => None end
    | ETake w i => match index_of (fun q : qjob => Nat.eqb (fst q) i) (cfgch s) with Some k => Some (WTake w k) | None => None end
    | EFin w i => match nth_error (hands s) w with
                  | Some (Some q) => if Nat.eqb (fst q) i then Some (WFinish w) else None
                  | _ => None
                  end
    | EPoll i => match index_of (fun m => Nat.eqb (sid m) i) (statch s) with Some k => Some (MPoll k) | None => None end
    end.

  (* strict: every observed event must be enabled in the model *)
  Fixpoint replay (evs : list event) (s : state) : option state :=
    match evs with
    | [] => Some s
    | e :: t => match actor_of s e with
                | Some a => match step s a with Some s' => replay t s' | None => None end
                | None => None
                end
    end.

  (* a fair schedule that drains any batch of n jobs with nw >= 1 workers (used to compute the prediction) *)
  Definition round (nw : nat) : list actor :=
    [CEnqueue; MDequeue] ++ flat_map (fun w => [WTake w 0; WFinish w]) (seq 0 nw) ++ [MPoll 0].
  Fixpoint rounds (n nw : nat) : list actor := match n with O => [] | S n' => round nw ++ rounds n' nw end.
End JobQueue.

Arguments Succ {R E} r.
Arguments Fail {R E} k e.
Arguments SOk {R E} i r.
Arguments SErr {R E} i e.
Arguments Pending {R E}.
Arguments FDone {R E} i r.
Arguments FFailed {R E} e.
Arguments mkState {J R E}.

(* ====================================================================================================
   The instance used by the correspondence: jobs are pipelines of Model/Pipeline.v + PipelineLib.v. *)
Record pjob := mkPJob {
  pj_nodes : list node;
  pj_data : data;
  pj_ctx : ctx;
  pj_cfg_ok : bool          (* the configuration is a list of dicts *)
}.

Definition err_cls (e : err) : string := match e with Err _ cls _ => cls end.

(* "running that job's pipeline on that job's payload", as the worker does it: Pipeline(cfg).process(Payload(data, ctx));
   the error of a rejected configuration is not predicted (class "" matches anything) *)
Definition pexec (j : pjob) : outcome Pipeline.state string :=
  if pj_cfg_ok j then
    match impl_run (pj_nodes j) (pj_data j, pj_ctx j) with
    | Done s => Succ s
    | Failed _ e => Fail Raised (err_cls e)
    | CFailed _ e => Fail Raised (err_cls e)
    end
  else Fail BadConfig ""%string.

(* `data = msg.data or NoDataType()`: a payload whose truth value is False (an empty collection) is replaced *)
Definition pprep (falsy_replaced : bool) (j : pjob) : pjob :=
  if falsy_replaced then
    match pj_data j with
    | DC [] => mkPJob (pj_nodes j) DNone (pj_ctx j) (pj_cfg_ok j)
    | _ => j
    end
  else j.

(* what the harness observed for one Future *)
Inductive ofut := OPending | ODone (i : nat) (d : data) (c : ctx) | OFailed (cls : string).

Definition fut_matches (f : option (fstate Pipeline.state string)) (o : ofut) : bool :=
  match f, o with
  | Some Pending, OPending => true
  | Some (FDone i (d, c)), ODone i' d' c' => Nat.eqb i i' && data_eqb d d' && ctx_eqb c c'
  | Some (FFailed e), OFailed cls => String.eqb e "" || String.eqb e cls
  | _, _ => false
  end.

Record qcase := mkQCase {
  qc_facts : facts;
  qc_falsy : bool;
  qc_jobs : list pjob;
  qc_workers : nat;
  qc_events : list event;
  qc_quiescent : bool;            (* the real system was observed quiescent *)
  qc_observed : list ofut         (* per job, in enqueue order *)
}.

Definition pstate := state pjob Pipeline.state string.

Fixpoint futs_differ (i : nat) (fs : list (jid * fstate Pipeline.state string)) (obs : list ofut) : bool :=
  match obs with
  | [] => false
  | o :: t => negb (fut_matches (lookup_fut _ _ i fs) o) || futs_differ (S i) fs t
  end.

(* 0 = agreement; 1 = an observed event is not enabled in the model; 2 = model not quiescent although the real system was;
   3 = a Future differs from the model's after the same events; 4 = a Future differs from the model's prediction
   under the canonical fair schedule (only compared when the real system was quiescent); 5 = malformed case *)
Definition qcase_code (c : qcase) : nat :=
  let ex := pexec in
  let pr := pprep (qc_falsy c) in
  let s0 : pstate := init _ _ _ (number _ (qc_jobs c)) (qc_workers c) in
  if negb (Nat.eqb (List.length (qc_observed c)) (List.length (qc_jobs c))) then 5 else
  match replay _ _ _ ex pr (qc_facts c) (qc_events c) s0 with
  | None => 1
  | Some s =>
      if qc_quiescent c && negb (quiescentb _ _ _ s) then 2
      else if futs_differ 0 (futs _ _ _ s) (qc_observed c) then 3
      else if qc_quiescent c &&
              futs_differ 0 (futs _ _ _ (run _ _ _ ex pr (qc_facts c) (rounds (List.length (qc_jobs c)) (qc_workers c)) s0)) (qc_observed c)
           then 4
      else 0
  end.

Fixpoint bad_cases (i : nat) (cs : list qcase) : list nat :=
  match cs with
  | [] => []
  | c :: t => match qcase_code c with
              | O => bad_cases (S i) t
              | k => (10 * i + k) :: bad_cases (S i) t
              end
  end.
