(* Model/Json.v — JSON values and the text produced by
   json.dumps(obj, sort_keys=True, separators=(",", ":")).
   Number literals are carried as the token Python prints (the harness obtains it
   with json.dumps(x)); strings are restricted to printable ASCII without the
   double quote and the backslash, so no escaping is ever needed (bound: jok).
   Definitions only. *)
From Coq Require Import List String Ascii NArith Bool.
From SV Require Import Common.Prelude.
Import ListNotations.
Open Scope string_scope.

Inductive json :=
| JNull
| JBool (b : bool)
| JNum (lit : string)
| JStr (s : string)
| JArr (l : list json)
| JObj (m : list (string * json)).

(* ---- canonical form: mapping members sorted by key at every depth
   (what sort_keys=True does while printing) *)
Fixpoint canon (j : json) : json :=
  match j with
  | JArr l => JArr (map canon l)
  | JObj m => JObj (ksort fst (map (fun kv => match kv with (k, v) => (k, canon v) end) m))
  | _ => j
  end.

(* ---- tokens *)
Inductive tok :=
| TNull | TTrue | TFalse | TNum (s : string) | TStr (s : string)
| TLB | TRB | TLC | TRC | TComma | TColon.

(* tokens of j followed by k, members in the order given *)
Fixpoint toksk (j : json) (k : list tok) {struct j} : list tok :=
  match j with
  | JNull => TNull :: k
  | JBool b => (if b then TTrue else TFalse) :: k
  | JNum s => TNum s :: k
  | JStr s => TStr s :: k
  | JArr l =>
      TLB :: (fix tl (l : list json) (k : list tok) {struct l} : list tok :=
                match l with
                | [] => k
                | a :: r => match r with [] => toksk a k | _ :: _ => toksk a (TComma :: tl r k) end
                end) l (TRB :: k)
  | JObj m =>
      TLC :: (fix tm (m : list (string * json)) (k : list tok) {struct m} : list tok :=
                match m with
                | [] => k
                | (key, v) :: r =>
                    TStr key :: TColon ::
                    match r with [] => toksk v k | _ :: _ => toksk v (TComma :: tm r k) end
                end) m (TRC :: k)
  end.

Definition quote : string := String (ascii_of_nat 34) EmptyString.
(* json.dumps escapes of the double quote and the backslash (other escapes are outside the
   printable-ASCII alphabet of the harness) *)
Fixpoint escape (s : string) : string :=
  match s with
  | EmptyString => EmptyString
  | String c r =>
      if (N_of_ascii c =? 34)%N || (N_of_ascii c =? 92)%N
      then String (ascii_of_nat 92) (String c (escape r))
      else String c (escape r)
  end.

Definition render_tok (t : tok) : string :=
  match t with
  | TNull => "null" | TTrue => "true" | TFalse => "false"
  | TNum s => s
  | TStr s => quote ++ escape s ++ quote
  | TLB => "[" | TRB => "]" | TLC => "{" | TRC => "}" | TComma => "," | TColon => ":"
  end.

Fixpoint render (l : list tok) : string :=
  match l with [] => "" | t :: r => render_tok t ++ render r end.

Definition dumps_tokens (j : json) : list tok := toksk (canon j) [].
Definition dumps_sorted (j : json) : string := render (dumps_tokens j).

(* ---- the fragment: what the model's JSON text is claimed for *)
Definition char_ok (c : ascii) : bool :=
  let n := N_of_ascii c in
  (32 <=? n)%N && (n <=? 126)%N && negb (n =? 34)%N && negb (n =? 92)%N.
Definition str_ok (s : string) : bool := str_forall char_ok s.

(* characters of a printed number: digits + - . e E ; first one a digit or '-' *)
Definition num_char (c : ascii) : bool :=
  let n := N_of_ascii c in
  is_digit c || (n =? 43)%N || (n =? 45)%N || (n =? 46)%N || (n =? 101)%N || (n =? 69)%N.
Definition num_first (c : ascii) : bool := is_digit c || (N_of_ascii c =? 45)%N.
Definition numlit_ok (s : string) : bool :=
  match s with EmptyString => false | String c _ => num_first c && str_forall num_char s end.

Fixpoint mem_str (x : string) (l : list string) : bool :=
  match l with [] => false | y :: r => String.eqb x y || mem_str x r end.
Fixpoint nodupb (l : list string) : bool :=
  match l with [] => true | x :: r => negb (mem_str x r) && nodupb r end.

Fixpoint jok (j : json) : bool :=
  match j with
  | JNull | JBool _ => true
  | JNum s => numlit_ok s
  | JStr s => str_ok s
  | JArr l => forallb jok l
  | JObj m => nodupb (map fst m) &&
              forallb (fun kv => match kv with (k, v) => str_ok k && jok v end) m
  end.

(* ---- equality up to the order of mapping members, at any depth *)
Inductive jeq : json -> json -> Prop :=
| jeq_null : jeq JNull JNull
| jeq_bool b : jeq (JBool b) (JBool b)
| jeq_num s : jeq (JNum s) (JNum s)
| jeq_str s : jeq (JStr s) (JStr s)
| jeq_arr l l' : jeql l l' -> jeq (JArr l) (JArr l')
| jeq_obj m m1 m' : Permutation.Permutation m m1 -> jeqm m1 m' -> jeq (JObj m) (JObj m')
with jeql : list json -> list json -> Prop :=
| jeql_nil : jeql [] []
| jeql_cons a a' l l' : jeq a a' -> jeql l l' -> jeql (a :: l) (a' :: l')
with jeqm : list (string * json) -> list (string * json) -> Prop :=
| jeqm_nil : jeqm [] []
| jeqm_cons k a a' l l' : jeq a a' -> jeqm l l' -> jeqm ((k, a) :: l) ((k, a') :: l').

(* helpers used by the correspondence shards *)
Fixpoint bad_indices {A} (ok : A -> bool) (l : list A) (i : nat) : list nat :=
  match l with
  | [] => []
  | x :: tl => if ok x then bad_indices ok tl (S i) else i :: bad_indices ok tl (S i)
  end.
