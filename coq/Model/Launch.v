(* Model/Launch.v — a run-space launch through `semantiva run` (semantiva/cli/__init__.py: _run),
   the run-space identifiers (trace/runtime/run_space_identity.py, run_space_launch.py,
   inspection/builder.py: _compute_run_space_spec_id) and the trace skeleton the JSONL driver leaves
   (trace/drivers/jsonl.py, execution/orchestrator/orchestrator.py: pipeline_start foreign keys).
   Spec = documented behaviour (a launch is its standalone runs, in plan order, up to the first failing run,
   bracketed by one start and one end record).  Impl = how the code does it: ONE Pipeline object and ONE driver
   for all runs (canonical spec enriched in place by a traced run, driver sequence numbers).
   Definitions only. *)
From Coq Require Import List String ZArith NArith Bool Arith Permutation.
From SV Require Import Common.Prelude Model.Pipeline.
Import ListNotations.
Open Scope string_scope.
Open Scope list_scope.

(* ---- facts about the code's variant (Gen/LaunchGen.v) -------------------------------------- *)
Record variant := mkVariant {
  v_enrich_on_copy : bool;      (* PROBED: a traced run leaves Pipeline.canonical_spec unchanged *)
  v_stop_after_failure : bool;  (* the exception handler encloses the loop over runs *)
  v_paths_agree : bool          (* inspect computes the spec id through the dataclass path of the runtime *)
}.

(* ---- trace skeleton ----------------------------------------------------------------------------- *)
Definition fkrec := (string * Z * nat * ctx)%type.       (* launch id, attempt, 0-based index, run context *)

Inductive ev :=
| RSStart (seq : nat) (spec_id launch : string) (attempt : Z) (combine : string) (planned : nat) (maxr : Z) (inputs : option string)
| PStart (seq : nat) (plid : string) (fk : option fkrec)
| Ser (idx : nat) (ok : bool)
| PEnd (seq : nat) (ok : bool)
| RSEnd (seq : nat) (launch : string) (attempt : Z) (planned completed : nat) (status : string).

Definition norm_ev (e : ev) : ev :=
  match e with
  | RSStart _ a b c d f g h => RSStart 0 a b c d f g h
  | PStart _ p fk => PStart 0 p fk
  | Ser i b => Ser i b
  | PEnd _ b => PEnd 0 b
  | RSEnd _ a b c d s => RSEnd 0 a b c d s
  end.

Definition strip_fk_ev (e : ev) : ev :=
  match e with PStart s p _ => PStart s p None | _ => e end.

Definition is_rs (e : ev) : bool := match e with RSStart _ _ _ _ _ _ _ _ | RSEnd _ _ _ _ _ _ => true | _ => false end.
Definition is_rs_start (e : ev) : bool := match e with RSStart _ _ _ _ _ _ _ _ => true | _ => false end.
Definition is_rs_end (e : ev) : bool := match e with RSEnd _ _ _ _ _ _ => true | _ => false end.
Definition is_pstart (e : ev) : bool := match e with PStart _ _ _ => true | _ => false end.

(* ---- pipelines ------------------------------------------------------------------------------------- *)
(* canonical JSON text of the pipeline before / after a traced run added the sweep metadata
   (equal when no node carries preprocessor metadata); taken from the implementation *)
Record pipe := mkPipe { p_nodes : list node; p_canon : string; p_canon_enriched : string }.

Definition is_done (o : outcome) : bool := match o with Done _ => true | _ => false end.

(* node records of one run: one per started node, the failing one marked *)
Definition body (p : list node) (s : state) : list ev :=
  match impl_run p s with
  | Done _ => map (fun i => Ser i true) (exec_log 0 p s) ++ [PEnd 0 true]
  | Failed k _ => map (fun i => Ser i (negb (Nat.eqb i k))) (exec_log 0 p s) ++ [PEnd 0 false]
  | CFailed _ _ => []     (* not reachable through the CLI: the pre-flight rejects such configurations *)
  end.

Record runobs := mkRun { ro_outcome : outcome; ro_events : list ev }.

Definition norm_run (r : runobs) : runobs := mkRun (ro_outcome r) (map norm_ev (ro_events r)).
Definition strip_fk (r : runobs) : runobs := mkRun (ro_outcome r) (map strip_fk_ev (ro_events r)).

(* run context of the CLI: dict(ctx_dict); update(run_values) *)
Definition merge (cli r : ctx) : ctx := fold_left (fun c kv => update (fst kv) (snd kv) c) r cli.

Record lopts := mkOpts {
  o_active : bool;            (* a run_space block is declared *)
  o_traced : bool;
  o_dir : bool;               (* trace output is a directory *)
  o_cli : ctx;                (* --context pairs *)
  o_launch : string;          (* resolved launch id *)
  o_attempt : Z;
  o_spec_id : string;
  o_inputs_id : option string;
  o_combine : string;
  o_maxr : Z
}.

Section Hashed.
Variable H : string -> string.          (* "plid-" ++ sha256 *)

(* ---- Spec -------------------------------------------------------------------------------------------- *)
Definition standalone (pl : pipe) (traced : bool) (c : ctx) : runobs :=
  mkRun (impl_run (p_nodes pl) (DNone, c))
        (if traced then PStart 0 (H (p_canon pl)) None :: body (p_nodes pl) (DNone, c) else []).

Definition set_fk (fk : option fkrec) (e : ev) : ev :=
  match e with PStart s p _ => PStart s p fk | _ => e end.
Definition tag (o : lopts) (i : nat) (c : ctx) (r : runobs) : runobs :=
  if o_active o then mkRun (ro_outcome r) (map (set_fk (Some (o_launch o, o_attempt o, i, c))) (ro_events r)) else r.

Fixpoint spec_runs (pl : pipe) (o : lopts) (i : nat) (cs : list ctx) : list runobs :=
  match cs with
  | [] => []
  | c :: tl =>
      let r := tag o i (merge (o_cli o) c) (standalone pl (o_traced o) (merge (o_cli o) c)) in
      r :: (if is_done (ro_outcome r) then spec_runs pl o (S i) tl else [])
  end.

Definition completed (rs : list runobs) : nat := List.length (filter (fun r => is_done (ro_outcome r)) rs).
Definition all_done (rs : list runobs) : bool := forallb (fun r => is_done (ro_outcome r)) rs.

Record launch_obs := mkLaunch { l_start : list ev; l_runs : list runobs; l_end : list ev; l_exit : Z }.

Definition start_ev (o : lopts) (seq n : nat) : list ev :=
  if o_active o && o_traced o
  then [RSStart seq (o_spec_id o) (o_launch o) (o_attempt o) (o_combine o) n (o_maxr o) (o_inputs_id o)] else [].
Definition end_ev (o : lopts) (seq n : nat) (rs : list runobs) : list ev :=
  if o_active o && o_traced o
  then [RSEnd seq (o_launch o) (o_attempt o) n (completed rs) (if all_done rs then "" else "failed")] else [].
Definition exit_of (rs : list runobs) : Z := if all_done rs then 0%Z else 4%Z.

Definition spec_launch (pl : pipe) (o : lopts) (cs : list ctx) : launch_obs :=
  let rs := spec_runs pl o 0 cs in
  mkLaunch (start_ev o 0 (List.length cs)) rs (end_ev o 0 (List.length cs) rs) (exit_of rs).

(* ---- Impl: one Pipeline object, one driver --------------------------------------------------------------- *)
Record istate := mkI { i_enriched : bool; i_seq : nat }.

Definition impl_plid (v : variant) (pl : pipe) (st : istate) : string :=
  if v_enrich_on_copy v then H (p_canon pl)
  else if i_enriched st then H (p_canon_enriched pl) else H (p_canon pl).

Definition seq_ev (s : nat) (e : ev) : ev :=
  match e with PEnd _ b => PEnd s b | _ => e end.

Definition impl_one (v : variant) (pl : pipe) (o : lopts) (st : istate) (i : nat) (c : ctx) : runobs * istate :=
  let out := impl_run (p_nodes pl) (DNone, c) in
  if o_traced o then
    let fk := if o_active o then Some (o_launch o, o_attempt o, i, c) else None in
    let b := body (p_nodes pl) (DNone, c) in
    (mkRun out (PStart (S (i_seq st)) (impl_plid v pl st) fk :: map (seq_ev (S (S (i_seq st)))) b),
     mkI true (match b with [] => S (i_seq st) | _ => S (S (i_seq st)) end))
  else (mkRun out [], st).

Fixpoint impl_runs (v : variant) (pl : pipe) (o : lopts) (st : istate) (i : nat) (cs : list ctx) : list runobs * istate :=
  match cs with
  | [] => ([], st)
  | c :: tl =>
      let '(r, st1) := impl_one v pl o st i (merge (o_cli o) c) in
      if is_done (ro_outcome r) || negb (v_stop_after_failure v)
      then let '(rs, st2) := impl_runs v pl o st1 (S i) tl in (r :: rs, st2)
      else ([r], st1)
  end.

Definition impl_launch (v : variant) (pl : pipe) (o : lopts) (cs : list ctx) : launch_obs :=
  let s0 := if o_active o && o_traced o then 1 else 0 in
  let '(rs, st) := impl_runs v pl o (mkI false s0) 0 cs in
  mkLaunch (start_ev o 1 (List.length cs)) rs (end_ev o (S (i_seq st)) (List.length cs) rs) (exit_of rs).

Definition norm_launch (l : launch_obs) : launch_obs :=
  mkLaunch (map norm_ev (l_start l)) (map norm_run (l_runs l)) (map norm_ev (l_end l)) (l_exit l).

(* the records of a launch in emission order *)
Definition flat (l : launch_obs) : list ev := l_start l ++ flat_map ro_events (l_runs l) ++ l_end l.

(* files left by the driver: one file, or a run-space file plus one file per started run *)
Inductive fkind := FSingle | FRunSpace | FSer.
Definition files (o : lopts) (l : launch_obs) : list (fkind * list ev) :=
  if o_traced o then
    if o_dir o
    then (if o_active o then [(FRunSpace, l_start l ++ l_end l)] else []) ++ map (fun r => (FSer, ro_events r)) (l_runs l)
    else [(FSingle, flat l)]
  else [].
End Hashed.

(* ---- run-space configuration: raw YAML mapping, dataclass, canonical JSON -------------------------------- *)
Inductive jv := JNull | JBool (b : bool) | JInt (z : Z) | JFloat (z : Z) (* z.0 *) | JStr (s : string)
              | JArr (l : list jv) | JObj (l : list (string * jv)).

(* the written run_space mapping: fields in file order; scalars of context lists are JSON scalars *)
Inductive sfield := SFormat (s : string) | SPath (s : string) | SSelect (l : option (list string))
                  | SRename (l : list (string * string)) | SMode (s : string).
Inductive bfield := BMode (s : string) | BContext (l : list (string * list jv)) | BSource (l : option (list sfield)).
Inductive rfield := RCombine (s : string) | RMaxRuns (z : Z) | RDryRun (b : bool) | RBlocks (l : list (list bfield)).
Definition raw := list rfield.

Definition skey (f : sfield) : string :=
  match f with SFormat _ => "format" | SPath _ => "path" | SSelect _ => "select" | SRename _ => "rename" | SMode _ => "mode" end.
Definition bkey (f : bfield) : string :=
  match f with BMode _ => "mode" | BContext _ => "context" | BSource _ => "source" end.
Definition rkey (f : rfield) : string :=
  match f with RCombine _ => "combine" | RMaxRuns _ => "max_runs" | RDryRun _ => "dry_run" | RBlocks _ => "blocks" end.

(* first field for which f answers (dict.get on a mapping with unique keys) *)
Fixpoint find_map {A B} (f : A -> option B) (l : list A) : option B :=
  match l with
  | [] => None
  | x :: tl => match f x with Some b => Some b | None => find_map f tl end
  end.
Definition dflt {A} (d : A) (o : option A) : A := match o with Some a => a | None => d end.

(* the dataclasses RunSource / RunBlock / RunSpaceV1Config *)
Record csource := mkCSource { s_format : string; s_path : string; s_select : option (list string);
                              s_rename : list (string * string); s_mode : string }.
Record cblock := mkCBlock { b_mode : string; b_context : list (string * list jv); b_source : option csource }.
Record cfg := mkCfg { c_combine : string; c_max_runs : Z; c_dry_run : bool; c_blocks : list cblock }.

(* _parse_run_space_block (accepted configurations; defaults filled in) *)
Definition parse_source (l : list sfield) : csource :=
  mkCSource (dflt "" (find_map (fun f => match f with SFormat s => Some s | _ => None end) l))
            (dflt "" (find_map (fun f => match f with SPath s => Some s | _ => None end) l))
            (dflt None (find_map (fun f => match f with SSelect s => Some s | _ => None end) l))
            (dflt [] (find_map (fun f => match f with SRename s => Some s | _ => None end) l))
            (dflt "by_position" (find_map (fun f => match f with SMode s => Some s | _ => None end) l)).
Definition parse_block (l : list bfield) : cblock :=
  mkCBlock (dflt "" (find_map (fun f => match f with BMode s => Some s | _ => None end) l))
           (dflt [] (find_map (fun f => match f with BContext s => Some s | _ => None end) l))
           (match dflt None (find_map (fun f => match f with BSource s => Some s | _ => None end) l) with
            | Some sf => Some (parse_source sf) | None => None end).
Definition parse (r : raw) : cfg :=
  mkCfg (dflt "combinatorial" (find_map (fun f => match f with RCombine s => Some s | _ => None end) r))
        (dflt 1000%Z (find_map (fun f => match f with RMaxRuns s => Some s | _ => None end) r))
        (dflt false (find_map (fun f => match f with RDryRun s => Some s | _ => None end) r))
        (map parse_block (dflt [] (find_map (fun f => match f with RBlocks s => Some s | _ => None end) r))).

(* RSCF v1 of asdict(cfg): every mapping with its keys in sorted order *)
Definition jstrs (l : list string) : jv := JArr (map JStr l).
Definition source_json (s : csource) : jv :=
  JObj [("format", JStr (s_format s)); ("mode", JStr (s_mode s)); ("path", JStr (s_path s));
        ("rename", JObj (ksort fst (map (fun p => (fst p, JStr (snd p))) (s_rename s))));
        ("select", match s_select s with None => JNull | Some l => jstrs l end)].
Definition block_json (b : cblock) : jv :=
  JObj [("context", JObj (ksort fst (map (fun p => (fst p, JArr (snd p))) (b_context b))));
        ("mode", JStr (b_mode b));
        ("source", match b_source b with None => JNull | Some s => source_json s end)].
Definition cfg_json (c : cfg) : jv :=
  JObj [("blocks", JArr (map block_json (c_blocks c))); ("combine", JStr (c_combine c));
        ("dry_run", JBool (c_dry_run c)); ("max_runs", JInt (c_max_runs c))].

(* RSCF v1 of the raw mapping (what inspection hashes when the two paths differ): only written keys *)
Definition sfield_json (f : sfield) : string * jv :=
  (skey f, match f with
           | SFormat s | SPath s | SMode s => JStr s
           | SSelect None => JNull | SSelect (Some l) => jstrs l
           | SRename l => JObj (ksort fst (map (fun p => (fst p, JStr (snd p))) l))
           end).
Definition bfield_json (f : bfield) : string * jv :=
  (bkey f, match f with
           | BMode s => JStr s
           | BContext l => JObj (ksort fst (map (fun p => (fst p, JArr (snd p))) l))
           | BSource None => JNull
           | BSource (Some l) => JObj (ksort fst (map sfield_json l))
           end).
Definition rfield_json (f : rfield) : string * jv :=
  (rkey f, match f with
           | RCombine s => JStr s | RMaxRuns z => JInt z | RDryRun b => JBool b
           | RBlocks l => JArr (map (fun b => JObj (ksort fst (map bfield_json b))) l)
           end).
Definition raw_json (r : raw) : jv := JObj (ksort fst (map rfield_json r)).

(* cosmetic edits of the written mapping: key order at the top level, inside a block, inside a context mapping *)
Inductive bcos : list bfield -> list bfield -> Prop :=
| bcos_swap a x y b : bkey x <> bkey y -> bcos (a ++ x :: y :: b) (a ++ y :: x :: b)
| bcos_ctx a l l' b : Permutation l l' -> NoDup (map fst l) -> bcos (a ++ BContext l :: b) (a ++ BContext l' :: b).
Inductive cosmetic : raw -> raw -> Prop :=
| cos_refl r : cosmetic r r
| cos_trans r1 r2 r3 : cosmetic r1 r2 -> cosmetic r2 r3 -> cosmetic r1 r3
| cos_swap a x y b : rkey x <> rkey y -> cosmetic (a ++ x :: y :: b) (a ++ y :: x :: b)
| cos_block a p blk blk' q b : bcos blk blk' -> cosmetic (a ++ RBlocks (p ++ blk :: q) :: b) (a ++ RBlocks (p ++ blk' :: q) :: b).

(* json.dumps(separators=(",", ":"), ensure_ascii=False) for printable ASCII strings without quote and backslash *)
Definition print_Z (z : Z) : string := ((if (z <? 0)%Z then "-" else "") ++ print_N (Z.abs_N z))%string.
Fixpoint jprint (j : jv) : string :=
  match j with
  | JNull => "null"
  | JBool b => if b then "true" else "false"
  | JInt z => print_Z z
  | JFloat z => (print_Z z ++ ".0")%string
  | JStr s => ("""" ++ s ++ """")%string
  | JArr l => ("[" ++ String.concat "," (map jprint l) ++ "]")%string
  | JObj l => ("{" ++ String.concat "," (map (fun p => """" ++ fst p ++ """:" ++ jprint (snd p)) l) ++ "}")%string
  end.

Section Ids.
Variable HJ : jv -> string.           (* sha256("semantiva:rscf1:" + utf8(dumps(.))) on canonical JSON values *)
Variable HS : string -> string.       (* sha256 of a byte string *)

Definition spec_id_runtime (r : raw) : string := HJ (cfg_json (parse r)).
Definition spec_id_inspect (v : variant) (r : raw) : string :=
  if v_paths_agree v then HJ (cfg_json (parse r)) else HJ (raw_json r).

(* fingerprints: (role, uri, sha256 digest, size) ; RSM v1 payload sorted by (role, uri) is taken as given order *)
Definition fingerprint := (string * string * string * Z)%type.
Definition fp_json (f : fingerprint) : jv :=
  match f with (role, uri, dg, size) =>
    JObj [("role", JStr role); ("uri", JStr uri); ("sha256", JStr dg); ("size_bytes", JInt size)] end.
Definition rsm_json (spec_id : string) (fps : list fingerprint) : jv :=
  JObj [("spec_id", JStr spec_id); ("inputs", JArr (map fp_json fps))].
Definition inputs_id (HM : jv -> string) (spec_id : string) (fps : list fingerprint) : option string :=
  match fps with [] => None | _ => Some (HM (rsm_json spec_id fps)) end.

(* RunSpaceLaunchManager.create_launch *)
Inductive lmode := LExplicit (id : string) | LIdem (key : string) | LGenerated.
Definition launch_id (m : lmode) (spec_id : string) (inputs : option string) (fresh : string) : string :=
  match m with
  | LExplicit "" | LIdem "" | LGenerated => fresh
  | LExplicit id => id
  | LIdem key => HS ("semantiva:rsl1:" ++ dflt spec_id inputs ++ ":" ++ key)%string
  end.
End Ids.

Definition Collision {A} (h : A -> string) : Prop := exists a b, a <> b /\ h a = h b.

(* ---- decidable comparison for the correspondence ---------------------------------------------------------- *)
Fixpoint val_eqb (a b : val) {struct a} : bool :=
  match a, b with
  | VNone, VNone => true
  | VNum x, VNum y => Z.eqb x y
  | VStr s, VStr t => String.eqb s t
  | VList l, VList m =>
      (fix go (l m : list val) {struct l} : bool :=
         match l, m with
         | [], [] => true
         | x :: l', y :: m' => val_eqb x y && go l' m'
         | _, _ => false
         end) l m
  | _, _ => false
  end.
Fixpoint list_eqb {A} (eq : A -> A -> bool) (a b : list A) : bool :=
  match a, b with
  | [], [] => true
  | x :: a', y :: b' => eq x y && list_eqb eq a' b'
  | _, _ => false
  end.
(* run_space_context is written with sorted keys: compare contexts as maps *)
Definition ctx_eqb (a b : ctx) : bool :=
  Nat.eqb (List.length a) (List.length b)
  && forallb (fun kv => match lookup (fst kv) b with Some v => val_eqb (snd kv) v | None => false end) a.
Definition opt_eqb {A} (eq : A -> A -> bool) (a b : option A) : bool :=
  match a, b with Some x, Some y => eq x y | None, None => true | _, _ => false end.
Definition fk_eqb (a b : fkrec) : bool :=
  match a, b with (l1, a1, i1, c1), (l2, a2, i2, c2) => String.eqb l1 l2 && Z.eqb a1 a2 && Nat.eqb i1 i2 && ctx_eqb c1 c2 end.
Definition ev_eqb (a b : ev) : bool :=
  match a, b with
  | RSStart s1 a1 b1 c1 d1 e1 f1 g1, RSStart s2 a2 b2 c2 d2 e2 f2 g2 =>
      Nat.eqb s1 s2 && String.eqb a1 a2 && String.eqb b1 b2 && Z.eqb c1 c2 && String.eqb d1 d2 && Nat.eqb e1 e2
      && Z.eqb f1 f2 && opt_eqb String.eqb g1 g2
  | PStart s1 p1 f1, PStart s2 p2 f2 => Nat.eqb s1 s2 && String.eqb p1 p2 && opt_eqb fk_eqb f1 f2
  | Ser i1 b1, Ser i2 b2 => Nat.eqb i1 i2 && Bool.eqb b1 b2
  | PEnd s1 b1, PEnd s2 b2 => Nat.eqb s1 s2 && Bool.eqb b1 b2
  | RSEnd s1 a1 b1 c1 d1 e1, RSEnd s2 a2 b2 c2 d2 e2 =>
      Nat.eqb s1 s2 && String.eqb a1 a2 && Z.eqb b1 b2 && Nat.eqb c1 c2 && Nat.eqb d1 d2 && String.eqb e1 e2
  | _, _ => false
  end.
Definition fkind_eqb (a b : fkind) : bool :=
  match a, b with FSingle, FSingle | FRunSpace, FRunSpace | FSer, FSer => true | _, _ => false end.

(* final data of a run that completed (what the sink wrote) *)
Definition result_of (r : runobs) : option Z :=
  match ro_outcome r with Done (DF z, _) => Some z | _ => None end.
(* per planned run: Some z when the run completed *)
Definition results (n : nat) (rs : list runobs) : list (option Z) :=
  map (fun i => match nth_error rs i with Some r => result_of r | None => None end) (seq 0 n).

(* one correspondence case: what the CLI run left behind *)
Record lcase := mkCase {
  k_pipe : pipe; k_opts : lopts; k_runs : list ctx;
  k_exit : Z; k_files : list (fkind * list ev); k_results : list (option Z);
  k_raw : raw; k_rscf_runtime : string; k_rscf_inspect : string      (* canonical texts of the two paths *)
}.
Definition id_hash (s : string) : string := s.
Definition case_ok (v : variant) (k : lcase) : bool :=
  let l := impl_launch id_hash v (k_pipe k) (k_opts k) (k_runs k) in
  Z.eqb (l_exit l) (k_exit k)
  && list_eqb (fun a b => fkind_eqb (fst a) (fst b) && list_eqb ev_eqb (snd a) (snd b)) (files (k_opts k) l) (k_files k)
  && list_eqb (opt_eqb Z.eqb) (results (List.length (k_runs k)) (l_runs l)) (k_results k)
  && String.eqb (jprint (cfg_json (parse (k_raw k)))) (k_rscf_runtime k)
  && String.eqb (jprint (if v_paths_agree v then cfg_json (parse (k_raw k)) else raw_json (k_raw k))) (k_rscf_inspect k).
Fixpoint bad_from {A} (ok : A -> bool) (l : list A) (i : nat) : list nat :=
  match l with
  | [] => []
  | x :: tl => if ok x then bad_from ok tl (S i) else i :: bad_from ok tl (S i)
  end.
Definition mismatches (v : variant) (cases : list lcase) : list nat := bad_from (case_ok v) cases 0.
