(* Model/Linspace.v — numpy.linspace over binary64, as _materialize_sequences calls it for a
   linear RangeSpec: np.linspace(lo, hi, steps, endpoint=endpoint).  PrimFloat arithmetic is the
   IEEE-754 binary64 arithmetic numpy uses, so the correspondence is bit-exact (float.hex()). *)
From Coq Require Import List ZArith Bool.
From Coq Require Uint63.
From Coq Require Import PrimFloat.
Import ListNotations.

(* arange(0, num) as floats; num stays far below 2^53, so the conversion is exact *)
Definition fl_of_nat (n : nat) : float := of_uint63 (Uint63.of_Z (Z.of_nat n)).

Fixpoint set_last {A} (l : list A) (x : A) : list A :=
  match l with
  | [] => []
  | [_] => [x]
  | h :: tl => h :: set_last tl x
  end.

(* the multiplications numpy performs, in its order:
     div > 0, step <> 0 :  y * step            (step = delta / div)
     div > 0, step == 0 :  (y / div) * delta   (denormal handling, numpy gh-5437)
     div = 0            :  y * delta
   then  + start,  then the last element overwritten by stop when endpoint and num > 1 *)
Definition linspace (lo hi : float) (num : nat) (endpoint : bool) : list float :=
  let dv := if endpoint then (num - 1)%nat else num in
  let delta := PrimFloat.sub hi lo in
  let ys := map fl_of_nat (seq 0 num) in
  let fdiv := fl_of_nat dv in
  let scaled :=
    match dv with
    | O => map (fun y => PrimFloat.mul y delta) ys
    | S _ =>
        let step := PrimFloat.div delta fdiv in
        if PrimFloat.eqb step zero then map (fun y => PrimFloat.mul (PrimFloat.div y fdiv) delta) ys
        else map (fun y => PrimFloat.mul y step) ys
    end in
  let shifted := map (fun y => PrimFloat.add y lo) scaled in
  if endpoint && Nat.ltb 1 num then set_last shifted hi else shifted.

(* the documented element: lo + i * (hi - lo) / div, in float arithmetic, numpy's association *)
Definition linspace_elem (lo hi : float) (dv : nat) (i : nat) : float :=
  let delta := PrimFloat.sub hi lo in
  let fdiv := fl_of_nat dv in
  match dv with
  | O => PrimFloat.add (PrimFloat.mul (fl_of_nat i) delta) lo
  | S _ =>
      let step := PrimFloat.div delta fdiv in
      if PrimFloat.eqb step zero then PrimFloat.add (PrimFloat.mul (PrimFloat.div (fl_of_nat i) fdiv) delta) lo
      else PrimFloat.add (PrimFloat.mul (fl_of_nat i) step) lo
  end.

(* correspondence cases: (lo, hi, num, endpoint, expected) *)
Definition feqb (a b : float) : bool :=
  match PrimFloat.compare a b with
  | FEq => Bool.eqb (is_zero a && get_sign a) (is_zero b && get_sign b)   (* tell -0.0 from 0.0 *)
  | FNotComparable => is_nan a && is_nan b
  | _ => false
  end.
Fixpoint fleqb (a b : list float) : bool :=
  match a, b with
  | [], [] => true
  | x :: a', y :: b' => feqb x y && fleqb a' b'
  | _, _ => false
  end.
Definition lcase := (float * float * nat * bool * list float)%type.
Definition lbad (c : lcase) : bool :=
  let '(lo, hi, num, e, want) := c in negb (fleqb (linspace lo hi num e) want).
