(* Model/Loader.v — semantiva/configurations/load_pipeline_from_yaml.py: _parse_run_space_block.
   The run_space block as a user writes it (every member with a documented default may be left out,
   dry_run may be any YAML scalar) -> the specification the expansion is defined on (Model/RunSpace.v)
   plus the dry-run request.  What stands behind a default is a generated fact (Gen/LoaderGen.v).
   File contents are an input (the loaded columns), as in Model/RunSpace.v.  Definitions only. *)
From Coq Require Import List String ZArith Bool.
From SV Require Import Model.RunSpace.
Import ListNotations.

(* a YAML scalar in the position of run_space.dry_run *)
Inductive yval := YNull | YBool (b : bool) | YInt (z : Z) | YStr (s : string).
(* Python truthiness: bool(x) *)
Definition truthy (y : yval) : bool :=
  match y with
  | YNull => false
  | YBool b => b
  | YInt z => negb (Z.eqb z 0)
  | YStr s => negb (String.eqb s "")
  end.

Record raw_source := mkRawSource {
  rs_cols : cols; rs_select : option (list string); rs_rename : list (string * string);
  rs_mode : option mode }.                      (* None: no `mode:` key under `source:` *)
Record raw_block := mkRawBlock {
  rb_mode : mode; rb_ctx : option cols;           (* None: no `context:` key *)
  rb_src : option raw_source }.
Record raw_spec := mkRawSpec {
  r_combine : option mode; r_max_runs : option Z; r_dry : option yval; r_blocks : list raw_block }.

(* what the loader does where a member is missing / how it reads dry_run *)
Record loader_facts := mkLoaderFacts {
  d_combine : mode;                  (* block.get("combine", <d_combine>) *)
  d_max_runs : Z;                    (* block.get("max_runs", <d_max_runs>) *)
  d_source_mode : option mode;       (* source_entry.get("mode", <m>): Some m = a fixed default, None = the enclosing block's mode *)
  d_dry_truthy : bool                (* dry_run = bool(block.get("dry_run", False)); false: only the literal `true` counts *)
}.
(* the documented defaults (schema.py docstrings, docs) *)
Definition documented : loader_facts := mkLoaderFacts Combinatorial 1000 (Some ByPosition) true.

Definition load_source (f : loader_facts) (bm : mode) (s : raw_source) : source :=
  mkSource (rs_cols s) (rs_select s) (rs_rename s)
           (match rs_mode s with
            | Some m => m
            | None => match d_source_mode f with Some m => m | None => bm end
            end).
Definition load_block (f : loader_facts) (b : raw_block) : block :=
  mkBlock (rb_mode b) (match rb_ctx b with Some c => c | None => [] end)
          (option_map (load_source f (rb_mode b)) (rb_src b)).
Definition load_dry (f : loader_facts) (d : option yval) : bool :=
  match d with
  | None => false
  | Some y => if d_dry_truthy f then truthy y else match y with YBool true => true | _ => false end
  end.
Definition load (f : loader_facts) (r : raw_spec) : spec * bool :=
  (mkSpec (match r_combine r with Some m => m | None => d_combine f end)
          (match r_max_runs r with Some z => z | None => d_max_runs f end)
          (map (load_block f) (r_blocks r)),
   load_dry f (r_dry r)).

(* ---- the two ways of writing a specification down ---- *)
Definition mode_eqb (a b : mode) : bool :=
  match a, b with ByPosition, ByPosition | Combinatorial, Combinatorial => true | _, _ => false end.
Definition is_nil {A} (l : list A) : bool := match l with [] => true | _ => false end.

(* every member written *)
Definition write_full (sp : spec) (dry : bool) : raw_spec :=
  mkRawSpec (Some (sp_combine sp)) (Some (sp_max_runs sp)) (Some (YBool dry))
    (map (fun b => mkRawBlock (b_mode b) (Some (b_ctx b))
                     (option_map (fun s => mkRawSource (s_cols s) (s_select s) (s_rename s) (Some (s_mode s))) (b_src b)))
         (sp_blocks sp)).
(* every member that holds its documented default left out *)
Definition write_minimal (sp : spec) (dry : bool) : raw_spec :=
  mkRawSpec (if mode_eqb (sp_combine sp) Combinatorial then None else Some (sp_combine sp))
            (if Z.eqb (sp_max_runs sp) 1000 then None else Some (sp_max_runs sp))
            (if dry then Some (YBool true) else None)
    (map (fun b => mkRawBlock (b_mode b) (if is_nil (b_ctx b) then None else Some (b_ctx b))
                     (option_map (fun s => mkRawSource (s_cols s) (s_select s) (s_rename s)
                                             (if mode_eqb (s_mode s) ByPosition then None else Some (s_mode s))) (b_src b)))
         (sp_blocks sp)).

(* ---- correspondence: a raw block, what _parse_run_space_block made of it ---- *)
Definition option_eqb {A} (e : A -> A -> bool) (a b : option A) : bool :=
  match a, b with None, None => true | Some x, Some y => e x y | _, _ => false end.
Fixpoint list_eqb {A} (e : A -> A -> bool) (a b : list A) : bool :=
  match a, b with [] , [] => true | x :: a', y :: b' => e x y && list_eqb e a' b' | _, _ => false end.
Definition cols_eqb : cols -> cols -> bool :=
  list_eqb (fun p q => String.eqb (fst p) (fst q) && list_eqb val_eqb (snd p) (snd q)).
Definition source_eqb (a b : source) : bool :=
  cols_eqb (s_cols a) (s_cols b) && option_eqb (list_eqb String.eqb) (s_select a) (s_select b)
  && list_eqb (fun p q => String.eqb (fst p) (fst q) && String.eqb (snd p) (snd q)) (s_rename a) (s_rename b)
  && mode_eqb (s_mode a) (s_mode b).
Definition block_eqb (a b : block) : bool :=
  mode_eqb (b_mode a) (b_mode b) && cols_eqb (b_ctx a) (b_ctx b) && option_eqb source_eqb (b_src a) (b_src b).
Definition spec_eqb (a b : spec) : bool :=
  mode_eqb (sp_combine a) (sp_combine b) && Z.eqb (sp_max_runs a) (sp_max_runs b) && list_eqb block_eqb (sp_blocks a) (sp_blocks b).

Definition lcase := (raw_spec * (spec * bool))%type.
Definition lcase_ok (f : loader_facts) (c : lcase) : bool :=
  let '(sp, d) := load f (fst c) in spec_eqb sp (fst (snd c)) && Bool.eqb d (snd (snd c)).
Fixpoint lbad (f : loader_facts) (l : list lcase) (i : nat) : list nat :=
  match l with [] => [] | c :: tl => if lcase_ok f c then lbad f tl (S i) else i :: lbad f tl (S i) end.
