(* Model/Pipeline.v — dual-channel node execution of semantiva pipelines.
   Generic executor over processor records (function-valued fields), so that the
   theorems hold for every processor; a concrete component library mirroring
   semantiva.examples.test_utils is in Model/PipelineLib.v for the correspondence.
   Definitions only. *)
From Coq Require Import List String ZArith Bool.
From SV Require Import Common.Prelude.
Import ListNotations.
Open Scope string_scope.

(* ---- values, data, context ------------------------------------------------ *)
Inductive val := VNone | VNum (z : Z) | VStr (s : string) | VList (l : list val).

Inductive data := DNone | DF (z : Z) | DC (l : list Z).
Inductive dtype := TNone | TF | TC | TAny.

Definition ty_of (d : data) : dtype :=
  match d with DNone => TNone | DF _ => TF | DC _ => TC end.

Definition dtype_eqb (a b : dtype) : bool :=
  match a, b with TNone, TNone | TF, TF | TC, TC | TAny, TAny => true | _, _ => false end.

(* issubclass(type(data), input_type): TAny = BaseDataType accepts everything *)
Definition gate (want : dtype) (d : data) : bool :=
  match want with TAny => true | _ => dtype_eqb want (ty_of d) end.

Definition ctx := list (string * val).

Fixpoint lookup (k : string) (c : ctx) : option val :=
  match c with
  | [] => None
  | (k', v) :: tl => if String.eqb k k' then Some v else lookup k tl
  end.

Fixpoint update (k : string) (v : val) (c : ctx) : ctx :=
  match c with
  | [] => [(k, v)]
  | (k', v') :: tl => if String.eqb k k' then (k, v) :: tl else (k', v') :: update k v tl
  end.

Fixpoint remove (k : string) (c : ctx) : ctx :=
  match c with
  | [] => []
  | (k', v') :: tl => if String.eqb k k' then remove k tl else (k', v') :: remove k tl
  end.

Definition has (k : string) (c : ctx) : bool :=
  match lookup k c with Some _ => true | None => false end.

Definition smem (s : string) (l : list string) : bool := existsb (String.eqb s) l.

(* ---- errors ----------------------------------------------------------------- *)
Inductive stage := SGate | SResolve | SProcessor | SWrite | SDelete | SConstruct.
Inductive err := Err (st : stage) (cls : string) (what : string).

Inductive res (A : Type) := Ok (a : A) | Fail (e : err).
Arguments Ok {A} a.
Arguments Fail {A} e.

Definition bind {A B} (r : res A) (f : A -> res B) : res B :=
  match r with Ok a => f a | Fail e => Fail e end.

(* ---- processors --------------------------------------------------------------- *)
Inductive kind := KSource | KOp | KProbe | KSink | KCtx.

(* context effects a processor asks its observer for, in order *)
Inductive cop := CSet (k : string) (v : val) | CDel (k : string).

Record proc := mkProc {
  pr_kind : kind;
  pr_params : list string;                 (* names in signature order *)
  pr_defaults : list (string * val);
  pr_dynamic : bool;                       (* **kwargs-style generated class: no unknown-parameter check *)
  pr_in : dtype;
  pr_created : list string;                (* declared created / writable keys *)
  pr_suppressed : list string;             (* declared deletable keys (context processors) *)
  (* run: current data, resolved parameters (signature order) ->
     new data (operations, sources), probe result, requested context effects *)
  pr_run : data -> list (string * val) -> res (data * val * list cop)
}.

Record node := mkNode {
  n_proc : proc;
  n_cfg : list (string * val);             (* node configuration parameters *)
  n_ckey : option string                   (* context_key of a probe node *)
}.

(* ---- parameter resolution: node configuration > context > default ------------- *)
Definition resolve (cfg : list (string * val)) (c : ctx) (dfl : list (string * val)) (name : string) : res val :=
  match lookup name cfg with
  | Some v => Ok v
  | None =>
      match lookup name c with
      | Some v => Ok v
      | None =>
          match lookup name dfl with
          | Some v => Ok v
          | None => Fail (Err SResolve "KeyError" name)
          end
      end
  end.

Fixpoint resolve_all (cfg : list (string * val)) (c : ctx) (dfl : list (string * val)) (names : list string)
  : res (list (string * val)) :=
  match names with
  | [] => Ok []
  | n :: tl =>
      bind (resolve cfg c dfl n) (fun v =>
      bind (resolve_all cfg c dfl tl) (fun vs => Ok ((n, v) :: vs)))
  end.

(* ---- applying requested context effects through the (validating) observer ------ *)
(* data operations: _notify_context_update checks the key against context_keys() *)
Fixpoint apply_op_writes (declared : list string) (ops : list cop) (c : ctx) : res ctx :=
  match ops with
  | [] => Ok c
  | CSet k v :: tl =>
      if smem k declared then apply_op_writes declared tl (update k v c)
      else Fail (Err SWrite "KeyError" k)
  | CDel k :: tl => Fail (Err SDelete "KeyError" k)
  end.

(* context processors: _ValidatingContextObserver *)
Fixpoint apply_ctx_ops (created suppressed : list string) (ops : list cop) (c : ctx) : res ctx :=
  match ops with
  | [] => Ok c
  | CSet k v :: tl =>
      if smem k created then apply_ctx_ops created suppressed tl (update k v c)
      else Fail (Err SWrite "KeyError" k)
  | CDel k :: tl =>
      if smem k suppressed then
        (if has k c then apply_ctx_ops created suppressed tl (remove k c)
         else Fail (Err SDelete "KeyError" k))
      else Fail (Err SDelete "KeyError" k)
  end.

(* ---- one node --------------------------------------------------------------------- *)
Definition state := (data * ctx)%type.

Definition exec_node (n : node) (s : state) : res state :=
  let '(d, c) := s in
  let p := n_proc n in
  match pr_kind p with
  | KCtx =>
      bind (resolve_all (n_cfg n) c (pr_defaults p) (pr_params p)) (fun ps =>
      bind (pr_run p d ps) (fun r =>
      let '(_, _, ops) := r in
      bind (apply_ctx_ops (pr_created p) (pr_suppressed p) ops c) (fun c' => Ok (d, c'))))
  | k =>
      if gate (pr_in p) d then
        bind (resolve_all (n_cfg n) c (pr_defaults p) (pr_params p)) (fun ps =>
        bind (pr_run p d ps) (fun r =>
        let '(d', pv, ops) := r in
        bind (apply_op_writes (pr_created p) ops c) (fun c' =>
        match k with
        | KProbe =>
            match n_ckey n with
            | Some key => Ok (d, update key pv c')
            | None => Ok (d, c')
            end
        | KSink => Ok (d, c')
        | _ => Ok (d', c')
        end)))
      else Fail (Err SGate "TypeError" "")
  end.

(* ---- construction (all nodes are built before the first one runs) ------------------ *)
(* a generated processor whose parameter list names one parameter twice cannot get a signature
   (inspect.Signature raises ValueError "duplicate parameter name"): a sweep whose from_context key is
   spelled like an unbound parameter of the swept element, or two variables reading one key *)
Fixpoint first_dup (l : list string) : option string :=
  match l with [] => None | x :: tl => if smem x tl then Some x else first_dup tl end.

Definition construct (n : node) : res unit :=
  let p := n_proc n in
  match first_dup (pr_params p) with
  | Some x => Fail (Err SConstruct "ValueError" x)
  | None =>
  match pr_kind p, n_ckey n with
  | KProbe, None => Fail (Err SConstruct "PipelineConfigurationError" "context_key")
  | _, _ =>
      if pr_dynamic p then Ok tt
      else match filter (fun kv => negb (smem (fst kv) (pr_params p))) (n_cfg n) with
           | [] => Ok tt
           | kv :: _ => Fail (Err SConstruct "InvalidNodeParameterError" (fst kv))
           end
  end
  end.

(* ---- running a pipeline ---------------------------------------------------------------- *)
Inductive outcome :=
| Done (s : state)
| Failed (idx : nat) (e : err)          (* node idx raised; no later node ran *)
| CFailed (idx : nat) (e : err).        (* node idx could not be constructed; no node ran *)

(* Spec: fold with abort, in declaration order *)
Fixpoint run_from (i : nat) (p : list node) (s : state) : outcome :=
  match p with
  | [] => Done s
  | n :: tl =>
      match exec_node n s with
      | Ok s' => run_from (S i) tl s'
      | Fail e => Failed i e
      end
  end.
Definition run (p : list node) (s : state) : outcome := run_from 0 p s.

Fixpoint first_unconstructible (i : nat) (p : list node) : option (nat * err) :=
  match p with
  | [] => None
  | n :: tl => match construct n with Ok _ => first_unconstructible (S i) tl | Fail e => Some (i, e) end
  end.

(* Impl: construct everything, then run *)
Definition impl_run (p : list node) (s : state) : outcome :=
  match first_unconstructible 0 p with
  | Some (i, e) => CFailed i e
  | None => run p s
  end.

(* executed node indices, as an explicit log (for "no later node runs") *)
Fixpoint exec_log (i : nat) (p : list node) (s : state) : list nat :=
  match p with
  | [] => []
  | n :: tl => i :: match exec_node n s with Ok s' => exec_log (S i) tl s' | Fail _ => [] end
  end.

(* ---- processor transformers: slicers ------------------------------------------------------ *)
Fixpoint mapM {A B} (f : A -> res B) (l : list A) : res (list B) :=
  match l with
  | [] => Ok []
  | x :: tl => bind (f x) (fun y => bind (mapM f tl) (fun ys => Ok (y :: ys)))
  end.

Definition as_float (d : data) : res Z :=
  match d with DF z => Ok z | _ => Fail (Err SProcessor "TypeError" "element") end.

(* slice:<Operation>:<Collection> — element-wise map, order preserved, first failure wins *)
Definition slice_op (p : proc) : proc :=
  mkProc KOp (pr_params p) (pr_defaults p) (pr_dynamic p) TC (pr_created p) (pr_suppressed p)
    (fun d ps =>
       match d with
       | DC xs =>
           bind (mapM (fun x => bind (pr_run p (DF x) ps) (fun r => let '(d', _, ops) := r in
                                bind (as_float d') (fun z => Ok (z, ops)))) xs) (fun rs =>
           Ok (DC (map fst rs), VNone, flat_map snd rs))
       | _ => Fail (Err SProcessor "TypeError" "not a collection")
       end).

Definition slice_probe (p : proc) : proc :=
  mkProc KProbe (pr_params p) (pr_defaults p) (pr_dynamic p) TC (pr_created p) (pr_suppressed p)
    (fun d ps =>
       match d with
       | DC xs =>
           bind (mapM (fun x => bind (pr_run p (DF x) ps) (fun r => let '(_, pv, _) := r in Ok pv)) xs) (fun rs =>
           Ok (d, VList rs, []))
       | _ => Fail (Err SProcessor "TypeError" "not a collection")
       end).
