(* Model/PipelineLib.v — the component library used by the correspondence:
   semantiva.examples.test_utils (float source/operations/probes/sinks), the
   rename/delete/template context-processor factories, and three harness-side
   components (declared context write, undeclared context write, failing operation).
   Float arithmetic is modelled over Z (the harness only produces integer-valued floats
   and measures that every observed value is one).  Also: comparison of outcomes. *)
From Coq Require Import List String ZArith NArith Bool.
From SV Require Import Common.Prelude Model.Expr Model.Pipeline Model.Sweep.
Import ListNotations.
Open Scope string_scope.

Definition perr (cls : string) : err := Err SProcessor cls "".

Definition numarg (n : string) (ps : list (string * val)) : res Z :=
  match lookup n ps with
  | Some (VNum z) => Ok z
  | _ => Fail (perr "TypeError")
  end.

Definition on_float (d : data) (f : Z -> res (data * val * list cop)) : res (data * val * list cop) :=
  match d with DF x => f x | _ => Fail (perr "TypeError") end.

Definition lib_src (dflt : bool) : proc :=
  mkProc KSource ["value"] (if dflt then [("value", VNum 42)] else []) false TNone [] []
    (fun _ ps => match lookup "value" ps with
                 | Some (VNum z) => Ok (DF z, VNone, [])
                 | _ => Fail (perr "AssertionError")
                 end).

Definition lib_const_src (z : Z) : proc :=       (* FloatDataSource / FloatPayloadSource *)
  mkProc KSource [] [] false TNone [] [] (fun _ _ => Ok (DF z, VNone, [])).

Definition lib_mul (dflt : bool) : proc :=
  mkProc KOp ["factor"] (if dflt then [("factor", VNum 2)] else []) false TF [] []
    (fun d ps => on_float d (fun x => bind (numarg "factor" ps) (fun f => Ok (DF (x * f), VNone, [])))).

Definition lib_add : proc :=
  mkProc KOp ["addend"] [] false TF [] []
    (fun d ps => on_float d (fun x => bind (numarg "addend" ps) (fun a => Ok (DF (x + a), VNone, [])))).

Definition lib_square : proc :=
  mkProc KOp [] [] false TF [] [] (fun d _ => on_float d (fun x => Ok (DF (x * x), VNone, []))).

Definition lib_divide : proc :=
  mkProc KOp ["divisor"] [] false TF [] []
    (fun d ps => on_float d (fun x =>
       match lookup "divisor" ps with
       | Some (VNum dv) =>
           if (dv =? 0)%Z then Fail (perr "ValueError")
           else if (x mod dv =? 0)%Z then Ok (DF (x / dv), VNone, [])
           else Fail (perr "OutOfModel")
       | _ => Fail (perr "TypeError")
       end)).

Definition lib_probe : proc :=                     (* FloatCollectValueProbe *)
  mkProc KProbe [] [] false TF [] [] (fun d _ => on_float d (fun x => Ok (d, VNum x, []))).

Definition lib_copyprobe : proc :=                 (* CopyDataProbe: accepts any data, returns it (the probe value is the data object itself, opaque here) *)
  mkProc KProbe [] [] false TAny [] [] (fun d _ => Ok (d, VNone, [])).

Definition lib_sink : proc :=                      (* FloatMockDataSink(path) *)
  mkProc KSink ["path"] [] false TF [] [] (fun d _ => Ok (d, VNone, [])).

Definition lib_sink0 : proc :=                     (* FloatDataSink / FloatPayloadSink *)
  mkProc KSink [] [] false TF [] [] (fun d _ => Ok (d, VNone, [])).

Definition lib_csum : proc :=                      (* FloatCollectionSumOperation *)
  mkProc KOp [] [] false TC [] []
    (fun d _ => match d with
                | DC [] => Fail (perr "TypeError")      (* sum([]) is the int 0, which FloatDataType rejects *)
                | DC xs => Ok (DF (fold_left Z.add xs 0%Z), VNone, [])
                | _ => Fail (perr "TypeError")
                end).

(* harness-side components *)
Definition lib_ctxwrite (key : string) : proc :=   (* declares key, writes the input value there, adds 1 *)
  mkProc KOp [] [] false TF [key] []
    (fun d _ => on_float d (fun x => Ok (DF (x + 1), VNone, [CSet key (VNum x)]))).

Definition lib_badwrite (key : string) : proc :=   (* writes a key it does not declare *)
  mkProc KOp [] [] false TF [] []
    (fun d _ => on_float d (fun x => Ok (DF x, VNone, [CSet key (VNum x)]))).

Definition lib_failing : proc :=
  mkProc KOp [] [] false TF [] [] (fun _ _ => Fail (perr "ValueError")).

(* context processors *)
(* none_noop: the generated rename/delete processors treat a None VALUE as "key not found"
   (generated fact; the repaired code tests for the key's presence instead) *)
Definition lib_rename (none_noop : bool) (a b : string) : proc :=
  mkProc KCtx [a] [] true TAny [b] [a]
    (fun d ps => match lookup a ps with
                 | None => Ok (d, VNone, [])
                 | Some VNone => if none_noop then Ok (d, VNone, []) else Ok (d, VNone, [CSet b VNone; CDel a])
                 | Some v => Ok (d, VNone, [CSet b v; CDel a])
                 end).

Definition lib_delete (none_noop : bool) (a : string) : proc :=
  mkProc KCtx [a] [] true TAny [] [a]
    (fun d ps => match lookup a ps with
                 | None => Ok (d, VNone, [])
                 | Some VNone => if none_noop then Ok (d, VNone, []) else Ok (d, VNone, [CDel a])
                 | Some _ => Ok (d, VNone, [CDel a])
                 end).

(* str(value) / repr(value) for the values the harness produces *)
Definition str_of_num (z : Z) : string := (if (z <? 0)%Z then "-" else "") ++ print_N (Z.abs_N z) ++ ".0".

Fixpoint repr_of_val (v : val) : string :=
  match v with
  | VNone => "None"
  | VStr s => "'" ++ s ++ "'"
  | VNum z => str_of_num z
  | VList l => "[" ++ String.concat ", " (map repr_of_val l) ++ "]"
  end.

Definition str_of_val (v : val) : res string :=
  match v with
  | VStr s => Ok s
  | _ => Ok (repr_of_val v)
  end.

Inductive seg := Lit (s : string) | Hole (name : string).

Fixpoint holes (t : list seg) (seen : list string) : list string :=
  match t with
  | [] => []
  | Lit _ :: tl => holes tl seen
  | Hole n :: tl => if smem n seen then holes tl seen else n :: holes tl (n :: seen)
  end.

Fixpoint render (t : list seg) (ps : list (string * val)) : res string :=
  match t with
  | [] => Ok ""
  | Lit s :: tl => bind (render tl ps) (fun r => Ok (s ++ r))
  | Hole n :: tl =>
      match lookup n ps with
      | None => Fail (perr "KeyError")
      | Some v => bind (str_of_val v) (fun s => bind (render tl ps) (fun r => Ok (s ++ r)))
      end
  end.

Definition lib_template (t : list seg) (out : string) : proc :=
  mkProc KCtx (holes t []) [] true TAny [out] []
    (fun d ps => bind (render t ps) (fun s => Ok (d, VNone, [CSet out (VStr s)]))).

(* ---- comparison of outcomes (contexts as maps) -------------------------------------------- *)
Fixpoint val_eqb (a b : val) {struct a} : bool :=
  match a, b with
  | VNone, VNone => true
  | VNum x, VNum y => Z.eqb x y
  | VStr s, VStr t => String.eqb s t
  | VList l, VList m =>
      (fix go (l m : list val) {struct l} : bool :=
         match l, m with
         | [], [] => true
         | x :: l', y :: m' => val_eqb x y && go l' m'
         | _, _ => false
         end) l m
  | _, _ => false
  end.

Definition ctx_eqb (a b : ctx) : bool :=
  Nat.eqb (List.length a) (List.length b)
  && forallb (fun kv => match lookup (fst kv) b with Some v => val_eqb (snd kv) v | None => false end) a
  && forallb (fun kv => has (fst kv) a) b.

Fixpoint zlist_eqb (a b : list Z) : bool :=
  match a, b with
  | [], [] => true
  | x :: a', y :: b' => Z.eqb x y && zlist_eqb a' b'
  | _, _ => false
  end.

Definition data_eqb (a b : data) : bool :=
  match a, b with
  | DNone, DNone => true
  | DF x, DF y => Z.eqb x y
  | DC l, DC m => zlist_eqb l m
  | _, _ => false
  end.

Definition stage_eqb (a b : stage) : bool :=
  match a, b with
  | SGate, SGate | SResolve, SResolve | SProcessor, SProcessor | SWrite, SWrite
  | SDelete, SDelete | SConstruct, SConstruct => true
  | _, _ => false
  end.

(* what the harness observed *)
Inductive expect :=
| XDone (d : data) (c : ctx)
| XFailed (idx : nat) (st : stage) (cls : string)
| XCFailed (idx : nat) (cls : string).

(* A division with a non-integer quotient leaves the model's value universe (Z): the model then stops with the
   pseudo-error "OutOfModel" and the case is not comparable (the harness drops such cases when it can see the value;
   it cannot when the run fails at a later node). *)
Definition outcome_matches (o : outcome) (x : expect) : bool :=
  match o, x with
  | Failed _ (Err SProcessor "OutOfModel" _), _ => true
  | Done (d, c), XDone d' c' => data_eqb d d' && ctx_eqb c c'
  | Failed i (Err st cls _), XFailed j st' cls' => Nat.eqb i j && stage_eqb st st' && String.eqb cls cls'
  | CFailed i (Err _ cls _), XCFailed j cls' => Nat.eqb i j && String.eqb cls cls'
  | _, _ => false
  end.

Definition pcase := (list node * data * ctx * expect)%type.

Definition pcase_ok (c : pcase) : bool :=
  match c with (p, d, c0, x) => outcome_matches (impl_run p (d, c0)) x end.

Fixpoint bad_idx {A} (ok : A -> bool) (l : list A) (i : nat) : list nat :=
  match l with [] => [] | x :: tl => if ok x then bad_idx ok tl (S i) else i :: bad_idx ok tl (S i) end.
