(* Model/Placement.v — where a run space can be written and which block the command line's run-space flags reach.
   semantiva/configurations/load_pipeline_from_yaml.py (parse_pipeline_config: the top-level `run_space:` block, else the one
   under `pipeline:`) and semantiva/cli/__init__.py (_run: --run-space-file replaces the top-level block; --run-space-max-runs /
   --run-space-dry-run are written into a block of the document before the loader reads it).  Which block the loader prefers
   and which block the CLI patches are generated facts (Gen/PlacementGen.v).  Definitions only. *)
From Coq Require Import List String ZArith Bool.
From SV Require Import Model.RunSpace Model.Loader.
Import ListNotations.

(* the configuration document, as far as run spaces go *)
Record doc := mkDoc { d_top : option raw_spec; d_nested : option raw_spec }.

(* which block the loader reads when both are written *)
Inductive prio := TopFirst | NestedFirst.
Definition in_force (lp : prio) (d : doc) : option raw_spec :=
  match lp with
  | TopFirst => match d_top d with Some r => Some r | None => d_nested d end
  | NestedFirst => match d_nested d with Some r => Some r | None => d_top d end
  end.

(* the command line *)
Record flags := mkFlags { f_file : option raw_spec;    (* --run-space-file: its block *)
                          f_cap : option Z;            (* --run-space-max-runs *)
                          f_dry : bool }.              (* --run-space-dry-run *)
Definition has_flags (fl : flags) : bool := (match f_cap fl with Some _ => true | None => false end) || f_dry fl.
Definition empty_raw : raw_spec := mkRawSpec None None None [].
Definition set_flags (fl : flags) (r : raw_spec) : raw_spec :=
  mkRawSpec (r_combine r) (match f_cap fl with Some z => Some z | None => r_max_runs r end)
            (if f_dry fl then Some (YBool true) else r_dry r) (r_blocks r).
(* --run-space-file is stored as the top-level block *)
Definition apply_file (fl : flags) (d : doc) : doc :=
  match f_file fl with Some r => mkDoc (Some r) (d_nested d) | None => d end.

(* into which block the CLI writes the two flags *)
Inductive patch_rule :=
| PatchLoaderBlock        (* the top-level block if there is one, else the nested one, else a new top-level block *)
| PatchTopAlways          (* config.setdefault("run_space", {}) *)
| PatchNestedIfPresent.   (* the nested block whenever there is one, else setdefault at the top *)
Definition or_empty (o : option raw_spec) : raw_spec := match o with Some r => r | None => empty_raw end.
Definition patch (pr : patch_rule) (fl : flags) (d : doc) : doc :=
  if negb (has_flags fl) then d else
  match pr with
  | PatchTopAlways => mkDoc (Some (set_flags fl (or_empty (d_top d)))) (d_nested d)
  | PatchNestedIfPresent =>
      match d_nested d with
      | Some r => mkDoc (d_top d) (Some (set_flags fl r))
      | None => mkDoc (Some (set_flags fl (or_empty (d_top d)))) None
      end
  | PatchLoaderBlock =>
      match d_top d with
      | Some r => mkDoc (Some (set_flags fl r)) (d_nested d)
      | None => match d_nested d with
                | Some r => mkDoc None (Some (set_flags fl r))
                | None => mkDoc (Some (set_flags fl empty_raw)) None
                end
      end
  end.

(* the run space a `semantiva run` launch is planned from *)
Definition cli_run_space (lp : prio) (pr : patch_rule) (fl : flags) (d : doc) : option raw_spec :=
  in_force lp (patch pr fl (apply_file fl d)).
(* ... and what it should be: the block in force, with the flags set *)
Definition intended (lp : prio) (fl : flags) (d : doc) : option raw_spec :=
  let r := in_force lp (apply_file fl d) in
  if has_flags fl then Some (set_flags fl (or_empty r)) else r.

(* ---- what a launch over a pipeline that needs none of the run-space keys and writes one fixed file does ---- *)
(* (exit code, files written): no run space = one run; dry run = nothing; over the cap / invalid = rejected with 3 *)
Definition outcome (f : loader_facts) (v : variant) (o : option raw_spec) : Z * nat :=
  match o with
  | None => (0%Z, 1)
  | Some r =>
      let '(sp, dry) := load f r in
      match expand v sp with
      | Err _ => (3%Z, 0)
      | Ok runs => if dry then (0%Z, 0) else if is_nil runs then (0%Z, 0) else (0%Z, 1)
      end
  end.
Definition pcase := ((doc * flags) * (Z * nat))%type.
Definition pcase_ok (f : loader_facts) (v : variant) (lp : prio) (pr : patch_rule) (c : pcase) : bool :=
  let '(rc, n) := outcome f v (cli_run_space lp pr (snd (fst c)) (fst (fst c))) in
  Z.eqb rc (fst (snd c)) && Nat.eqb n (snd (snd c)).
Fixpoint pbad (f : loader_facts) (v : variant) (lp : prio) (pr : patch_rule) (l : list pcase) (i : nat) : list nat :=
  match l with [] => [] | c :: tl => if pcase_ok f v lp pr c then pbad f v lp pr tl (S i) else i :: pbad f v lp pr tl (S i) end.
