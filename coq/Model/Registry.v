(* Model/Registry.v -- process-wide residue of repeated pipeline execution (C18).

   What persists in a Python process between two runs of one pipeline configuration:

   * the component registry `_COMPONENT_REGISTRY : Dict[str, List[type]]` of
     semantiva/core/semantiva_component.py -- the metaclass appends every new component class that
     reports a `component_type` to the list stored under that category name (`setdefault(cat, []).append(cls)`);
     nothing ever removes an entry;
   * the message queues of a Pipeline object's transport -- the orchestrator publishes one message per
     executed node (`_publish`), and nobody subscribes;
   * the channel table of the job transport a queue worker listens on (`jobs.<id>.cfg`, `jobs.<id>.status`);
   * the generated classes that are still reachable (`live`).

   Classes are created by seven class factories (type(...)/new_class/class statements inside functions):
     FNode      _PipelineNodeFactory._create_class             one node class per node instantiation
     FAdapter   _IOOperationFactory.create_data_operation      DataOperation adapter around a source / sink
     FRename FDelete FTemplate   context_processors/factory.py (string shorthands `rename:a:b`, ...)
     FSlice     _SlicingDataProcessorFactory.create            (`slice:Proc:Collection`)
     FSweep     ParametricSweepFactory.create                  (derive.parameter_sweep, called by the
                                                               configuration preprocessor)
   `facts` (read from the source by harness/translate/registry.py) say where in the life cycle each factory is
   called and whether it returns a cached class for equal arguments.  Definitions only; proofs are in
   Proofs/Registry.v. *)
From Coq Require Import List String Bool Arith.
Import ListNotations.
Open Scope string_scope.

(* ---- configurations ------------------------------------------------------------------------ *)
Inductive role := RDataSource | RPayloadSource | RDataSink | RPayloadSink | ROperation | RProbe | RContext.

Inductive factory := FNode | FAdapter | FRename | FDelete | FTemplate | FSlice | FSweep.

(* how the node names its processor *)
Inductive pref :=
| PRegistered                 (* registered name or class object: resolving it creates nothing *)
| PShorthand (f : factory)    (* prefix resolver: the factory f runs on every resolution of the string *)
| PSweep.                     (* derive.parameter_sweep: FSweep runs when the configuration is preprocessed
                                 (Pipeline construction, inspection); the resolved spec then holds the class *)

Record node := mkNode {
  n_ref : pref;
  n_role : role;          (* framework base class of the processor the node ends up with *)
  n_name : string;        (* __name__ of that processor class *)
  n_key : string          (* the remaining factory arguments (context_key ...), as text: memo key *)
}.

Record config := mkConfig { c_nodes : list node; c_traced : bool }.

Inductive way := WReused | WFresh | WRunSpace | WWorker.

(* ---- facts about the code -------------------------------------------------------------------- *)
Record facts := mkFacts {
  registers : bool;                 (* the metaclass registers every new class that has a component_type *)
  inst_in_execute : bool;           (* nodes are instantiated inside execute(), i.e. once per run *)
  memo : factory -> bool;           (* the factory returns a cached class for equal arguments *)
  trace_resolves : bool;            (* a traced execute() resolves every processor symbol once more *)
  consumed : bool;                  (* published node outputs are consumed / dropped by the end of execute() *)
  chan_removed : bool;              (* a drained channel is removed from the transport's channel table *)
  adapter_classes : role -> nat;    (* adapter classes made per node instantiation, by role *)
  node_classes : role -> nat        (* node classes made per node instantiation, by role *)
}.

(* ---- class descriptors: (registry category, class name) -- how the code keys and what it stores ---- *)
Definition cdesc := (string * string)%type.

Definition node_cat (r : role) : string :=
  match r with
  | RDataSource => "DataSourceNode" | RPayloadSource => "PayloadSourceNode"
  | RDataSink => "DataSinkNode" | RPayloadSink => "PayloadSinkNode"
  | ROperation => "DataOperationNode" | RProbe => "ProbeContextInjectorNode"
  | RContext => "ContextProcessorNode"
  end.

(* component_type of the processor class itself (an IO adapter copies the component_type of what it wraps) *)
Definition proc_cat (r : role) : string :=
  match r with
  | RDataSource => "DataSource" | RPayloadSource => "PayloadSource"
  | RDataSink => "DataSink" | RPayloadSink => "PayloadSink"
  | ROperation => "DataOperation" | RProbe => "DataProbe"
  | RContext => "ContextProcessor"
  end.

Record event := mkEvent { e_fac : factory; e_key : string; e_desc : cdesc }.

Definition fac_tag (f : factory) : string :=
  match f with
  | FNode => "node" | FAdapter => "adapter" | FRename => "rename" | FDelete => "delete"
  | FTemplate => "template" | FSlice => "slice" | FSweep => "sweep"
  end.

Definition mk_key (f : factory) (n : node) : string :=
  fac_tag f ++ ":" ++ n_name n ++ ":" ++ n_key n.

(* the processor class made by a shorthand resolver / the sweep factory *)
Definition proc_event (f : factory) (n : node) : event :=
  mkEvent f (mk_key f n) (proc_cat (n_role n), n_name n).
(* the adapter is named like the class it wraps; the node class is <processor>_<NodeBase> *)
Definition adapter_event (n : node) : event :=
  mkEvent FAdapter (mk_key FAdapter n) (proc_cat (n_role n), n_name n).
Definition nodecls_event (n : node) : event :=
  mkEvent FNode (mk_key FNode n) (node_cat (n_role n), n_name n ++ "_" ++ node_cat (n_role n)).

Definition resolve_events (n : node) : list event :=
  match n_ref n with PShorthand f => [proc_event f n] | _ => [] end.

Definition sweep_events (n : node) : list event :=
  match n_ref n with PSweep => [proc_event FSweep n] | _ => [] end.

(* _pipeline_node_factory: resolve the symbol, wrap sources / sinks, make the node class *)
Definition node_events (F : facts) (n : node) : list event :=
  resolve_events n ++ repeat (adapter_event n) (adapter_classes F (n_role n))
                   ++ repeat (nodecls_event n) (node_classes F (n_role n)).

(* Pipeline.__init__ -> build_canonical_spec -> preprocess_node_config *)
Definition construct_events (F : facts) (c : config) : list event :=
  flat_map sweep_events (c_nodes c)
  ++ (if inst_in_execute F then [] else flat_map (node_events F) (c_nodes c)).

(* orchestrator.execute: (traced: _resolve_processor_classes) then _instantiate_nodes *)
Definition execute_events (F : facts) (c : config) : list event :=
  (if c_traced c && trace_resolves F then flat_map resolve_events (c_nodes c) else [])
  ++ (if inst_in_execute F then flat_map (node_events F) (c_nodes c) else []).

(* the CLI's pre-flight (build_pipeline_inspection): preprocesses the configuration and builds every node once *)
Definition preflight_events (F : facts) (c : config) : list event :=
  flat_map sweep_events (c_nodes c) ++ flat_map (node_events F) (c_nodes c).

(* ---- process state ------------------------------------------------------------------------------ *)
Record state := mkState {
  registry : list (string * list string);   (* category -> class names, most recent first *)
  cache : list string;                      (* memo keys held by memoising factories *)
  queue : nat;                              (* messages retained by the current Pipeline object's transport *)
  jobchan : nat;                            (* entries of the job transport's channel table (queue worker) *)
  live : nat                                (* generated classes still reachable *)
}.

Fixpoint reg_add (d : cdesc) (r : list (string * list string)) : list (string * list string) :=
  match r with
  | [] => [(fst d, [snd d])]
  | (c, l) :: tl => if String.eqb c (fst d) then (c, snd d :: l) :: tl else (c, l) :: reg_add d tl
  end.

Definition reg_size (r : list (string * list string)) : nat :=
  fold_right (fun cl acc => List.length (snd cl) + acc) 0 r.

Fixpoint cat_count (c : string) (r : list (string * list string)) : nat :=
  match r with
  | [] => 0
  | (c', l) :: tl => if String.eqb c' c then List.length l else cat_count c tl
  end.

Definition mem (k : string) (l : list string) : bool := existsb (String.eqb k) l.

(* one call of a class factory *)
Definition create (F : facts) (s : state) (e : event) : state :=
  if memo F (e_fac e) && mem (e_key e) (cache s) then s
  else mkState (if registers F then reg_add (e_desc e) (registry s) else registry s)
               (if memo F (e_fac e) then e_key e :: cache s else cache s)
               (queue s) (jobchan s) (S (live s)).

Definition apply (F : facts) (evs : list event) (s : state) : state := fold_left (create F) evs s.

(* the previous run's nodes are dropped when the next run starts; without registration only the classes
   kept by a memo table stay reachable *)
Definition release (F : facts) (s : state) : state :=
  if registers F then s
  else mkState (registry s) (cache s) (queue s) (jobchan s) (List.length (cache s)).

Definition set_queue (q : nat) (s : state) : state :=
  mkState (registry s) (cache s) q (jobchan s) (live s).
Definition add_jobchan (k : nat) (s : state) : state :=
  mkState (registry s) (cache s) (queue s) (k + jobchan s) (live s).

Definition published (F : facts) (c : config) : nat := if consumed F then 0 else List.length (c_nodes c).

(* events of one repetition *)
Definition run_events (F : facts) (w : way) (c : config) : list event :=
  match w with
  | WReused | WRunSpace => execute_events F c
  | WFresh | WWorker => construct_events F c ++ execute_events F c
  end.

(* what happens once, before the first repetition *)
Definition start_events (F : facts) (w : way) (c : config) : list event :=
  match w with
  | WReused => construct_events F c
  | WRunSpace => preflight_events F c ++ construct_events F c
  | WFresh | WWorker => []
  end.

Definition start (F : facts) (w : way) (c : config) (s : state) : state :=
  match w with
  | WReused | WRunSpace => set_queue 0 (apply F (start_events F w c) s)   (* the one Pipeline object, new transport *)
  | WFresh | WWorker => s
  end.

(* one repetition (all nodes run to completion) *)
Definition run_once (F : facts) (w : way) (c : config) (s : state) : state :=
  let s1 := apply F (run_events F w c) (release F s) in
  match w with
  | WReused | WRunSpace => set_queue (published F c + queue s1) s1
  | WFresh => set_queue (published F c) s1                           (* a new Pipeline object, new transport *)
  | WWorker => add_jobchan (if chan_removed F then 0 else 2) (set_queue (published F c) s1)
  end.

Fixpoint iter {A} (n : nat) (f : A -> A) (x : A) : A :=
  match n with 0 => x | S m => f (iter m f x) end.

(* classes generated per repetition when nothing is memoised *)
Definition k (F : facts) (w : way) (c : config) : nat := List.length (run_events F w c).

(* ... as a function of the node kinds *)
Definition resolve_count (n : node) : nat := match n_ref n with PShorthand _ => 1 | _ => 0 end.
Definition sweep_count (n : node) : nat := match n_ref n with PSweep => 1 | _ => 0 end.
Definition inst_count (F : facts) (n : node) : nat :=
  resolve_count n + adapter_classes F (n_role n) + node_classes F (n_role n).
Definition exec_count (F : facts) (traced : bool) (n : node) : nat :=
  (if traced && trace_resolves F then resolve_count n else 0) + (if inst_in_execute F then inst_count F n else 0).
Definition construct_count (F : facts) (n : node) : nat :=
  sweep_count n + (if inst_in_execute F then 0 else inst_count F n).
Definition k_node (F : facts) (w : way) (traced : bool) (n : node) : nat :=
  match w with
  | WReused | WRunSpace => exec_count F traced n
  | WFresh | WWorker => construct_count F n + exec_count F traced n
  end.

Definition all_factories : list factory := [FNode; FAdapter; FRename; FDelete; FTemplate; FSlice; FSweep].
Definition all_memo_b (F : facts) : bool := forallb (memo F) all_factories.
Definition no_memo_b (F : facts) : bool := negb (existsb (memo F) all_factories).

Definition no_memo (F : facts) : Prop := forall f, memo F f = false.
Definition all_memo (F : facts) : Prop := forall f, memo F f = true.

(* ---- correspondence ---------------------------------------------------------------------------- *)
(* a measured process: category counts of the registry before the configuration is touched *)
Definition base_state (cats : list (string * nat)) (live0 : nat) : state :=
  mkState (map (fun cn => (fst cn, repeat "" (snd cn))) cats) [] 0 0 live0.

Definition counts_agree (measured : list (string * nat)) (r : list (string * list string)) : bool :=
  forallb (fun cn => Nat.eqb (cat_count (fst cn) r) (snd cn)) measured
  && forallb (fun cl => existsb (fun cn => String.eqb (fst cn) (fst cl)) measured || Nat.eqb (List.length (snd cl)) 0) r
  && Nat.eqb (reg_size r) (fold_right (fun cn acc => snd cn + acc) 0 measured).

Definition desc_eqb (a b : cdesc) : bool := String.eqb (fst a) (fst b) && String.eqb (snd a) (snd b).
Definition count_desc (d : cdesc) (l : list cdesc) : nat := List.length (filter (desc_eqb d) l).
Definition same_descs (a b : list cdesc) : bool :=
  Nat.eqb (List.length a) (List.length b) && forallb (fun d => Nat.eqb (count_desc d a) (count_desc d b)) a.

(* the classes registered between two registry states (lists are most recent first) *)
Definition new_descs (before after : list (string * list string)) : list cdesc :=
  flat_map (fun cl => map (fun nm => (fst cl, nm))
                          (firstn (List.length (snd cl) - cat_count (fst cl) before) (snd cl))) after.

(* one observation after `o_runs` repetitions *)
Record obs := mkObs {
  o_runs : nat;
  o_counts : list (string * nat);    (* registry category -> number of classes *)
  o_queue : option nat;              (* messages in the current Pipeline's transport (None: not observable) *)
  o_jobchan : option nat;            (* channel entries of the job transport *)
  o_live : nat                       (* transitive subclasses of _SemantivaComponent alive *)
}.

Definition opt_agree (o : option nat) (v : nat) : bool :=
  match o with None => true | Some x => Nat.eqb x v end.

Definition obs_ok (s : state) (o : obs) : bool :=
  counts_agree (o_counts o) (registry s) && opt_agree (o_queue o) (queue s)
  && opt_agree (o_jobchan o) (jobchan s) && Nat.eqb (o_live o) (live s).

Record ccase := mkCase {
  cc_way : way;
  cc_cfg : config;
  cc_base : list (string * nat);
  cc_live0 : nat;
  cc_start : obs;                    (* after `start` (o_runs = 0) *)
  cc_run1 : list cdesc;              (* classes registered by the first repetition *)
  cc_obs : list obs                  (* in increasing o_runs *)
}.

(* run the model from the measured base and compare at every observation point *)
Fixpoint check_obs (F : facts) (w : way) (c : config) (done : nat) (s : state) (l : list obs) : bool :=
  match l with
  | [] => true
  | o :: tl => let s' := iter (o_runs o - done) (run_once F w c) s in
               obs_ok s' o && check_obs F w c (o_runs o) s' tl
  end.

Definition case_ok (F : facts) (cc : ccase) : bool :=
  let w := cc_way cc in let c := cc_cfg cc in
  let s0 := start F w c (base_state (cc_base cc) (cc_live0 cc)) in
  obs_ok s0 (cc_start cc)
  && same_descs (cc_run1 cc) (new_descs (registry s0) (registry (run_once F w c s0)))
  && check_obs F w c 0 s0 (cc_obs cc)
  (* the closed form, evaluated: total = total after start + runs * k *)
  && (if registers F && no_memo_b F
      then forallb (fun o => Nat.eqb (fold_right (fun cn acc => snd cn + acc) 0 (o_counts o))
                                     (reg_size (registry s0) + o_runs o * k F w c)) (cc_obs cc)
      else true).

Fixpoint bad_idx {A} (ok : A -> bool) (l : list A) (i : nat) : list nat :=
  match l with [] => [] | x :: tl => if ok x then bad_idx ok tl (S i) else i :: bad_idx ok tl (S i) end.

(* ---- witnesses used by the non-vacuity examples of Properties/C18.v ------------------------------------ *)
Definition io_adapters (r : role) : nat :=
  match r with RDataSource | RPayloadSource | RDataSink | RPayloadSink => 1 | _ => 0 end.
Definition ex_cfg : config :=
  mkConfig [ mkNode PRegistered RDataSource "FloatValueDataSource" "";
             mkNode PRegistered ROperation "FloatMultiplyOperation" "";
             mkNode PRegistered RProbe "FloatCollectValueProbe" "k";
             mkNode (PShorthand FRename) RContext "Rename_k_to_j" "";
             mkNode PRegistered RDataSink "FloatDataSink" "" ] false.
Definition ex_base : state := base_state [("DataSource", 12); ("DataOperation", 20)] 40.

Definition memo_all : facts :=
  mkFacts true true (fun _ => true) true true true io_adapters (fun _ => 1).
Definition unregistered : facts :=
  mkFacts false true (fun _ => false) true true true io_adapters (fun _ => 1).
Definition leaky : facts :=
  mkFacts true true (fun _ => false) true false false
          io_adapters (fun _ => 1).

