(* Model/Rows.v — semantiva/execution/run_space.py: _append_row / the rows-as-runs branches of _load_source_file.
   A JSON / YAML list of mappings or the lines of an NDJSON file (one mapping per row) -> the columns Model/RunSpace.v starts
   from.  A row is the list of its (key, value) pairs in file order.  Definitions only. *)
From Coq Require Import List String ZArith Bool Arith.
From SV Require Import Model.RunSpace.
Import ListNotations.

Definition row := list (string * val).

(* columns.setdefault(key, []); rejected unless the column holds exactly one value per earlier row *)
Fixpoint append_row (cs : cols) (r : row) (i : nat) : option cols :=
  match r with
  | [] => Some cs
  | (k, v) :: tl =>
      let col := match lookup k cs with Some c => c | None => [] end in
      if Nat.eqb (List.length col) i then append_row (dset k (col ++ [v]) cs) tl i else None
  end.
Fixpoint load_rows_from (rows : list row) (cs : cols) (i : nat) : option cols :=
  match rows with
  | [] => Some cs
  | r :: tl => match append_row cs r i with Some cs' => load_rows_from tl cs' (S i) | None => None end
  end.
Definition load_rows (rows : list row) : option cols := load_rows_from rows [] 0.

(* the pre-fix loader: every value appended to its key's column, whatever the column's length *)
Fixpoint append_row_unchecked (cs : cols) (r : row) : cols :=
  match r with
  | [] => cs
  | (k, v) :: tl => append_row_unchecked (dset k ((match lookup k cs with Some c => c | None => [] end) ++ [v]) cs) tl
  end.
Definition load_rows_unchecked (rows : list row) : cols := fold_left append_row_unchecked rows [].

(* ---- correspondence: rows of a file, what _load_source_file made of them (None: configuration error) ---- *)
Fixpoint list_eqb {A} (e : A -> A -> bool) (a b : list A) : bool :=
  match a, b with [] , [] => true | x :: a', y :: b' => e x y && list_eqb e a' b' | _, _ => false end.
Definition cols_eqb : cols -> cols -> bool :=
  list_eqb (fun p q => String.eqb (fst p) (fst q) && list_eqb val_eqb (snd p) (snd q)).
Definition rcase := (list row * option cols)%type.
Definition rcase_ok (checked : bool) (c : rcase) : bool :=
  let got := if checked then load_rows (fst c) else Some (load_rows_unchecked (fst c)) in
  match got, snd c with
  | None, None => true
  | Some a, Some b => cols_eqb a b
  | _, _ => false
  end.
Fixpoint rbad (checked : bool) (l : list rcase) (i : nat) : list nat :=
  match l with [] => [] | c :: tl => if rcase_ok checked c then rbad checked tl (S i) else i :: rbad checked tl (S i) end.
