(* Model/RunSpace.v — semantiva/execution/run_space.py: _expand_entries,
   _load_and_process_source (after loading), expand_run_space.
   Python dicts are association lists in insertion order.  File parsing is not
   modelled: the loaded columns are an input.  Definitions only. *)
From Coq Require Import List String ZArith NArith Bool Arith.
From SV Require Import Common.Prelude.
Import ListNotations.

(* Values carried by runs: small integers and ASCII strings (what the harness generates). *)
Inductive val := VInt (z : Z) | VStr (s : string).
Definition vdef : val := VInt 0.
Definition val_eqb (a b : val) : bool :=
  match a, b with
  | VInt x, VInt y => Z.eqb x y
  | VStr x, VStr y => String.eqb x y
  | _, _ => false
  end.

Definition run := list (string * val).
Definition cols := list (string * list val).

Inductive mode := ByPosition | Combinatorial.

Inductive err :=
  | ELen          (* by_position entries with different list lengths *)
  | EBlockSize    (* by_position block: context and source run counts differ *)
  | EDupBlock     (* key both in context and in source of one block *)
  | EDupAcross    (* key in two blocks *)
  | ERename       (* rename collision *)
  | ESelect       (* select names a missing column *)
  | ECombineSize  (* combine=by_position with different block sizes *)
  | EMaxRuns.     (* RunSpaceMaxRunsExceededError *)

Inductive res (A : Type) := Ok (a : A) | Err (e : err).
Arguments Ok {A} a.
Arguments Err {A} e.

Definition bind {A B} (r : res A) (f : A -> res B) : res B :=
  match r with Ok a => f a | Err e => Err e end.

(* Facts about the code's variant, read from the source by harness/translate/run_space.py. *)
Record variant := mkVariant {
  v_sorted : bool;      (* _expand_entries iterates sorted(entries) *)
  v_empty_cap : bool;   (* the no-blocks branch consults max_runs *)
  v_cap_first : bool    (* sizes are computed arithmetically and checked before any run is built *)
}.

(* ---------------- dict operations ---------------- *)
Section Dict.
Context {V : Type}.
Fixpoint lookup (k : string) (m : list (string * V)) : option V :=
  match m with
  | [] => None
  | (k', v) :: tl => if String.eqb k k' then Some v else lookup k tl
  end.
Definition has (k : string) (m : list (string * V)) : bool :=
  existsb (fun p => String.eqb k (fst p)) m.
(* d[k] = v : replace in place or append *)
Fixpoint dset (k : string) (v : V) (m : list (string * V)) : list (string * V) :=
  match m with
  | [] => [(k, v)]
  | (k', v') :: tl => if String.eqb k k' then (k', v) :: tl else (k', v') :: dset k v tl
  end.
(* a.update(b) *)
Definition update (a b : list (string * V)) : list (string * V) :=
  fold_left (fun acc p => dset (fst p) (snd p) acc) b a.
End Dict.

Definition mem (s : string) (l : list string) : bool := existsb (String.eqb s) l.
Definition keys {V} (m : list (string * V)) : list string := map fst m.

(* ---------------- itertools.product ---------------- *)
Fixpoint cart {A} (ls : list (list A)) : list (list A) :=
  match ls with
  | [] => [[]]
  | l :: tl => flat_map (fun x => map (cons x) (cart tl)) l
  end.

(* ---------------- _expand_entries ---------------- *)
Definition order_keys (v : variant) (e : cols) : cols :=
  if v_sorted v then ksort fst e else e.

Definition first_len (cs : cols) : nat :=
  match cs with [] => 0 | c :: _ => List.length (snd c) end.
Definition same_lengths (cs : cols) : bool :=
  forallb (fun d => List.length (snd d) =? first_len cs) cs.
Definition row_at (cs : cols) (i : nat) : run :=
  map (fun c => (fst c, nth i (snd c) vdef)) cs.

Definition expand_entries (v : variant) (e : cols) (m : mode) : res (list run) :=
  match e with
  | [] => Ok []
  | _ :: _ =>
      let o := order_keys v e in
      match m with
      | ByPosition =>
          if same_lengths o then Ok (map (row_at o) (seq 0 (first_len o))) else Err ELen
      | Combinatorial =>
          Ok (map (fun combo => combine (keys o) combo) (cart (map snd o)))
      end
  end.

(* ---------------- _load_and_process_source, after loading ---------------- *)
Record source := mkSource {
  s_cols : cols;                       (* columns as loaded, in file order *)
  s_select : option (list string);
  s_rename : list (string * string);
  s_mode : mode
}.

Definition select_cols (columns : cols) (sel : list string) : res cols :=
  if forallb (fun k => has k columns) sel
  then Ok (fold_left (fun s k => match lookup k columns with Some vs => dset k vs s | None => s end) sel [])
  else Err ESelect.

Fixpoint rename_cols (ren : list (string * string)) (columns acc : cols) : res cols :=
  match columns with
  | [] => Ok acc
  | (k, vs) :: tl =>
      let t := match lookup k ren with Some t => t | None => k end in
      if has t acc then Err ERename else rename_cols ren tl (acc ++ [(t, vs)])
  end.

Definition process_source (s : source) : res cols :=
  bind (match s_select s with None => Ok (s_cols s) | Some sel => select_cols (s_cols s) sel end)
       (fun c => match s_rename s with [] => Ok c | _ :: _ => rename_cols (s_rename s) c [] end).

(* ---------------- one block ---------------- *)
Record block := mkBlock { b_mode : mode; b_ctx : cols; b_src : option source }.
Record spec := mkSpec { sp_combine : mode; sp_max_runs : Z; sp_blocks : list block }.

Definition inter_keys {V W} (a : list (string * V)) (b : list (string * W)) : bool :=
  existsb (fun p => has (fst p) b) a.

(* context entries and processed source entries of a block (with the context-vs-source check) *)
Definition block_entries (b : block) : res (cols * cols) :=
  match b_src b with
  | None => Ok (b_ctx b, [])
  | Some s => bind (process_source s) (fun sc =>
                if inter_keys (b_ctx b) sc then Err EDupBlock else Ok (b_ctx b, sc))
  end.
Definition src_mode (b : block) : mode :=
  match b_src b with Some s => s_mode s | None => b_mode b end.

Definition opt_expand (v : variant) (e : cols) (m : mode) : res (option (list run)) :=
  match e with
  | [] => Ok None
  | _ :: _ => bind (expand_entries v e m) (fun r => Ok (Some r))
  end.
Definition some_expand (v : variant) (e : cols) (m : mode) : res (list run) :=
  match e with
  | [] => Ok [[]]
  | _ :: _ => expand_entries v e m
  end.

Definition expand_block (v : variant) (ctx src : cols) (bm sm : mode) : res (list run) :=
  match bm with
  | ByPosition =>
      bind (opt_expand v ctx ByPosition) (fun cr =>
      bind (opt_expand v src sm) (fun sr =>
        match cr, sr with
        | None, None => Ok []
        | Some c, None => Ok (map (fun i => update [] (nth i c [])) (seq 0 (List.length c)))
        | None, Some s => Ok (map (fun i => update [] (nth i s [])) (seq 0 (List.length s)))
        | Some c, Some s =>
            if List.length c =? List.length s
            then Ok (map (fun i => update (update [] (nth i c [])) (nth i s [])) (seq 0 (List.length c)))
            else Err EBlockSize
        end))
  | Combinatorial =>
      bind (some_expand v ctx Combinatorial) (fun cr =>
      bind (some_expand v src sm) (fun sr =>
        Ok (flat_map (fun c => map (fun s => update c s) sr) cr)))
  end.

(* ---------------- the block loop ---------------- *)
Fixpoint expand_blocks (v : variant) (bs : list block) (seen : list string) : res (list (list run)) :=
  match bs with
  | [] => Ok []
  | b :: tl =>
      bind (block_entries b) (fun cs =>
      bind (expand_block v (fst cs) (snd cs) (b_mode b) (src_mode b)) (fun runs =>
        let cur := (keys (fst cs) ++ keys (snd cs))%list in
        if existsb (fun k => mem k seen) cur then Err EDupAcross
        else bind (expand_blocks v tl (seen ++ cur)%list) (fun rest => Ok (runs :: rest))))
  end.

(* ---------------- combination of blocks ---------------- *)
Definition is_nil {A} (l : list A) : bool := match l with [] => true | _ => false end.
Definition total_comb (bs : list (list run)) : Z :=
  fold_right (fun r acc => (Z.of_nat (List.length r) * acc)%Z) 1%Z bs.
Definition merge_all (parts : list run) : run := fold_left update parts [].

Definition combine_runs (v : variant) (cmb : mode) (maxr : Z) (bs : list (list run)) : res (list run) :=
  match bs with
  | [] => if v_empty_cap v && (1 >? maxr)%Z then Err EMaxRuns else Ok [[]]
  | b0 :: _ =>
      match cmb with
      | Combinatorial =>
          if existsb is_nil bs then Ok []
          else if (total_comb bs >? maxr)%Z then Err EMaxRuns
          else Ok (map merge_all (cart bs))
      | ByPosition =>
          if forallb (fun r => List.length r =? List.length b0) bs
          then if (Z.of_nat (List.length b0) >? maxr)%Z then Err EMaxRuns
               else Ok (map (fun i => merge_all (map (fun r => nth i r []) bs)) (seq 0 (List.length b0)))
          else Err ECombineSize
      end
  end.

Definition expand (v : variant) (s : spec) : res (list run) :=
  bind (expand_blocks v (sp_blocks s) []) (combine_runs v (sp_combine s) (sp_max_runs s)).

(* ---------------- arithmetic plan: sizes without building runs ---------------- *)
Fixpoint prodl (l : list nat) : nat := match l with [] => 1 | x :: tl => x * prodl tl end.
Fixpoint prodZ (l : list Z) : Z := match l with [] => 1%Z | x :: tl => (x * prodZ tl)%Z end.
Definition zlen {A} (l : list A) : Z := Z.of_nat (List.length l).

Definition plan_entries (v : variant) (e : cols) (m : mode) : res Z :=
  match e with
  | [] => Ok 0%Z
  | _ :: _ =>
      let o := order_keys v e in
      match m with
      | ByPosition => if same_lengths o then Ok (Z.of_nat (first_len o)) else Err ELen
      | Combinatorial => Ok (prodZ (map (fun c => zlen (snd c)) o))
      end
  end.
Definition opt_plan (v : variant) (e : cols) (m : mode) : res (option Z) :=
  match e with [] => Ok None | _ :: _ => bind (plan_entries v e m) (fun n => Ok (Some n)) end.
Definition some_plan (v : variant) (e : cols) (m : mode) : res Z :=
  match e with [] => Ok 1%Z | _ :: _ => plan_entries v e m end.

Definition plan_block (v : variant) (ctx src : cols) (bm sm : mode) : res Z :=
  match bm with
  | ByPosition =>
      bind (opt_plan v ctx ByPosition) (fun cn =>
      bind (opt_plan v src sm) (fun sn =>
        match cn, sn with
        | None, None => Ok 0%Z
        | Some c, None => Ok c
        | None, Some s => Ok s
        | Some c, Some s => if (c =? s)%Z then Ok c else Err EBlockSize
        end))
  | Combinatorial =>
      bind (some_plan v ctx Combinatorial) (fun cn =>
      bind (some_plan v src sm) (fun sn => Ok (cn * sn)%Z))
  end.

Fixpoint plan_blocks (v : variant) (bs : list block) (seen : list string) : res (list Z) :=
  match bs with
  | [] => Ok []
  | b :: tl =>
      bind (block_entries b) (fun cs =>
      bind (plan_block v (fst cs) (snd cs) (b_mode b) (src_mode b)) (fun n =>
        let cur := (keys (fst cs) ++ keys (snd cs))%list in
        if existsb (fun k => mem k seen) cur then Err EDupAcross
        else bind (plan_blocks v tl (seen ++ cur)%list) (fun rest => Ok (n :: rest))))
  end.

(* documented total of a specification whose blocks have sizes ns *)
Definition plan_total (cmb : mode) (ns : list Z) : res Z :=
  match ns with
  | [] => Ok 1%Z
  | n0 :: _ =>
      match cmb with
      | Combinatorial => Ok (prodZ ns)
      | ByPosition => if forallb (fun n => (n =? n0)%Z) ns then Ok n0 else Err ECombineSize
      end
  end.
Definition total (v : variant) (s : spec) : res Z :=
  bind (plan_blocks v (sp_blocks s) []) (plan_total (sp_combine s)).

(* ---------------- instrumented twin: number of run dictionaries built ---------------- *)
Definition cres (A : Type) : Type := (N * res A)%type.
Definition cbind {A B} (r : cres A) (f : A -> cres B) : cres B :=
  match snd r with
  | Ok a => let r' := f a in (fst r + fst r', snd r')%N
  | Err e => (fst r, Err e)
  end.
Definition nlen {A} (l : list A) : N := N.of_nat (List.length l).
Definition counted {A} (r : res (list A)) : cres (list A) :=
  match r with Ok l => (nlen l, Ok l) | Err e => (0%N, Err e) end.
Definition counted_opt {A} (r : res (option (list A))) : cres (option (list A)) :=
  match r with Ok (Some l) => (nlen l, Ok (Some l)) | Ok None => (0%N, Ok None) | Err e => (0%N, Err e) end.
Definition free {A} (r : res A) : cres A := (0%N, r).

Definition expand_block_c (v : variant) (ctx src : cols) (bm sm : mode) : cres (list run) :=
  match bm with
  | ByPosition =>
      cbind (counted_opt (opt_expand v ctx ByPosition)) (fun cr =>
      cbind (counted_opt (opt_expand v src sm)) (fun sr =>
        counted
        match cr, sr with
        | None, None => Ok []
        | Some c, None => Ok (map (fun i => update [] (nth i c [])) (seq 0 (List.length c)))
        | None, Some s => Ok (map (fun i => update [] (nth i s [])) (seq 0 (List.length s)))
        | Some c, Some s =>
            if List.length c =? List.length s
            then Ok (map (fun i => update (update [] (nth i c [])) (nth i s [])) (seq 0 (List.length c)))
            else Err EBlockSize
        end))
  | Combinatorial =>
      cbind (match ctx with [] => free (Ok [[]]) | _ :: _ => counted (expand_entries v ctx Combinatorial) end) (fun cr =>
      cbind (match src with [] => free (Ok [[]]) | _ :: _ => counted (expand_entries v src sm) end) (fun sr =>
        counted (Ok (flat_map (fun c => map (fun s => update c s) sr) cr))))
  end.

Fixpoint expand_blocks_c (v : variant) (bs : list block) (seen : list string) : cres (list (list run)) :=
  match bs with
  | [] => free (Ok [])
  | b :: tl =>
      cbind (free (block_entries b)) (fun cs =>
      cbind (expand_block_c v (fst cs) (snd cs) (b_mode b) (src_mode b)) (fun runs =>
        let cur := (keys (fst cs) ++ keys (snd cs))%list in
        if existsb (fun k => mem k seen) cur then free (Err EDupAcross)
        else cbind (expand_blocks_c v tl (seen ++ cur)%list) (fun rest => free (Ok (runs :: rest)))))
  end.

(* evaluation order "expand every block, then look at the cap" *)
Definition expand_eager_c (v : variant) (s : spec) : cres (list run) :=
  cbind (expand_blocks_c v (sp_blocks s) []) (fun bs =>
    counted (combine_runs v (sp_combine s) (sp_max_runs s) bs)).

(* evaluation order "plan arithmetically, check everything, then build" *)
Definition expand_cost (v : variant) (s : spec) : N :=
  if v_cap_first v
  then match total v s with
       | Ok t => if (t >? sp_max_runs s)%Z || (t =? 0)%Z then 0%N else fst (expand_eager_c v s)
       | Err _ => 0%N
       end
  else fst (expand_eager_c v s).

(* size of the written specification *)
Definition cols_size (c : cols) : N :=
  fold_right (fun p acc => (1 + nlen (snd p) + acc)%N) 0%N c.
Definition block_spec_size (b : block) : N :=
  (1 + cols_size (b_ctx b) +
   match b_src b with
   | None => 0
   | Some s => cols_size (s_cols s) + nlen (s_rename s) + match s_select s with None => 0 | Some l => nlen l end
   end)%N.
Definition spec_size (s : spec) : N :=
  fold_right (fun b acc => (block_spec_size b + acc)%N) 1%N (sp_blocks s).

(* ---------------- well-formed inputs: Python dicts have unique keys ---------------- *)
Fixpoint nodupb (l : list string) : bool :=
  match l with [] => true | x :: tl => negb (mem x tl) && nodupb tl end.
Definition wf_block (b : block) : bool :=
  nodupb (keys (b_ctx b)) &&
  match b_src b with None => true | Some s => nodupb (keys (s_cols s)) && nodupb (keys (s_rename s)) end.
Definition wf_spec (s : spec) : bool := forallb wf_block (sp_blocks s).

(* ---------------- mixed-radix digits, last position fastest ---------------- *)
Fixpoint digits (radices : list nat) (i : nat) : list nat :=
  match radices with
  | [] => []
  | _ :: tl => (i / prodl tl) :: digits tl (i mod prodl tl)
  end.

(* keys carried by every run of a specification: per block, ordered context keys then ordered source keys *)
Definition block_keys (v : variant) (cs : cols * cols) : list string :=
  (keys (order_keys v (fst cs)) ++ keys (order_keys v (snd cs)))%list.
Fixpoint spec_keys (v : variant) (bs : list block) : list string :=
  match bs with
  | [] => []
  | b :: tl => (match block_entries b with Ok cs => block_keys v cs | Err _ => [] end ++ spec_keys v tl)%list
  end.

(* ---------------- decidable comparison for the correspondence ---------------- *)
Fixpoint list_eqb {A} (eq : A -> A -> bool) (a b : list A) : bool :=
  match a, b with
  | [], [] => true
  | x :: a', y :: b' => eq x y && list_eqb eq a' b'
  | _, _ => false
  end.
Definition run_eqb : run -> run -> bool :=
  list_eqb (fun p q => String.eqb (fst p) (fst q) && val_eqb (snd p) (snd q)).
Definition err_eqb (a b : err) : bool :=
  match a, b with
  | ELen, ELen | EBlockSize, EBlockSize | EDupBlock, EDupBlock | EDupAcross, EDupAcross
  | ERename, ERename | ESelect, ESelect | ECombineSize, ECombineSize | EMaxRuns, EMaxRuns => true
  | _, _ => false
  end.
Definition res_eqb (a b : res (list run)) : bool :=
  match a, b with
  | Ok x, Ok y => list_eqb run_eqb x y
  | Err x, Err y => err_eqb x y
  | _, _ => false
  end.

Fixpoint bad_from {A} (ok : A -> bool) (l : list A) (i : nat) : list nat :=
  match l with
  | [] => []
  | x :: tl => if ok x then bad_from ok tl (S i) else i :: bad_from ok tl (S i)
  end.
(* a correspondence case: specification, outcome observed on the implementation *)
Definition case_ok (v : variant) (c : spec * res (list run)) : bool :=
  wf_spec (fst c) && res_eqb (expand v (fst c)) (snd c).
Definition mismatches (v : variant) (cases : list (spec * res (list run))) : list nat :=
  bad_from (case_ok v) cases 0.
