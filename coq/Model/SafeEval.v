(* Model/SafeEval.v — semantiva/utils/safe_eval.py: _SafeVisitor over arbitrary
   Python expression ASTs (rose trees), driven by generated tables.
   Definitions only. *)
From Coq Require Import List String Bool.
Import ListNotations.
Open Scope string_scope.

(* Any Python AST node: its class name, an atom (Name.id / keyword.arg, "" otherwise)
   and its AST-valued fields in _fields order (non-AST field values are not children). *)
Inductive tree := T (kind : string) (atom : string) (fields : list (string * list tree)).

Definition kind_of (t : tree) : string := match t with T k _ _ => k end.
Definition atom_of (t : tree) : string := match t with T _ a _ => a end.
Definition fields_of (t : tree) := match t with T _ _ f => f end.

Inductive kwpolicy := KwIgnored | KwRejected | KwValuesVisited | KwVisited.

Record Tables := mkTables {
  allowed_nodes : list string;
  allowed_funcs : list string;
  env_keys : list string;
  call_visited : list string;     (* Call fields whose children visit_Call visits *)
  kw_policy : kwpolicy;           (* what visit_Call does with node.keywords *)
  name_checked : bool;            (* visit_Name rejects ids outside allowed_names *)
  call_guarded : bool;            (* visit_Call rejects non-Name / non-whitelisted targets *)
  generic_checked : bool          (* generic_visit rejects types outside the whitelist, then recurses *)
}.

Definition mem (s : string) (l : list string) : bool := existsb (String.eqb s) l.

Definition field (f : string) (fs : list (string * list tree)) : list tree :=
  match find (fun p => String.eqb (fst p) f) fs with Some p => snd p | None => [] end.

Section Visit.
Variable tb : Tables.
Variable names : list string.

Definition call_target_ok (fs : list (string * list tree)) : bool :=
  match field "func" fs with
  | [T k f _] => String.eqb k "Name" && mem f (allowed_funcs tb)
  | _ => false
  end.

Fixpoint visit (t : tree) : bool :=
  match t with
  | T kind atom fs =>
      if String.eqb kind "Name" then (if name_checked tb then mem atom names else true)
      else if String.eqb kind "Call" then
        (if call_guarded tb then call_target_ok fs else true)
        && forallb (fun p => if mem (fst p) (call_visited tb) then forallb visit (snd p) else true) fs
        && match kw_policy tb with
           | KwIgnored => true
           | KwRejected => forallb (fun p => if String.eqb (fst p) "keywords"
                                             then match snd p with [] => true | _ :: _ => false end
                                             else true) fs
           | KwVisited => forallb (fun p => if String.eqb (fst p) "keywords"
                                            then forallb visit (snd p) else true) fs
           | KwValuesVisited =>
               forallb (fun p => if String.eqb (fst p) "keywords"
                                 then forallb (fun kw => match kw with
                                                | T _ _ kfs => forallb (fun q => if String.eqb (fst q) "value"
                                                                                then forallb visit (snd q) else true) kfs
                                                end) (snd p)
                                 else true) fs
           end
      else (if generic_checked tb then mem kind (allowed_nodes tb) else true)
           && forallb (fun p => forallb visit (snd p)) fs
  end.
End Visit.

(* Every node of the tree, in any field position. *)
Fixpoint subtrees (t : tree) : list tree :=
  match t with
  | T _ _ fs => t :: flat_map (fun p => flat_map subtrees (snd p)) fs
  end.

(* Shape the Python parser guarantees in mode='eval' (checked on every real tree by the
   harness): a Name has exactly one child, its ctx, which is Load except in assignment-target
   position (walrus target, comprehension target, and tuples/lists/starred inside those);
   a Call has exactly the fields func, args, keywords with a single func child.
   st = "this node is in assignment-target position". *)
Definition child_st (kind f : string) (st : bool) : bool :=
  (String.eqb kind "NamedExpr" && String.eqb f "target")
  || (String.eqb kind "comprehension" && String.eqb f "target")
  || (st && (String.eqb kind "Tuple" || String.eqb kind "List" || String.eqb kind "Starred")).

Fixpoint wfb (st : bool) (t : tree) : bool :=
  match t with
  | T kind _ fs =>
      (if String.eqb kind "Name"
       then match fs with
            | [(f, [T k _ []])] => String.eqb f "ctx" && (String.eqb k "Load" || (st && String.eqb k "Store"))
            | _ => false
            end
       else true)
      && (if String.eqb kind "Call"
          then match fs with
               | [(f1, [_]); (f2, _); (f3, _)] =>
                   String.eqb f1 "func" && String.eqb f2 "args" && String.eqb f3 "keywords"
               | _ => false
               end
          else true)
      && forallb (fun p => forallb (wfb (child_st kind (fst p) st)) (snd p)) fs
  end.

(* Name resolution of eval(code, env, locals): locals, then globals (env), then builtins. *)
Inductive scope := Local | Env | Builtin | Unbound.
Definition resolve (locals env : list string) (n : string) : scope :=
  if mem n locals then Local else if mem n env then Env else Builtin.
(* eval(code, env, locals): a name found neither among the supplied variables nor in env is looked up in env["__builtins__"];
   when env carries an EMPTY __builtins__ (blocked) the lookup fails with NameError, otherwise the interpreter's builtins answer *)
Definition resolve_b (blocked : bool) (locals env : list string) (n : string) : scope :=
  match resolve locals env n with Builtin => if blocked then Unbound else Builtin | s => s end.

(* every identifier the compiled code will look up *)
Definition lookups (t : tree) : list string :=
  flat_map (fun s => if String.eqb (kind_of s) "Name" then [atom_of s] else []) (subtrees t).

(* Conditions on the tables under which the visitor enforces the whitelist everywhere. *)
Definition policy_sound (tb : Tables) : bool :=
  mem "Name" (allowed_nodes tb) && mem "Call" (allowed_nodes tb) && mem "Load" (allowed_nodes tb)
  && name_checked tb && call_guarded tb && generic_checked tb
  && mem "args" (call_visited tb)
  && negb (mem "NamedExpr" (allowed_nodes tb)) && negb (mem "comprehension" (allowed_nodes tb))
  && match kw_policy tb with
     | KwIgnored => false
     | KwRejected => true
     | KwVisited => true
     | KwValuesVisited => false   (* the keyword wrapper node itself would stay unchecked *)
     end.
