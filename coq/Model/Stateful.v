(* Model/Stateful.v — user components may keep state on their instance (a running total, a cursor, a cache).
   A node is then a Mealy machine; what a run sees depends on WHEN the instance was created.  The orchestrator
   creates the node instances of a pipeline inside every execute() (semantiva/execution/orchestrator/orchestrator.py:
   _instantiate_nodes, called once per execute and holding no state of its own) — fact `fresh_nodes_per_run`, read
   from the source.  With a cache of instances the state of run i would be what run i-1 left behind.
   Definitions only. *)
From Coq Require Import List ZArith Bool.
Import ListNotations.

Section Machines.
Variables S D : Type.

(* one node: initial state of a m_fresh instance, and its step on the data channel (None = the node raises) *)
Record mnode := mkM { m_init : S; m_step : S -> D -> option (S * D) }.

(* one run over given instance states: data threaded through the nodes in order; the states the instances are left in
   (a failing node stops the run; the instances before it keep what they reached) *)
Fixpoint run_with (ns : list mnode) (ss : list S) (d : D) : list S * option D :=
  match ns, ss with
  | n :: ns', s :: ss' =>
      match m_step n s d with
      | Some (s', d') => let '(rest, out) := run_with ns' ss' d' in (s' :: rest, out)
      | None => (s :: ss', None)
      end
  | _, _ => (ss, Some d)
  end.

Definition m_fresh (ns : list mnode) : list S := map m_init ns.

(* a m_standalone run: m_fresh instances *)
Definition m_standalone (ns : list mnode) (d : D) : option D := snd (run_with ns (m_fresh ns) d).

(* the m_runs of one Pipeline object / one launch, in order *)
Fixpoint m_runs_from (fresh_per_run : bool) (ns : list mnode) (ss : list S) (ds : list D) : list (option D) :=
  match ds with
  | [] => []
  | d :: tl =>
      let '(ss', out) := run_with ns (if fresh_per_run then m_fresh ns else ss) d in
      out :: m_runs_from fresh_per_run ns ss' tl
  end.
Definition m_runs (fresh_per_run : bool) (ns : list mnode) (ds : list D) : list (option D) :=
  m_runs_from fresh_per_run ns (m_fresh ns) ds.
End Machines.

Arguments mkM {S D} _ _.
Arguments m_init {S D} _.
Arguments m_step {S D} _ _ _.
Arguments run_with {S D} _ _ _.
Arguments m_fresh {S D} _.
Arguments m_standalone {S D} _ _.
Arguments m_runs_from {S D} _ _ _ _.
Arguments m_runs {S D} _ _ _.

(* the harness's stateful operation (harness/lib/components.py: VerifAccumulateOperation): adds the sum of all inputs this
   instance has seen before; a stateless operation next to it *)
Definition accumulate : mnode Z Z := mkM 0%Z (fun s d => Some ((s + d)%Z, (d + s)%Z)).
Definition times (k : Z) : mnode Z Z := mkM 0%Z (fun s d => Some (s, (d * k)%Z)).
Definition fail_on (bad : Z) : mnode Z Z := mkM 0%Z (fun s d => if Z.eqb d bad then None else Some (s, d)).

Fixpoint zopt_list_eqb (a b : list (option Z)) : bool :=
  match a, b with
  | [], [] => true
  | Some x :: a', Some y :: b' => Z.eqb x y && zopt_list_eqb a' b'
  | None :: a', None :: b' => zopt_list_eqb a' b'
  | _, _ => false
  end.

(* correspondence case: node list (as codes), the inputs of the m_runs, the outputs observed on the implementation *)
Inductive ncode := NAcc | NTimes (k : Z) | NFail (bad : Z).
Definition node_of (c : ncode) : mnode Z Z :=
  match c with NAcc => accumulate | NTimes k => times k | NFail b => fail_on b end.
Definition scase := (list ncode * list Z * list (option Z))%type.
Definition scase_ok (fresh_per_run : bool) (c : scase) : bool :=
  let '(ns, ds, obs) := c in zopt_list_eqb (m_runs fresh_per_run (map node_of ns) ds) obs.
Fixpoint sbad (f : bool) (l : list scase) (i : nat) : list nat :=
  match l with [] => [] | c :: tl => if scase_ok f c then sbad f tl (S i) else i :: sbad f tl (S i) end.
