(* Model/Subscription.v -- sequential semantics of subscriptions of the in-memory transport
   (semantiva/execution/transport/in_memory.py: InMemorySubscription.__iter__ / close, publish), for operation
   sequences of ONE thread: publish, open a subscription, advance it, close it, drain a pattern.
   The interleaving model (Model/Transport.v) covers concurrent publishers and subscribers; this one covers what a single
   consumer can do with its subscription object over time (stop early, close, keep iterating, come back later).
   Fact read from the source: [closed_first] -- the closed flag is tested BEFORE a message is popped (`while not
   self._closed:` around the scan); with the test after the pop a closed subscription would take one more message away.
   Definitions only. *)
From Coq Require Import List String Bool Arith.
From SV Require Import Model.Glob.
Import ListNotations.

Definition chan := string.
Definition table := list (chan * list nat).          (* channel -> queued message ids, channels in creation order *)

Fixpoint tpublish (c : chan) (m : nat) (t : table) : table :=
  match t with
  | [] => [(c, [m])]
  | (c', q) :: tl => if String.eqb c c' then (c', q ++ [m]) :: tl else (c', q) :: tpublish c m tl
  end.

(* first matching channel with a queued message: pop its head *)
Fixpoint tpop (p : string) (t : table) : option (nat * table) :=
  match t with
  | [] => None
  | (c, q) :: tl =>
      if glob p c
      then match q with
           | m :: q' => Some (m, (c, q') :: tl)
           | [] => match tpop p tl with Some (m, tl') => Some (m, (c, q) :: tl') | None => None end
           end
      else match tpop p tl with Some (m, tl') => Some (m, (c, q) :: tl') | None => None end
  end.

Record sub := mkSub { s_pat : string; s_closed : bool; s_finished : bool }.

(* one `next()` on the subscription's iterator (a generator: once it has ended it stays ended): the message yielded
   (if any), the table and the subscription afterwards *)
Definition sub_next (closed_first : bool) (s : sub) (t : table) : option nat * table * sub :=
  let ended := mkSub (s_pat s) (s_closed s) true in
  if s_finished s then (None, t, s)
  else if closed_first && s_closed s then (None, t, ended)
  else match tpop (s_pat s) t with
       | None => (None, t, ended)
       | Some (m, t') => if s_closed s then (None, t', ended) (* popped, then the flag is seen: the message is dropped *)
                         else (Some m, t', s)
       end.

Inductive op :=
| OPub (c : chan)                 (* publish the next message id on c *)
| OOpen (p : string)              (* a new subscription (it gets the next subscription index) *)
| ONext (i : nat)                 (* advance subscription i once *)
| OClose (i : nat)                (* subscription i .close() *)
| ODrain (p : string) (fuel : nat). (* iterate a fresh subscription until it ends (at most fuel messages) *)

Record st := mkSt { tbl : table; subs : list sub; next_id : nat; delivered : list nat }.
Definition st0 : st := mkSt [] [] 0 [].

Fixpoint set_nth {A} (n : nat) (x : A) (l : list A) : list A :=
  match l, n with
  | [], _ => []
  | _ :: tl, O => x :: tl
  | h :: tl, S k => h :: set_nth k x tl
  end.

Fixpoint drain (p : string) (fuel : nat) (t : table) : list nat * table :=
  match fuel with
  | O => ([], t)
  | S f => match tpop p t with
           | Some (m, t') => let '(ms, t'') := drain p f t' in (m :: ms, t'')
           | None => ([], t)
           end
  end.

Definition step (closed_first : bool) (s : st) (o : op) : st :=
  match o with
  | OPub c => mkSt (tpublish c (next_id s) (tbl s)) (subs s) (S (next_id s)) (delivered s)
  | OOpen p => mkSt (tbl s) (subs s ++ [mkSub p false false]) (next_id s) (delivered s)
  | ONext i =>
      match nth_error (subs s) i with
      | Some sb => let '(mo, t', sb') := sub_next closed_first sb (tbl s) in
                   mkSt t' (set_nth i sb' (subs s)) (next_id s) (match mo with Some m => delivered s ++ [m] | None => delivered s end)
      | None => s
      end
  | OClose i =>
      match nth_error (subs s) i with
      | Some sb => mkSt (tbl s) (set_nth i (mkSub (s_pat sb) true (s_finished sb)) (subs s)) (next_id s) (delivered s)
      | None => s
      end
  | ODrain p fuel => let '(ms, t') := drain p fuel (tbl s) in mkSt t' (subs s) (next_id s) (delivered s ++ ms)
  end.

Definition run_ops (closed_first : bool) (ops : list op) : st := fold_left (step closed_first) ops st0.

Definition queued (t : table) : list nat := flat_map snd t.

(* correspondence case: operations, delivered ids in order, ids left queued per channel (creation order) *)
Definition qcase := (list op * list nat * list (string * list nat))%type.
Fixpoint nat_list_eqb (a b : list nat) : bool :=
  match a, b with [], [] => true | x :: a', y :: b' => Nat.eqb x y && nat_list_eqb a' b' | _, _ => false end.
Fixpoint table_eqb (a b : table) : bool :=
  match a, b with
  | [], [] => true
  | (c, q) :: a', (c', q') :: b' => String.eqb c c' && nat_list_eqb q q' && table_eqb a' b'
  | _, _ => false
  end.
Definition qcase_ok (closed_first : bool) (c : qcase) : bool :=
  let '(ops, dl, remaining) := c in
  let s := run_ops closed_first ops in nat_list_eqb (delivered s) dl && table_eqb (tbl s) remaining.
Fixpoint qbad (f : bool) (l : list qcase) (i : nat) : list nat :=
  match l with [] => [] | c :: tl => if qcase_ok f c then qbad f tl (S i) else i :: qbad f tl (S i) end.
