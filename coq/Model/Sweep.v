(* Model/Sweep.v — derive.parameter_sweep as a processor transformer
   (semantiva/data_processors/parametric_sweep_factory.py, pipeline/node_preprocess.py).
   Definitions only. *)
From Coq Require Import List String ZArith Bool Arith.
From SV Require Import Common.Prelude Model.Expr Model.Pipeline.
Import ListNotations.
Open Scope string_scope.

Inductive varspec :=
| VSeq (vs : list val)                                   (* explicit sequence *)
| VRange (lo hi : Z) (steps : nat) (endpoint : bool)     (* linear range; modelled when the step is an integer *)
| VFromCtx (key : string).

Inductive mode := Comb | ByPos.

Record sweep := mkSweep {
  sw_vars : list (string * varspec);        (* in mapping order *)
  sw_exprs : list (string * expr);          (* parameter name -> expression over the variables *)
  sw_mode : mode;
  sw_broadcast : bool
}.

(* ---- materialising variable domains ------------------------------------------------ *)
Fixpoint zrange (lo step : Z) (n : nat) : list val :=
  match n with O => [] | S m => VNum lo :: zrange (lo + step) step m end.

Definition materialize (ps : list (string * val)) (var : string) (s : varspec) : res (list val) :=
  match s with
  | VSeq vs => Ok vs
  | VRange lo hi steps endpoint =>
      let div := if endpoint then Z.of_nat (steps - 1) else Z.of_nat steps in
      if (div =? 0)%Z then Ok (zrange lo 0 steps)
      else if ((hi - lo) mod div =? 0)%Z then Ok (zrange lo ((hi - lo) / div) steps)
      else Fail (Err SProcessor "OutOfModel" "non-integer linspace step")
  | VFromCtx key =>
      match lookup key ps with
      | None => Fail (Err SProcessor "ValueError" key)
      | Some (VList []) => Fail (Err SProcessor "ValueError" key)
      | Some (VList l) => Ok l
      | Some _ => Fail (Err SProcessor "TypeError" key)
      end
  end.

Fixpoint materialize_all (ps : list (string * val)) (vars : list (string * varspec))
  : res (list (string * list val)) :=
  match vars with
  | [] => Ok []
  | (v, s) :: tl =>
      bind (materialize ps v s) (fun seq =>
      bind (materialize_all ps tl) (fun rest => Ok ((v, seq) :: rest)))
  end.

(* ---- iteration order ------------------------------------------------------------------ *)
Definition step := list (string * val).

(* Cartesian product, first variable slowest, last fastest *)
Fixpoint product (seqs : list (string * list val)) : list step :=
  match seqs with
  | [] => [[]]
  | (v, xs) :: tl => flat_map (fun x => map (cons (v, x)) (product tl)) xs
  end.

Definition max_len (seqs : list (string * list val)) : nat :=
  fold_right (fun p acc => Nat.max (List.length (snd p)) acc) 0 seqs.

Definition all_len (n : nat) (seqs : list (string * list val)) : bool :=
  forallb (fun p => Nat.eqb (List.length (snd p)) n) seqs.

Definition pos_step (seqs : list (string * list val)) (i : nat) : step :=
  map (fun p => (fst p, nth (i mod List.length (snd p)) (snd p) VNone)) seqs.

Definition iterate (m : mode) (broadcast : bool) (seqs : list (string * list val)) : res (list step) :=
  match seqs with
  | [] => Ok []
  | first :: _ =>
      match m with
      | Comb => Ok (product (ksort fst seqs))
      | ByPos =>
          if broadcast then Ok (map (pos_step seqs) (seq 0 (max_len seqs)))
          else if all_len (List.length (snd first)) seqs
               then Ok (map (pos_step seqs) (seq 0 (List.length (snd first))))
               else Fail (Err SProcessor "ValueError" "by_position lengths")
      end
  end.

(* ---- expressions over a step ------------------------------------------------------------- *)
Definition num_env (st : step) : string -> option Z :=
  fun x => match lookup x st with Some (VNum z) => Some z | _ => None end.

Definition eval_param (st : step) (e : expr) : res val :=
  match e with
  | Var x => match lookup x st with Some v => Ok v | None => Fail (Err SProcessor "NameError" x) end
  | _ => match eval (num_env st) e with
         | Some z => Ok (VNum z)
         | None => Fail (Err SProcessor "ZeroDivisionError" "")   (* the only way the arithmetic fragment raises *)
         end
  end.

Fixpoint eval_params (st : step) (exprs : list (string * expr)) : res (list (string * val)) :=
  match exprs with
  | [] => Ok []
  | (n, e) :: tl => bind (eval_param st e) (fun v => bind (eval_params st tl) (fun r => Ok ((n, v) :: r)))
  end.

(* computed-by-expression > provided (node parameters / context / defaults, already resolved) *)
Definition merge_call (elem_params : list string) (computed base : list (string * val)) : list (string * val) :=
  flat_map (fun n => match lookup n computed with
                     | Some v => [(n, v)]
                     | None => match lookup n base with Some v => [(n, v)] | None => [] end
                     end) elem_params.

(* ---- the generated sweep processor ----------------------------------------------------------- *)
Definition from_ctx_keys (vars : list (string * varspec)) : list string :=
  flat_map (fun p => match snd p with VFromCtx k => [k] | _ => [] end) vars.

Definition bound (sw : sweep) (n : string) : bool := smem n (map fst (sw_exprs sw)).

Definition required_ext (elem : proc) (sw : sweep) : list string :=
  filter (fun n => negb (bound sw n) && negb (has n (pr_defaults elem))) (pr_params elem).
Definition optional_ext (elem : proc) (sw : sweep) : list string :=
  filter (fun n => negb (bound sw n) && has n (pr_defaults elem)) (pr_params elem).

Definition values_key (v : string) : string := v ++ "_values".

Definition published (seqs : list (string * list val)) : list cop :=
  map (fun p => CSet (values_key (fst p)) (VList (snd p))) seqs.

(* probe_publishes: whether a swept probe's materialised sequences reach the context
   (the documented behaviour is true; the value for the current code is a generated fact) *)
Definition sweep_proc (probe_publishes : bool) (elem : proc) (sw : sweep) : proc :=
  let ext := (required_ext elem sw ++ optional_ext elem sw)%list in
  mkProc (pr_kind elem)
    (from_ctx_keys (sw_vars sw) ++ ext)%list
    (filter (fun kv => smem (fst kv) (optional_ext elem sw)) (pr_defaults elem))
    true
    (match pr_kind elem with KSource => TNone | _ => pr_in elem end)
    (map (fun p => values_key (fst p)) (sw_vars sw) ++ pr_created elem)%list
    []
    (fun d ps =>
       bind (materialize_all ps (sw_vars sw)) (fun seqs =>
       bind (iterate (sw_mode sw) (sw_broadcast sw) seqs) (fun steps =>
       let base := filter (fun kv => smem (fst kv) ext) ps in
       bind (mapM (fun st =>
                     bind (eval_params st (sw_exprs sw)) (fun computed =>
                     pr_run elem d (merge_call (pr_params elem) computed base))) steps) (fun rs =>
       let elem_ops := flat_map (fun r => snd r) rs in
       match pr_kind elem with
       | KProbe =>
           Ok (d, VList (map (fun r => snd (fst r)) rs),
               (elem_ops ++ (if probe_publishes then published seqs else []))%list)
       | _ =>
           bind (mapM (fun r => as_float (fst (fst r))) rs) (fun zs =>
           Ok (DC zs, VNone, (elem_ops ++ published seqs)%list))
       end)))).

(* ---- YAML variable specifications -> varspec (pipeline/node_preprocess.py, _convert_var_specs) --------- *)
Inductive rawvar :=
| RawList (l : list val)                                  (* [v1, v2, ...] *)
| RawValues (l : list val)                                (* { values: [...] } *)
| RawRange (lo hi : Z) (steps : nat) (endpoint : bool)    (* { lo, hi, steps [, endpoint] } (linear) *)
| RawFromCtx (key : string).                              (* { from_context: key } *)

(* two_is_range: whether a two-element numeric list is silently read as a 10-step range
   (generated fact; the documented form "Sequence: [v1, v2, ...]" says false) *)
Definition convert_var (two_is_range : bool) (r : rawvar) : varspec :=
  match r with
  | RawList [VNum a; VNum b] => if two_is_range then VRange a b 10 true else VSeq [VNum a; VNum b]
  | RawList l => VSeq l
  | RawValues l => VSeq l
  | RawRange lo hi steps e => VRange lo hi steps e
  | RawFromCtx k => VFromCtx k
  end.
