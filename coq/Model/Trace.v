(* Model/Trace.v -- the traced execution of a pipeline: SemantivaOrchestrator.execute with a JSONL trace
   driver (semantiva/execution/orchestrator/orchestrator.py, trace/drivers/jsonl.py, trace/delta_collector.py).
   One model shared by C06 (well-formed trace whatever fails), C07 (what a SER says is true) and C10 (tracing
   is observational, traces reproducible).  Node execution is Model/Pipeline.v's `exec_node`.
   The protected-region structure, the time source, the parameter report and the metadata handling are
   selected by a `facts` record that Gen/OrchestratorGen.v fills from the source on every run.
   Definitions only. *)
From Coq Require Import List String ZArith NArith Bool Arith.
From SV Require Import Common.Prelude Model.Expr Model.Pipeline Model.Sweep Model.PipelineLib.
Import ListNotations.
Open Scope string_scope.

(* ---- what the code looks like (generated) --------------------------------------------------------- *)
Record facts := mkFacts {
  f_inst_in_try : bool;      (* _instantiate_nodes is called inside the outer try *)
  f_node_base : bool;        (* the per-node handler catches BaseException (else Exception) *)
  f_outer_base : bool;       (* the outer handler catches BaseException (else Exception) *)
  f_end_both : bool;         (* on_pipeline_end in the success arm and in the outer handler *)
  f_finally : bool;          (* flush + close in the outer finally *)
  f_iso_utc : bool;          (* orchestrator._iso_now takes UTC time *)
  f_drv_utc : bool;          (* JsonlTraceDriver._now_timestamp takes UTC time *)
  f_defaults : bool;         (* parameters that have a default are reported (context / default channel) *)
  f_meta_safe : bool;        (* preprocessor metadata is made JSON-safe before the trace side uses it *)
  f_pid_stable : bool;       (* the canonical spec is not enriched in place after the pipeline id was hashed *)
  f_prestart : bool          (* the ids computed before pipeline_start hash the preprocessor metadata (json.dumps) *)
}.

(* top-level keys the driver writes, per record type (generated from jsonl.py / trace/model.py) *)
Record layout := mkLayout {
  l_start : list string; l_start_droppable : list string;
  l_end : list string;
  l_ser : list string; l_ser_optional : list string
}.

(* tables generated from trace/schema/*.json *)
Record schema := mkSchema {
  sc_required : list (string * list string);   (* record type -> required top-level fields *)
  sc_const : list (string * string);           (* record type -> record_type const *)
  sc_status : list string; sc_source : list string; sc_result : list string
}.

(* ---- pipelines with the trace-relevant node attributes ------------------------------------------------ *)
Inductive pmeta := MNone | MJson | MOpaque.   (* preprocessor metadata: none / JSON-safe / holds a non-JSON value *)

Record tnode := mkT { t_node : node; t_meta : pmeta; t_out : dtype }.

Definition nodes_of (p : list tnode) : list node := map t_node p.

Definition meta_eff (F : facts) (tn : tnode) : pmeta :=
  match t_meta tn with
  | MOpaque => if f_meta_safe F then MJson else MOpaque
  | m => m
  end.
Definition is_opaque (m : pmeta) : bool := match m with MOpaque => true | _ => false end.
Definition has_meta (m : pmeta) : bool := match m with MNone => false | _ => true end.

(* exception classes that derive from BaseException but not from Exception *)
Definition base_only_cls (cls : string) : bool :=
  String.eqb cls "KeyboardInterrupt" || String.eqb cls "SystemExit" || String.eqb cls "GeneratorExit"
  || String.eqb cls "VerifAbort".    (* harness-side BaseException subclass *)
Definition base_only (e : err) : bool := match e with Err _ cls _ => base_only_cls cls end.
Definition err_cls (e : err) : string := match e with Err _ cls _ => cls end.
(* `except <handler class>` catches e *)
Definition caught (catches_base : bool) (e : err) : bool := catches_base || negb (base_only e).

Definition lib_abort (cls : string) : proc :=
  mkProc KOp [] [] false TF [] [] (fun _ _ => Fail (perr cls)).
Definition lib_interrupt : proc := lib_abort "KeyboardInterrupt".

(* ---- records ---------------------------------------------------------------------------------------------- *)
Inductive chan := ChNode | ChContext | ChDefault.
Inductive pid := PId (spec_enriched : bool).   (* H(canonical spec as found when the run starts) *)

Section Records.
Variable D : Type.                              (* digests *)

Record ser := mkSer {
  s_pid : pid; s_rid : N; s_node : nat; s_up : list nat;
  s_ok : bool; s_err : string;
  s_created : list string; s_updated : list string;
  s_params : list (string * val); s_sources : list (string * chan);
  s_req_ok : bool; s_in_ok : bool; s_out_ok : bool; s_writes_ok : bool;
  s_din : D; s_dout : D; s_cpre : D; s_cpost : D;
  s_t0 : Z; s_t1 : Z; s_wall : Z;
  s_has_summaries : bool
}.

Inductive record :=
| RStart (p : pid) (rid : N) (seq : N) (ts : Z) (has_spec : bool)
| RSer (s : ser)
| REnd (rid : N) (seq : N) (ts : Z) (ok : bool).

(* driver: file handle state *)
Inductive drv := Closed (flushed : list record) | Open (buffered flushed : list record).

Definition d_open (d : drv) : drv := match d with Closed f => Open [] f | o => o end.
Definition d_emit (d : drv) (r : record) : drv :=
  match d with Open b f => Open (b ++ [r]) f | Closed f => Closed f end.
Definition d_flush (d : drv) : drv := match d with Open b f => Open [] (f ++ b) | c => c end.
Definition d_close (d : drv) : drv := match d with Open b f => Closed (f ++ b) | c => c end.
Definition d_emit_all (d : drv) (rs : list record) : drv := fold_left d_emit rs d.
End Records.

Arguments mkSer {D}.
Arguments RStart {D}. Arguments RSer {D}. Arguments REnd {D}.
Arguments Closed {D}. Arguments Open {D}.
Arguments s_pid {D}. Arguments s_rid {D}. Arguments s_node {D}. Arguments s_up {D}. Arguments s_ok {D}.
Arguments s_err {D}. Arguments s_created {D}. Arguments s_updated {D}. Arguments s_params {D}.
Arguments s_sources {D}. Arguments s_req_ok {D}. Arguments s_in_ok {D}. Arguments s_out_ok {D}.
Arguments s_writes_ok {D}. Arguments s_din {D}. Arguments s_dout {D}. Arguments s_cpre {D}. Arguments s_cpost {D}.
Arguments s_t0 {D}. Arguments s_t1 {D}. Arguments s_wall {D}. Arguments s_has_summaries {D}.
Arguments d_open {D}. Arguments d_emit {D}. Arguments d_flush {D}. Arguments d_close {D}. Arguments d_emit_all {D}.

(* ---- what a SER says ---------------------------------------------------------------------------------------- *)
Definition sid (s : string) : string := s.
Definition ctx_keys (c : ctx) : list string := map fst c.

(* DeltaCollector.compute: created = post keys - pre keys; updated = common keys whose value changed; sorted *)
Definition changed (pre post : ctx) (k : string) : bool :=
  match lookup k pre, lookup k post with
  | Some a, Some b => negb (val_eqb a b)
  | _, _ => false
  end.
Definition created_keys (pre post : ctx) : list string :=
  ksort sid (filter (fun k => negb (has k pre)) (ctx_keys post)).
Definition updated_keys (pre post : ctx) : list string :=
  ksort sid (filter (changed pre post) (ctx_keys post)).

(* _required_keys_for / _infer_context_parameters: processing parameters neither configured nor defaulted *)
Definition required_keys (n : node) : list string :=
  filter (fun k => negb (has k (n_cfg n)) && negb (has k (pr_defaults (n_proc n)))) (pr_params (n_proc n)).

(* _resolve_params_with_sources: declared -> node; required and present -> context;
   (repaired variant) defaulted names: context if present, else default *)
Definition report_ctx (n : node) (c : ctx) : list (string * val * chan) :=
  flat_map (fun k => match lookup k c with Some v => [(k, v, ChContext)] | None => [] end) (required_keys n).
Definition report_defaults (n : node) (c : ctx) : list (string * val * chan) :=
  flat_map (fun k =>
     if has k (n_cfg n) then [] else
     match lookup k (pr_defaults (n_proc n)) with
     | None => []
     | Some dv => match lookup k c with Some v => [(k, v, ChContext)] | None => [(k, dv, ChDefault)] end
     end) (pr_params (n_proc n)).
Definition report (F : facts) (n : node) (c : ctx) : list (string * val * chan) :=
  (map (fun kv => (fst kv, snd kv, ChNode)) (n_cfg n) ++ report_ctx n c
   ++ (if f_defaults F then report_defaults n c else []))%list.
Definition report_lookup (k : string) (r : list (string * val * chan)) : option (val * chan) :=
  match find (fun e => String.eqb k (fst (fst e))) r with Some e => Some (snd (fst e), snd e) | None => None end.

(* the channel a parameter actually comes from (Pipeline.resolve: configuration > context > default) *)
Definition actual (n : node) (c : ctx) (k : string) : option (val * chan) :=
  match lookup k (n_cfg n) with
  | Some v => Some (v, ChNode)
  | None => match lookup k c with
            | Some v => Some (v, ChContext)
            | None => match lookup k (pr_defaults (n_proc n)) with
                      | Some v => Some (v, ChDefault)
                      | None => None
                      end
            end
  end.

(* built-in checks *)
Definition chk_required (n : node) (c : ctx) : bool := forallb (fun k => has k c) (required_keys n).
Definition chk_type (want : dtype) (d : data) : bool := gate want d.
Definition chk_writes (created updated : list string) (post : ctx) : bool :=
  forallb (fun k => has k post) (created ++ updated).

(* linear pipeline: canonical edges are (i-1 -> i) *)
Definition upstream (i : nat) : list nat := match i with O => [] | S j => [j] end.

(* time: a clock oracle read by position; `stamp` = the instant the emitted "....Z" string denotes *)
Definition stamp (use_utc : bool) (off : Z) (t : Z) : Z := if use_utc then t else (t + off)%Z.

Record env := mkEnv {
  e_rid : N;               (* uuid4 of this run *)
  e_seq : N;               (* driver sequence counter when the run starts *)
  e_prior : bool;          (* this Pipeline object already made a traced run *)
  e_clk : nat -> Z;        (* clock oracle: the k-th reading, UTC milliseconds *)
  e_off : Z;               (* host zone offset *)
  e_hash : bool            (* detail flags produce any summary (hash / repr) *)
}.

Section Exec.
Variables B D : Type.
Variable sd : data -> B.          (* serialize(data) *)
Variable sc : ctx -> B.           (* canonical_json_bytes(context view) *)
Variable H : B -> D.              (* sha256 *)
Variable F : facts.
Variable E : env.

Definition ser_of (pd : pid) (i : nat) (tn : tnode) (pre post : state) (ok : bool) (ecls : string) (k : nat) : ser D :=
  let n := t_node tn in
  let cr := created_keys (snd pre) (snd post) in
  let up := updated_keys (snd pre) (snd post) in
  let rep := report F n (snd pre) in
  mkSer pd (e_rid E) i (upstream i) ok ecls cr up
    (map (fun e => (fst (fst e), snd (fst e))) rep) (map (fun e => (fst (fst e), snd e)) rep)
    (chk_required n (snd pre)) (chk_type (pr_in (n_proc n)) (fst pre)) (chk_type (t_out tn) (fst post))
    (chk_writes cr up (snd post))
    (H (sd (fst pre))) (H (sd (fst post))) (H (sc (snd pre))) (H (sc (snd post)))
    (stamp (f_iso_utc F) (e_off E) (e_clk E (S k))) (stamp (f_iso_utc F) (e_off E) (e_clk E (S (S k))))
    (e_clk E (S (S (S k))) - e_clk E k)%Z
    (e_hash E).

(* outcome of the traced call *)
Inductive toutcome :=
| TPlain (o : outcome)                        (* what the untraced executor gives *)
| TTrace (idx : nat) (cls : string).          (* a trace-side operation raised while node idx was being recorded *)

Inductive lres := LDone (s : state) | LRaise (o : toutcome) (base : bool).

(* _make_ser_record: json.dumps(preprocessor metadata) *)
Definition ser_raises (tn : tnode) : bool := is_opaque (meta_eff F tn).

(* the node loop; every node reads the clock four times (wall, iso, iso, wall) *)
Fixpoint loop (pd : pid) (i : nat) (p : list tnode) (s : state) (k : nat) : list (ser D) * lres :=
  match p with
  | [] => ([], LDone s)
  | tn :: tl =>
      match exec_node (t_node tn) s with
      | Ok s' =>
          if ser_raises tn then ([], LRaise (TTrace i "TypeError") false)
          else (ser_of pd i tn s s' true "" k :: fst (loop pd (S i) tl s' (k + 4)), snd (loop pd (S i) tl s' (k + 4)))
      | Fail e =>
          if caught (f_node_base F) e then
            if ser_raises tn then ([], LRaise (TTrace i "TypeError") false)
            else ([ser_of pd i tn s s false (err_cls e) k], LRaise (TPlain (Failed i e)) (base_only e))
          else ([], LRaise (TPlain (Failed i e)) (base_only e))
      end
  end.

Definition body (pd : pid) (p : list tnode) (s : state) : list (ser D) * lres :=
  match first_unconstructible 0 (nodes_of p) with
  | Some (i, e) => ([], LRaise (TPlain (CFailed i e)) (base_only e))
  | None => loop pd 0 p s 1
  end.

Record result := mkRes { r_out : toutcome; r_emitted : list (record D); r_drv : drv D }.

Definition end_ts (p : list tnode) : nat := 1 + 4 * List.length p.

(* try: <body> ; on_pipeline_end(ok)   except <outer>: on_pipeline_end(error); raise   finally: flush; close *)
Definition protected (d0 : drv D) (pre : list (record D)) (b : list (ser D) * lres) (p : list tnode) : result :=
  let rs := map RSer (fst b) in
  let r := snd b in
  let fin (d : drv D) := if f_finally F then d_close (d_flush d) else d in
  let ts := stamp (f_drv_utc F) (e_off E) (e_clk E (end_ts p)) in
  match r with
  | LDone s' =>
      let e := REnd (e_rid E) (e_seq E + 2) ts true in
      mkRes (TPlain (Done s')) (pre ++ rs ++ [e]) (fin (d_emit_all d0 (rs ++ [e])))
  | LRaise o base =>
      if (f_outer_base F || negb base) && f_end_both F then
        let e := REnd (e_rid E) (e_seq E + 2) ts false in
        mkRes o (pre ++ rs ++ [e]) (fin (d_emit_all d0 (rs ++ [e])))
      else mkRes o (pre ++ rs) (fin (d_emit_all d0 rs))
  end.

Definition any_meta (p : list tnode) : bool := existsb (fun tn => has_meta (t_meta tn)) p.
Definition any_opaque (p : list tnode) : bool := existsb (fun tn => is_opaque (meta_eff F tn)) p.

Definition execute_traced (p : list tnode) (s : state) : result :=
  (* the id is hashed from the shared canonical spec as this run finds it *)
  let pd := PId (e_prior E && negb (f_pid_stable F) && any_meta p) in
  (* the spec handed to the driver is already enriched with this run's metadata; the driver drops it when
     json.dumps raises TypeError *)
  let start := RStart pd (e_rid E) (e_seq E + 1) (stamp (f_drv_utc F) (e_off E) (e_clk E 0)) (negb (any_opaque p)) in
  let d1 := d_emit (d_open (Closed [])) start in
  (* compute_pipeline_semantic_id over metadata json cannot encode: raises before anything is emitted *)
  if f_prestart F && any_opaque p then mkRes (TTrace 0 "TypeError") [] (Closed []) else
  if f_inst_in_try F then protected d1 [start] (body pd p s) p
  else match first_unconstructible 0 (nodes_of p) with
       | Some (i, e) => mkRes (TPlain (CFailed i e)) [start] d1       (* raised before the try *)
       | None => protected d1 [start] (loop pd 0 p s 1) p
       end.

(* which nodes started *)
Definition started (p : list tnode) (s : state) : list nat :=
  match first_unconstructible 0 (nodes_of p) with
  | Some _ => []
  | None => exec_log 0 (nodes_of p) s
  end.
End Exec.

Arguments r_out {D}. Arguments r_emitted {D}. Arguments r_drv {D}. Arguments mkRes {D}.

(* ---- schema ---------------------------------------------------------------------------------------------------- *)
Section Schema.
Variable D : Type.
Variable L : layout.
Variable Sc : schema.

Definition rtype (r : record D) : string :=
  match r with RStart _ _ _ _ _ => "pipeline_start" | RSer _ => "ser" | REnd _ _ _ _ => "pipeline_end" end.

(* the JSON object's top-level keys as the driver writes them *)
Definition fields_of (r : record D) : list string :=
  match r with
  | RStart _ _ _ _ has_spec =>
      if has_spec then l_start L else filter (fun f => negb (smem f (l_start_droppable L))) (l_start L)
  | REnd _ _ _ _ => l_end L
  | RSer s =>
      (l_ser L ++ filter (fun f => if String.eqb f "error" then negb (s_ok s)
                                   else if String.eqb f "summaries" then s_has_summaries s else true)
                         (l_ser_optional L))%list
  end.

Definition alookup {A} (k : string) (l : list (string * A)) : option A :=
  match find (fun e => String.eqb k (fst e)) l with Some e => Some (snd e) | None => None end.

Definition chan_name (c : chan) : string :=
  match c with ChNode => "node" | ChContext => "context" | ChDefault => "default" end.

Definition fields_ok (rt : string) (fields : list string) : bool :=
  match alookup rt (sc_required Sc), alookup rt (sc_const Sc) with
  | Some req, Some c => String.eqb c rt && forallb (fun f => smem f fields) req
  | _, _ => false
  end.

Definition enums_ok : bool :=
  smem "succeeded" (sc_status Sc) && smem "error" (sc_status Sc)
  && smem "node" (sc_source Sc) && smem "context" (sc_source Sc) && smem "default" (sc_source Sc)
  && smem "PASS" (sc_result Sc) && smem "FAIL" (sc_result Sc).

Definition ser_enums_ok (s : ser D) : bool :=
  smem (if s_ok s then "succeeded" else "error") (sc_status Sc)
  && forallb (fun e => smem (chan_name (snd e)) (sc_source Sc)) (s_sources s)
  && smem "PASS" (sc_result Sc) && smem "FAIL" (sc_result Sc).

(* a record validates against the schema the registry maps its record_type to (top-level required fields,
   record_type const, enums) *)
Definition schema_ok (r : record D) : bool :=
  fields_ok (rtype r) (fields_of r) && match r with RSer s => ser_enums_ok s | _ => true end.

(* the shipped schemas accept what the driver writes when nothing is dropped *)
Definition tables_ok : bool :=
  fields_ok "pipeline_start" (l_start L) && fields_ok "pipeline_end" (l_end L) && fields_ok "ser" (l_ser L) && enums_ok.
End Schema.
Arguments schema_ok {D}. Arguments rtype {D}. Arguments fields_of {D}. Arguments ser_enums_ok {D}.

(* ---- normalisation: run id, timestamps, durations, sequence numbers removed ------------------------------------------ *)
Definition norm_ser {D} (s : ser D) : ser D :=
  mkSer (s_pid s) 0%N (s_node s) (s_up s) (s_ok s) (s_err s) (s_created s) (s_updated s) (s_params s) (s_sources s)
        (s_req_ok s) (s_in_ok s) (s_out_ok s) (s_writes_ok s) (s_din s) (s_dout s) (s_cpre s) (s_cpost s) 0%Z 0%Z 0%Z
        (s_has_summaries s).
Definition norm_rec {D} (r : record D) : record D :=
  match r with
  | RStart p _ _ _ h => RStart p 0%N 0%N 0%Z h
  | RSer s => RSer (norm_ser s)
  | REnd _ _ _ ok => REnd 0%N 0%N 0%Z ok
  end.
Definition normalise {D} (t : list (record D)) : list (record D) := map norm_rec t.

(* ---- correspondence: what the harness observed, compared with the model ------------------------------------------------- *)
Record oser := mkOSer {
  o_node : nat; o_up : list nat; o_ok : bool; o_err : string;
  o_created : list string; o_updated : list string;
  o_params : list (string * val); o_sources : list (string * chan);
  o_req : bool; o_in : bool; o_out : bool; o_writes : bool;
  o_dig : option (nat * nat * nat * nat)       (* equality classes of the data / context digests, by first occurrence *)
}.
Inductive orec :=
| OStart (has_spec : bool) (pidc ridc : nat)
| OSer (pidc ridc : nat) (s : oser)
| OEnd (ridc : nat) (ok : bool)
| OOther.

Inductive texpect := XPlain (x : expect) | XTFailed (idx : nat) (cls : string).

Definition chan_eqb (a b : chan) : bool :=
  match a, b with ChNode, ChNode | ChContext, ChContext | ChDefault, ChDefault => true | _, _ => false end.

Fixpoint list_eqb {A} (eqb : A -> A -> bool) (a b : list A) : bool :=
  match a, b with
  | [], [] => true
  | x :: a', y :: b' => eqb x y && list_eqb eqb a' b'
  | _, _ => false
  end.

Definition sorted_params {A} (l : list (string * A)) : list (string * A) := ksort fst l.

(* digests in the correspondence: the content itself (H = identity); classes by first occurrence *)
Definition cdig := (data + ctx)%type.
Definition cdig_eqb (a b : cdig) : bool :=
  match a, b with
  | inl x, inl y => data_eqb x y
  | inr x, inr y => ctx_eqb x y
  | _, _ => false
  end.
Fixpoint index_of (x : cdig) (seen : list cdig) (i : nat) : option nat :=
  match seen with
  | [] => None
  | y :: tl => if cdig_eqb x y then Some i else index_of x tl (S i)
  end.
Definition classify_dig (seen : list cdig) (x : cdig) : nat * list cdig :=
  match index_of x seen 0 with
  | Some i => (i, seen)
  | None => (List.length seen, (seen ++ [x])%list)
  end.

Definition toutcome_matches (o : toutcome) (x : texpect) : bool :=
  match o, x with
  | TPlain o', XPlain x' => outcome_matches o' x'
  | TTrace i c, XTFailed j c' => Nat.eqb i j && String.eqb c c'
  | _, _ => false
  end.

(* ids: model ids are compared through equality classes too: (pid enriched?) and the single run id *)
Definition pid_class (first : pid) (p : pid) : nat :=
  match first, p with PId a, PId b => if Bool.eqb a b then 0 else 1 end.

Definition ser_matches (m : ser cdig) (o : oser) (dseen cseen : list cdig) : bool * list cdig * list cdig :=
  let '(c1, dseen1) := classify_dig dseen (s_din m) in
  let '(c2, dseen2) := classify_dig dseen1 (s_dout m) in
  let '(c3, cseen1) := classify_dig cseen (s_cpre m) in
  let '(c4, cseen2) := classify_dig cseen1 (s_cpost m) in
  (Nat.eqb (s_node m) (o_node o) && list_eqb Nat.eqb (s_up m) (o_up o) && Bool.eqb (s_ok m) (o_ok o)
   && String.eqb (s_err m) (o_err o)
   && list_eqb String.eqb (s_created m) (o_created o) && list_eqb String.eqb (s_updated m) (o_updated o)
   && list_eqb (fun a b => String.eqb (fst a) (fst b) && val_eqb (snd a) (snd b)) (sorted_params (s_params m)) (o_params o)
   && list_eqb (fun a b => String.eqb (fst a) (fst b) && chan_eqb (snd a) (snd b)) (sorted_params (s_sources m)) (o_sources o)
   && Bool.eqb (s_req_ok m) (o_req o) && Bool.eqb (s_in_ok m) (o_in o) && Bool.eqb (s_out_ok m) (o_out o)
   && Bool.eqb (s_writes_ok m) (o_writes o)
   && match o_dig o with
      | None => true
      | Some (a, b, c, d) => Nat.eqb a c1 && Nat.eqb b c2 && Nat.eqb c c3 && Nat.eqb d c4
      end,
   dseen2, cseen2).

Fixpoint trace_matches (first : pid) (ms : list (record cdig)) (os : list orec) (dseen cseen : list cdig) : bool :=
  match ms, os with
  | [], [] => true
  | RStart p _ _ _ hs :: ms', OStart hs' pc rc :: os' =>
      Bool.eqb hs hs' && Nat.eqb (pid_class first p) pc && Nat.eqb rc 0 && trace_matches first ms' os' dseen cseen
  | REnd _ _ _ ok :: ms', OEnd rc ok' :: os' =>
      Bool.eqb ok ok' && Nat.eqb rc 0 && trace_matches first ms' os' dseen cseen
  | RSer m :: ms', OSer pc rc o :: os' =>
      let '(b, d2, c2) := ser_matches m o dseen cseen in
      b && Nat.eqb (pid_class first (s_pid m)) pc && Nat.eqb rc 0 && trace_matches first ms' os' d2 c2
  | _, _ => false
  end.

Definition first_pid {D} (t : list (record D)) : pid :=
  match t with RStart p _ _ _ _ :: _ => p | _ => PId false end.

Definition drv_closed {D} (d : drv D) : bool := match d with Closed _ => true | Open _ _ => false end.
Definition drv_flushed_count {D} (d : drv D) : nat :=
  match d with Closed f => List.length f | Open _ f => List.length f end.

Record tcase := mkCase {
  c_nodes : list tnode; c_data : data; c_ctx : ctx;
  c_prior : bool;                   (* second traced run of the same Pipeline object *)
  c_pid_same : bool;                (* pipeline_id equals the one of the object's first traced run *)
  c_obs : list orec;                (* emitted records (skeleton) *)
  c_closed : bool;                  (* driver._file is None when the call returns / raises *)
  c_on_disk : nat;                  (* lines on disk at that moment *)
  c_expect : texpect                (* what the traced call returned / raised *)
}.

Definition run_case (F : facts) (c : tcase) : result cdig :=
  execute_traced cdig cdig (fun d => inl d) (fun x => inr x) (fun x => x) F
    (mkEnv 7%N 0%N (c_prior c) (fun _ => 0%Z) 0%Z true) (c_nodes c) (c_data c, c_ctx c).

Definition tcase_ok (F : facts) (c : tcase) : bool :=
  let r := run_case F c in
  toutcome_matches (r_out r) (c_expect c)
  && trace_matches (first_pid (r_emitted r)) (r_emitted r) (c_obs c) [] []
  && Bool.eqb (match first_pid (r_emitted r) with PId e => negb e end) (c_pid_same c)
  && Bool.eqb (drv_closed (r_drv r)) (c_closed c)
  && Nat.eqb (drv_flushed_count (r_drv r)) (c_on_disk c).
