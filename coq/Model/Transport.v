(* Model/Transport.v -- small-step interleaving model of semantiva's in-memory transport
   (semantiva/execution/transport/in_memory.py).  Definitions only.

   Granularity: one step = one source statement of `publish` / `InMemorySubscription.__iter__`
   (bodies of `with lock:` are part of the step that enters the `with`), plus the Python-level
   factory call of the defaultdict as its own steps (FactoryCall, Store) when queue creation is
   not atomic.  Thread-local statements that touch neither the table, a queue nor the delivered
   list (`if require_ack`, `return`, `while`, `found = ..`, `break`) are not modelled (tau).

   config.atomic_create : creation of a new channel's queue is one atomic step that never
                          overwrites an existing entry (true) / is split into
                          Lookup(miss) ; FactoryCall ; Store, where Store overwrites (false).
   config.locked_ops    : check-and-popleft is one atomic step (true) / is split into a check
                          and a popleft that crashes on an empty queue (false).

   Schedules are `list tid`; a step of a thread that is not enabled is skipped (so every list is
   a schedule).  `replay` is the strict variant used by trace validation: every (tid, event) of
   a trace observed on the real code must be enabled. *)
From Coq Require Import List String Bool Arith.
From SV Require Import Model.Glob.
Import ListNotations.

Definition chan := string.
Definition qid := nat.
Definition tid := nat.

Record config := mkConfig { atomic_create : bool; locked_ops : bool }.

(* a message is identified by (publisher thread, per-publisher sequence number) *)
Record msg := mkMsg { m_pub : tid; m_seq : nat; m_chan : chan }.

(* fnmatch: the two families the property names -- exact names and `prefix*` (incl. `*`) -- and any shell-style pattern
   (Model/Glob.v: star, question mark, [seq], [!seq]); Proofs/Glob.v shows the first two are instances of the third *)
Inductive pat := PExact (s : string) | PPrefix (s : string) | PGlob (s : string).
Definition fnmatchb (c : chan) (p : pat) : bool :=
  match p with PExact s => String.eqb c s | PPrefix s => String.prefix s c | PGlob s => glob s c end.

Inductive ppc :=
| PLookup | PFactory | PStore (q : qid) | PMk (q : qid) | PAppend (q : qid) (m : msg).

Inductive spc :=
| SStart                                         (* about to take a snapshot of the table *)
| SScan (rest : list (chan * qid))               (* at the `for`, found = False *)
| SMatch (c : chan) (q : qid) (rest : list (chan * qid))
| SWith (q : qid) (rest : list (chan * qid))     (* at `with lock:` of a matching channel *)
| SPopDo (b : bool) (q : qid) (rest : list (chan * qid))  (* unlocked variant: `if q` evaluated to b, popleft pending *)
| SCheck (m : option msg) (rest : list (chan * qid))
| SYield (m : msg)
| SDone | SCrashed.

Inductive thread :=
| TPub (todo : list chan) (seq : nat) (pc : ppc)   (* channels still to publish to, head = current *)
| TSub (p : pat) (pc : spc) (got : list msg).

(* heap of queue objects; the channel a queue object was created for is kept as a ghost tag *)
Record state := mkState {
  heap : list (chan * list msg);
  dict : list (chan * qid);          (* the table, in insertion order *)
  thr : list thread;
  appended : list msg                (* ghost: log of completed q.append(msg) *)
}.

Inductive event :=
| ELookup | EFactoryCall | EStore | EMkMsg | EAppend | EFor | EMatch | EPop | ECheck | EYield.

Fixpoint set_nth {A} (n : nat) (x : A) (l : list A) : list A :=
  match l, n with
  | [], _ => []
  | _ :: tl, O => x :: tl
  | h :: tl, S k => h :: set_nth k x tl
  end.

Fixpoint dlookup (c : chan) (d : list (chan * qid)) : option qid :=
  match d with
  | [] => None
  | (c', q) :: tl => if String.eqb c c' then Some q else dlookup c tl
  end.

(* dict[c] = q : overwrite in place, or insert at the end *)
Fixpoint dstore (c : chan) (q : qid) (d : list (chan * qid)) : list (chan * qid) :=
  match d with
  | [] => [(c, q)]
  | (c', q') :: tl => if String.eqb c c' then (c', q) :: tl else (c', q') :: dstore c q tl
  end.

Definition scan_next (l : list (chan * qid)) : spc :=
  match l with [] => SDone | (c, q) :: r => SMatch c q r end.

(* one step of thread [t] in configuration [cfg]; result = new heap, table, log, thread *)
Definition step_thread (cfg : config) (t : tid) (h : list (chan * list msg)) (d : list (chan * qid))
           (a : list msg) (th : thread) (e : event)
  : option (list (chan * list msg) * list (chan * qid) * list msg * thread) :=
  match th, e with
  | TPub (c :: rest) n PLookup, ELookup =>
      match dlookup c d with
      | Some q => Some (h, d, a, TPub (c :: rest) n (PMk q))
      | None =>
          if atomic_create cfg
          then Some (h ++ [(c, [])], d ++ [(c, List.length h)], a, TPub (c :: rest) n (PMk (List.length h)))
          else Some (h, d, a, TPub (c :: rest) n PFactory)
      end
  | TPub (c :: rest) n PFactory, EFactoryCall =>
      Some (h ++ [(c, [])], d, a, TPub (c :: rest) n (PStore (List.length h)))
  | TPub (c :: rest) n (PStore q), EStore =>
      Some (h, dstore c q d, a, TPub (c :: rest) n (PMk q))
  | TPub (c :: rest) n (PMk q), EMkMsg =>
      Some (h, d, a, TPub (c :: rest) n (PAppend q (mkMsg t n c)))
  | TPub (c :: rest) n (PAppend q m), EAppend =>
      match nth_error h q with
      | Some (c', l) => Some (set_nth q (c', l ++ [m]) h, d, a ++ [m], TPub rest (S n) PLookup)
      | None => None
      end
  | TSub p SStart got, EFor => Some (h, d, a, TSub p (scan_next d) got)
  | TSub p (SScan rest) got, EFor => Some (h, d, a, TSub p (scan_next rest) got)
  | TSub p (SMatch c q rest) got, EMatch =>
      Some (h, d, a, TSub p (if fnmatchb c p then SWith q rest else SScan rest) got)
  | TSub p (SWith q rest) got, EPop =>
      if locked_ops cfg then
        match nth_error h q with
        | Some (c', []) => Some (h, d, a, TSub p (SCheck None rest) got)
        | Some (c', m :: l) => Some (set_nth q (c', l) h, d, a, TSub p (SCheck (Some m) rest) got)
        | None => None
        end
      else
        match nth_error h q with
        | Some (c', []) => Some (h, d, a, TSub p (SPopDo false q rest) got)
        | Some (c', _ :: _) => Some (h, d, a, TSub p (SPopDo true q rest) got)
        | None => None
        end
  | TSub p (SPopDo false q rest) got, EPop => Some (h, d, a, TSub p (SCheck None rest) got)
  | TSub p (SPopDo true q rest) got, EPop =>
      match nth_error h q with
      | Some (c', []) => Some (h, d, a, TSub p SCrashed got)        (* IndexError: pop from an empty deque *)
      | Some (c', m :: l) => Some (set_nth q (c', l) h, d, a, TSub p (SCheck (Some m) rest) got)
      | None => None
      end
  | TSub p (SCheck (Some m) rest) got, ECheck => Some (h, d, a, TSub p (SYield m) got)
  | TSub p (SCheck None rest) got, ECheck => Some (h, d, a, TSub p (SScan rest) got)
  | TSub p (SYield m) got, EYield => Some (h, d, a, TSub p SStart (got ++ [m]))
  | _, _ => None
  end.

Definition step (cfg : config) (s : state) (t : tid) (e : event) : option state :=
  match nth_error (thr s) t with
  | None => None
  | Some th =>
      match step_thread cfg t (heap s) (dict s) (appended s) th e with
      | Some (h, d, a, th') => Some (mkState h d (set_nth t th' (thr s)) a)
      | None => None
      end
  end.

(* the event a thread performs next (None = finished) *)
Definition next_event (th : thread) : option event :=
  match th with
  | TPub [] _ _ => None
  | TPub _ _ PLookup => Some ELookup
  | TPub _ _ PFactory => Some EFactoryCall
  | TPub _ _ (PStore _) => Some EStore
  | TPub _ _ (PMk _) => Some EMkMsg
  | TPub _ _ (PAppend _ _) => Some EAppend
  | TSub _ SStart _ | TSub _ (SScan _) _ => Some EFor
  | TSub _ (SMatch _ _ _) _ => Some EMatch
  | TSub _ (SWith _ _) _ | TSub _ (SPopDo _ _ _) _ => Some EPop
  | TSub _ (SCheck _ _) _ => Some ECheck
  | TSub _ (SYield _) _ => Some EYield
  | TSub _ SDone _ | TSub _ SCrashed _ => None
  end.

Definition sched_step (cfg : config) (s : state) (t : tid) : option state :=
  match nth_error (thr s) t with
  | Some th => match next_event th with Some e => step cfg s t e | None => None end
  | None => None
  end.

(* schedules: a step that is not enabled is skipped *)
Definition run (cfg : config) (sch : list tid) (s : state) : state :=
  fold_left (fun s t => match sched_step cfg s t with Some s' => s' | None => s end) sch s.

(* trace validation: strict *)
Fixpoint replay (cfg : config) (tr : list (tid * event)) (s : state) : option state :=
  match tr with
  | [] => Some s
  | (t, e) :: tl => match step cfg s t e with Some s' => replay cfg tl s' | None => None end
  end.

(* ---- initial states and observables -------------------------------------------------- *)
(* channels that exist (with an empty queue) before the threads start *)
Definition add_chan (hd : list (chan * list msg) * list (chan * qid)) (c : chan) :=
  (fst hd ++ [(c, [])], snd hd ++ [(c, List.length (fst hd))]).
Definition init (pre : list chan) (ths : list thread) : state :=
  let hd := fold_left add_chan pre ([], []) in mkState (fst hd) (snd hd) ths [].
Definition initial_th (th : thread) : Prop :=
  match th with TPub _ O PLookup => True | TSub _ SStart [] => True | _ => False end.

Definition pub (cs : list chan) : thread := TPub cs 0 PLookup.
Definition sub (p : pat) : thread := TSub p SStart [].

Definition queue_of (h : list (chan * list msg)) (q : qid) : list msg :=
  match nth_error h q with Some (_, l) => l | None => [] end.

Definition got_of (th : thread) : list msg := match th with TSub _ _ g => g | _ => [] end.
Definition inflight_of (th : thread) : list msg :=
  match th with TSub _ (SCheck (Some m) _) _ => [m] | TSub _ (SYield m) _ => [m] | _ => [] end.
Definition held_of (th : thread) : list msg := got_of th ++ inflight_of th.

Definition delivered (s : state) : list msg := flat_map got_of (thr s).
Definition held (s : state) : list msg := flat_map held_of (thr s).
Definition all_queued (s : state) : list msg := flat_map snd (heap s).
(* what a consumer can still reach: the queues the table points to *)
Definition reachable_queued (s : state) : list msg := flat_map (fun cq => queue_of (heap s) (snd cq)) (dict s).

Definition finished (th : thread) : bool :=
  match th with TPub [] _ _ => true | TSub _ SDone _ => true | _ => false end.
Definition pub_finished (th : thread) : bool :=
  match th with TPub [] _ _ => true | TPub _ _ _ => false | TSub _ _ _ => true end.
Definition crashed (th : thread) : bool := match th with TSub _ SCrashed _ => true | _ => false end.
Definition all_done (s : state) : bool := forallb finished (thr s).

Definition msg_eqb (a b : msg) : bool :=
  Nat.eqb (m_pub a) (m_pub b) && Nat.eqb (m_seq a) (m_seq b) && String.eqb (m_chan a) (m_chan b).
Definition mem_msg (m : msg) (l : list msg) : bool := existsb (msg_eqb m) l.

(* a message whose append completed but that no consumer has and no consumer can reach *)
Definition lost (s : state) : list msg :=
  filter (fun m => negb (mem_msg m (held s)) && negb (mem_msg m (reachable_queued s))) (appended s).

(* ---- trace validation cases (correspondence) ------------------------------------------ *)
Definition triple := (nat * nat * string)%type.
Definition to_triple (m : msg) : triple := (m_pub m, m_seq m, m_chan m).
Definition triple_eqb (a b : triple) : bool :=
  let '(a1, a2, a3) := a in let '(b1, b2, b3) := b in Nat.eqb a1 b1 && Nat.eqb a2 b2 && String.eqb a3 b3.
Fixpoint list_eqb {A} (eqb : A -> A -> bool) (l1 l2 : list A) : bool :=
  match l1, l2 with
  | [], [] => true
  | x :: t1, y :: t2 => eqb x y && list_eqb eqb t1 t2
  | _, _ => false
  end.

Record case := mkCase {
  c_pre : list chan;
  c_threads : list thread;
  c_trace : list (tid * event);
  c_delivered : list (list triple);            (* per thread, as observed on the real code *)
  c_left : list (string * list triple)         (* the real table after the run, in dict order *)
}.

Definition obs_delivered (s : state) : list (list triple) := map (fun th => map to_triple (got_of th)) (thr s).
Definition obs_left (s : state) : list (string * list triple) :=
  map (fun cq => (fst cq, map to_triple (queue_of (heap s) (snd cq)))) (dict s).

(* 0 = agrees; 1 = the model rejects the real trace; 2 = threads not finished in the model;
   3 = delivered lists differ; 4 = leftovers differ *)
Definition check_case (cfg : config) (c : case) : nat :=
  match replay cfg (c_trace c) (init (c_pre c) (c_threads c)) with
  | None => 1
  | Some s =>
      if negb (all_done s) then 2
      else if negb (list_eqb (list_eqb triple_eqb) (obs_delivered s) (c_delivered c)) then 3
      else if negb (list_eqb (fun a b => String.eqb (fst a) (fst b) && list_eqb triple_eqb (snd a) (snd b))
                             (obs_left s) (c_left c)) then 4
      else 0
  end.

Fixpoint bad_from (cfg : config) (i : nat) (cs : list case) : list nat :=
  match cs with
  | [] => []
  | c :: tl => match check_case cfg c with
               | O => bad_from cfg (S i) tl
               | S k => (10 * i + S k) :: bad_from cfg (S i) tl    (* index * 10 + reason *)
               end
  end.
