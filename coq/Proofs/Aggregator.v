(* Proofs/Aggregator.v — lemmas about Model/Aggregator.v *)
From Coq Require Import List NArith ZArith Bool Lia Permutation.
From SV Require Import Model.Aggregator.
Import ListNotations.

(* ------------------------------------------------------------------ *)
(* Key-sorted association lists                                        *)
Section SMapFacts.
  Variables K V : Type.
  Variable cmp : K -> K -> comparison.
  Hypothesis cmp_eq : forall a b, cmp a b = Eq -> a = b.
  Hypothesis cmp_refl : forall a, cmp a a = Eq.
  Hypothesis cmp_antisym : forall a b, cmp a b = CompOpp (cmp b a).
  Hypothesis cmp_trans : forall a b c, cmp a b = Lt -> cmp b c = Lt -> cmp a c = Lt.

  Implicit Types (k x : K) (v : V) (m : list (K * V)) (f g : V -> V).

  Lemma cmp_neq a b : a <> b -> cmp a b <> Eq.
  Proof. intros H E. apply H, cmp_eq, E. Qed.

  Lemma cmp_gt_lt a b : cmp a b = Gt -> cmp b a = Lt.
  Proof. intros H. rewrite cmp_antisym, H. reflexivity. Qed.
  Lemma cmp_lt_gt a b : cmp a b = Lt -> cmp b a = Gt.
  Proof. intros H. rewrite cmp_antisym, H. reflexivity. Qed.

  Lemma mget_mset_same k v m : mget cmp k (mset cmp k v m) = Some v.
  Proof.
    induction m as [|[h vh] tl IH]; simpl.
    - rewrite cmp_refl. reflexivity.
    - destruct (cmp k h) eqn:E; simpl.
      + rewrite cmp_refl. reflexivity.
      + rewrite cmp_refl. reflexivity.
      + rewrite E. exact IH.
  Qed.

  Lemma mget_mset_other k k' v m : k <> k' -> mget cmp k (mset cmp k' v m) = mget cmp k m.
  Proof.
    intros Hne. pose proof (cmp_neq _ _ Hne) as Hc.
    induction m as [|[h vh] tl IH]; simpl.
    - destruct (cmp k k'); congruence.
    - destruct (cmp k' h) eqn:E; simpl.
      + apply cmp_eq in E. subst h. destruct (cmp k k'); congruence.
      + destruct (cmp k k'); congruence.
      + destruct (cmp k h); auto.
  Qed.

  Lemma mset_mset_same k v v' m : mset cmp k v (mset cmp k v' m) = mset cmp k v m.
  Proof.
    induction m as [|[h vh] tl IH]; simpl.
    - rewrite cmp_refl. reflexivity.
    - destruct (cmp k h) eqn:E; simpl.
      + rewrite cmp_refl. reflexivity.
      + rewrite cmp_refl. reflexivity.
      + rewrite E, IH. reflexivity.
  Qed.

  Lemma mset_comm k1 k2 v1 v2 m :
    k1 <> k2 -> mset cmp k1 v1 (mset cmp k2 v2 m) = mset cmp k2 v2 (mset cmp k1 v1 m).
  Proof.
    intros Hne.
    assert (H12 : cmp k1 k2 <> Eq) by (apply cmp_neq; auto).
    assert (H21 : cmp k2 k1 <> Eq) by (apply cmp_neq; auto).
    induction m as [|[h vh] tl IH]; simpl.
    - destruct (cmp k1 k2) eqn:E12; try congruence.
      + rewrite (cmp_lt_gt _ _ E12). reflexivity.
      + rewrite (cmp_gt_lt _ _ E12). reflexivity.
    - destruct (cmp k1 h) eqn:E1; destruct (cmp k2 h) eqn:E2; simpl.
      + apply cmp_eq in E1, E2. congruence.
      + (* k1 = h, k2 < h *)
        pose proof (cmp_eq _ _ E1). subst h.
        rewrite (cmp_lt_gt _ _ E2), E2. simpl. rewrite cmp_refl. reflexivity.
      + (* k1 = h, k2 > h *)
        pose proof (cmp_eq _ _ E1). subst h.
        rewrite E2. simpl. rewrite cmp_refl. reflexivity.
      + (* k1 < h, k2 = h *)
        pose proof (cmp_eq _ _ E2). subst h.
        rewrite E1, (cmp_lt_gt _ _ E1). simpl. rewrite cmp_refl. reflexivity.
      + (* both < h *)
        destruct (cmp k1 k2) eqn:E12; try congruence.
        * rewrite (cmp_lt_gt _ _ E12). simpl. rewrite E2. reflexivity.
        * rewrite (cmp_gt_lt _ _ E12). simpl. rewrite E1. reflexivity.
      + (* k1 < h < k2 *)
        rewrite E1.
        assert (E12 : cmp k1 k2 = Lt) by (eapply cmp_trans; [exact E1|apply cmp_gt_lt; exact E2]).
        rewrite (cmp_lt_gt _ _ E12). simpl. rewrite E2. reflexivity.
      + (* k1 > h, k2 = h *)
        pose proof (cmp_eq _ _ E2). subst h.
        rewrite E1. simpl. rewrite cmp_refl. reflexivity.
      + (* k2 < h < k1 *)
        rewrite E2.
        assert (E21 : cmp k2 k1 = Lt) by (eapply cmp_trans; [exact E2|apply cmp_gt_lt; exact E1]).
        rewrite (cmp_lt_gt _ _ E21). simpl. rewrite E1. reflexivity.
      + rewrite E1, E2, IH. reflexivity.
  Qed.

  Variable d : V.

  Lemma mgetd_mset_same k v m : mgetd cmp d k (mset cmp k v m) = v.
  Proof. unfold mgetd. rewrite mget_mset_same. reflexivity. Qed.
  Lemma mgetd_mset_other k k' v m : k <> k' -> mgetd cmp d k (mset cmp k' v m) = mgetd cmp d k m.
  Proof. intros. unfold mgetd. rewrite mget_mset_other; auto. Qed.

  Lemma mget_mupd_same k f m : mget cmp k (mupd cmp d k f m) = Some (f (mgetd cmp d k m)).
  Proof. unfold mupd. apply mget_mset_same. Qed.
  Lemma mget_mupd_other k k' f m : k <> k' -> mget cmp k (mupd cmp d k' f m) = mget cmp k m.
  Proof. intros. unfold mupd. apply mget_mset_other; auto. Qed.

  Lemma mupd_comm_diff k1 k2 f g m :
    k1 <> k2 -> mupd cmp d k1 f (mupd cmp d k2 g m) = mupd cmp d k2 g (mupd cmp d k1 f m).
  Proof.
    intros Hne. unfold mupd.
    rewrite (mgetd_mset_other k1 k2) by auto.
    rewrite (mgetd_mset_other k2 k1) by auto.
    apply mset_comm; auto.
  Qed.

  Lemma mupd_comm_same k f g m :
    (forall v, f (g v) = g (f v)) ->
    mupd cmp d k f (mupd cmp d k g m) = mupd cmp d k g (mupd cmp d k f m).
  Proof.
    intros H. unfold mupd. rewrite !mgetd_mset_same, !mset_mset_same, H. reflexivity.
  Qed.

  Lemma mupd_mupd_same k f g m :
    mupd cmp d k f (mupd cmp d k g m) = mupd cmp d k (fun v => f (g v)) m.
  Proof. unfold mupd. rewrite mgetd_mset_same, mset_mset_same. reflexivity. Qed.

  (* keys after an update *)
  Lemma mset_keys k v m x : In x (map fst (mset cmp k v m)) <-> x = k \/ In x (map fst m).
  Proof.
    induction m as [|[h vh] tl IH]; simpl.
    - intuition.
    - destruct (cmp k h) eqn:E; simpl.
      + apply cmp_eq in E. subst h. intuition.
      + intuition.
      + rewrite IH. intuition.
  Qed.

  Lemma mget_in_keys k m : mget cmp k m <> None -> In k (map fst m).
  Proof.
    induction m as [|[h vh] tl IH]; simpl; [congruence|].
    destruct (cmp k h) eqn:E; auto. intros _. left. symmetry. apply cmp_eq, E.
  Qed.
  Lemma in_keys_mget k m : In k (map fst m) -> mget cmp k m <> None.
  Proof.
    induction m as [|[h vh] tl IH]; simpl; [tauto|].
    intros [->|H]; [rewrite cmp_refl; congruence|].
    destruct (cmp k h); try congruence; auto.
  Qed.
End SMapFacts.

(* instances *)
Lemma Ncmp_eq a b : N.compare a b = Eq -> a = b.
Proof. apply N.compare_eq. Qed.
Lemma Ncmp_antisym a b : N.compare a b = CompOpp (N.compare b a).
Proof. apply N.compare_antisym. Qed.
Lemma Ncmp_trans a b c : N.compare a b = Lt -> N.compare b c = Lt -> N.compare a c = Lt.
Proof. rewrite !N.compare_lt_iff. lia. Qed.

Lemma cmpK_eq a b : cmpK a b = Eq -> a = b.
Proof.
  destruct a as [a1 a2], b as [b1 b2]. unfold cmpK; simpl.
  destruct (N.compare a1 b1) eqn:E; try discriminate.
  intros H. apply N.compare_eq in E. apply Z.compare_eq in H. congruence.
Qed.
Lemma cmpK_refl a : cmpK a a = Eq.
Proof. destruct a. unfold cmpK; simpl. rewrite N.compare_refl. apply Z.compare_refl. Qed.
Lemma cmpK_antisym a b : cmpK a b = CompOpp (cmpK b a).
Proof.
  destruct a as [a1 a2], b as [b1 b2]. unfold cmpK; simpl.
  rewrite (N.compare_antisym b1 a1). destruct (N.compare b1 a1); simpl; auto.
  apply Z.compare_antisym.
Qed.
Lemma cmpK_trans a b c : cmpK a b = Lt -> cmpK b c = Lt -> cmpK a c = Lt.
Proof.
  destruct a as [a1 a2], b as [b1 b2], c as [c1 c2]. unfold cmpK; simpl.
  destruct (N.compare a1 b1) eqn:E1; try discriminate;
  destruct (N.compare b1 c1) eqn:E2; try discriminate; intros H1 H2.
  - apply N.compare_eq in E1, E2. subst. rewrite N.compare_refl.
    rewrite Z.compare_lt_iff in *. lia.
  - apply N.compare_eq in E1. subst. rewrite E2. reflexivity.
  - apply N.compare_eq in E2. subst. rewrite E1. reflexivity.
  - rewrite (Ncmp_trans _ _ _ E1 E2). reflexivity.
Qed.

Definition Nmupd_comm_diff {V} := @mupd_comm_diff N V N.compare Ncmp_eq N.compare_refl Ncmp_antisym Ncmp_trans.
Definition Nmupd_comm_same {V} := @mupd_comm_same N V N.compare N.compare_refl.
Definition Kmupd_comm_diff {V} := @mupd_comm_diff lkey V cmpK cmpK_eq cmpK_refl cmpK_antisym cmpK_trans.
Definition Kmupd_comm_same {V} := @mupd_comm_same lkey V cmpK cmpK_refl.
Definition Nmset_comm {V} := @mset_comm N V N.compare Ncmp_eq N.compare_refl Ncmp_antisym Ncmp_trans.

(* ------------------------------------------------------------------ *)
(* Timestamp merges                                                    *)
Lemma omin_assoc a b c : omin (omin a b) c = omin a (omin b c).
Proof. destruct a, b, c; simpl; f_equal; lia. Qed.
Lemma omax_assoc a b c : omax (omax a b) c = omax a (omax b c).
Proof. destruct a, b, c; simpl; f_equal; lia. Qed.
Lemma omin_swap a b c : omin (omin a b) c = omin (omin a c) b.
Proof. destruct a, b, c; simpl; f_equal; lia. Qed.
Lemma omax_swap a b c : omax (omax a b) c = omax (omax a c) b.
Proof. destruct a, b, c; simpl; f_equal; lia. Qed.
Lemma omin_absorb a b : omin (omin a b) b = omin a b.
Proof. destruct a, b; simpl; f_equal; lia. Qed.
Lemma omax_absorb a b : omax (omax a b) b = omax a b.
Proof. destruct a, b; simpl; f_equal; lia. Qed.

Section FoldAbsorb.
  Variable op : option Z -> option Z -> option Z.
  Hypothesis op_assoc : forall a b c, op (op a b) c = op a (op b c).
  Hypothesis op_none : forall a, op None a = a.
  Hypothesis op_none_r : forall a, op a None = a.
  Hypothesis op_absorb : forall a b, op (op a b) b = op a b.

  Lemma fold_op_split l : forall s, fold_left op l s = op s (fold_left op l None).
  Proof.
    induction l as [|h t IH]; intros s; simpl.
    - symmetry. apply op_none_r.
    - rewrite IH, (IH (op None h)), op_none, op_assoc. reflexivity.
  Qed.

  Lemma fold_op_idem l s : fold_left op l (fold_left op l s) = fold_left op l s.
  Proof. rewrite (fold_op_split l (fold_left op l s)), (fold_op_split l s). apply op_absorb. Qed.
End FoldAbsorb.

Lemma omin_none_r a : omin a None = a. Proof. destruct a; reflexivity. Qed.
Lemma omax_none_r a : omax a None = a. Proof. destruct a; reflexivity. Qed.
Definition fold_omin_idem := fold_op_idem omin omin_assoc (fun a => eq_refl) omin_none_r omin_absorb.
Definition fold_omax_idem := fold_op_idem omax omax_assoc (fun a => eq_refl) omax_none_r omax_absorb.

(* ------------------------------------------------------------------ *)
(* ingest commutes for non-conflicting records                         *)
Lemma truthy_some i n : truthy i = Some n -> i = Some n /\ n <> 0%N.
Proof. destruct i as [[|p]|]; simpl; intros H; inversion H; subst; split; auto; discriminate. Qed.

Lemma run_effect_comm x y r f g :
  run_effect x = Some (r, f) -> run_effect y = Some (r, g) -> conflict x y = false ->
  forall v, f (g v) = g (f v).
Proof.
  destruct x as [l1 a1 p1|l1 a1|r1 sp1 ts1 st1 l1 a1|r1 ts1 f1|r1 n1 ts1 st1 f1 s1|];
  destruct y as [l2 a2 p2|l2 a2|r2 sp2 ts2 st2 l2 a2|r2 ts2 f2|r2 n2 ts2 st2 f2 s2|];
  simpl; try discriminate;
  destruct (truthy r1) as [q1|] eqn:T1; try discriminate;
  destruct (truthy r2) as [q2|] eqn:T2; try discriminate;
  try (destruct (truthy n1) as [m1|] eqn:U1; try discriminate);
  try (destruct (truthy n2) as [m2|] eqn:U2; try discriminate);
  intros H1 H2 C v; inversion H1; inversion H2; subst; clear H1 H2; simpl in C.
  - rewrite N.eqb_refl in C. discriminate.
  - destruct v; reflexivity.
  - destruct v; reflexivity.
  - destruct v; reflexivity.
  - destruct v; unfold run_end; simpl. rewrite omax_swap. reflexivity.
  - destruct v; reflexivity.
  - destruct v; reflexivity.
  - destruct v; reflexivity.
  - rewrite N.eqb_refl in C. simpl in C. apply N.eqb_neq in C.
    destruct v; unfold run_ser; simpl. f_equal. apply Nmupd_comm_diff. exact C.
Qed.

Lemma apply_run_comm x y m :
  conflict x y = false -> apply_run y (apply_run x m) = apply_run x (apply_run y m).
Proof.
  intros C. unfold apply_run.
  destruct (run_effect x) as [[r f]|] eqn:Ex; destruct (run_effect y) as [[r' g]|] eqn:Ey; auto.
  destruct (N.eq_dec r r') as [->|Hne].
  - apply Nmupd_comm_same. intros v. symmetry. eapply run_effect_comm; eauto.
  - apply Nmupd_comm_diff. auto.
Qed.

Lemma launch_effect_cases x k f :
  launch_effect x = Some (k, f) ->
  (exists lid l t p, x = RSStart lid (Some t) p /\ truthy lid = Some l /\ k = (l, t) /\ f = launch_start p) \/
  (exists lid l t, x = RSEnd lid (Some t) /\ truthy lid = Some l /\ k = (l, t) /\ f = launch_end) \/
  (exists rid r sp ts st l t, x = PStart rid sp ts st (Some l) (Some t) /\ truthy rid = Some r /\
                              k = (l, t) /\ f = launch_add r).
Proof.
  destruct x as [l1 a1 p1|l1 a1|r1 sp1 ts1 st1 l1 a1|r1 ts1 f1|r1 n1 ts1 st1 f1 s1|]; simpl; try discriminate.
  - destruct (truthy l1) as [j|] eqn:T; try discriminate. destruct a1 as [t|]; try discriminate.
    intros H; inversion H; subst. left. exists l1, j, t, p1. auto.
  - destruct (truthy l1) as [j|] eqn:T; try discriminate. destruct a1 as [t|]; try discriminate.
    intros H; inversion H; subst. right; left. exists l1, j, t. auto.
  - destruct (truthy r1) as [q|] eqn:T; try discriminate. destruct l1 as [j|]; try discriminate.
    destruct a1 as [t|]; try discriminate.
    intros H; inversion H; subst. right; right. exists r1, q, sp1, ts1, st1, j, t. auto.
Qed.

Lemma launch_effect_comm x y k f g :
  launch_effect x = Some (k, f) -> launch_effect y = Some (k, g) -> conflict x y = false ->
  forall v, f (g v) = g (f v).
Proof.
  intros Hx Hy C v.
  destruct (launch_effect_cases _ _ _ Hx) as [(l1 & j1 & t1 & p1 & -> & T1 & -> & ->)|[(l1 & j1 & t1 & -> & T1 & -> & ->)|(r1 & q1 & sp1 & ts1 & st1 & j1 & t1 & -> & T1 & -> & ->)]];
  destruct (launch_effect_cases _ _ _ Hy) as [(l2 & j2 & t2 & p2 & -> & T2 & E & ->)|[(l2 & j2 & t2 & -> & T2 & E & ->)|(r2 & q2 & sp2 & ts2 & st2 & j2 & t2 & -> & T2 & E & ->)]];
  inversion E; subst; simpl in C; try (destruct v; reflexivity).
  - rewrite T1, T2 in C. simpl in C. rewrite N.eqb_refl, Z.eqb_refl in C. discriminate.
  - rewrite T1, T2 in C. simpl in C. apply N.eqb_neq in C.
    destruct v; unfold launch_add; simpl. f_equal. apply Nmset_comm. exact C.
Qed.

Lemma apply_launch_comm x y m :
  conflict x y = false -> apply_launch y (apply_launch x m) = apply_launch x (apply_launch y m).
Proof.
  intros C. unfold apply_launch.
  destruct (launch_effect x) as [[k f]|] eqn:Ex; destruct (launch_effect y) as [[k' g]|] eqn:Ey; auto.
  destruct (cmpK k k') eqn:E.
  - apply cmpK_eq in E. subst k'. apply Kmupd_comm_same. intros v. symmetry. eapply launch_effect_comm; eauto.
  - apply Kmupd_comm_diff. intros ->. rewrite cmpK_refl in E. discriminate.
  - apply Kmupd_comm_diff. intros ->. rewrite cmpK_refl in E. discriminate.
Qed.

Theorem ingest_commutes a x y :
  conflict x y = false -> ingest (ingest a x) y = ingest (ingest a y) x.
Proof.
  intros C. unfold ingest; simpl. f_equal; [apply apply_run_comm|apply apply_launch_comm]; exact C.
Qed.

(* ------------------------------------------------------------------ *)
(* Order independence                                                  *)
Lemma oN_eqb_sym a b : oN_eqb a b = oN_eqb b a.
Proof. destruct a, b; simpl; auto. apply N.eqb_sym. Qed.
Lemma conflict_sym x y : conflict x y = conflict y x.
Proof.
  destruct x as [l1 [t1|] p1|l1 a1|r1 sp1 ts1 st1 l1 a1|r1 ts1 f1|r1 n1 ts1 st1 f1 s1|];
  destruct y as [l2 [t2|] p2|l2 a2|r2 sp2 ts2 st2 l2 a2|r2 ts2 f2|r2 n2 ts2 st2 f2 s2|];
  simpl; auto;
  rewrite ?(oN_eqb_sym (truthy l1)), ?(oN_eqb_sym (truthy r1)), ?(oN_eqb_sym (truthy n1)), ?(Z.eqb_sym t1); reflexivity.
Qed.

Lemma forallb_perm {A} (p : A -> bool) l l' : Permutation l l' -> forallb p l = forallb p l'.
Proof.
  induction 1; simpl; auto.
  - rewrite IHPermutation. reflexivity.
  - rewrite !andb_assoc, (andb_comm (p y)). reflexivity.
  - congruence.
Qed.

Lemma perm_fold l1 l2 :
  Permutation l1 l2 -> wf l1 = true ->
  wf l2 = true /\ forall a, fold_left ingest l1 a = fold_left ingest l2 a.
Proof.
  induction 1 as [|x l l' P IH|x y l|l l' l'' P1 IH1 P2 IH2]; intros W.
  - split; auto.
  - simpl in W. apply andb_true_iff in W as [W1 W2]. destruct (IH W2) as [W' F]. split.
    + simpl. rewrite <- (forallb_perm _ _ _ P), W1, W'. reflexivity.
    + intros a. simpl. apply F.
  - simpl in W. apply andb_true_iff in W as [W1 W2]. apply andb_true_iff in W1 as [C W1].
    apply andb_true_iff in W2 as [W2 W3]. apply negb_true_iff in C. split.
    + simpl. rewrite conflict_sym, C, W1, W2, W3. reflexivity.
    + intros a. simpl. rewrite (ingest_commutes a y x C). reflexivity.
  - destruct (IH1 W) as [W' F1]. destruct (IH2 W') as [W'' F2]. split; auto.
    intros a. rewrite F1. apply F2.
Qed.

Theorem wf_perm l1 l2 : Permutation l1 l2 -> wf l1 = true -> wf l2 = true.
Proof. intros P W. apply (perm_fold _ _ P W). Qed.

Theorem order_independent_state l1 l2 :
  Permutation l1 l2 -> wf l1 = true -> ingest_all l1 = ingest_all l2.
Proof. intros P W. unfold ingest_all. apply (perm_fold _ _ P W). Qed.

(* ------------------------------------------------------------------ *)
(* finalize: idempotence and preservation of every verdict             *)
Definition Nmget_mset_same {V} := @mget_mset_same N V N.compare N.compare_refl.
Definition Nmget_mset_other {V} := @mget_mset_other N V N.compare Ncmp_eq.
Definition Nmset_mset_same {V} := @mset_mset_same N V N.compare N.compare_refl.

Lemma synth_idem ra : synth (synth ra) = synth ra.
Proof.
  unfold synth. destruct (is_none (r_start ra) || is_none (r_end ra)) eqn:C; simpl.
  - match goal with |- (if ?c then _ else _) = _ => destruct c end; auto.
    rewrite fold_omin_idem, fold_omax_idem. reflexivity.
  - rewrite C. reflexivity.
Qed.

Lemma finalize_run_twice R a r :
  finalize_run R (fst (finalize_run R a r)) r = finalize_run R a r.
Proof.
  unfold finalize_run. destruct (mget N.compare r (a_runs a)) as [ra|] eqn:E; simpl.
  - rewrite Nmget_mset_same, synth_idem, Nmset_mset_same. reflexivity.
  - rewrite E. reflexivity.
Qed.

Lemma finalize_run_launches R a r : a_launches (fst (finalize_run R a r)) = a_launches a.
Proof. unfold finalize_run. destruct (mget N.compare r (a_runs a)); reflexivity. Qed.

Lemma run_verdict_after_run R a r r' :
  run_verdict_at R (fst (finalize_run R a r)) r' = run_verdict_at R a r'.
Proof.
  destruct (N.eq_dec r' r) as [->|Hne].
  - unfold run_verdict_at. rewrite finalize_run_twice. reflexivity.
  - unfold run_verdict_at, finalize_run.
    destruct (mget N.compare r (a_runs a)) as [ra|] eqn:E; simpl; auto.
    rewrite Nmget_mset_other by auto.
    destruct (mget N.compare r' (a_runs a)); reflexivity.
Qed.

(* verdict equivalence of two aggregation states *)
Definition veq (R : Rules) (a b : agg) : Prop :=
  a_launches a = a_launches b /\ forall r, run_verdict_at R a r = run_verdict_at R b r.

Lemma veq_refl R a : veq R a a.
Proof. split; auto. Qed.
Lemma veq_trans R a b c : veq R a b -> veq R b c -> veq R a c.
Proof. intros [H1 H2] [H3 H4]. split; [congruence|intros r; rewrite H2; apply H4]. Qed.

Lemma finalize_run_veq R a r : veq R (fst (finalize_run R a r)) a.
Proof. split; [apply finalize_run_launches|intros r'; apply run_verdict_after_run]. Qed.

Definition count_spec (R : Rules) (a : agg) (pipes : list N) (c0 : counts) : counts :=
  fold_left (fun c r => bump c (rv_status (run_verdict_at R a r))) pipes c0.

Lemma launch_loop_gen R a pipes : forall a0 c0,
  veq R a0 a ->
  let res := fold_left (fun (st : agg * counts) r =>
               let (a2, v) := finalize_run R (fst st) r in (a2, bump (snd st) (rv_status v)))
             pipes (a0, c0) in
  veq R (fst res) a /\ snd res = count_spec R a pipes c0.
Proof.
  induction pipes as [|r tl IH]; intros a0 c0 Hv; simpl.
  - split; auto.
  - destruct (finalize_run R a0 r) as [a2 v] eqn:E.
    assert (Ea : a2 = fst (finalize_run R a0 r)) by (rewrite E; reflexivity).
    assert (Ev : v = run_verdict_at R a0 r) by (unfold run_verdict_at; rewrite E; reflexivity).
    simpl. destruct Hv as [Hl Hr]. rewrite Ev, Hr.
    apply IH. subst a2. eapply veq_trans; [apply finalize_run_veq|split; auto].
Qed.

Lemma launch_loop_spec R a pipes :
  veq R (fst (launch_loop R pipes a)) a /\
  snd (launch_loop R pipes a) = count_spec R a pipes (mkCounts 0 0 0).
Proof. unfold launch_loop. apply launch_loop_gen. apply veq_refl. Qed.

(* finalize_launch as a pure function of the launch aggregate and the run verdicts *)
Definition launch_verdict_spec (R : Rules) (a : agg) (lid : N) (att : option Z) : launch_verdict :=
  match att with
  | None => unknown_launch
  | Some t =>
      match mget cmpK (lid, t) (a_launches a) with
      | None => unknown_launch
      | Some la => launch_verdict_of R la (count_spec R a (map fst (l_pipes la)) (mkCounts 0 0 0))
      end
  end.

Lemma finalize_launch_spec R a lid att :
  veq R (fst (finalize_launch R a lid att)) a /\
  snd (finalize_launch R a lid att) = launch_verdict_spec R a lid att.
Proof.
  unfold finalize_launch, launch_verdict_spec. destruct att as [t|]; [|split; [apply veq_refl|reflexivity]].
  destruct (mget cmpK (lid, t) (a_launches a)) as [la|]; [|split; [apply veq_refl|reflexivity]].
  destruct (launch_loop_spec R a (map fst (l_pipes la))) as [H1 H2].
  destruct (launch_loop R (map fst (l_pipes la)) a) as [a' c]; simpl in *. subst c. split; auto.
Qed.

Lemma count_spec_ext R a b pipes c0 :
  (forall r, run_verdict_at R a r = run_verdict_at R b r) -> count_spec R a pipes c0 = count_spec R b pipes c0.
Proof.
  intros H. unfold count_spec. revert c0. induction pipes as [|r tl IH]; intros c0; simpl; auto.
  rewrite H. apply IH.
Qed.

Lemma launch_verdict_veq R a b k : veq R a b -> launch_verdict_at R a k = launch_verdict_at R b k.
Proof.
  intros [Hl Hr]. unfold launch_verdict_at.
  rewrite (proj2 (finalize_launch_spec R a (fst k) (snd k))), (proj2 (finalize_launch_spec R b (fst k) (snd k))).
  unfold launch_verdict_spec. rewrite Hl. destruct (snd k) as [t|]; auto.
  destruct (mget cmpK (fst k, t) (a_launches b)); auto.
  rewrite (count_spec_ext R a b) by auto. reflexivity.
Qed.

Lemma apply_fin_veq R a o : veq R (apply_fin R a o) a.
Proof. destruct o; simpl; [apply finalize_run_veq|apply finalize_launch_spec]. Qed.

Lemma apply_fins_veq R fs : forall a, veq R (fold_left (apply_fin R) fs a) a.
Proof.
  induction fs as [|o tl IH]; intros a; simpl; [apply veq_refl|].
  eapply veq_trans; [apply IH|apply apply_fin_veq].
Qed.

(* Any number of finalize calls, in any order, leave every verdict unchanged. *)
Theorem finalize_idempotent R a fs :
  (forall r, run_verdict_at R (fold_left (apply_fin R) fs a) r = run_verdict_at R a r) /\
  (forall k, launch_verdict_at R (fold_left (apply_fin R) fs a) k = launch_verdict_at R a k).
Proof.
  pose proof (apply_fins_veq R fs a) as H. split.
  - apply H.
  - intros k. apply launch_verdict_veq, H.
Qed.

(* ------------------------------------------------------------------ *)
(* launch roll-up                                                      *)
Definition count_status (R : Rules) (a : agg) (s : vstatus) (pipes : list N) : N :=
  lenN (filter (fun r => status_is (rv_status (run_verdict_at R a r)) s) pipes).

Lemma lenN_cons {A} (x : A) l : lenN (x :: l) = (lenN l + 1)%N.
Proof. unfold lenN. simpl length. rewrite Nat2N.inj_succ. lia. Qed.

Lemma count_spec_counts R a pipes : forall c0,
  let c := count_spec R a pipes c0 in
  c_complete c = (c_complete c0 + count_status R a Complete pipes)%N /\
  c_partial c = (c_partial c0 + count_status R a Partial pipes)%N /\
  c_invalid c = (c_invalid c0 + count_status R a Invalid pipes)%N.
Proof.
  unfold count_status.
  induction pipes as [|r tl IH]; intros c0; simpl.
  - unfold lenN; simpl. repeat split; lia.
  - destruct (IH (bump c0 (rv_status (run_verdict_at R a r)))) as (H1 & H2 & H3).
    unfold count_spec in *. rewrite H1, H2, H3.
    destruct (rv_status (run_verdict_at R a r)); simpl; rewrite ?lenN_cons; repeat split; lia.
Qed.

Lemma count_status_total R a l :
  lenN l = (count_status R a Complete l + count_status R a Partial l + count_status R a Invalid l)%N.
Proof.
  unfold count_status. induction l as [|r tl IH]; [reflexivity|].
  cbn [filter]. destruct (rv_status (run_verdict_at R a r)); cbn [status_is];
  rewrite !lenN_cons; lia.
Qed.

Theorem launch_rollup R a lid t la :
  mget cmpK (lid, t) (a_launches a) = Some la ->
  let v := launch_verdict_at R a (lid, Some t) in
  let pipes := map fst (l_pipes la) in
  c_complete (lv_counts v) = count_status R a Complete pipes /\
  c_partial (lv_counts v) = count_status R a Partial pipes /\
  c_invalid (lv_counts v) = count_status R a Invalid pipes /\
  lv_total v = lenN pipes /\
  lv_total v = (c_complete (lv_counts v) + c_partial (lv_counts v) + c_invalid (lv_counts v))%N.
Proof.
  intros E v pipes. subst v pipes.
  change (launch_verdict_at R a (lid, Some t)) with (snd (finalize_launch R a lid (Some t))).
  rewrite (proj2 (finalize_launch_spec R a lid (Some t))). unfold launch_verdict_spec. rewrite E. simpl.
  destruct (count_spec_counts R a (map fst (l_pipes la)) (mkCounts 0 0 0)) as (H1 & H2 & H3).
  simpl in H1, H2, H3. rewrite H1, H2, H3.
  assert (HL : lenN (l_pipes la) = lenN (map fst (l_pipes la))) by (unfold lenN; rewrite map_length; reflexivity).
  repeat split; auto.
  rewrite HL. apply count_status_total.
Qed.

(* ------------------------------------------------------------------ *)
(* Locality: the verdict of run r only depends on the records that touch r *)
Definition Nmget_mupd_same {V} := @mget_mupd_same N V N.compare N.compare_refl.
Definition Nmget_mupd_other {V} := @mget_mupd_other N V N.compare Ncmp_eq.

Lemma mget_ingest a x r :
  mget N.compare r (a_runs (ingest a x)) =
  if touches r x then
    match run_effect x with
    | Some (_, f) => Some (f (mgetd N.compare run0 r (a_runs a)))
    | None => None
    end
  else mget N.compare r (a_runs a).
Proof.
  unfold ingest, apply_run, touches; simpl.
  destruct (run_effect x) as [[r' f]|]; simpl; auto.
  destruct (N.eqb r' r) eqn:E.
  - apply N.eqb_eq in E. subst. apply Nmget_mupd_same.
  - apply N.eqb_neq in E. apply Nmget_mupd_other. auto.
Qed.

Lemma run_verdict_at_mget R a b r :
  mget N.compare r (a_runs a) = mget N.compare r (a_runs b) -> run_verdict_at R a r = run_verdict_at R b r.
Proof.
  intros H. unfold run_verdict_at, finalize_run. rewrite H.
  destruct (mget N.compare r (a_runs b)); reflexivity.
Qed.

Lemma mget_local r l : forall a b,
  mget N.compare r (a_runs a) = mget N.compare r (a_runs b) ->
  mget N.compare r (a_runs (fold_left ingest l a)) =
  mget N.compare r (a_runs (fold_left ingest (filter (touches r) l) b)).
Proof.
  induction l as [|x tl IH]; intros a b H; simpl; auto.
  destruct (touches r x) eqn:T; simpl.
  - apply IH. rewrite !mget_ingest, T. unfold mgetd. rewrite H. reflexivity.
  - apply IH. rewrite mget_ingest, T. exact H.
Qed.

Theorem run_verdict_local R r l :
  run_verdict_at R (ingest_all l) r = run_verdict_at R (ingest_all (filter (touches r) l)) r.
Proof. apply run_verdict_at_mget. unfold ingest_all. apply mget_local. reflexivity. Qed.

(* ------------------------------------------------------------------ *)
(* Prefixes of a runtime-shaped run trace                              *)
Lemma memN_in x l : memN x l = true <-> In x l.
Proof.
  unfold memN. rewrite existsb_exists. split.
  - intros [y [Hy E]]. apply N.eqb_eq in E. subst; auto.
  - intros H. exists x. split; auto. apply N.eqb_refl.
Qed.
Lemma memN_ext x l1 l2 : (forall n, In n l1 <-> In n l2) -> memN x l1 = memN x l2.
Proof.
  intros H. destruct (memN x l1) eqn:E1, (memN x l2) eqn:E2; auto.
  - apply memN_in, H, memN_in in E1. congruence.
  - apply memN_in, H, memN_in in E2. congruence.
Qed.

Lemma ser_of_effect r x n :
  r <> 0%N -> ser_of r x = Some n ->
  exists ts st f s, run_effect x = Some (r, run_ser n ts st f s).
Proof.
  intros Hr. destruct x as [| | | |[r'|] [n'|] ts st f s|]; simpl; try discriminate.
  destruct (N.eqb r' r) eqn:E1; simpl; try discriminate.
  destruct (N.eqb n' 0) eqn:E2; simpl; try discriminate.
  intros H; inversion H; subst. apply N.eqb_eq in E1. apply N.eqb_neq in E2. subst r'.
  exists ts, st, f, s. destruct r; [congruence|]. destruct n; [congruence|]. reflexivity.
Qed.

Definition Nmset_keys {V} := @mset_keys N V N.compare Ncmp_eq.

(* what a block of SERs of run r does to r's aggregate *)
Lemma sers_view r sers : r <> 0%N -> Forall (fun x => is_ser r x = true) sers ->
  forall a ra, mget N.compare r (a_runs a) = Some ra ->
  exists ra', mget N.compare r (a_runs (fold_left ingest sers a)) = Some ra' /\
    r_saw_start ra' = r_saw_start ra /\ r_saw_end ra' = r_saw_end ra /\ r_spec ra' = r_spec ra /\
    forall n, In n (map fst (r_nodes ra')) <-> In n (map fst (r_nodes ra)) \/ In n (ser_nodes r sers).
Proof.
  intros Hr. induction 1 as [|x tl Hx Htl IH]; intros a ra E; simpl.
  - exists ra. repeat split; auto; tauto.
  - unfold is_ser in Hx. destruct (ser_of r x) as [n|] eqn:S; [|discriminate].
    destruct (ser_of_effect r x n Hr S) as (ts & st & f & s & Ef).
    assert (E1 : mget N.compare r (a_runs (ingest a x)) = Some (run_ser n ts st f s ra)).
    { rewrite mget_ingest. unfold touches. rewrite Ef, N.eqb_refl. unfold mgetd. rewrite E. reflexivity. }
    destruct (IH _ _ E1) as (ra' & G & F1 & F2 & F3 & F4).
    exists ra'. repeat split; auto.
    + intros Hn. apply F4 in Hn. destruct Hn as [Hn|Hn]; [|right; right; exact Hn].
      simpl in Hn. unfold mupd in Hn. apply Nmset_keys in Hn. destruct Hn; [right; left; auto|left; auto].
    + intros Hn. apply F4. destruct Hn as [Hn|[Hn|Hn]].
      * left. simpl. unfold mupd. apply Nmset_keys. right; exact Hn.
      * left. simpl. unfold mupd. apply Nmset_keys. left; auto.
      * right; exact Hn.
Qed.

Lemma is_start_effect r canon x :
  r <> 0%N -> is_start r canon x = true ->
  exists ts st, run_effect x = Some (r, run_start (Some canon) ts st).
Proof.
  intros Hr. destruct x as [| |[r'|] [c|] ts st l t| | |]; simpl; try discriminate.
  destruct (N.eqb r' r) eqn:E1; simpl; try discriminate.
  destruct (list_eq_dec N.eq_dec c canon); try discriminate. intros _.
  apply N.eqb_eq in E1. subst. exists ts, st. destruct r; [congruence|reflexivity].
Qed.

Lemma is_end_effect r x :
  r <> 0%N -> is_end r x = true -> exists ts f, run_effect x = Some (r, run_end ts f).
Proof.
  intros Hr. destruct x as [| | |[r'|] ts f| |]; simpl; try discriminate.
  intros E. apply N.eqb_eq in E. subst. exists ts, f. destruct r; [congruence|reflexivity].
Qed.

(* the aggregate of run r after  start :: sers *)
Lemma started_view r canon st sers :
  r <> 0%N -> is_start r canon st = true -> Forall (fun x => is_ser r x = true) sers ->
  exists ra, mget N.compare r (a_runs (ingest_all (st :: sers))) = Some ra /\
    r_saw_start ra = true /\ r_saw_end ra = false /\ r_spec ra = Some canon /\
    forall n, In n (map fst (r_nodes ra)) <-> In n (ser_nodes r sers).
Proof.
  intros Hr Hs Hf. destruct (is_start_effect r canon st Hr Hs) as (ts & s & Ef).
  unfold ingest_all. simpl fold_left.
  assert (E1 : mget N.compare r (a_runs (ingest empty st)) = Some (run_start (Some canon) ts s run0)).
  { rewrite mget_ingest. unfold touches. rewrite Ef, N.eqb_refl. reflexivity. }
  destruct (sers_view r sers Hr Hf _ _ E1) as (ra & G & F1 & F2 & F3 & F4).
  exists ra. repeat split; auto.
  - intros Hn. apply F4 in Hn. destruct Hn as [[]|Hn]; auto.
  - intros Hn. apply F4. right; auto.
Qed.

Lemma ingest_all_snoc l x : ingest_all (l ++ [x]) = ingest (ingest_all l) x.
Proof. unfold ingest_all. rewrite fold_left_app. reflexivity. Qed.

Lemma ended_view r canon st sers fin :
  r <> 0%N -> is_start r canon st = true -> Forall (fun x => is_ser r x = true) sers -> is_end r fin = true ->
  exists ra, mget N.compare r (a_runs (ingest_all (st :: sers ++ [fin]))) = Some ra /\
    r_saw_start ra = true /\ r_saw_end ra = true /\ r_spec ra = Some canon /\
    forall n, In n (map fst (r_nodes ra)) <-> In n (ser_nodes r sers).
Proof.
  intros Hr Hs Hf He. destruct (started_view r canon st sers Hr Hs Hf) as (ra & G & F1 & F2 & F3 & F4).
  destruct (is_end_effect r fin Hr He) as (ts & f & Ef).
  change (st :: sers ++ [fin]) with ((st :: sers) ++ [fin]).
  rewrite ingest_all_snoc.
  exists (run_end ts f ra). split.
  - rewrite mget_ingest. unfold touches. rewrite Ef, N.eqb_refl. unfold mgetd. rewrite G. reflexivity.
  - simpl. repeat split; auto; apply F4.
Qed.

Lemma synth_fields ra :
  r_saw_start (synth ra) = r_saw_start ra /\ r_saw_end (synth ra) = r_saw_end ra /\
  r_spec (synth ra) = r_spec ra /\ r_nodes (synth ra) = r_nodes ra.
Proof. unfold synth. destruct (is_none (r_start ra) || is_none (r_end ra)); simpl; auto. Qed.

Lemma filter_none {A} (p : A -> bool) l : (forall x, In x l -> p x = false) -> filter p l = [].
Proof.
  induction l as [|h t IH]; simpl; intros H; auto.
  rewrite (H h) by auto. apply IH. intros x Hx. apply H. auto.
Qed.

(* the verdict computed from an aggregate with a known view *)
Lemma verdict_of_view R ra canon seen :
  r_spec ra = Some canon -> (forall n, In n (map fst (r_nodes ra)) <-> In n seen) -> incl seen canon ->
  let v := verdict_of R (synth ra) in
  rv_unknown v = false /\ rv_missing_start v = negb (r_saw_start ra) /\ rv_missing_end v = negb (r_saw_end ra) /\
  rv_missing v = sort_dedup (filter (fun c => negb (memN c seen)) canon) /\ rv_orphan v = [] /\
  rv_status v = eval_chain (run_env (synth ra)) (run_chain R) (run_default R).
Proof.
  intros Hs Hk Hi. destruct (synth_fields ra) as (S1 & S2 & S3 & S4).
  unfold verdict_of, expected_of. rewrite S3, Hs, S4, S1, S2.
  destruct canon as [|c0 cl].
  - simpl. repeat split; auto.
  - cbn [rv_unknown rv_missing_start rv_missing_end rv_missing rv_orphan rv_status].
    repeat split; auto.
    + f_equal. apply filter_ext. intros c. f_equal. apply memN_ext. exact Hk.
    + rewrite filter_none; [reflexivity|]. intros k Hin. apply negb_false_iff, memN_in, Hi, Hk, Hin.
Qed.

Lemma run_chain_ok_status R ra : run_chain_ok R = true -> r_saw_start ra = true ->
  eval_chain (run_env ra) (run_chain R) (run_default R) = if r_saw_end ra then Complete else Partial.
Proof.
  unfold run_chain_ok, bools. cbn [forallb]. rewrite !andb_true_iff. intros [H1 [H2 _]] Hs.
  unfold run_env. rewrite Hs.
  destruct (negb (is_none (hd_error (r_nodes ra)))); destruct (r_saw_end ra).
  - destruct (eval_chain (run_env_of true true true) (run_chain R) (run_default R)); auto; discriminate.
  - destruct (eval_chain (run_env_of true true true) (run_chain R) (run_default R)); try discriminate.
    destruct (eval_chain (run_env_of true false true) (run_chain R) (run_default R)); auto; discriminate.
  - destruct (eval_chain (run_env_of true true false) (run_chain R) (run_default R)); auto; discriminate.
  - destruct (eval_chain (run_env_of true true false) (run_chain R) (run_default R)); try discriminate.
    destruct (eval_chain (run_env_of true false false) (run_chain R) (run_default R)); auto; discriminate.
Qed.

Lemma Forall_firstn {A} (P : A -> Prop) l : Forall P l -> forall n, Forall P (firstn n l).
Proof. induction 1; intros [|n]; simpl; auto. Qed.

Lemma ser_nodes_firstn_incl r l : forall n, incl (ser_nodes r (firstn n l)) (ser_nodes r l).
Proof.
  induction l as [|x tl IH]; intros [|n]; simpl; try (intros y Hy; simpl in Hy; contradiction).
  destruct (ser_of r x); [|apply IH].
  intros y [->|Hy]; [left; auto|right; apply (IH n); auto].
Qed.

Lemma run_verdict_of_mget R a r ra :
  mget N.compare r (a_runs a) = Some ra -> run_verdict_at R a r = verdict_of R (synth ra).
Proof. intros E. unfold run_verdict_at, finalize_run. rewrite E. reflexivity. Qed.

Theorem prefix_verdict R r canon st sers fin n :
  run_chain_ok R = true -> r <> 0%N ->
  is_start r canon st = true -> Forall (fun x => is_ser r x = true) sers -> is_end r fin = true ->
  incl (ser_nodes r sers) canon ->
  let tr := st :: sers ++ [fin] in
  let v := run_verdict_at R (ingest_all (firstn n tr)) r in
  let seen := ser_nodes r (firstn (n - 1) sers) in
  (n = 0%nat -> v = unknown_run) /\
  (0 < n -> rv_unknown v = false /\ rv_missing_start v = false /\
            rv_missing v = sort_dedup (filter (fun c => negb (memN c seen)) canon) /\ rv_orphan v = []) /\
  (0 < n < length tr -> rv_status v = Partial /\ rv_missing_end v = true) /\
  (length tr <= n -> rv_status v = Complete /\ rv_missing_end v = false).
Proof.
  intros HR Hr Hs Hf He Hi tr v seen. subst tr v seen.
  destruct n as [|m].
  - simpl. repeat split; try lia; auto.
  - cbn [firstn]. replace (S m - 1) with m by lia.
    destruct (le_lt_dec m (length sers)) as [Hle|Hgt].
    + (* crash before pipeline_end *)
      assert (E : firstn m (sers ++ [fin]) = firstn m sers).
      { rewrite firstn_app. replace (m - length sers) with 0 by lia. simpl. apply app_nil_r. }
      rewrite E.
      destruct (started_view r canon st (firstn m sers) Hr Hs (Forall_firstn _ _ Hf m)) as (ra & G & F1 & F2 & F3 & F4).
      rewrite (run_verdict_of_mget R _ r ra G).
      assert (Hi' : incl (ser_nodes r (firstn m sers)) canon).
      { intros y Hy. apply Hi. eapply ser_nodes_firstn_incl; eauto. }
      destruct (verdict_of_view R ra canon _ F3 F4 Hi') as (V1 & V2 & V3 & V4 & V5 & V6).
      rewrite V1, V2, V3, V4, V5, V6, F1, F2.
      destruct (synth_fields ra) as (S1 & S2 & _).
      rewrite (run_chain_ok_status R (synth ra) HR) by congruence. rewrite S2, F2.
      repeat split; auto; try discriminate;
        exfalso; cbn [length] in *; rewrite app_length in *; cbn [length] in *; lia.
    + (* the whole trace *)
      assert (E : firstn m (sers ++ [fin]) = sers ++ [fin]).
      { apply firstn_all2. rewrite app_length. simpl. lia. }
      rewrite E. rewrite (firstn_all2 sers) by lia.
      destruct (ended_view r canon st sers fin Hr Hs Hf He) as (ra & G & F1 & F2 & F3 & F4).
      rewrite (run_verdict_of_mget R _ r ra G).
      destruct (verdict_of_view R ra canon _ F3 F4 Hi) as (V1 & V2 & V3 & V4 & V5 & V6).
      rewrite V1, V2, V3, V4, V5, V6, F1, F2.
      destruct (synth_fields ra) as (S1 & S2 & _).
      rewrite (run_chain_ok_status R (synth ra) HR) by congruence. rewrite S2, F2.
      repeat split; auto; try discriminate;
        exfalso; cbn [length] in *; rewrite app_length in *; cbn [length] in *; lia.
Qed.

(* The same for a run whose records are interleaved with anything else (other runs of a launch,
   run-space lifecycle records, unknown records): only the records touching r matter. *)
Corollary prefix_verdict_interleaved R r l tr n :
  filter (touches r) l = firstn n tr ->
  run_verdict_at R (ingest_all l) r = run_verdict_at R (ingest_all (firstn n tr)) r.
Proof. intros H. rewrite run_verdict_local, H. reflexivity. Qed.

(* ------------------------------------------------------------------ *)
(* Runtime-shaped traces are well-formed, and so is every sub-list     *)
Lemma conflict_le_strict x y : conflict_strict x y = false -> conflict x y = false.
Proof. unfold conflict_strict. intros H. apply orb_false_iff in H. tauto. Qed.

Lemma wf_strict_wf l : wf_strict l = true -> wf l = true.
Proof.
  induction l as [|x tl IH]; simpl; auto. rewrite !andb_true_iff. intros [H1 H2]. split; auto.
  rewrite forallb_forall in *. intros y Hy. specialize (H1 y Hy).
  apply negb_true_iff in H1. apply negb_true_iff. apply conflict_le_strict; auto.
Qed.

Lemma forallb_firstn {A} (p : A -> bool) l : forallb p l = true -> forall n, forallb p (firstn n l) = true.
Proof.
  induction l as [|h t IH]; intros H [|n]; simpl in *; auto.
  apply andb_true_iff in H as [H1 H2]. rewrite H1. simpl. apply IH; auto.
Qed.

Lemma wf_firstn l : wf l = true -> forall n, wf (firstn n l) = true.
Proof.
  induction l as [|x tl IH]; intros H [|n]; simpl in *; auto.
  apply andb_true_iff in H as [H1 H2]. rewrite (forallb_firstn _ _ H1), IH; auto.
Qed.

Lemma wf_filter (p : record -> bool) l : wf l = true -> wf (filter p l) = true.
Proof.
  induction l as [|x tl IH]; simpl; auto. rewrite andb_true_iff. intros [H1 H2].
  destruct (p x); simpl; auto. rewrite IH by auto. rewrite andb_true_r.
  rewrite forallb_forall in *. intros y Hy. apply filter_In in Hy. apply H1. tauto.
Qed.

Lemma ser_of_conflict r x y n n' :
  ser_of r x = Some n -> ser_of r y = Some n' -> n <> n' -> conflict_strict x y = false.
Proof.
  destruct x as [| | | |[r1|] [n1|] ts1 st1 f1 s1|]; simpl; try discriminate.
  destruct y as [| | | |[r2|] [n2|] ts2 st2 f2 s2|]; simpl; try discriminate.
  destruct (N.eqb r1 r && negb (N.eqb n1 0)) eqn:E1; try discriminate.
  destruct (N.eqb r2 r && negb (N.eqb n2 0)) eqn:E2; try discriminate.
  intros H1 H2 Hne. inversion H1; inversion H2; subst.
  apply andb_true_iff in E1 as [_ E1]. apply andb_true_iff in E2 as [_ E2].
  apply negb_true_iff, N.eqb_neq in E1. apply negb_true_iff, N.eqb_neq in E2.
  unfold conflict_strict, conflict.
  replace (truthy (Some n)) with (Some n) by (destruct n; [congruence|reflexivity]).
  replace (truthy (Some n')) with (Some n') by (destruct n'; [congruence|reflexivity]).
  simpl. apply N.eqb_neq in Hne. rewrite Hne, andb_false_r. reflexivity.
Qed.

Lemma ser_of_in_nodes r x n l : In x l -> ser_of r x = Some n -> In n (ser_nodes r l).
Proof.
  induction l as [|h t IH]; simpl; [tauto|]. intros [->|H] E.
  - rewrite E. left; auto.
  - destruct (ser_of r h); [right|]; auto.
Qed.

Theorem runtime_trace_wf r canon st sers fin :
  is_start r canon st = true -> Forall (fun x => is_ser r x = true) sers -> is_end r fin = true ->
  NoDup (ser_nodes r sers) -> wf_strict (st :: sers ++ [fin]) = true.
Proof.
  intros Hs Hf He Hn. cbn [wf_strict]. apply andb_true_iff. split.
  - (* the start record conflicts with nothing that follows *)
    rewrite forallb_forall. intros y Hy. apply negb_true_iff.
    destruct st as [| |[r'|] [c|] ts s l t| | |]; simpl in Hs; try discriminate.
    apply in_app_or in Hy. destruct Hy as [Hy|[<-|[]]].
    + rewrite Forall_forall in Hf. specialize (Hf y Hy). unfold is_ser in Hf.
      destruct y; simpl in *; try discriminate; reflexivity.
    + destruct fin; simpl in *; try discriminate; reflexivity.
  - induction sers as [|x tl IH]; simpl.
    + destruct fin; simpl in *; try discriminate; reflexivity.
    + inversion Hf as [|? ? Hx Htl]; subst. unfold is_ser in Hx.
      destruct (ser_of r x) as [n|] eqn:S; [|discriminate].
      simpl in Hn. rewrite S in Hn. inversion Hn as [|? ? Hnot Hn']; subst.
      rewrite IH by auto. rewrite andb_true_r.
      rewrite forallb_forall. intros y Hy. apply negb_true_iff.
      apply in_app_or in Hy. destruct Hy as [Hy|[<-|[]]].
      * rewrite Forall_forall in Htl. specialize (Htl y Hy). unfold is_ser in Htl.
        destruct (ser_of r y) as [n'|] eqn:S'; [|discriminate].
        eapply ser_of_conflict; eauto. intros ->. apply Hnot. eapply ser_of_in_nodes; eauto.
      * destruct x as [| | | |[r1|] [n1|] ts1 st1 f1 s1|]; simpl in S; try discriminate.
        destruct fin; simpl in *; try discriminate; reflexivity.
Qed.
