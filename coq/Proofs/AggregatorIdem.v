(* Re-reading records: ingest is idempotent, and a well-formed record set read twice (a monitor that
   re-reads a growing file from the top) gives the aggregation state of reading it once. *)
From Coq Require Import List NArith ZArith Bool Lia. Import ListNotations.
From SV Require Import Model.Aggregator Proofs.Aggregator.

Definition Nmupd_mupd_same {V} := @mupd_mupd_same N V N.compare N.compare_refl.
Definition Kmupd_mupd_same {V} := @mupd_mupd_same lkey V cmpK cmpK_refl.

Lemma omin_idem2 a b : omin (omin a b) b = omin a b.  Proof. apply omin_absorb. Qed.
Lemma omax_idem2 a b : omax (omax a b) b = omax a b.  Proof. apply omax_absorb. Qed.

Lemma mupd_ext {K V} (cmp : K -> K -> comparison) d k (f g : V -> V) m :
  (forall v, f v = g v) -> mupd cmp d k f m = mupd cmp d k g m.
Proof. intros H. unfold mupd. rewrite H. reflexivity. Qed.

Lemma run_effect_idem x r f : run_effect x = Some (r, f) -> forall v, f (f v) = f v.
Proof.
  destruct x as [| |rid sp ts st l t|rid ts fi|rid nid ts st fi s|]; simpl; try discriminate.
  - destruct (truthy rid); [|discriminate]. intros H; inversion H; subst. intros [a b c d e g]; unfold run_start; simpl.
    f_equal; [destruct sp; reflexivity|apply omin_absorb].
  - destruct (truthy rid); [|discriminate]. intros H; inversion H; subst. intros [a b c d e g]; unfold run_end; simpl.
    f_equal. apply omax_absorb.
  - destruct (truthy rid); [|discriminate]. destruct (truthy nid); [|discriminate]. intros H; inversion H; subst.
    intros [a b c d e g]; unfold run_ser; simpl. f_equal.
    rewrite Nmupd_mupd_same. apply mupd_ext. intros [f1 l1 s1 st1 fi1]; unfold ser_node; simpl.
    f_equal; [apply omin_absorb|apply omax_absorb].
Qed.

Lemma launch_effect_idem x k f : launch_effect x = Some (k, f) -> forall v, f (f v) = f v.
Proof.
  intros H.
  destruct (launch_effect_cases _ _ _ H) as [(l1 & j1 & t1 & p1 & -> & T1 & -> & ->)|[(l1 & j1 & t1 & -> & T1 & -> & ->)|(r1 & q1 & sp1 & ts1 & st1 & j1 & t1 & -> & T1 & -> & ->)]];
  intros [a b c d]; unfold launch_start, launch_end, launch_add; simpl; f_equal.
  - destruct p1; reflexivity.
  - apply (@mset_mset_same N unit N.compare N.compare_refl).
Qed.

Theorem ingest_idem a x : ingest (ingest a x) x = ingest a x.
Proof.
  unfold ingest; simpl. f_equal.
  - unfold apply_run. destruct (run_effect x) as [[r f]|] eqn:E; auto.
    rewrite Nmupd_mupd_same. apply mupd_ext. apply (run_effect_idem x r f E).
  - unfold apply_launch. destruct (launch_effect x) as [[k f]|] eqn:E; auto.
    rewrite Kmupd_mupd_same. apply mupd_ext. apply (launch_effect_idem x k f E).
Qed.

(* x commutes over a list none of whose records it conflicts with *)
Lemma ingest_over l : forall a x, forallb (fun y => negb (conflict x y)) l = true ->
  ingest (fold_left ingest l a) x = fold_left ingest l (ingest a x).
Proof.
  induction l as [|y tl IH]; intros a x H; simpl; auto.
  simpl in H. apply andb_true_iff in H as [C H]. apply negb_true_iff in C.
  rewrite IH by exact H. f_equal. symmetry. apply ingest_commutes. exact C.
Qed.

Theorem reread_whole l : wf l = true -> forall a, fold_left ingest (l ++ l) a = fold_left ingest l a.
Proof.
  induction l as [|x tl IH]; intros W a; [reflexivity|].
  simpl in W. apply andb_true_iff in W as [C W].
  simpl. rewrite fold_left_app. simpl.
  rewrite (ingest_over tl _ x C), ingest_idem, <- fold_left_app. apply IH. exact W.
Qed.

(* a prefix read first (the file as it was), then the whole file *)
Theorem reread_prefix l n : wf l = true -> forall a,
  fold_left ingest (firstn n l ++ l) a = fold_left ingest l a.
Proof.
  revert n. induction l as [|x tl IH]; intros n W a.
  - rewrite firstn_nil. reflexivity.
  - destruct n as [|m]; [reflexivity|].
    simpl in W. apply andb_true_iff in W as [C W].
    simpl. rewrite fold_left_app. simpl.
    assert (Cm : forallb (fun y => negb (conflict x y)) (firstn m tl) = true).
    { apply forallb_forall. intros y Hy. rewrite forallb_forall in C. apply C. revert Hy. clear. revert m. induction tl as [|h t IHt]; intros [|m] Hy; simpl in *; try contradiction. destruct Hy as [->|Hy]; [left; reflexivity|right; eapply IHt; eauto]. }
    rewrite (ingest_over (firstn m tl) _ x Cm), ingest_idem, <- fold_left_app. apply IH. exact W.
Qed.
