(* Launch-level prefix theorem: every crash prefix of a launch's trace
   (run_space_start, the runs' records, run_space_end) gets the documented launch verdict. *)
From Coq Require Import List NArith ZArith Bool Lia. Import ListNotations.
From SV Require Import Model.Aggregator Proofs.Aggregator.

Definition Kmget_mupd_same {V} := @mget_mupd_same lkey V cmpK cmpK_refl.
Definition Kmget_mupd_other {V} := @mget_mupd_other lkey V cmpK cmpK_eq.

Lemma keyb_eq k k' : keyb k k' = true <-> k = k'.
Proof.
  destruct k as [a b], k' as [c d]; unfold keyb; simpl. rewrite andb_true_iff, N.eqb_eq, Z.eqb_eq.
  split; [intros [-> ->]; reflexivity|intros H; inversion H; auto].
Qed.

Lemma lget_ingest a x k :
  mget cmpK k (a_launches (ingest a x)) =
  match laction k x with
  | Some f => Some (f (mgetd cmpK launch0 k (a_launches a)))
  | None => mget cmpK k (a_launches a)
  end.
Proof.
  unfold ingest, apply_launch, laction; simpl.
  destruct (launch_effect x) as [[k' f]|]; auto.
  destruct (keyb k' k) eqn:E.
  - apply keyb_eq in E. subst. apply Kmget_mupd_same.
  - apply Kmget_mupd_other. intros ->. rewrite (proj2 (keyb_eq k' k') eq_refl) in E. discriminate.
Qed.

Lemma truthy_pos l : l <> 0%N -> truthy (Some l) = Some l.
Proof. destruct l; [congruence|reflexivity]. Qed.

Lemma is_lstart_action k planned x :
  is_lstart k planned x = true -> laction k x = Some (launch_start planned).
Proof.
  destruct x as [[l|] [t|] p| | | | |]; simpl; try discriminate.
  destruct l as [|q]; simpl; rewrite ?andb_false_r; try discriminate.
  rewrite andb_true_r, andb_true_iff. intros [K P].
  unfold laction; simpl. rewrite K.
  destruct p as [a|], planned as [b|]; try discriminate; auto.
  apply Z.eqb_eq in P. subst. reflexivity.
Qed.

Lemma is_lend_action k x : is_lend k x = true -> laction k x = Some launch_end.
Proof.
  destruct x as [|[l|] [t|]| | | |]; simpl; try discriminate.
  destruct l as [|q]; simpl; rewrite ?andb_false_r; try discriminate.
  rewrite andb_true_r. intros K.
  unfold laction; simpl. rewrite K. reflexivity.
Qed.

Lemma body_action k x :
  not_ledge k x = true ->
  laction k x = match lrun_of k x with Some r => Some (launch_add r) | None => None end.
Proof.
  unfold laction. destruct x as [[l|] [t|] p|[l|] [t|]|rid sp ts st [l|] [t|]| | |]; simpl; auto.
  - intros H. apply negb_true_iff in H. destruct l as [|q]; simpl; auto. rewrite H. reflexivity.
  - destruct l; reflexivity.
  - intros H. apply negb_true_iff in H. destruct l as [|q]; simpl; auto. rewrite H. reflexivity.
  - destruct l; reflexivity.
  - intros _. destruct (truthy rid); auto. destruct (keyb (l, t) k); reflexivity.
  - intros _. destruct (truthy rid); auto.
  - intros _. destruct (truthy rid); auto.
  - intros _. destruct (truthy rid); auto.
Qed.

Lemma sins_in x y l : In x (sins y l) <-> x = y \/ In x l.
Proof.
  induction l as [|h tl IH]; simpl; [intuition|].
  destruct (N.compare y h) eqn:E; simpl.
  - apply Ncmp_eq in E. subst. intuition.
  - intuition.
  - rewrite IH. intuition.
Qed.
Lemma sort_dedup_in x l : In x (sort_dedup l) <-> In x l.
Proof.
  unfold sort_dedup. induction l as [|h tl IH]; simpl; [tauto|].
  rewrite sins_in, IH. intuition.
Qed.
Lemma mset_keys_sins {V} r (v : V) m : map fst (mset N.compare r v m) = sins r (map fst m).
Proof.
  induction m as [|[h vh] tl IH]; simpl; auto.
  destruct (N.compare r h) eqn:E; simpl; auto.
  - apply Ncmp_eq in E. subst. reflexivity.
  - rewrite IH. reflexivity.
Qed.
Definition ins_all (ks rs : list N) : list N := fold_left (fun ks r => sins r ks) rs ks.
Lemma ins_all_sort_dedup rs : ins_all [] rs = sort_dedup (rev rs).
Proof.
  unfold ins_all, sort_dedup. rewrite <- fold_left_rev_right. reflexivity.
Qed.

(* what a block of body records does to launch k's aggregate *)
Lemma body_view k body : Forall (fun x => not_ledge k x = true) body ->
  forall a la, mget cmpK k (a_launches a) = Some la ->
  exists la', mget cmpK k (a_launches (fold_left ingest body a)) = Some la' /\
    l_saw_start la' = l_saw_start la /\ l_saw_end la' = l_saw_end la /\ l_planned la' = l_planned la /\
    map fst (l_pipes la') = ins_all (map fst (l_pipes la)) (lruns k body).
Proof.
  induction 1 as [|x tl Hx Htl IH]; intros a la E; simpl.
  - exists la. repeat split; auto.
  - pose proof (lget_ingest a x k) as G. rewrite (body_action k x Hx) in G.
    destruct (lrun_of k x) as [r0|] eqn:Lr.
    + unfold mgetd in G. rewrite E in G.
      destruct (IH _ _ G) as (la' & G' & F1 & F2 & F3 & F4).
      exists la'. repeat split; auto.
      rewrite F4. simpl. rewrite mset_keys_sins. reflexivity.
    + rewrite E in G. destruct (IH _ _ G) as (la' & G' & F).
      exists la'. split; auto.
Qed.

(* the launch aggregate after  start :: body *)
Lemma lstarted_view k planned st body :
  is_lstart k planned st = true -> Forall (fun x => not_ledge k x = true) body ->
  exists la, mget cmpK k (a_launches (ingest_all (st :: body))) = Some la /\
    l_saw_start la = true /\ l_saw_end la = false /\ l_planned la = planned /\
    map fst (l_pipes la) = sort_dedup (rev (lruns k body)).
Proof.
  intros Hs Hb. unfold ingest_all. simpl fold_left.
  assert (E1 : mget cmpK k (a_launches (ingest empty st)) = Some (launch_start planned launch0)).
  { rewrite lget_ingest, (is_lstart_action k planned st Hs). reflexivity. }
  destruct (body_view k body Hb _ _ E1) as (la & G & F1 & F2 & F3 & F4).
  exists la. repeat split; auto.
  - simpl in F3. rewrite F3. destruct planned; reflexivity.
  - rewrite F4. simpl. apply ins_all_sort_dedup.
Qed.

Lemma lended_view k planned st body fin :
  is_lstart k planned st = true -> Forall (fun x => not_ledge k x = true) body -> is_lend k fin = true ->
  exists la, mget cmpK k (a_launches (ingest_all (st :: body ++ [fin]))) = Some la /\
    l_saw_start la = true /\ l_saw_end la = true /\ l_planned la = planned /\
    map fst (l_pipes la) = sort_dedup (rev (lruns k body)).
Proof.
  intros Hs Hb He. destruct (lstarted_view k planned st body Hs Hb) as (la & G & F1 & F2 & F3 & F4).
  change (st :: body ++ [fin]) with ((st :: body) ++ [fin]). rewrite ingest_all_snoc.
  exists (launch_end la). rewrite lget_ingest, (is_lend_action k fin He). unfold mgetd. rewrite G.
  repeat split; auto.
Qed.

Lemma beval_ext e1 e2 b : (forall a, e1 a = e2 a) -> beval e1 b = beval e2 b.
Proof. intros H. induction b; simpl; auto; congruence. Qed.
Lemma eval_chain_ext e1 e2 c d : (forall a, e1 a = e2 a) -> eval_chain e1 c d = eval_chain e2 c d.
Proof.
  intros H. induction c as [|[b s] tl IH]; simpl; auto.
  rewrite (beval_ext e1 e2 b H), IH. reflexivity.
Qed.

Lemma launch_env_as_of la c a :
  launch_env la c a =
  launch_env_of (l_saw_start la) (l_saw_end la) (negb (is_none (hd_error (l_pipes la))))
                (negb (N.eqb (c_partial c) 0)) (negb (N.eqb (c_invalid c) 0)) a.
Proof. destruct a; reflexivity. Qed.

Lemma in_bools b : In b bools.
Proof. destruct b; simpl; auto. Qed.

Lemma launch_chain_ok_bool R p rp ri :
  launch_chain_ok R = true ->
  eval_chain (launch_env_of true false p rp ri) (launch_chain R) (launch_default R) = Partial /\
  eval_chain (launch_env_of true true p rp ri) (launch_chain R) (launch_default R) =
    (if rp || ri then Partial else Complete).
Proof.
  intros Hok. unfold launch_chain_ok in Hok.
  rewrite forallb_forall in Hok. specialize (Hok p (in_bools p)).
  rewrite forallb_forall in Hok. specialize (Hok rp (in_bools rp)).
  rewrite forallb_forall in Hok. specialize (Hok ri (in_bools ri)).
  destruct (eval_chain (launch_env_of true false p rp ri) (launch_chain R) (launch_default R));
  destruct (eval_chain (launch_env_of true true p rp ri) (launch_chain R) (launch_default R));
  try discriminate Hok; split; auto.
  - apply negb_true_iff in Hok. rewrite Hok. reflexivity.
  - rewrite Hok. reflexivity.
Qed.

Lemma launch_chain_ok_status R la c :
  launch_chain_ok R = true -> l_saw_start la = true ->
  let s := eval_chain (launch_env la c) (launch_chain R) (launch_default R) in
  (l_saw_end la = false -> s = Partial) /\
  (l_saw_end la = true ->
     (c_partial c = 0%N /\ c_invalid c = 0%N -> s = Complete) /\
     (c_partial c <> 0%N \/ c_invalid c <> 0%N -> s = Partial)).
Proof.
  intros Hok Hs s. subst s.
  rewrite (eval_chain_ext _ _ _ _ (launch_env_as_of la c)). rewrite Hs.
  destruct (launch_chain_ok_bool R (negb (is_none (hd_error (l_pipes la))))
              (negb (N.eqb (c_partial c) 0)) (negb (N.eqb (c_invalid c) 0)) Hok) as [H1 H2].
  split; intros E; rewrite E; [exact H1|]. rewrite H2. split.
  - intros [P I]. rewrite P, I. reflexivity.
  - intros [P|I].
    + apply N.eqb_neq in P. rewrite P. reflexivity.
    + apply N.eqb_neq in I. rewrite I. rewrite orb_true_r. reflexivity.
Qed.

(* ------------------------------------------------------------------ *)
Lemma launch_verdict_of_mget R a l t la :
  mget cmpK (l, t) (a_launches a) = Some la ->
  launch_verdict_at R a (l, Some t) =
  launch_verdict_of R la (count_spec R a (map fst (l_pipes la)) (mkCounts 0 0 0)).
Proof.
  intros E. change (launch_verdict_at R a (l, Some t)) with (snd (finalize_launch R a l (Some t))).
  rewrite (proj2 (finalize_launch_spec R a l (Some t))). unfold launch_verdict_spec. rewrite E. reflexivity.
Qed.

Lemma count_status_zero R a s pipes :
  count_status R a s pipes = 0%N <->
  forall r, In r pipes -> status_is (rv_status (run_verdict_at R a r)) s = false.
Proof.
  unfold count_status. induction pipes as [|r tl IH]; simpl.
  - split; [intros _ r []|reflexivity].
  - destruct (status_is (rv_status (run_verdict_at R a r)) s) eqn:E.
    + rewrite lenN_cons. split; [lia|]. intros H. specialize (H r (or_introl eq_refl)). congruence.
    + rewrite IH. split; [intros H r0 [<-|Hin]; auto|intros H r0 Hin; apply H; auto].
Qed.

Lemma status_is_complete s : status_is s Partial = false -> status_is s Invalid = false -> s = Complete.
Proof. destruct s; simpl; congruence. Qed.

(* the verdict computed from a launch aggregate with the start edge seen *)
Lemma launch_view_verdict R a l t la planned runs :
  launch_chain_ok R = true ->
  mget cmpK (l, t) (a_launches a) = Some la ->
  l_saw_start la = true -> l_planned la = planned ->
  map fst (l_pipes la) = sort_dedup (rev runs) ->
  let v := launch_verdict_at R a (l, Some t) in
  let pipes := sort_dedup (rev runs) in
  (lv_unknown v = false /\ lv_missing_start v = false /\ lv_planned v = planned /\
   lv_missing_end v = negb (l_saw_end la) /\
   lv_total v = lenN pipes /\
   c_complete (lv_counts v) = count_status R a Complete pipes /\
   c_partial (lv_counts v) = count_status R a Partial pipes /\
   c_invalid (lv_counts v) = count_status R a Invalid pipes) /\
  (l_saw_end la = false -> lv_status v = Partial) /\
  (l_saw_end la = true ->
     ((forall r, In r runs -> rv_status (run_verdict_at R a r) = Complete) -> lv_status v = Complete) /\
     ((exists r, In r runs /\ rv_status (run_verdict_at R a r) <> Complete) -> lv_status v = Partial)).
Proof.
  intros Hok E Hs Hp Hk v pipes.
  destruct (launch_rollup R a l t la E) as (C1 & C2 & C3 & C4 & _). fold v in C1, C2, C3, C4.
  rewrite Hk in C1, C2, C3, C4. fold pipes in C1, C2, C3, C4.
  pose proof (launch_verdict_of_mget R a l t la E) as Hv. fold v in Hv.
  destruct (launch_chain_ok_status R la (lv_counts v) Hok Hs) as [S1 S2].
  assert (Hst : lv_status v = eval_chain (launch_env la (lv_counts v)) (launch_chain R) (launch_default R)).
  { rewrite Hv. reflexivity. }
  split; [|split].
  - rewrite Hv at 1 2 3 4. simpl. rewrite Hs. repeat split; auto.
  - intros He. rewrite Hst. apply S1, He.
  - intros He. destruct (S2 He) as [S3 S4]. split.
    + intros Hall. rewrite Hst. apply S3. rewrite C2, C3. split; apply count_status_zero; intros r Hin;
      unfold pipes in Hin; apply (proj1 (sort_dedup_in _ _)) in Hin; apply (proj2 (in_rev _ _)) in Hin;
      rewrite (Hall r Hin); reflexivity.
    + intros (r & Hin & Hne). rewrite Hst. apply S4.
      assert (Hin' : In r pipes) by (apply (proj2 (sort_dedup_in _ _)); apply (proj1 (in_rev _ _)); exact Hin).
      destruct (rv_status (run_verdict_at R a r)) eqn:Er; [congruence| |].
      * left. rewrite C2. intros Z. rewrite count_status_zero in Z. specialize (Z r Hin'). rewrite Er in Z. discriminate.
      * right. rewrite C3. intros Z. rewrite count_status_zero in Z. specialize (Z r Hin'). rewrite Er in Z. discriminate.
Qed.

Theorem launch_prefix_verdict R l t planned st body fin n :
  launch_chain_ok R = true ->
  is_lstart (l, t) planned st = true -> Forall (fun x => not_ledge (l, t) x = true) body ->
  is_lend (l, t) fin = true ->
  let tr := st :: body ++ [fin] in
  let a := ingest_all (firstn n tr) in
  let v := launch_verdict_at R a (l, Some t) in
  let runs := lruns (l, t) (firstn (n - 1) body) in
  let pipes := sort_dedup (rev runs) in
  (n = 0%nat -> v = unknown_launch) /\
  (0 < n -> lv_unknown v = false /\ lv_missing_start v = false /\ lv_planned v = planned /\
            lv_total v = lenN pipes /\
            c_complete (lv_counts v) = count_status R a Complete pipes /\
            c_partial (lv_counts v) = count_status R a Partial pipes /\
            c_invalid (lv_counts v) = count_status R a Invalid pipes) /\
  (0 < n < length tr -> lv_status v = Partial /\ lv_missing_end v = true) /\
  (length tr <= n -> lv_missing_end v = false /\
     ((forall r, In r runs -> rv_status (run_verdict_at R a r) = Complete) -> lv_status v = Complete) /\
     ((exists r, In r runs /\ rv_status (run_verdict_at R a r) <> Complete) -> lv_status v = Partial)).
Proof.
  intros Hok Hs Hb He tr a v runs pipes.
  destruct n as [|m].
  - split; [intros _; reflexivity|]. split; [lia|]. split; [lia|]. subst tr. simpl. lia.
  - assert (Hlen : length tr = S (S (length body))).
    { subst tr. simpl. rewrite app_length. simpl. lia. }
    assert (Hm1 : (S m - 1)%nat = m) by lia.
    destruct (Nat.le_gt_cases m (length body)) as [Hm|Hm].
    + (* the end edge is not in the prefix *)
      assert (Hpre : firstn (S m) tr = st :: firstn m body).
      { subst tr. simpl. f_equal. rewrite firstn_app. replace (m - length body)%nat with 0%nat by lia.
        simpl. apply app_nil_r. }
      destruct (lstarted_view (l, t) planned st (firstn m body) Hs (Forall_firstn _ _ Hb m))
        as (la & G & F1 & F2 & F3 & F4).
      subst a v runs pipes. rewrite Hpre, Hm1.
      destruct (launch_view_verdict R _ l t la planned _ Hok G F1 F3 F4) as ((V1 & V2 & V3 & V4 & V5) & S1 & S2).
      rewrite F2 in V4.
      split; [discriminate|]. split; [intros _; destruct V5 as (V5 & V6 & V7 & V8); repeat split; assumption|].
      split; [intros _; split; [apply S1, F2|exact V4]|]. intros Hn. lia.
    + assert (Hpre : firstn (S m) tr = st :: body ++ [fin]).
      { subst tr. simpl. f_equal. apply firstn_all2. rewrite app_length. simpl. lia. }
      assert (Hb' : firstn m body = body) by (apply firstn_all2; lia).
      destruct (lended_view (l, t) planned st body fin Hs Hb He) as (la & G & F1 & F2 & F3 & F4).
      subst a v runs pipes. rewrite Hpre, Hm1, Hb'.
      destruct (launch_view_verdict R _ l t la planned _ Hok G F1 F3 F4) as ((V1 & V2 & V3 & V4 & V5) & S1 & S2).
      rewrite F2 in V4.
      split; [discriminate|]. split; [intros _; destruct V5 as (V5 & V6 & V7 & V8); repeat split; assumption|].
      split; [intros Hn; lia|]. intros _. split; [exact V4|]. apply S2, F2.
Qed.

(* ------------------------------------------------------------------ *)
(* Launch and run level together: a launch trace whose runs all left complete traces is
   Complete; one with a run that lost its end edge is Partial. *)
Definition run_trace_complete (r : N) (l : list record) : Prop :=
  exists canon st sers fin,
    r <> 0%N /\ is_start r canon st = true /\ Forall (fun x => is_ser r x = true) sers /\
    is_end r fin = true /\ incl (ser_nodes r sers) canon /\
    filter (touches r) l = st :: sers ++ [fin].
Definition run_trace_cut (r : N) (l : list record) : Prop :=
  exists canon st sers fin n,
    r <> 0%N /\ is_start r canon st = true /\ Forall (fun x => is_ser r x = true) sers /\
    is_end r fin = true /\ incl (ser_nodes r sers) canon /\
    0 < n < length (st :: sers ++ [fin]) /\
    filter (touches r) l = firstn n (st :: sers ++ [fin]).

Lemma complete_run_verdict R r l :
  run_chain_ok R = true -> run_trace_complete r l -> rv_status (run_verdict_at R (ingest_all l) r) = Complete.
Proof.
  intros Hok (canon & st & sers & fin & Hr & Hs & Hf & He & Hi & Hl).
  pose (trr := st :: sers ++ [fin]).
  rewrite (prefix_verdict_interleaved R r l trr (length trr)) by (rewrite firstn_all; exact Hl).
  destruct (prefix_verdict R r canon st sers fin (length trr) Hok Hr Hs Hf He Hi) as (_ & _ & _ & H4).
  apply H4. apply Nat.le_refl.
Qed.

Lemma cut_run_verdict R r l :
  run_chain_ok R = true -> run_trace_cut r l -> rv_status (run_verdict_at R (ingest_all l) r) = Partial.
Proof.
  intros Hok (canon & st & sers & fin & n & Hr & Hs & Hf & He & Hi & Hn & Hl).
  rewrite (prefix_verdict_interleaved R r l (st :: sers ++ [fin]) n Hl).
  destruct (prefix_verdict R r canon st sers fin n Hok Hr Hs Hf He Hi) as (_ & _ & H3 & _).
  apply H3. exact Hn.
Qed.

Theorem full_launch_verdict R l t planned st body fin :
  launch_chain_ok R = true -> run_chain_ok R = true ->
  is_lstart (l, t) planned st = true -> Forall (fun x => not_ledge (l, t) x = true) body ->
  is_lend (l, t) fin = true ->
  let tr := st :: body ++ [fin] in
  let v := launch_verdict_at R (ingest_all tr) (l, Some t) in
  ((forall r, In r (lruns (l, t) body) -> run_trace_complete r tr) -> lv_status v = Complete) /\
  ((exists r, In r (lruns (l, t) body) /\ run_trace_cut r tr) -> lv_status v = Partial).
Proof.
  intros Hlok Hrok Hs Hb He tr v.
  destruct (launch_prefix_verdict R l t planned st body fin (length tr) Hlok Hs Hb He) as (_ & _ & _ & H4).
  fold tr in H4. rewrite firstn_all in H4. fold v in H4.
  destruct (H4 (Nat.le_refl _)) as (_ & HC & HP).
  assert (Hbody : firstn (length tr - 1) body = body).
  { apply firstn_all2. subst tr. simpl. rewrite app_length. simpl. lia. }
  rewrite Hbody in HC, HP. split.
  - intros Hall. apply HC. intros r Hin. apply complete_run_verdict; auto.
  - intros (r & Hin & Hcut). apply HP. exists r. split; auto.
    rewrite (cut_run_verdict R r tr Hrok Hcut). discriminate.
Qed.
