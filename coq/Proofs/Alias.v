(* Proofs/Alias.v — with one copy per job the status of job j always carries j; without, two jobs given one object cross. *)
From Coq Require Import List Arith Bool Lia.
From SV Require Import Model.Alias.
Import ListNotations.

Lemma hget_hset_same h a v : hget (hset h a v) a = Some v.
Proof.
  induction h as [|[b w] tl IH]; cbn [hset hget].
  - rewrite Nat.eqb_refl. reflexivity.
  - destruct (Nat.eqb a b) eqn:E; cbn [hget]; rewrite E; [reflexivity | exact IH].
Qed.
Lemma hget_hset_other h a b v : a <> b -> hget (hset h b v) a = hget h a.
Proof.
  intros Hne. induction h as [|[c w] tl IH]; cbn [hset hget].
  - destruct (Nat.eqb_spec a b) as [->|_]; [contradiction | reflexivity].
  - destruct (Nat.eqb_spec b c) as [<-|Hbc]; cbn [hget].
    + destruct (Nat.eqb_spec a b) as [->|_]; [contradiction | reflexivity].
    + destruct (Nat.eqb a c); [reflexivity | exact IH].
Qed.

(* writes of the workers in `order` leave an object alone unless it is the object of a job in `order` *)
Lemma run_workers_other base given : forall order h a,
  (forall j, In j order -> job_object true base j (nth j given 0) <> a) ->
  hget (run_workers true base given order h) a = hget h a.
Proof.
  induction order as [|j tl IH]; intros h a Hn; cbn [run_workers]; [reflexivity|].
  rewrite IH by (intros k Hk; apply Hn; right; exact Hk).
  apply hget_hset_other. intro E. apply (Hn j); [left; reflexivity | symmetry; exact E].
Qed.

(* one copy per job: whatever objects the callers handed over (the same one for all jobs, say) and in whatever order the
   workers ran, the status of every job that ran carries that job's id *)
Theorem copies_keep_jobs_apart base given order j :
  NoDup order -> In j order -> status_id true base given order j = Some (Some j).
Proof.
  unfold status_id. generalize (@nil (oid * option nat)) as h.
  induction order as [|k tl IH]; intros h Hnd Hin; [destruct Hin|].
  cbn [run_workers]. inversion Hnd as [|? ? Hk Htl]; subst.
  destruct Hin as [->|Hin].
  - rewrite run_workers_other.
    + apply hget_hset_same.
    + intros i Hi. unfold job_object. intro E. assert (i = j) by lia. subst i. contradiction.
  - apply IH; assumption.
Qed.

(* no copy: two jobs enqueued with one object; whichever worker runs last leaves its id in it, and the status of the other job
   carries the wrong id *)
Theorem shared_object_crosses :
  status_id false 10 [3; 3] [0; 1] 0 = Some (Some 1) /\ status_id false 10 [3; 3] [1; 0] 1 = Some (Some 0).
Proof. split; reflexivity. Qed.

Example ex_four_jobs_one_object :
  map (status_id true 10 [3; 3; 3; 3] [2; 0; 3; 1]) [0; 1; 2; 3] = [Some (Some 0); Some (Some 1); Some (Some 2); Some (Some 3)].
Proof. reflexivity. Qed.
