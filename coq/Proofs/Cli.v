(* Proofs/Cli.v — lemmas about the decision-chain interpreter of Model/Cli.v.
   Everything is proved for an arbitrary `knobs` K under the decidable condition `good K`
   (Gen/CliGen.v's knobs satisfy it by computation, Properties/C17.v). *)
From Coq Require Import List String ZArith Bool Arith Lia.
From SV Require Import Common.Prelude Model.Pipeline Model.Inspect Model.Cli.
From SV Require Model.RunSpace.
Import ListNotations.
Open Scope string_scope.

(* ---- small facts ------------------------------------------------------------------------------- *)
Lemma stage_eqb_eq : forall a b, stage_eqb a b = true <-> a = b.
Proof. intros a b; split; [destruct a, b; simpl; intro H; try reflexivity; discriminate H | intros ->; destruct b; reflexivity]. Qed.

Lemma stage_mem_In : forall s l, stage_mem s l = true <-> In s l.
Proof.
  intros s l. unfold stage_mem. rewrite existsb_exists. split.
  - intros [x [Hx He]]. apply stage_eqb_eq in He. subst. exact Hx.
  - intros H. exists s. split; [exact H | apply stage_eqb_eq; reflexivity].
Qed.

Lemma quiet_app : forall a b, quiet (a ++ b) = quiet a && quiet b.
Proof. intros. unfold quiet. apply forallb_app. Qed.

Lemma quiet_spec : forall l, quiet l = true <-> forall e, In e l -> exists st, e = Printed st.
Proof.
  intros l. unfold quiet. rewrite forallb_forall. split; intros H e He.
  - specialize (H e He). destruct e; simpl in H; try discriminate. eexists; reflexivity.
  - destruct (H e He) as [st ->]. reflexivity.
Qed.

(* a completed run, in terms of the pipeline executor *)
Definition completes (p : list node) (c : ctx) : Prop := exists s', impl_run p (DNone, c) = Done s'.

(* ---- the chain: a firing check ---------------------------------------------------------------------- *)
Lemma no_check_no_fire : forall K ch r, has_check ch = false -> first_fire K ch r = None.
Proof.
  induction ch as [|s tl IH]; intros r H; [reflexivity|].
  unfold has_check in *. simpl in H. apply orb_false_iff in H. destruct H as [Hs Htl].
  destruct s; simpl in *; try discriminate; auto.
Qed.

Lemma first_fire_in : forall K ch r st c, first_fire K ch r = Some (st, c) ->
  In (Check st c) ch /\ fires K r st = true.
Proof.
  induction ch as [|s tl IH]; intros r st c H; [discriminate|].
  destruct s; simpl in H; try (destruct (IH _ _ _ H) as [A B]; split; [right; exact A | exact B]); try discriminate.
  destruct (fires K r st0) eqn:F.
  - inversion H; subst. split; [left; reflexivity | exact F].
  - destruct (IH _ _ _ H) as [A B]. split; [right; exact A | exact B].
Qed.

Lemma interp_first_fire : forall K ch r acc st c,
  wf (k_trace_lazy K) ch = true -> first_fire K ch r = Some (st, c) ->
  interp K ch r acc = (code K c, acc ++ [Printed st])%list.
Proof.
  induction ch as [|s tl IH]; intros r acc st c W H; [discriminate|].
  destruct s; simpl in *.
  - destruct (fires K r st0).
    + inversion H; subst. reflexivity.
    + apply IH; assumption.
  - apply andb_true_iff in W. destruct W as [W1 W2].
    destruct (k_trace_lazy K) eqn:L.
    + rewrite andb_false_r. rewrite app_nil_r. apply IH; assumption.
    + simpl in W1. apply negb_true_iff in W1. rewrite (no_check_no_fire K tl r W1) in H. discriminate.
  - apply IH; assumption.
  - apply IH; assumption.
  - apply andb_true_iff in W. destruct W as [W1 W2]. apply negb_true_iff in W1.
    rewrite (no_check_no_fire K tl r W1) in H. discriminate.
  - discriminate.
Qed.

(* ---- the chain: nothing fires ------------------------------------------------------------------------ *)
Fixpoint marker_effects (K : knobs) (ch : list step) (r : request) : list effect :=
  match ch with
  | [] => []
  | Check _ _ :: tl => marker_effects K tl r
  | MkTrace :: tl => ((if q_traced r && negb (k_trace_lazy K) then [TraceFile] else []) ++ marker_effects K tl r)%list
  | LaunchStart :: tl => ((if rs_active r && q_traced r then [TraceFile] else []) ++ marker_effects K tl r)%list
  | Loop :: _ => []
  | _ :: tl => marker_effects K tl r
  end.

Lemma marker_effects_trace : forall K ch r e, In e (marker_effects K ch r) -> e = TraceFile.
Proof.
  induction ch as [|s tl IH]; intros r e H; [destruct H|].
  destruct s; simpl in H; eauto.
  - apply in_app_or in H. destruct H as [H|H]; [|eauto].
    destruct (q_traced r && negb (k_trace_lazy K)); [destruct H as [H|[]]; auto | destruct H].
  - apply in_app_or in H. destruct H as [H|H]; [|eauto].
    destruct (rs_active r && q_traced r); [destruct H as [H|[]]; auto | destruct H].
  - destruct H.
Qed.

Definition loop_of (K : knobs) (r : request) : list effect * bool :=
  loop (k_stop K) (q_traced r) (nodes_of r) (q_ctx r) (planned K r) 0.

Lemma interp_none : forall K ch r acc,
  wf (k_trace_lazy K) ch = true -> first_fire K ch r = None ->
  interp K ch r acc =
    (code K (if snd (loop_of K r) then k_ok_code K else k_fail_code K),
     acc ++ marker_effects K ch r ++ fst (loop_of K r))%list.
Proof.
  induction ch as [|s tl IH]; intros r acc W H; [discriminate W|].
  destruct s; simpl in *.
  - destruct (fires K r st); [discriminate|]. apply IH; assumption.
  - apply andb_true_iff in W. destruct W as [_ W]. rewrite (IH r _ W H). rewrite <- !app_assoc. reflexivity.
  - apply IH; assumption.
  - apply IH; assumption.
  - apply andb_true_iff in W. destruct W as [_ W]. rewrite (IH r _ W H). rewrite <- !app_assoc. reflexivity.
  - unfold loop_of. destruct (loop (k_stop K) (q_traced r) (nodes_of r) (q_ctx r) (planned K r) 0) as [e ok]. reflexivity.
Qed.

(* ---- a stage of the chain fires: some stage at or before it is the first one ------------------------------ *)
Lemma fires_first : forall K ch r st, In st (check_stages ch) -> fires K r st = true ->
  exists st' c', first_fire K ch r = Some (st', c') /\ (st' = st \/ In st' (preds ch st)).
Proof.
  induction ch as [|s tl IH]; intros r st Hin F; [destruct Hin|].
  destruct s; simpl in *; [ | apply IH; assumption | apply IH; assumption | apply IH; assumption | apply IH; assumption | destruct Hin].
  destruct (fires K r st0) eqn:F0.
  - exists st0, code. split; [reflexivity|].
    destruct (stage_eqb st0 st) eqn:E; [left; apply stage_eqb_eq; exact E | right; left; reflexivity].
  - destruct Hin as [->|Hin]; [rewrite F in F0; discriminate|].
    destruct (IH r st Hin F) as [st' [c' [A B]]]. exists st', c'. split; [exact A|].
    destruct B as [B|B]; [left; exact B|].
    destruct (stage_eqb st0 st) eqn:E.
    + apply stage_eqb_eq in E. subst. rewrite F in F0. discriminate.
    + right; right; exact B.
Qed.

Lemma fires_is_first : forall K ch r st, In st (check_stages ch) -> fires K r st = true ->
  (forall s, In s (preds ch st) -> fires K r s = false) ->
  exists c, first_fire K ch r = Some (st, c).
Proof.
  intros K ch r st Hin F Hp. destruct (fires_first K ch r st Hin F) as [st' [c' [A [B|B]]]].
  - subst. exists c'. exact A.
  - apply first_fire_in in A. destruct A as [_ A]. rewrite (Hp _ B) in A. discriminate.
Qed.

Lemma covers_in : forall ch st, covers ch = true -> In st gate_stages -> In st (check_stages ch).
Proof.
  intros ch st C H. unfold covers in C. rewrite forallb_forall in C. apply stage_mem_In. apply C. exact H.
Qed.

(* ---- `good` unpacked ----------------------------------------------------------------------------------------- *)
Lemma good_wf : forall K, good K = true -> wf (k_trace_lazy K) (k_chain K) = true.
Proof. intros K G. unfold good in G. apply andb_true_iff in G. destruct G as [G _]. apply andb_true_iff in G. tauto. Qed.
Lemma good_covers : forall K, good K = true -> covers (k_chain K) = true.
Proof. intros K G. unfold good in G. apply andb_true_iff in G. destruct G as [G _]. apply andb_true_iff in G. tauto. Qed.
Lemma good_code : forall K st c, good K = true -> In (Check st c) (k_chain K) -> code K c = documented (stage_class st).
Proof.
  intros K st c G H. unfold good in G. apply andb_true_iff in G. destruct G as [_ G].
  unfold codes_documented in G. apply andb_true_iff in G. destruct G as [G _]. apply andb_true_iff in G. destruct G as [G _].
  rewrite forallb_forall in G. specialize (G _ H). simpl in G. apply Z.eqb_eq. exact G.
Qed.
Lemma good_ok_code : forall K, good K = true -> code K (k_ok_code K) = 0%Z.
Proof.
  intros K G. unfold good in G. apply andb_true_iff in G. destruct G as [_ G].
  unfold codes_documented in G. apply andb_true_iff in G. destruct G as [G _]. apply andb_true_iff in G. destruct G as [_ G].
  apply Z.eqb_eq in G. exact G.
Qed.
Lemma good_fail_code : forall K, good K = true -> code K (k_fail_code K) = 4%Z.
Proof.
  intros K G. unfold good in G. apply andb_true_iff in G. destruct G as [_ G].
  unfold codes_documented in G. apply andb_true_iff in G. destruct G as [_ G]. apply Z.eqb_eq in G. exact G.
Qed.

(* ---- rejected requests ---------------------------------------------------------------------------------------- *)
(* A request whose first firing stage is st gets exactly that stage's message, and the documented code of its class. *)
Theorem reject_exact : forall K r st c, good K = true -> rejected_at K r = Some (st, c) ->
  cli K r = (documented (stage_class st), [Printed st]).
Proof.
  intros K r st c G H. unfold cli, rejected_at in *.
  rewrite (interp_first_fire K _ r [] st c (good_wf K G) H). simpl.
  destruct (first_fire_in _ _ _ _ _ H) as [Hin _]. rewrite (good_code K st c G Hin). reflexivity.
Qed.

Definition no_exec (l : list effect) : Prop :=
  (forall j i, ~ In (NodeRan j i) l) /\ (forall p, ~ In (SinkWrote p) l) /\ ~ In TraceFile l.

Lemma quiet_no_exec : forall l, quiet l = true -> no_exec l.
Proof.
  intros l Q. rewrite quiet_spec in Q. repeat split; intros; intro H; destruct (Q _ H) as [st E]; discriminate E.
Qed.

Theorem reject_no_effect : forall K r st c, good K = true -> rejected_at K r = Some (st, c) ->
  no_exec (snd (cli K r)) /\ fst (cli K r) = documented (stage_class st).
Proof.
  intros K r st c G H. rewrite (reject_exact K r st c G H). simpl. split; [|reflexivity].
  apply quiet_no_exec. reflexivity.
Qed.

(* one statement per class: a gate stage whose condition holds stops the request, at that stage or an earlier one *)
Theorem gate_rejects : forall K r st, good K = true -> In st gate_stages -> fires K r st = true ->
  exists st' c', rejected_at K r = Some (st', c') /\ (st' = st \/ In st' (preds (k_chain K) st)) /\
    no_exec (snd (cli K r)) /\ fst (cli K r) = documented (stage_class st').
Proof.
  intros K r st G Hg F.
  destruct (fires_first K (k_chain K) r st (covers_in _ _ (good_covers K G) Hg) F) as [st' [c' [A B]]].
  exists st', c'. split; [exact A|]. split; [exact B|]. apply (reject_no_effect K r st' c' G A).
Qed.

Theorem gate_rejects_here : forall K r st, good K = true -> In st gate_stages -> fires K r st = true ->
  (forall s, In s (preds (k_chain K) st) -> fires K r s = false) ->
  cli K r = (documented (stage_class st), [Printed st]).
Proof.
  intros K r st G Hg F Hp.
  destruct (fires_is_first K (k_chain K) r st (covers_in _ _ (good_covers K G) Hg) F Hp) as [c A].
  apply (reject_exact K r st c G A).
Qed.

(* ---- the run loop -------------------------------------------------------------------------------------------------- *)
Lemma node_effects_ok : forall p ri i s, snd (node_effects ri i p s) = true <-> exists s', run_from i p s = Done s'.
Proof.
  induction p as [|n tl IH]; intros ri i s; simpl.
  - split; [intros _; eexists; reflexivity | reflexivity].
  - destruct (exec_node n s) as [s1|e].
    + specialize (IH ri (S i) s1). destruct (node_effects ri (S i) tl s1) as [e ok]. simpl in *. exact IH.
    + simpl. split; [discriminate | intros [s' H]; discriminate H].
Qed.

Lemma one_run_ok : forall t p ri c, snd (one_run t p ri c) = true <-> completes p c.
Proof.
  intros t p ri c. unfold one_run, completes, impl_run.
  destruct (first_unconstructible 0 p) as [[i e]|].
  - simpl. split; [discriminate | intros [s' H]; discriminate H].
  - pose proof (node_effects_ok p ri 0 (DNone, c)) as H. unfold run.
    destruct (node_effects ri 0 p (DNone, c)) as [e ok]. simpl in *. exact H.
Qed.

Lemma loop_ok : forall stop t p c0 runs ri,
  snd (loop stop t p c0 runs ri) = true <-> Forall (fun rv => completes p (run_ctx c0 rv)) runs.
Proof.
  induction runs as [|rv tl IH]; intros ri; simpl.
  - split; [constructor | reflexivity].
  - pose proof (one_run_ok t p ri (run_ctx c0 rv)) as H1.
    destruct (one_run t p ri (run_ctx c0 rv)) as [e ok]. simpl in H1.
    specialize (IH (S ri)). destruct (loop stop t p c0 tl (S ri)) as [e' ok']. simpl in IH.
    destruct ok.
    + simpl. rewrite IH. split; [intros H; constructor; [apply H1; reflexivity | exact H] | intros H; inversion H; assumption].
    + assert (N : ~ completes p (run_ctx c0 rv)) by (intro C; apply H1 in C; discriminate C).
      destruct stop; simpl; (split; [discriminate | intros H; inversion H; contradiction]).
Qed.

Lemma node_effects_run : forall p ri i s j k, In (NodeRan j k) (fst (node_effects ri i p s)) -> j = ri.
Proof.
  induction p as [|n tl IH]; intros ri i s j k H; simpl in H; [destruct H|].
  destruct (exec_node n s) as [s1|e].
  - specialize (IH ri (S i) s1 j k). destruct (node_effects ri (S i) tl s1) as [e ok]. simpl in *.
    destruct H as [H|H]; [inversion H; reflexivity|].
    apply in_app_or in H. destruct H as [H|H]; [|eauto].
    unfold sink_effect in H. destruct (is_filesink n); [|destruct H].
    destruct (resolve (n_cfg n) (snd s) (pr_defaults (n_proc n)) "path") as [[]|]; simpl in H; try destruct H as [H|[]]; try discriminate H; destruct H.
  - simpl in H. destruct H as [H|[]]. inversion H; reflexivity.
Qed.

Lemma one_run_run : forall t p ri c j k, In (NodeRan j k) (fst (one_run t p ri c)) -> j = ri.
Proof.
  intros t p ri c j k H. unfold one_run in H.
  destruct (first_unconstructible 0 p) as [[i e]|].
  - simpl in H. destruct t; simpl in H; [destruct H as [H|[]]; discriminate H | destruct H].
  - pose proof (node_effects_run p ri 0 (DNone, c) j k) as N.
    destruct (node_effects ri 0 p (DNone, c)) as [e ok]. simpl in *.
    apply in_app_or in H. destruct H as [H|H]; [|eauto].
    destruct t; simpl in H; [destruct H as [H|[]]; discriminate H | destruct H].
Qed.

(* with the loop ending at the first failed run, nothing of a later run is started *)
Lemma loop_stop : forall t p c0 runs ri k rv,
  nth_error runs k = Some rv -> ~ completes p (run_ctx c0 rv) ->
  forall j i, In (NodeRan j i) (fst (loop true t p c0 runs ri)) -> j <= ri + k.
Proof.
  induction runs as [|rv0 tl IH]; intros ri k rv Hn Hf j i H; [destruct k; discriminate Hn|].
  simpl in H.
  pose proof (one_run_ok t p ri (run_ctx c0 rv0)) as H1.
  pose proof (one_run_run t p ri (run_ctx c0 rv0) j i) as H2.
  destruct (one_run t p ri (run_ctx c0 rv0)) as [e ok]. simpl in H1, H2.
  destruct ok.
  - destruct k as [|k'].
    + simpl in Hn. inversion Hn; subst. exfalso. apply Hf. apply H1. reflexivity.
    + simpl in Hn. specialize (IH (S ri) k' rv Hn Hf j i).
      destruct (loop true t p c0 tl (S ri)) as [e' ok']. simpl in *.
      apply in_app_or in H. destruct H as [H|H]; [rewrite (H2 H); lia | specialize (IH H); lia].
  - simpl in H. rewrite (H2 H). lia.
Qed.

(* ---- requests that reach the loop ------------------------------------------------------------------------------------- *)
Definition planned_ctxs (K : knobs) (r : request) : list ctx := map (run_ctx (q_ctx r)) (planned K r).

Lemma loop_of_ok : forall K r, snd (loop_of K r) = true <-> Forall (completes (nodes_of r)) (planned_ctxs K r).
Proof.
  intros K r. unfold loop_of, planned_ctxs. rewrite loop_ok. rewrite Forall_map. reflexivity.
Qed.

Theorem accepted_exit : forall K r, good K = true -> rejected_at K r = None ->
  fst (cli K r) = (if snd (loop_of K r) then 0 else 4)%Z.
Proof.
  intros K r G H. unfold cli, rejected_at in *. rewrite (interp_none K _ r [] (good_wf K G) H). simpl.
  destruct (snd (loop_of K r)); [apply good_ok_code | apply good_fail_code]; exact G.
Qed.

Theorem exit_zero_iff_all_completed : forall K r, good K = true ->
  (fst (cli K r) = 0%Z <->
   (exists st c, rejected_at K r = Some (st, c) /\ stage_class st = CSuccess) \/
   (rejected_at K r = None /\ Forall (completes (nodes_of r)) (planned_ctxs K r))).
Proof.
  intros K r G. destruct (rejected_at K r) as [[st c]|] eqn:R.
  - rewrite (reject_exact K r st c G R). simpl. split.
    + intros H. left. exists st, c. split; [reflexivity|]. destruct (stage_class st); simpl in H; try discriminate H; reflexivity.
    + intros [[st' [c' [E C]]]|[E _]]; [|discriminate E]. inversion E; subst. rewrite C. reflexivity.
  - rewrite (accepted_exit K r G R). rewrite <- loop_of_ok. split.
    + intros H. right. split; [reflexivity|]. destruct (snd (loop_of K r)); [reflexivity | discriminate H].
    + intros [[st [c [E _]]]|[_ E]]; [discriminate E|]. rewrite E. reflexivity.
Qed.

Theorem stop_after_failure : forall K r k rv, good K = true -> k_stop K = true ->
  rejected_at K r = None -> nth_error (planned K r) k = Some rv ->
  ~ completes (nodes_of r) (run_ctx (q_ctx r) rv) ->
  (forall j i, In (NodeRan j i) (snd (cli K r)) -> j <= k) /\ fst (cli K r) = 4%Z.
Proof.
  intros K r k rv G S R Hn Hf. split.
  - intros j i H. unfold cli, rejected_at in *. rewrite (interp_none K _ r [] (good_wf K G) R) in H. simpl in H.
    apply in_app_or in H. destruct H as [H|H].
    + apply marker_effects_trace in H. discriminate H.
    + unfold loop_of in H. rewrite S in H.
      pose proof (loop_stop (q_traced r) (nodes_of r) (q_ctx r) (planned K r) 0 k rv Hn Hf j i H). lia.
  - rewrite (accepted_exit K r G R).
    destruct (snd (loop_of K r)) eqn:E; [|reflexivity].
    apply loop_of_ok in E. unfold planned_ctxs in E. rewrite Forall_map in E. rewrite Forall_forall in E.
    exfalso. apply Hf. apply E. eapply nth_error_In. exact Hn.
Qed.

(* the runs before the failed one did run to completion: every planned run up to k was started in order *)
Theorem accepted_effects : forall K r, good K = true -> rejected_at K r = None ->
  snd (cli K r) = (marker_effects K (k_chain K) r ++ fst (loop_of K r))%list.
Proof.
  intros K r G R. unfold cli, rejected_at in *. rewrite (interp_none K _ r [] (good_wf K G) R). reflexivity.
Qed.
