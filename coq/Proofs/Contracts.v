(* Proofs/Contracts.v — lemmas for C16: the factories preserve duplicate-free key lists
   under unbounded nesting, every generated view passes the error-level metadata rules,
   node views mirror processor views, and `valid` configurations generate. *)
From Coq Require Import List String Ascii Bool Arith Lia.
From SV Require Import Model.Contracts.
Import ListNotations.
Local Open Scope string_scope.

(* ------------------------------------------------------------------ *)
(* membership / duplicate-freeness                                      *)

Lemma mem_In x l : mem x l = true <-> In x l.
Proof.
  unfold mem. rewrite existsb_exists. split.
  - intros [y [Hy E]]. apply String.eqb_eq in E. subst; auto.
  - intros H. exists x. split; auto. apply String.eqb_refl.
Qed.

Lemma mem_app x a b : mem x (a ++ b)%list = mem x a || mem x b.
Proof. unfold mem. apply existsb_app. Qed.

Lemma nodupb_app a b :
  nodupb (a ++ b)%list = nodupb a && nodupb b && forallb (fun x => negb (mem x b)) a.
Proof.
  induction a as [|x a IH]; simpl.
  - rewrite andb_true_r. reflexivity.
  - rewrite IH, mem_app, negb_orb.
    destruct (mem x a), (mem x b), (nodupb a), (nodupb b); simpl; auto.
Qed.

Lemma mem_filter x g l : mem x (filter g l) = true -> mem x l = true /\ g x = true.
Proof.
  rewrite !mem_In, filter_In. auto.
Qed.

Lemma nodupb_filter g l : nodupb l = true -> nodupb (filter g l) = true.
Proof.
  induction l as [|x l IH]; simpl; auto.
  intros H. apply andb_true_iff in H as [H1 H2].
  destruct (g x); simpl; auto.
  rewrite IH by auto. rewrite andb_true_r.
  destruct (mem x (filter g l)) eqn:E; auto.
  apply mem_filter in E as [E _]. rewrite E in H1. discriminate.
Qed.

Lemma str_len_app a b : String.length (a ++ b) = String.length a + String.length b.
Proof. induction a; simpl; auto. Qed.

Lemma append_inj_r s : forall a b, a ++ s = b ++ s -> a = b.
Proof.
  induction a as [|c a IH]; intros [|d b] H; simpl in *; auto.
  - exfalso. apply (f_equal String.length) in H. simpl in H. rewrite str_len_app in H. lia.
  - exfalso. apply (f_equal String.length) in H. simpl in H. rewrite str_len_app in H. lia.
  - injection H as -> H. f_equal. auto.
Qed.

Lemma values_key_inj a b : values_key a = values_key b -> a = b.
Proof. apply append_inj_r. Qed.

Lemma mem_map_values x l : mem (values_key x) (map values_key l) = mem x l.
Proof.
  induction l as [|y l IH]; simpl; auto. rewrite IH. f_equal.
  destruct (String.eqb x y) eqn:E.
  - apply String.eqb_eq in E. subst. apply String.eqb_refl.
  - apply String.eqb_neq. intros H. apply values_key_inj in H. apply String.eqb_neq in E. auto.
Qed.

Lemma nodupb_map_values l : nodupb (map values_key l) = nodupb l.
Proof. induction l as [|y l IH]; simpl; auto. rewrite IH, mem_map_values. reflexivity. Qed.

Lemma vars_keys (vars : list (string * option string)) :
  map (fun v => values_key (fst v)) vars = map values_key (map fst vars).
Proof. rewrite map_map. reflexivity. Qed.

Lemma nodupb_add_key k l : nodupb l = true -> nodupb (add_key k l) = true.
Proof.
  intros H. unfold add_key. destruct (mem k l) eqn:E; auto.
  rewrite nodupb_app, H. simpl.
  apply forallb_forall. intros x Hx. simpl. rewrite orb_false_r.
  destruct (String.eqb x k) eqn:E2; auto. apply String.eqb_eq in E2. subst.
  apply mem_In in Hx. rewrite Hx in E. discriminate.
Qed.

Lemma sweep_created_nodup f vs base :
  nodupb vs = true -> nodupb base = true ->
  (sweep_dedup f = true \/ forallb (fun x => negb (mem x base)) vs = true) ->
  nodupb (sweep_created f vs base) = true.
Proof.
  intros Hv Hb H. unfold sweep_created. rewrite nodupb_app, Hv. simpl.
  destruct (sweep_dedup f) eqn:D.
  - rewrite nodupb_filter by auto. simpl.
    apply forallb_forall. intros x Hx.
    destruct (mem x (filter (fun k => negb (mem k vs)) base)) eqn:E; auto.
    apply mem_filter in E as [_ E]. apply mem_In in Hx. rewrite Hx in E. discriminate.
  - destruct H as [H|H]; [discriminate|]. rewrite Hb, H. reflexivity.
Qed.

(* ------------------------------------------------------------------ *)
(* invariant of the processor-level factories, by induction on nesting  *)

Definition keys_ok (p : pinfo) : Prop := nodupb (pcreated p) = true /\ nodupb (psupp p) = true.

Lemma sweep_of_some f p vars bound coll q :
  sweep_of f p vars bound coll = Some q ->
  nodupb (map fst vars) = true /\
  ( (pk p = KDataSource /\ pk q = KDataSource /\ pcreated q = map (fun v => values_key (fst v)) vars)
    \/ ((pk p = KDataOperation \/ pk p = KDataProbe) /\ pk q = pk p /\
        pcreated q = sweep_created f (map (fun v => values_key (fst v)) vars) (pcreated p)) )
  /\ psupp q = [] /\ pin q = (match pk p with KDataSource => "" | _ => pin p end)
  /\ pparams q = ext_params bound (pparams p) (ctx_keys vars).
Proof.
  unfold sweep_of.
  destruct (is_nil vars || negb (nodupb (map fst vars))) eqn:E1; [discriminate|].
  apply orb_false_iff in E1 as [_ E1]. apply negb_false_iff in E1.
  destruct (negb (forallb _ bound)); [discriminate|].
  destruct (negb (nodupb _)); [discriminate|].
  destruct (pk p) eqn:K; destruct coll as [[cn [|]]|]; try discriminate;
    intros H; injection H as <-; simpl; repeat split; auto.
Qed.

Lemma proc_inv f : forall c p,
  bases_ok c = true -> (sweep_dedup f = true \/ fresh f c = true) ->
  proc f c = Some p -> keys_ok p.
Proof.
  induction c as [b|c IH coll|c IH vars bound coll|c IH k|a b|a|out holes]; intros p B F P; simpl in *.
  - injection P as <-. apply andb_true_iff in B. exact B.
  - destruct (proc f c) as [p'|] eqn:P'; [|discriminate].
    destruct (IH p' B F eq_refl) as [I1 I2].
    unfold slice_of in P. destruct (pk p'); try discriminate.
    + destruct (String.eqb (pin p') (pout p')); [|discriminate]. injection P as <-. split; auto.
    + injection P as <-. split; auto.
  - destruct (proc f c) as [p'|] eqn:P'; [|discriminate].
    assert (F' : sweep_dedup f = true \/ fresh f c = true).
    { destruct F as [F|F]; auto. apply andb_true_iff in F as [F _]. auto. }
    destruct (IH p' B F' eq_refl) as [I1 I2].
    apply sweep_of_some in P as (Hv & Hc & Hs & _).
    split; [|rewrite Hs; reflexivity].
    destruct Hc as [(_ & _ & Hc)|(_ & _ & Hc)]; rewrite Hc.
    + rewrite vars_keys, nodupb_map_values. exact Hv.
    + apply sweep_created_nodup; auto.
      * rewrite vars_keys, nodupb_map_values. exact Hv.
      * destruct F as [F|F]; auto. right. apply andb_true_iff in F as [_ F].
        rewrite forallb_forall in *. intros x Hx. apply in_map_iff in Hx as [v [<- Hv']]. auto.
  - discriminate.
  - destruct (valid_key a && valid_key b); [|discriminate]. injection P as <-. split; reflexivity.
  - destruct (valid_key a); [|discriminate]. injection P as <-. split; reflexivity.
  - destruct (valid_key out && negb (is_nil holes) && forallb valid_placeholder holes); [|discriminate].
    injection P as <-. split; reflexivity.
Qed.

(* ------------------------------------------------------------------ *)
(* every generated view passes the error-level metadata rules           *)

Lemma bases_ok_strip c : bases_ok (fst (strip_key c)) = bases_ok c.
Proof. destruct c; reflexivity. Qed.
Lemma fresh_strip f c : fresh f (fst (strip_key c)) = fresh f c.
Proof. destruct c; reflexivity. Qed.

Lemma probe_created_nodup f p k : nodupb (pcreated p) = true -> nodupb (probe_node_created f p k) = true.
Proof.
  intros H. unfold probe_node_created. destruct (probe_mirror f); [apply nodupb_add_key; auto|reflexivity].
Qed.

Ltac crunch_views K I1 I2 :=
  unfold node_view, proc_view, pre_entry, run_rules, spec_rules, errors; rewrite ?K;
  match goal with |- context [ppre ?q] => destruct (ppre q) | _ => idtac end;
  cbn; rewrite ?I1, ?I2, ?String.eqb_refl; cbn; try reflexivity.

Theorem generated_pass f c n p :
  bases_ok c = true -> (sweep_dedup f = true \/ fresh f c = true) ->
  gen (spec_tables f) c = Some (n, p) ->
  errors (run_rules spec_rules n) = [] /\ errors (run_rules spec_rules p) = [].
Proof.
  intros B F. rewrite <- bases_ok_strip in B. rewrite <- fresh_strip in F.
  unfold gen, node_of. destruct (strip_key c) as [c0 key]. simpl in B, F. simpl fst. simpl snd.
  destruct (proc (tflags (spec_tables f)) c0) as [p0|] eqn:P; [|discriminate].
  simpl in P. destruct (proc_inv f c0 p0 B F P) as [I1 I2].
  simpl. destruct (pk p0) eqn:K; simpl; destruct key as [k|]; try discriminate;
    try (destruct (nonblank k); [|discriminate]);
    intros H; injection H as <- <-; split;
    try (crunch_views K I1 I2).
  - rewrite (probe_created_nodup f p0 k I1). reflexivity.
  - destruct (existsb _ (pcreated p0)); reflexivity.
  - destruct (existsb _ (pcreated p0)); reflexivity.
Qed.

(* with the current un-deduplicated sweep keys the full statement fails: *)
Definition op_FF : pinfo := mkP KDataOperation "Op" "F" "F" [("factor", false)] [] [] [] false.
Definition sweep_twice : cfg :=
  Sweep (Sweep (Base op_FF) [("t", None)] ["factor"] (Some ("C", true))) [("t", None)] [] (Some ("C", true)).

Theorem generated_pass_refuted f :
  sweep_dedup f = false ->
  exists c n p, bases_ok c = true /\ valid c = true /\ gen (spec_tables f) c = Some (n, p) /\
                errors (run_rules spec_rules n) <> [].
Proof.
  intros D. destruct f as [d m]. simpl in D. subst d.
  exists sweep_twice. eexists. eexists. split; [reflexivity|]. split; [reflexivity|].
  split; [reflexivity|]. vm_compute. discriminate.
Qed.

(* ------------------------------------------------------------------ *)
(* node views mirror processor views                                    *)

Theorem wrapper_mirrors_when f c n p :
  gen (spec_tables f) c = Some (n, p) ->
  exists p0, proc f (fst (strip_key c)) = Some p0 /\
    ((probe_mirror f = true \/ pk p0 <> KDataProbe \/ pcreated p0 = []) ->
     mirrors (pk p0) (snd (strip_key c)) n p).
Proof.
  unfold gen, node_of. destruct (strip_key c) as [c0 key]. simpl.
  destruct (proc f c0) as [p0|] eqn:P; [|discriminate].
  intros H. exists p0. split; auto. revert H.
  destruct (pk p0) eqn:K; simpl; destruct key as [k|]; try discriminate;
    try (destruct (nonblank k); [|discriminate]);
    intros H; injection H as <- <-; intros M; unfold mirrors, node_view, proc_view; rewrite ?K; simpl;
    try (repeat split; reflexivity).
  repeat split. exists k, (pcreated p0). repeat split.
  unfold probe_node_created. destruct M as [M|[M|M]].
  - rewrite M. reflexivity.
  - congruence.
  - rewrite M. destruct (probe_mirror f); reflexivity.
Qed.

Definition probe_F : pinfo := mkP KDataProbe "Probe" "F" "" [] [] [] [] false.
Definition swept_probe : cfg := WithContextKey (Sweep (Base probe_F) [("t", None)] [] None) "k".

Theorem wrapper_mirrors_refuted f :
  probe_mirror f = false ->
  exists c n p p0, valid c = true /\ gen (spec_tables f) c = Some (n, p) /\
    proc f (fst (strip_key c)) = Some p0 /\ ~ mirrors (pk p0) (snd (strip_key c)) n p.
Proof.
  intros M. destruct f as [d m]. simpl in M. subst m.
  exists swept_probe. eexists. eexists. eexists.
  split; [reflexivity|]. split; [reflexivity|]. split; [reflexivity|].
  simpl. intros (_ & _ & k & l & Hk & Hl & Hn).
  injection Hk as <-. unfold sweep_created in Hl. simpl in Hl.
  destruct d; simpl in Hl; injection Hl as <-; vm_compute in Hn; discriminate.
Qed.

(* ------------------------------------------------------------------ *)
(* valid configurations generate                                        *)

Lemma validp_proc f : forall c, validp c = true ->
  exists p, proc f c = Some p /\ pk p = ckind c /\ pin p = cin c /\ pout p = cout c /\ pparams p = cparams c.
Proof.
  induction c as [b|c IH coll|c IH vars bound coll|c IH k|a b|a|out holes]; intros V; simpl in *.
  - exists b. auto.
  - apply andb_true_iff in V as [V1 V2]. destruct (IH V1) as (p' & P & K & I & O & Q).
    rewrite P. unfold slice_of. rewrite K, I, O.
    destruct (ckind c); try discriminate.
    + rewrite V2. eexists. repeat split; simpl; auto.
    + eexists. repeat split; simpl; auto.
  - repeat (apply andb_true_iff in V as [V ?]).
    destruct (IH V) as (p' & P & K & I & O & Q).
    rewrite P. unfold sweep_of. rewrite Q, K.
    match goal with H : negb (is_nil vars) = true |- _ => apply negb_true_iff in H; rewrite H end.
    match goal with H : nodupb (map fst vars) = true |- _ => rewrite H end.
    match goal with H : forallb _ bound = true |- _ => rewrite H end.
    match goal with H : nodupb (map fst (ext_params _ _ _)) = true |- _ => rewrite H end.
    simpl.
    destruct (ckind c); destruct coll as [[cn [|]]|]; try discriminate;
      eexists; repeat split; simpl; auto.
  - discriminate.
  - rewrite V. eexists. repeat split; reflexivity.
  - rewrite V. eexists. repeat split; reflexivity.
  - rewrite V. eexists. repeat split; reflexivity.
Qed.

Lemma node_of_total f p key :
  key_ok (pk p) key = true -> exists n q, node_of (spec_tables f) p key = Some (n, q).
Proof.
  unfold node_of. simpl. destruct (pk p); simpl; destruct key as [k|]; simpl; try discriminate; eauto.
  intros ->. eauto.
Qed.

Lemma node_of_some f p key n q : node_of (spec_tables f) p key = Some (n, q) -> key_ok (pk p) key = true.
Proof.
  unfold node_of. simpl. destruct (pk p); simpl; destruct key as [k|]; simpl; try discriminate; auto.
  destruct (nonblank k); [auto|discriminate].
Qed.

Theorem gen_total_on_valid f c :
  valid c = true -> exists n p, gen (spec_tables f) c = Some (n, p).
Proof.
  unfold valid, gen. intros V. apply andb_true_iff in V as [V1 V2].
  destruct (validp_proc f _ V1) as (p0 & P & K & _). simpl tflags. rewrite P.
  apply node_of_total. rewrite K. exact V2.
Qed.

(* the converse: whatever generates was valid — `valid` is exactly the domain of `gen` *)
Lemma proc_validp f : forall c p, proc f c = Some p ->
  validp c = true /\ pk p = ckind c /\ pin p = cin c /\ pout p = cout c /\ pparams p = cparams c.
Proof.
  induction c as [b|c IH coll|c IH vars bound coll|c IH k|a b|a|out holes]; intros p P; simpl in *.
  - injection P as <-. auto.
  - destruct (proc f c) as [p'|] eqn:P'; [|discriminate].
    destruct (IH p' eq_refl) as (V & K & I & O & Q). rewrite V. simpl.
    unfold slice_of in P. rewrite <- K, <- I, <- O.
    destruct (pk p') eqn:K'; try discriminate.
    + destruct (String.eqb (pin p') (pout p')) eqn:E; [|discriminate]. injection P as <-. simpl. auto.
    + injection P as <-. simpl. auto.
  - destruct (proc f c) as [p'|] eqn:P'; [|discriminate].
    destruct (IH p' eq_refl) as (V & K & I & O & Q). rewrite V. simpl.
    unfold sweep_of in P. rewrite <- Q, <- K, <- I.
    destruct (is_nil vars || negb (nodupb (map fst vars))) eqn:E1; [discriminate|].
    apply orb_false_iff in E1 as [E1a E1b]. rewrite E1a. apply negb_false_iff in E1b. rewrite E1b.
    destruct (forallb (fun b => mem b (map fst (pparams p'))) bound) eqn:E2; [|discriminate].
    destruct (nodupb (map fst (ext_params bound (pparams p') (ctx_keys vars)))) eqn:E3; [|discriminate].
    simpl in P. simpl.
    destruct (pk p') eqn:K'; destruct coll as [[cn [|]]|]; try discriminate;
      injection P as <-; simpl; auto.
  - discriminate.
  - destruct (valid_key a && valid_key b); [|discriminate]. injection P as <-. simpl. auto.
  - destruct (valid_key a); [|discriminate]. injection P as <-. simpl. auto.
  - destruct (valid_key out && negb (is_nil holes) && forallb valid_placeholder holes); [|discriminate].
    injection P as <-. simpl. auto.
Qed.

Theorem gen_only_on_valid f c n p : gen (spec_tables f) c = Some (n, p) -> valid c = true.
Proof.
  unfold valid, gen. simpl tflags.
  destruct (proc f (fst (strip_key c))) as [p0|] eqn:P; [|discriminate].
  destruct (proc_validp f _ p0 P) as (V & K & _). intros H.
  apply node_of_some in H. rewrite V, <- K, H. reflexivity.
Qed.
