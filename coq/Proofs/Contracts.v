(* Proofs/Contracts.v — lemmas for C16 *)
From Coq Require Import List String Ascii Bool Arith Lia.
From SV Require Import Model.Contracts.
Import ListNotations.
Local Open Scope string_scope.
