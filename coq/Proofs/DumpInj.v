(* Proofs/DumpInj.v — ast.dump text is injective (and self-delimiting) on
   expressions whose identifiers contain no quote character. *)
From Coq Require Import List String Ascii NArith ZArith Bool Lia.
From SV Require Import Common.Prelude Model.Expr Proofs.ExprInd.
Import ListNotations.
Open Scope string_scope.

Lemma scons_inj a s t : String a s = String a t -> s = t.
Proof. intros H; injection H; auto. Qed.

Ltac peel H := simpl in H; repeat (apply scons_inj in H).

Lemma print_N_no (c : ascii) : (N_of_ascii c < 48 \/ 57 < N_of_ascii c)%N ->
  forall n, str_forall (fun x => negb (Ascii.eqb x c)) (print_N n) = true.
Proof.
  intros Hc n. eapply str_forall_impl; [|apply print_N_digits].
  intros x Hx. apply (digit_not c Hc x Hx).
Qed.

Lemma dumpk_head_ne a k s : dumpk a k <> String "]" s.
Proof. destruct a; simpl; discriminate. Qed.

Lemma cmpop_name_sep o1 o2 s1 s2 :
  cmpop_name o1 ++ "()" ++ s1 = cmpop_name o2 ++ "()" ++ s2 -> o1 = o2 /\ s1 = s2.
Proof. destruct o1, o2; intros H; simpl in H; try discriminate; repeat (apply scons_inj in H); auto. Qed.

Lemma dump_ops_cons o tl k :
  dump_ops (o :: tl) k = cmpop_name o ++ "()" ++ match tl with [] => k | _ :: _ => ", " ++ dump_ops tl k end.
Proof. destruct tl; destruct o; reflexivity. Qed.

Lemma dump_ops_inj : forall l1 l2 k1 k2,
  dump_ops l1 (String "]" k1) = dump_ops l2 (String "]" k2) -> l1 = l2 /\ k1 = k2.
Proof.
  induction l1 as [|o1 t1 IH]; intros [|o2 t2] k1 k2 H.
  - simpl in H. injection H; auto.
  - rewrite dump_ops_cons in H. destruct o2; simpl in H; discriminate.
  - rewrite dump_ops_cons in H. destruct o1; simpl in H; discriminate.
  - rewrite !dump_ops_cons in H. apply cmpop_name_sep in H as [-> H].
    destruct t1 as [|a1 t1], t2 as [|a2 t2].
    + injection H; auto.
    + simpl in H. discriminate.
    + simpl in H. discriminate.
    + apply (append_inj_l ", ") in H. apply IH in H as [E ->]. rewrite E. auto.
Qed.

Definition InjAt (e1 : expr) : Prop :=
  forall e2 k1 k2, wf e2 = true -> dumpk e1 k1 = dumpk e2 k2 -> e1 = e2 /\ k1 = k2.

Lemma dl_cons2 a b t k : dl (a :: b :: t) k = dumpk a (", " ++ dl (b :: t) k).
Proof. reflexivity. Qed.
Lemma dlp_cons2 o a p t k : dlp ((o, a) :: p :: t) k = dumpk a (", " ++ dlp (p :: t) k).
Proof. reflexivity. Qed.

Lemma dl_inj : forall l1, Forall InjAt l1 ->
  forall l2 k1 k2, forallb wf l2 = true ->
  dl l1 (String "]" k1) = dl l2 (String "]" k2) -> l1 = l2 /\ k1 = k2.
Proof.
  induction l1 as [|a t1 IH]; intros HF [|b t2] k1 k2 Hwf H.
  - simpl in H. injection H; auto.
  - simpl in H. destruct t2; symmetry in H; apply dumpk_head_ne in H; contradiction.
  - simpl in H. destruct t1; apply dumpk_head_ne in H; contradiction.
  - inversion HF as [|? ? Ha HF']; subst.
    simpl in Hwf. apply andb_true_iff in Hwf as [Hb Hwf].
    destruct t1 as [|a' t1], t2 as [|b' t2].
    + simpl in H. apply Ha in H as [-> H]; auto. injection H; auto.
    + rewrite dl_cons2 in H. simpl dl at 1 in H. apply Ha in H as [_ H]; auto. simpl in H. discriminate.
    + rewrite dl_cons2 in H. simpl dl at 2 in H. apply Ha in H as [_ H]; auto. simpl in H. discriminate.
    + rewrite !dl_cons2 in H. apply Ha in H as [-> H]; auto.
      apply (append_inj_l ", ") in H. apply IH in H as [E ->]; auto. rewrite E; auto.
Qed.

Lemma dlp_inj : forall l1, Forall (fun p => InjAt (snd p)) l1 ->
  forall l2 k1 k2, forallb (fun p => wf (snd p)) l2 = true ->
  dlp l1 (String "]" k1) = dlp l2 (String "]" k2) -> map snd l1 = map snd l2 /\ k1 = k2.
Proof.
  induction l1 as [|[o1 a] t1 IH]; intros HF [|[o2 b] t2] k1 k2 Hwf H.
  - simpl in H. injection H; auto.
  - simpl in H. destruct t2; symmetry in H; apply dumpk_head_ne in H; contradiction.
  - simpl in H. destruct t1; apply dumpk_head_ne in H; contradiction.
  - inversion HF as [|? ? Ha HF']; subst. simpl in Ha.
    simpl in Hwf. apply andb_true_iff in Hwf as [Hb Hwf].
    destruct t1 as [|p1 t1], t2 as [|p2 t2].
    + simpl in H. apply Ha in H as [-> H]; auto. injection H; auto.
    + rewrite dlp_cons2 in H. simpl dlp at 1 in H. apply Ha in H as [_ H]; auto. simpl in H. discriminate.
    + rewrite dlp_cons2 in H. simpl dlp at 2 in H. apply Ha in H as [_ H]; auto. simpl in H. discriminate.
    + rewrite !dlp_cons2 in H. apply Ha in H as [-> H]; auto.
      apply (append_inj_l ", ") in H. apply IH in H as [E ->]; auto. split; auto. cbn [map snd]. f_equal. exact E.
Qed.

Lemma map_fst_snd_eq {A B} (l1 l2 : list (A * B)) :
  map fst l1 = map fst l2 -> map snd l1 = map snd l2 -> l1 = l2.
Proof.
  revert l2. induction l1 as [|[a b] t IH]; intros [|[a' b'] t'] H1 H2; simpl in *; try discriminate; auto.
  injection H1 as -> H1. injection H2 as -> H2. f_equal; auto.
Qed.

Lemma wf_forall_inj l :
  Forall (fun e => wf e = true -> InjAt e) l -> forallb wf l = true -> Forall InjAt l.
Proof.
  induction 1 as [|a t Ha _ IH]; intros Hw; constructor; simpl in Hw; apply andb_true_iff in Hw as [H1 H2]; auto.
Qed.

Theorem dumpk_inj : forall e1, wf e1 = true -> InjAt e1.
Proof.
  induction e1 as [x|n|o a IHa|o l r IHl IHr|c t f IHc IHt IHf|f args IH|l rest IHl IH|o vs IH] using expr_ind';
    intros W1 e2 k1 k2 W2 H.
  - (* Var *)
    destruct e2; try (simpl in H; discriminate).
    apply (append_inj_l "Name(id='") in H. simpl in H, W1, W2.
    apply delim_split in H as [-> H]; auto. peel H. auto.
  - (* Const *)
    destruct e2; try (simpl in H; discriminate).
    apply (append_inj_l "Constant(value=") in H. simpl in H.
    apply delim_split in H as [E H]; try (apply print_N_no; simpl; lia).
    apply print_N_inj in E. subst. auto.
  - (* Un *)
    destruct e2; try (simpl in H; discriminate).
    simpl in W1, W2.
    destruct o, o0; simpl in H; try discriminate; repeat (apply scons_inj in H);
      apply IHa in H as [-> H]; auto; peel H; auto.
  - (* Bin *)
    destruct e2; try (simpl in H; discriminate).
    simpl in W1, W2. apply andb_true_iff in W1 as [Wl Wr]. apply andb_true_iff in W2 as [Wl2 Wr2].
    apply (append_inj_l "BinOp(left=") in H.
    apply IHl in H as [-> H]; auto.
    destruct o, o0; simpl in H; try discriminate; repeat (apply scons_inj in H);
      apply IHr in H as [-> H]; auto; peel H; auto.
  - (* IfE *)
    destruct e2; try (simpl in H; discriminate).
    simpl in W1, W2.
    apply andb_true_iff in W1 as [W1 Wf]. apply andb_true_iff in W1 as [Wc Wt].
    apply andb_true_iff in W2 as [W2 Wf2]. apply andb_true_iff in W2 as [Wc2 Wt2].
    apply (append_inj_l "IfExp(test=") in H.
    apply IHc in H as [-> H]; auto. apply (append_inj_l ", body=") in H.
    apply IHt in H as [-> H]; auto. apply (append_inj_l ", orelse=") in H.
    apply IHf in H as [-> H]; auto. peel H. auto.
  - (* Call *)
    destruct e2; try (simpl in H; discriminate).
    rewrite !dumpk_call in H.
    simpl in W1, W2. apply andb_true_iff in W1 as [Wf Wa]. apply andb_true_iff in W2 as [Wf2 Wa2].
    apply (append_inj_l "Call(func=Name(id='") in H.
    apply delim_split in H as [-> H]; auto.
    apply (append_inj_l ", ctx=Load()), args=[") in H.
    apply dl_inj in H as [-> H]; auto.
    + peel H. auto.
    + apply wf_forall_inj; auto.
  - (* Cmp *)
    destruct e2; try (simpl in H; discriminate).
    rewrite !dumpk_cmp in H.
    simpl in W1, W2. apply andb_true_iff in W1 as [Wl Wr]. apply andb_true_iff in W2 as [Wl2 Wr2].
    apply (append_inj_l "Compare(left=") in H.
    apply IHl in H as [-> H]; auto.
    apply (append_inj_l ", ops=[") in H.
    apply dump_ops_inj in H as [Eops H].
    apply (append_inj_l ", comparators=[") in H.
    apply dlp_inj in H as [Esnd H]; auto.
    + peel H. split; auto. f_equal. apply map_fst_snd_eq; auto.
    + clear - IH Wr. induction IH as [|p t Hp _ IHt]; constructor; simpl in Wr;
        apply andb_true_iff in Wr as [H1 H2]; auto.
  - (* BoolE *)
    destruct e2; try (simpl in H; discriminate).
    rewrite !dumpk_bool in H. simpl in W1, W2.
    destruct o, o0; simpl boolop_name in H; try (simpl in H; discriminate).
    + apply (append_inj_l "BoolOp(op=And(), values=[") in H.
      apply dl_inj in H as [-> H]; auto. peel H. auto. apply wf_forall_inj; auto.
    + apply (append_inj_l "BoolOp(op=Or(), values=[") in H.
      apply dl_inj in H as [-> H]; auto. peel H. auto. apply wf_forall_inj; auto.
Qed.

Corollary dump_inj e1 e2 : wf e1 = true -> wf e2 = true -> dump e1 = dump e2 -> e1 = e2.
Proof. intros W1 W2 H. apply (dumpk_inj e1 W1 e2 "" "" W2 H). Qed.
