(* Proofs/ExprInd.v — induction principle for the nested expr type,
   well-formedness of identifiers, named versions of dumpk's local list printers. *)
From Coq Require Import List String Ascii NArith ZArith Bool Lia.
From SV Require Import Common.Prelude Model.Expr.
Import ListNotations.
Open Scope string_scope.

Section ExprInd.
Variable P : expr -> Prop.
Hypothesis HVar : forall x, P (Var x).
Hypothesis HConst : forall n, P (Const n).
Hypothesis HUn : forall o a, P a -> P (Un o a).
Hypothesis HBin : forall o l r, P l -> P r -> P (Bin o l r).
Hypothesis HIfE : forall c t f, P c -> P t -> P f -> P (IfE c t f).
Hypothesis HCall : forall f args, Forall P args -> P (Call f args).
Hypothesis HCmp : forall l rest, P l -> Forall (fun p => P (snd p)) rest -> P (Cmp l rest).
Hypothesis HBool : forall o vs, Forall P vs -> P (BoolE o vs).

Fixpoint expr_ind' (e : expr) : P e :=
  match e with
  | Var x => HVar x
  | Const n => HConst n
  | Un o a => HUn o a (expr_ind' a)
  | Bin o l r => HBin o l r (expr_ind' l) (expr_ind' r)
  | IfE c t f => HIfE c t f (expr_ind' c) (expr_ind' t) (expr_ind' f)
  | Call f args =>
      HCall f args ((fix go (l : list expr) : Forall P l :=
                       match l with [] => Forall_nil _ | a :: tl => Forall_cons _ (expr_ind' a) (go tl) end) args)
  | Cmp l rest =>
      HCmp l rest (expr_ind' l)
           ((fix go (l : list (cmpop * expr)) : Forall (fun p => P (snd p)) l :=
               match l with [] => Forall_nil _ | p :: tl => Forall_cons _ (expr_ind' (snd p)) (go tl) end) rest)
  | BoolE o vs =>
      HBool o vs ((fix go (l : list expr) : Forall P l :=
                     match l with [] => Forall_nil _ | a :: tl => Forall_cons _ (expr_ind' a) (go tl) end) vs)
  end.
End ExprInd.

(* identifiers never contain a quote character *)
Definition noquote (s : string) : bool := str_forall (fun c => negb (Ascii.eqb c "'"%char)) s.

Fixpoint wf (e : expr) : bool :=
  match e with
  | Var x => noquote x
  | Const _ => true
  | Un _ a => wf a
  | Bin _ l r => wf l && wf r
  | IfE c t f => wf c && wf t && wf f
  | Call f args => noquote f && forallb wf args
  | Cmp l rest => wf l && forallb (fun p => wf (snd p)) rest
  | BoolE _ vs => forallb wf vs
  end.

(* Named list printers: "a, b, c" followed by k *)
Fixpoint dl (l : list expr) (k : string) {struct l} : string :=
  match l with
  | [] => k
  | a :: tl => match tl with [] => dumpk a k | _ :: _ => dumpk a (", " ++ dl tl k) end
  end.

Fixpoint dlp (l : list (cmpop * expr)) (k : string) {struct l} : string :=
  match l with
  | [] => k
  | (_, a) :: tl => match tl with [] => dumpk a k | _ :: _ => dumpk a (", " ++ dlp tl k) end
  end.

Lemma dumpk_call f args k :
  dumpk (Call f args) k =
  "Call(func=Name(id='" ++ f ++ "', ctx=Load()), args=[" ++ dl args ("], keywords=[])" ++ k).
Proof. reflexivity. Qed.

Lemma dumpk_cmp l rest k :
  dumpk (Cmp l rest) k =
  "Compare(left=" ++ dumpk l (", ops=[" ++ dump_ops (map fst rest) ("], comparators=[" ++ dlp rest ("])" ++ k))).
Proof. reflexivity. Qed.

Lemma dumpk_bool o vs k :
  dumpk (BoolE o vs) k = "BoolOp(op=" ++ boolop_name o ++ "(), values=[" ++ dl vs ("])" ++ k).
Proof. reflexivity. Qed.
