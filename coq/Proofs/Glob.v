(* Proofs/Glob.v -- the two pattern families the transport model names (exact channel names, `prefix*`) are instances of
   the shell-style matcher; `*` matches everything. *)
From Coq Require Import List String Ascii Bool Arith NArith Lia.
From SV Require Import Model.Glob.
Import ListNotations.

Fixpoint leqb (a b : list ascii) : bool :=
  match a, b with
  | [], [] => true
  | x :: a', y :: b' => Ascii.eqb x y && leqb a' b'
  | _, _ => false
  end.
Fixpoint lprefix (p s : list ascii) : bool :=
  match p, s with
  | [], _ => true
  | x :: p', y :: s' => Ascii.eqb x y && lprefix p' s'
  | _ :: _, [] => false
  end.

Lemma gmatch_chars : forall p s, gmatch (map GChar p) s = leqb p s.
Proof.
  induction p as [|a p IH]; intros s; simpl.
  - destruct s; reflexivity.
  - destruct s as [|c s]; [reflexivity|]. rewrite IH. reflexivity.
Qed.

Lemma gmatch_star_nil : forall s, gmatch [GStar] s = true.
Proof. induction s as [|c s IH]; simpl; [reflexivity|]. simpl in IH. first [exact IH | rewrite IH; apply orb_true_r]. Qed.

Lemma gmatch_chars_star : forall p s, gmatch (map GChar p ++ [GStar]) s = lprefix p s.
Proof.
  induction p as [|a p IH]; intros s.
  - simpl app. rewrite gmatch_star_nil. destruct s; reflexivity.
  - destruct s as [|c s]; [reflexivity|]. cbn [map app gmatch lprefix]. rewrite IH. reflexivity.
Qed.

(* parsing a text without metacharacters yields the text *)
Lemma parse_fuel_plain : forall l fuel, List.length l < fuel -> plain l = true -> parse_fuel fuel l = map GChar l.
Proof.
  induction l as [|c tl IH]; intros fuel Hf Hp.
  - destruct fuel; reflexivity.
  - destruct fuel as [|f]; [simpl in Hf; lia|].
    simpl in Hp. apply andb_true_iff in Hp as [Hc Hp]. unfold is_meta in Hc.
    apply negb_true_iff in Hc. apply orb_false_iff in Hc as [Hc H3]. apply orb_false_iff in Hc as [H1 H2].
    cbn [parse_fuel]. rewrite H1, H2, H3. cbn [map]. f_equal. apply IH; [simpl in Hf; lia|exact Hp].
Qed.
Lemma parse_plain l : plain l = true -> parse l = map GChar l.
Proof. intros H. unfold parse. apply parse_fuel_plain; [lia|exact H]. Qed.

Lemma parse_fuel_plain_star : forall l fuel, S (List.length l) < fuel -> plain l = true ->
  parse_fuel fuel (l ++ ["*"%char]) = map GChar l ++ [GStar].
Proof.
  induction l as [|c tl IH]; intros fuel Hf Hp.
  - destruct fuel as [|[|f]]; simpl in Hf; try lia. reflexivity.
  - destruct fuel as [|f]; [simpl in Hf; lia|].
    simpl in Hp. apply andb_true_iff in Hp as [Hc Hp]. unfold is_meta in Hc.
    apply negb_true_iff in Hc. apply orb_false_iff in Hc as [Hc H3]. apply orb_false_iff in Hc as [H1 H2].
    cbn [app parse_fuel]. rewrite H1, H2, H3. cbn [map app]. f_equal. apply IH; [simpl in Hf; lia|exact Hp].
Qed.

(* strings *)
Lemma leqb_string : forall a b, leqb (list_ascii_of_string a) (list_ascii_of_string b) = String.eqb a b.
Proof.
  induction a as [|x a IH]; intros [|y b]; simpl; try reflexivity.
  rewrite IH. reflexivity.
Qed.
Lemma lprefix_string : forall a b, lprefix (list_ascii_of_string a) (list_ascii_of_string b) = String.prefix a b.
Proof.
  induction a as [|x a IH]; intros b; simpl; [destruct b; reflexivity|].
  destruct b as [|y b]; simpl; [reflexivity|]. rewrite IH.
  destruct (Ascii.eqb_spec x y) as [->|Hn]; simpl.
  - destruct (ascii_dec y y); [reflexivity|congruence].
  - destruct (ascii_dec x y); [congruence|reflexivity].
Qed.
Lemma list_ascii_app a b : list_ascii_of_string (a ++ b) = (list_ascii_of_string a ++ list_ascii_of_string b)%list.
Proof. induction a as [|x a IH]; simpl; [reflexivity|]. rewrite IH. reflexivity. Qed.

Theorem glob_exact p n : plain (list_ascii_of_string p) = true -> glob p n = String.eqb p n.
Proof. intros H. unfold glob. rewrite (parse_plain _ H), gmatch_chars. apply leqb_string. Qed.

Theorem glob_prefix_star p n : plain (list_ascii_of_string p) = true -> glob (p ++ "*") n = String.prefix p n.
Proof.
  intros H. unfold glob, parse. rewrite list_ascii_app. simpl (list_ascii_of_string "*").
  rewrite parse_fuel_plain_star; [|rewrite app_length; simpl; lia|exact H].
  rewrite gmatch_chars_star. apply lprefix_string.
Qed.

Theorem glob_star_all n : glob "*" n = true.
Proof. unfold glob. simpl. apply gmatch_star_nil. Qed.

(* `?` consumes exactly one character; a set never matches the empty name *)
Lemma gmatch_any_length : forall k s, gmatch (repeat GAny k) s = Nat.eqb (List.length s) k.
Proof.
  induction k as [|k IH]; intros s; simpl; [destruct s; reflexivity|].
  destruct s as [|c s]; [reflexivity|]. simpl. apply IH.
Qed.
