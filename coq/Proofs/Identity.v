(* Proofs/Identity.v — lemmas about Model/Identity.v.
   Part 1 (C04): invariance of all identities under cfg_equiv; purity (Impl = Spec over histories).
   Part 2 (C05): discrimination, collision-explicit. *)
From Coq Require Import List String Ascii NArith Arith Bool Lia Permutation DecimalString DecimalPos DecimalN.
From SV Require Import Common.Prelude Model.Json Model.Expr Gen.SemanticIdGen Gen.IdentityGen Model.Identity
  Proofs.ExprInd Proofs.DumpInj Proofs.NormSound Proofs.NormAC Proofs.Json.
Import ListNotations.
Open Scope string_scope.

(* ------------------------------------------------------------------ *)
(* configurations that mean the same *)
Definition expr_equiv (a b : string * expr) : Prop := fst a = fst b /\ ac comm (snd a) (snd b).
Definition exprs_equiv (l l' : list (string * expr)) : Prop :=
  exists l1, Permutation l l1 /\ Forall2 expr_equiv l1 l'.
Definition sweep_equiv (s s' : sweep) : Prop :=
  exprs_equiv (sw_exprs s) (sw_exprs s') /\ Permutation (sw_vars s) (sw_vars s') /\
  sw_mode s = sw_mode s' /\ sw_broadcast s = sw_broadcast s' /\ sw_collection s = sw_collection s'.
Definition node_equiv (n n' : node) : Prop :=
  n_proc n = n_proc n' /\ jeq (JObj (n_params n)) (JObj (n_params n')) /\ n_info n = n_info n' /\
  n_ctxkey n = n_ctxkey n' /\
  match n_sweep n, n_sweep n' with
  | None, None => True
  | Some s, Some s' => sweep_equiv s s'
  | _, _ => False
  end.
Definition cfg_equiv (c c' : config) : Prop := Forall2 node_equiv c c'.

(* well-formedness needed by the invariance theorems: unique keys, well-formed expressions *)
Definition vspec_knd (v : vspec) : bool := match v with VSeq vals => forallb knd vals | _ => true end.
(* strict = true additionally bounds the number of from_context variables of a sweep by one
   (the sub-class on which the order of dependencies.context_keys cannot matter) *)
Definition ctx_small (s : sweep) : bool := Nat.leb (List.length (raw_ctx_keys s)) 1.
Definition sweep_wf (strict : bool) (s : sweep) : bool :=
  (negb strict || ctx_small s) &&
  nodupb (map fst (sw_exprs s)) && nodupb (map fst (sw_vars s)) &&
  forallb (fun ke => wf (snd ke)) (sw_exprs s) && forallb (fun kv => vspec_knd (snd kv)) (sw_vars s) &&
  forallb (fun k => negb (dropped k)) (map fst (sw_exprs s) ++ map fst (sw_vars s)).
Definition node_wf (strict : bool) (n : node) : bool :=
  knd (JObj (n_params n)) && match n_sweep n with Some s => sweep_wf strict s | None => true end.
Definition cfg_wf (strict : bool) (c : config) : bool := forallb (node_wf strict) c.

(* ------------------------------------------------------------------ *)
(* generic helpers *)
Lemma mem_str_perm x l l' : Permutation l l' -> mem_str x l = mem_str x l'.
Proof.
  intros P. destruct (mem_str x l) eqn:E; symmetry.
  - apply mem_str_In. apply mem_str_In in E. eapply Permutation_in; eauto.
  - destruct (mem_str x l') eqn:E'; auto. apply mem_str_In in E'.
    apply Permutation_sym in P. apply (Permutation_in _ P) in E'. apply mem_str_In in E'. congruence.
Qed.

Lemma jeqm_fst m m' : jeqm m m' -> map fst m = map fst m'.
Proof. induction 1; simpl; congruence. Qed.

Lemma jeq_obj_keys m m' x : jeq (JObj m) (JObj m') -> mem_str x (map fst m) = mem_str x (map fst m').
Proof.
  intros E. inversion E as [| | | | |? m1 ? P Q]; subst.
  rewrite <- (jeqm_fst _ _ Q). apply mem_str_perm. apply Permutation_map. exact P.
Qed.

Lemma jeqm_map {A} (f g : A -> string * json) l :
  Forall (fun a => fst (f a) = fst (g a) /\ jeq (snd (f a)) (snd (g a))) l -> jeqm (map f l) (map g l).
Proof.
  induction 1 as [|a r Ha _ IH]; simpl.
  - constructor.
  - destruct Ha as [H1 H2]. destruct (f a) as [k v]. destruct (g a) as [k' v']. simpl in *. subst k'.
    constructor; auto.
Qed.

Lemma map_fst_pair {A B} (g : A -> B) l : map fst (map (fun f => (f, g f)) l) = l.
Proof. induction l; simpl; congruence. Qed.

Lemma jeqm_app a a' b b' : jeqm a a' -> jeqm b b' -> jeqm (a ++ b) (a' ++ b').
Proof. induction 1; simpl; auto. intros. constructor; auto. Qed.

Lemma in_removelast {A} (x : A) l : In x (removelast l) -> In x l.
Proof.
  induction l as [|a r IH]; simpl; auto. destruct r as [|b r]; [contradiction|].
  intros [->|Hin]; auto.
Qed.

Lemma nodup_removelast {A} (l : list A) : NoDup l -> NoDup (removelast l).
Proof.
  induction l as [|a r IH]; simpl; intros N; [constructor|].
  inversion N; subst. destruct r as [|b r]; [constructor|].
  constructor; auto. intro Hin. apply H1. apply in_removelast. exact Hin.
Qed.

Lemma nodup_drop_last (l : list string) (a b : string) : NoDup (l ++ [a; b])%list -> NoDup (l ++ [a])%list.
Proof.
  intros N. replace (l ++ [a])%list with (removelast (l ++ [a; b])%list).
  - apply nodup_removelast. exact N.
  - rewrite removelast_app by discriminate. reflexivity.
Qed.

Lemma Forall2_imp {A B} (P Q : A -> B -> Prop) l l' : (forall a b, P a b -> Q a b) -> Forall2 P l l' -> Forall2 Q l l'.
Proof. intros HPQ. induction 1; constructor; auto. Qed.

Lemma jeq_refl a : jeq a a.
Proof. apply jeq_refl_all. Qed.

(* strip commutes with jeq and keeps key uniqueness *)
Fixpoint strip_m (m : list (string * json)) : list (string * json) :=
  match m with
  | [] => []
  | (k, v) :: r => if dropped k then strip_m r else (k, strip v) :: strip_m r
  end.
Lemma strip_obj m : strip (JObj m) = JObj (strip_m m).
Proof. reflexivity. Qed.

Lemma strip_m_perm m m' : Permutation m m' -> Permutation (strip_m m) (strip_m m').
Proof.
  induction 1 as [|[k v] l l' P IH|[k v] [k' v'] l|l1 l2 l3 P1 IH1 P2 IH2]; simpl; auto.
  - destruct (dropped k); auto.
  - destruct (dropped k), (dropped k'); auto. apply perm_swap.
  - eapply perm_trans; eauto.
Qed.

Lemma jeq_strip_all :
  (forall a b, jeq a b -> jeq (strip a) (strip b)) /\
  (forall l l', jeql l l' -> jeql (map strip l) (map strip l')) /\
  (forall m m', jeqm m m' -> jeqm (strip_m m) (strip_m m')).
Proof.
  apply jeq_mutind; intros.
  - constructor.
  - constructor.
  - constructor.
  - constructor.
  - simpl. constructor. auto.
  - rewrite !strip_obj. apply jeq_obj with (m1 := strip_m m1); auto. apply strip_m_perm; auto.
  - constructor.
  - simpl. constructor; auto.
  - constructor.
  - simpl. destruct (dropped k); auto. constructor; auto.
Qed.

Lemma strip_m_keys m x : In x (map fst (strip_m m)) -> In x (map fst m).
Proof.
  induction m as [|[k v] r IH]; simpl; auto. destruct (dropped k); simpl; intros H; auto.
  destruct H; auto.
Qed.

Lemma knd_strip : forall j, knd j = true -> knd (strip j) = true.
Proof.
  induction j as [|x|s|s|l IH|m IH] using json_ind'; auto.
  - simpl. intros H. rewrite forallb_forall in *. rewrite Forall_forall in IH.
    intros x Hx. apply in_map_iff in Hx as [y [<- Hy]]. auto.
  - rewrite strip_obj, !knd_obj. intros H. apply andb_true_iff in H as [ND FA].
    apply andb_true_iff. split.
    + apply nodupb_NoDup in ND. apply nodupb_NoDup. clear FA IH.
      induction m as [|[k v] r IHr]; simpl; [constructor|].
      inversion ND; subst. destruct (dropped k); auto. simpl. constructor; auto.
      intro Hin. apply strip_m_keys in Hin. contradiction.
    + clear ND. induction IH as [|[k v] r Hv Hr IHr]; simpl in *; auto.
      apply andb_true_iff in FA as [F1 F2]. destruct (dropped k); simpl; auto.
      rewrite Hv; auto.
Qed.

(* ---- the scoped strip (repaired shape) has the same two properties ---- *)
Lemma kfilter_perm g m m' : Permutation m m' -> Permutation (kfilter g m) (kfilter g m').
Proof.
  unfold kfilter. induction 1 as [|[k v] l l' P IH|[k v] [k' v'] l|l1 l2 l3 P1 IH1 P2 IH2]; simpl; auto.
  - destruct (g k); auto.
  - destruct (g k), (g k'); auto. apply perm_swap.
  - eapply perm_trans; eauto.
Qed.
Lemma kmap_perm F m m' : Permutation m m' -> Permutation (kmap F m) (kmap F m').
Proof. unfold kmap. apply Permutation_map. Qed.
Lemma jeqm_kfilter g m m' : jeqm m m' -> jeqm (kfilter g m) (kfilter g m').
Proof.
  unfold kfilter. induction 1 as [|k a a' l l' Ha Hl IH]; simpl; [constructor|].
  destruct (g k); auto. constructor; auto.
Qed.
Lemma jeqm_kmap F m m' : (forall k a b, jeq a b -> jeq (F k a) (F k b)) ->
  jeqm m m' -> jeqm (kmap F m) (kmap F m').
Proof.
  intros HF. unfold kmap. induction 1 as [|k a a' l l' Ha Hl IH]; simpl; constructor; auto.
Qed.
Lemma jeq_obj_lift (G : list (string * json) -> list (string * json)) :
  (forall m m', Permutation m m' -> Permutation (G m) (G m')) ->
  (forall m m', jeqm m m' -> jeqm (G m) (G m')) ->
  forall m m', jeq (JObj m) (JObj m') -> jeq (JObj (G m)) (JObj (G m')).
Proof.
  intros GP GJ m m' E. inversion E as [| | | | |? m1 ? P Q]; subst.
  apply jeq_obj with (m1 := G m1); auto.
Qed.

Lemma jeq_strip_entry a b : jeq a b -> jeq (strip_entry a) (strip_entry b).
Proof.
  intros E. destruct a, b; try (inversion E; fail); try exact E.
  unfold strip_entry. apply jeq_obj_lift; auto using kfilter_perm, jeqm_kfilter.
Qed.
Lemma jeq_strip_entries a b : jeq a b -> jeq (strip_entries a) (strip_entries b).
Proof.
  intros E. destruct a, b; try (inversion E; fail); try exact E.
  unfold strip_entries. apply jeq_obj_lift; auto using kmap_perm.
  intros m1 m2. apply jeqm_kmap. intros _ x y. apply jeq_strip_entry.
Qed.
Lemma jeq_strip_scoped a b : jeq a b -> jeq (strip_scoped a) (strip_scoped b).
Proof.
  intros E. destruct a, b; try (inversion E; fail); try exact E.
  unfold strip_scoped. apply (jeq_obj_lift strip_top); auto; unfold strip_top.
  - intros m1 m2 P. apply kmap_perm, kfilter_perm, P.
  - intros m1 m2 Q. apply jeqm_kmap; [|apply jeqm_kfilter, Q].
    intros k x y Exy. destruct (String.eqb k "param_expressions"); auto using jeq_strip_entries.
Qed.
Lemma jeq_strip_block a b : jeq a b -> jeq (strip_block a) (strip_block b).
Proof. unfold strip_block. destruct node_sem_strip_scoped; [apply jeq_strip_scoped|apply jeq_strip_all]. Qed.

Lemma kfilter_keys g m x : In x (map fst (kfilter g m)) -> In x (map fst m).
Proof.
  unfold kfilter. induction m as [|[k v] r IH]; simpl; auto. destruct (g k); simpl; auto. intros [E|I]; auto.
Qed.
Lemma kmap_keys F m : map fst (kmap F m) = map fst m.
Proof. unfold kmap. rewrite map_map. reflexivity. Qed.
Lemma knd_kfilter g m : knd (JObj m) = true -> knd (JObj (kfilter g m)) = true.
Proof.
  rewrite !knd_obj. intros H. apply andb_true_iff in H as [ND FA]. apply andb_true_iff. split.
  - apply nodupb_NoDup in ND. apply nodupb_NoDup. clear FA.
    induction m as [|[k v] r IHr]; simpl; [constructor|]. inversion ND; subst. unfold kfilter in *. simpl.
    destruct (g k); auto. simpl. constructor; auto. intro Hin. apply (kfilter_keys g r k) in Hin. contradiction.
  - clear ND. unfold kfilter. induction m as [|[k v] r IHr]; simpl in *; auto.
    apply andb_true_iff in FA as [F1 F2]. destruct (g k); simpl; auto. rewrite F1; auto.
Qed.
Lemma knd_kmap F m : (forall k v, knd v = true -> knd (F k v) = true) ->
  knd (JObj m) = true -> knd (JObj (kmap F m)) = true.
Proof.
  intros HF. rewrite !knd_obj, kmap_keys. intros H. apply andb_true_iff in H as [ND FA]. rewrite ND. simpl.
  unfold kmap. clear ND. induction m as [|[k v] r IHr]; simpl in *; auto.
  apply andb_true_iff in FA as [F1 F2]. rewrite (HF k v F1). simpl. auto.
Qed.
Lemma knd_strip_entry j : knd j = true -> knd (strip_entry j) = true.
Proof. destruct j; auto. unfold strip_entry. apply knd_kfilter. Qed.
Lemma knd_strip_entries j : knd j = true -> knd (strip_entries j) = true.
Proof. destruct j; auto. unfold strip_entries. apply knd_kmap. intros _ v. apply knd_strip_entry. Qed.
Lemma knd_strip_scoped j : knd j = true -> knd (strip_scoped j) = true.
Proof.
  destruct j; auto. unfold strip_scoped, strip_top. intros K. apply knd_kmap; [|apply knd_kfilter, K].
  intros k v Kv. destruct (String.eqb k "param_expressions"); auto using knd_strip_entries.
Qed.
Lemma knd_strip_block j : knd j = true -> knd (strip_block j) = true.
Proof. unfold strip_block. destruct node_sem_strip_scoped; [apply knd_strip_scoped|apply knd_strip]. Qed.

(* ------------------------------------------------------------------ *)
Section Inv.
Variable U5 H : string -> string.
Variable strict : bool.
Hypothesis Hsorted : context_keys_sorted = true \/ strict = true.
Hypothesis Hfields : nodupb (canon_fields ++ ["node_uuid"; "preprocessor_metadata"]) = true.

Lemma nodup_app_l (l r : list string) : NoDup (l ++ r) -> NoDup l.
Proof.
  induction l as [|x l IH]; simpl; intros N; [constructor|].
  inversion N; subst. constructor; auto. intro Hin. apply H2. apply in_or_app. auto.
Qed.

Lemma nodup_fields : nodupb canon_fields = true.
Proof.
  apply nodupb_NoDup. apply nodupb_NoDup in Hfields. eapply nodup_app_l. exact Hfields.
Qed.

Lemma processor_ref_equiv n n' : node_equiv n n' -> processor_ref n = processor_ref n'.
Proof.
  intros (Hp & _ & Hi & _ & Hs). unfold processor_ref.
  destruct (n_sweep n), (n_sweep n'); try contradiction; [rewrite Hi; reflexivity|exact Hp].
Qed.

Lemma canon_field_equiv i n n' f : node_equiv n n' -> jeq (canon_field i n f) (canon_field i n' f).
Proof.
  intros E. pose proof (processor_ref_equiv _ _ E) as Hr. destruct E as (Hp & Hj & _).
  unfold canon_field. rewrite Hr.
  repeat (match goal with |- context [if ?b then _ else _] => destruct b end; try apply jeq_refl).
  exact Hj.
Qed.

Lemma canon_field_knd i n f : knd (JObj (n_params n)) = true -> knd (canon_field i n f) = true.
Proof.
  intros K. unfold canon_field.
  repeat (match goal with |- context [if ?b then _ else _] => destruct b end; try reflexivity).
  exact K.
Qed.

Lemma node_json_equiv i n n' : node_wf strict n = true -> node_equiv n n' -> node_json i n = node_json i n'.
Proof.
  intros W E. unfold node_json, canon_node. apply dumps_perm_invariant.
  - rewrite knd_obj. rewrite map_fst_pair, nodup_fields. rewrite andb_true_l.
    apply forallb_forall. intros x Hx. apply in_map_iff in Hx as [f [<- _]]. unfold mknd.
    apply canon_field_knd. unfold node_wf in W. apply andb_true_iff in W. tauto.
  - eapply jeq_obj; [apply Permutation_refl|]. apply jeqm_map.
    apply Forall_forall. intros f _. simpl. split; auto. apply canon_field_equiv; auto.
Qed.

Lemma uuids_equiv : forall c c' k, cfg_wf strict c = true -> cfg_equiv c c' ->
  uuids_from U5 k c = uuids_from U5 k c'.
Proof.
  intros c c' k W E. revert k W. induction E as [|n n' c c' En Ec IH]; intros k W; simpl; auto.
  simpl in W. apply andb_true_iff in W as [Wn Wc].
  unfold node_uuid. rewrite (node_json_equiv k n n' Wn En). f_equal. apply IH; auto.
Qed.

(* --- sweep metadata *)
Lemma raw_ctx_perm s s' : Permutation (sw_vars s) (sw_vars s') -> Permutation (raw_ctx_keys s) (raw_ctx_keys s').
Proof. intros P. unfold raw_ctx_keys. apply Permutation_flat_map. exact P. Qed.

Lemma ctx_keys_equiv s s' : sweep_wf strict s = true -> Permutation (sw_vars s) (sw_vars s') -> ctx_keys s = ctx_keys s'.
Proof.
  intros W P. pose proof (raw_ctx_perm s s' P) as PR. unfold ctx_keys.
  destruct Hsorted as [Hs|Hs].
  - rewrite Hs. apply ksort_canonical; [unfold sid; auto|]. exact PR.
  - assert (E : raw_ctx_keys s = raw_ctx_keys s').
    { unfold sweep_wf in W. rewrite Hs in W. repeat (apply andb_true_iff in W as [W ?]).
      simpl in W. unfold ctx_small in W. apply Nat.leb_le in W.
      destruct (raw_ctx_keys s) as [|a [|b r]] eqn:Er.
      - apply Permutation_nil in PR. auto.
      - apply Permutation_length_1_inv in PR. auto.
      - simpl in W. lia. }
    rewrite E. reflexivity.
Qed.

Lemma exprs_names l l' x : exprs_equiv l l' -> mem_str x (map fst l) = mem_str x (map fst l').
Proof.
  intros (l1 & P & F). rewrite (mem_str_perm x _ _ (Permutation_map fst P)). f_equal.
  clear P. induction F as [|a b r r' [E _] _ IH]; simpl; congruence.
Qed.

Lemma req_external_equiv n n' s s' : n_info n = n_info n' -> exprs_equiv (sw_exprs s) (sw_exprs s') ->
  req_external n s = req_external n' s'.
Proof.
  intros Hi E. unfold req_external. rewrite Hi. apply filter_ext. intros p.
  rewrite (exprs_names _ _ p E). reflexivity.
Qed.

Definition pe_member (ke : string * expr) : string * json := (fst ke, JObj [("sig", expr_sig_json (snd ke))]).
Definition var_member (kv : string * vspec) : string * json := (fst kv, vspec_json H (snd kv)).

Lemma pe_equiv l l' : forallb (fun ke => wf (snd ke)) l = true -> exprs_equiv l l' ->
  jeq (JObj (map pe_member l)) (JObj (map pe_member l')).
Proof.
  intros W (l1 & P & F). apply jeq_obj with (m1 := map pe_member l1); [apply Permutation_map; auto|].
  assert (W1 : forallb (fun ke => wf (snd ke)) l1 = true) by (eapply forallb_perm; eauto).
  clear P W. induction F as [|a b r r' [E A] _ IH]; simpl; [constructor|].
  simpl in W1. apply andb_true_iff in W1 as [Wa Wr].
  unfold pe_member at 1 3. rewrite E. constructor; auto.
  unfold expr_sig_json. rewrite (ac_same_sig comm _ _ Wa A). apply jeq_refl.
Qed.

Lemma sweep_meta_equiv n n' s s' : sweep_wf strict s = true -> n_info n = n_info n' -> sweep_equiv s s' ->
  jeq (sweep_meta H n s) (sweep_meta H n' s').
Proof.
  intros W Hi (Ee & Pv & Hm & Hb & Hc). unfold sweep_meta.
  rewrite Hi, Hm, Hb, Hc, (req_external_equiv n n' s s' Hi Ee), (ctx_keys_equiv s s' W Pv).
  unfold sweep_wf in W. repeat (apply andb_true_iff in W as [W ?]).
  eapply jeq_obj; [apply Permutation_refl|].
  repeat (constructor; try apply jeq_refl).
  - apply (pe_equiv _ _ H2 Ee).
  - apply jeq_perm. apply Permutation_map. exact Pv.
Qed.

Lemma firstn_forallb {A} (f : A -> bool) k l : forallb f l = true -> forallb f (firstn k l) = true.
Proof. revert k; induction l as [|a r IH]; intros [|k]; simpl; auto. rewrite andb_true_iff. intros [? ?]. rewrite H0. simpl. auto. Qed.
Lemma skipn_forallb {A} (f : A -> bool) k l : forallb f l = true -> forallb f (skipn k l) = true.
Proof. revert k; induction l as [|a r IH]; intros [|k]; simpl; auto. rewrite andb_true_iff. intros [? ?]. auto. Qed.

Lemma vspec_json_knd v : vspec_knd v = true -> knd (vspec_json H v) = true.
Proof.
  destruct v as [lo hi st sc ep|vals|k]; try reflexivity. intros K. simpl in K.
  cbn -[firstn skipn lastn]. rewrite (firstn_forallb _ 3 _ K). unfold lastn. rewrite (skipn_forallb _ _ _ K). reflexivity.
Qed.

Lemma knd_jstrs l : knd (jstrs l) = true.
Proof. unfold jstrs. simpl. induction l; simpl; auto. Qed.

Lemma knd_pe l : nodupb (map fst l) = true -> knd (JObj (map pe_member l)) = true.
Proof.
  intros N. rewrite knd_obj.
  assert (E : map fst (map pe_member l) = map fst l) by (clear N; induction l as [|a r IHl]; simpl; [reflexivity|rewrite IHl; reflexivity]).
  rewrite E, N. rewrite andb_true_l. apply forallb_forall. intros x Hx. apply in_map_iff in Hx as [y [<- _]]. reflexivity.
Qed.

Lemma knd_vars l : nodupb (map fst l) = true -> forallb (fun kv => vspec_knd (snd kv)) l = true ->
  knd (JObj (map var_member l)) = true.
Proof.
  intros N F. rewrite knd_obj.
  assert (E : map fst (map var_member l) = map fst l) by (clear N F; induction l as [|a r IHl]; simpl; [reflexivity|rewrite IHl; reflexivity]).
  rewrite E, N. rewrite andb_true_l. apply forallb_forall. intros x Hx. apply in_map_iff in Hx as [y [<- Hy]].
  simpl. apply vspec_json_knd. rewrite forallb_forall in F. apply (F _ Hy).
Qed.

Lemma sweep_meta_knd n s : sweep_wf strict s = true -> knd (sweep_meta H n s) = true.
Proof.
  intros W. unfold sweep_wf in W. repeat (apply andb_true_iff in W as [W ?]).
  unfold sweep_meta. rewrite knd_obj. apply andb_true_iff. split; [reflexivity|].
  assert (A1 := knd_pe _ H4). assert (A2 := knd_vars _ H3 H1).
  unfold pe_member, var_member in A1, A2.
  cbn [forallb mknd]. rewrite A1, A2.
  destruct (sw_collection s); cbn -[jstrs]; rewrite !knd_jstrs; reflexivity.
Qed.


Lemma node_sem_equiv n n' : node_wf strict n = true -> node_equiv n n' -> node_sem_id H n = node_sem_id H n'.
Proof.
  intros W (Hp & _ & Hi & _ & Hs). unfold node_sem_id.
  unfold node_wf in W. apply andb_true_iff in W as [_ W].
  destruct (n_sweep n) as [s|], (n_sweep n') as [s'|]; try contradiction; auto.
  f_equal. unfold node_sem_pre. f_equal. apply dumps_perm_invariant.
  - apply knd_strip_block. apply sweep_meta_knd; auto.
  - apply jeq_strip_block. apply sweep_meta_equiv; auto.
Qed.

Lemma node_sems_equiv c c' : cfg_wf strict c = true -> cfg_equiv c c' -> node_sems H c = node_sems H c'.
Proof.
  intros W E. induction E as [|n n' c c' En Ec IH]; simpl; auto.
  simpl in W. apply andb_true_iff in W as [Wn Wc]. unfold node_sems in *. simpl.
  rewrite (node_sem_equiv n n' Wn En). f_equal. auto.
Qed.

Lemma sweep_presence n n' : node_equiv n n' ->
  (match n_sweep n with Some _ => true | None => false end) = (match n_sweep n' with Some _ => true | None => false end).
Proof. intros (_ & _ & _ & _ & Hs). destruct (n_sweep n), (n_sweep n'); try contradiction; auto. Qed.

Lemma sem_entries_equiv : forall c c' k, cfg_wf strict c = true -> cfg_equiv c c' ->
  sem_entries U5 H k c = sem_entries U5 H k c'.
Proof.
  intros c c' k W E. revert k W. induction E as [|n n' c c' En Ec IH]; intros k W; simpl; auto.
  simpl in W. apply andb_true_iff in W as [Wn Wc].
  rewrite (IH (S k) Wc). f_equal. unfold sem_entry, node_uuid.
  rewrite (node_json_equiv k n n' Wn En), (node_sem_equiv n n' Wn En).
  pose proof (sweep_presence n n' En) as P.
  destruct (n_sweep n), (n_sweep n'); try discriminate P; reflexivity.
Qed.

(* canonical spec: node objects are equal up to member order *)
Lemma spec_nodes_equiv enr : forall c c' k, cfg_wf strict c = true -> cfg_equiv c c' ->
  jeql (spec_nodes U5 H enr k c) (spec_nodes U5 H enr k c') /\
  forallb knd (spec_nodes U5 H enr k c) = true.
Proof.
  intros c c' k W E. revert k W. induction E as [|n n' c c' En Ec IH]; intros k W; cbn [spec_nodes].
  - split; [constructor|reflexivity].
  - simpl in W. apply andb_true_iff in W as [Wn Wc]. destruct (IH (S k) Wc) as [I1 I2].
    pose proof Wn as Wn'. unfold node_wf in Wn'. apply andb_true_iff in Wn' as [Kp Ks].
    pose proof En as (Hp & Hj & Hi & Hc & Hs).
    unfold node_uuid. rewrite (node_json_equiv k n n' Wn En).
    set (u := ("node_uuid", JStr (U5 (node_json k n')))).
    assert (FK : forallb mknd (map (fun f => (f, canon_field k n f)) canon_fields) = true).
    { apply forallb_forall. intros x Hx. apply in_map_iff in Hx as [f [<- _]]. apply canon_field_knd; auto. }
    assert (FJ : jeqm (map (fun f => (f, canon_field k n f)) canon_fields)
                      (map (fun f => (f, canon_field k n' f)) canon_fields)).
    { apply jeqm_map. apply Forall_forall. intros f _. simpl. split; auto. apply canon_field_equiv; auto. }
    assert (ND : NoDup (canon_fields ++ ["node_uuid"; "preprocessor_metadata"])) by (apply nodupb_NoDup; exact Hfields).
    destruct (n_sweep n) as [s|] eqn:Es, (n_sweep n') as [s'|] eqn:Es'; try contradiction.
    + split.
      * constructor; auto. eapply jeq_obj; [apply Permutation_refl|].
        apply jeqm_app; auto. destruct enr; repeat constructor; try apply jeq_refl.
        apply sweep_meta_equiv; auto.
      * cbn [forallb]. rewrite I2, andb_true_r. rewrite knd_obj. rewrite forallb_app, FK. rewrite map_app, map_fst_pair.
        destruct enr; simpl map.
        -- rewrite Hfields. unfold u. cbn [app forallb mknd knd andb]. rewrite sweep_meta_knd; auto.
        -- apply andb_true_iff. split; [|reflexivity]. apply nodupb_NoDup.
           eapply nodup_drop_last. exact ND.
    + split.
      * constructor; auto. eapply jeq_obj; [apply Permutation_refl|].
        apply jeqm_app; auto. repeat constructor; try apply jeq_refl.
      * cbn [forallb]. rewrite I2, andb_true_r. rewrite knd_obj. rewrite forallb_app, FK. rewrite map_app, map_fst_pair.
        simpl map. apply andb_true_iff. split; [|reflexivity]. apply nodupb_NoDup.
        eapply nodup_drop_last. exact ND.
Qed.

Lemma knd_edges us : forallb knd (edges us) = true.
Proof.
  induction us as [|a r IH]; simpl; auto. destruct r as [|b r]; simpl; auto.
Qed.

Lemma pipeline_pre_equiv enr c c' : cfg_wf strict c = true -> cfg_equiv c c' ->
  pipeline_pre U5 H enr c = pipeline_pre U5 H enr c'.
Proof.
  intros W E. unfold pipeline_pre. destruct (spec_nodes_equiv enr c c' 0 W E) as [J K].
  apply dumps_perm_invariant.
  - unfold spec_json. rewrite knd_obj. apply andb_true_iff. split; [reflexivity|].
    cbn [forallb mknd knd]. rewrite K, knd_edges. reflexivity.
  - unfold spec_json, uuids. rewrite (uuids_equiv c c' 0 W E).
    eapply jeq_obj; [apply Permutation_refl|].
    constructor; [apply jeq_refl|]. constructor; [constructor; exact J|].
    constructor; [apply jeq_refl|]. constructor.
Qed.

Theorem ids_invariant_main c c' : cfg_wf strict c = true -> cfg_equiv c c' ->
  uuids U5 c = uuids U5 c' /\ node_sems H c = node_sems H c' /\
  (forall enr, pipeline_id U5 H enr c = pipeline_id U5 H enr c') /\
  semantic_id U5 H c = semantic_id U5 H c' /\ config_id U5 H c = config_id U5 H c'.
Proof.
  intros W E.
  pose proof (uuids_equiv c c' 0 W E) as Eu. pose proof (node_sems_equiv c c' W E) as Es.
  repeat split; auto.
  - intros enr. unfold pipeline_id. rewrite (pipeline_pre_equiv enr c c' W E). reflexivity.
  - unfold semantic_id, semantic_pre, semantic_struct. rewrite (sem_entries_equiv c c' 0 W E). reflexivity.
  - unfold config_id, config_pre, config_struct, pairs, uuids. rewrite Eu, Es. reflexivity.
Qed.

(* --- the sorted required-key list *)
Lemma filter_perm {A} (p p' : A -> bool) l l' : (forall x, p x = p' x) -> Permutation l l' ->
  Permutation (filter p l) (filter p' l').
Proof.
  intros Ep P. rewrite (filter_ext p p' Ep). induction P; simpl; auto.
  - destruct (p' x); auto.
  - destruct (p' x), (p' y); auto. apply perm_swap.
  - eapply perm_trans; eauto.
Qed.

Lemma dedup_in x l : In x (dedup l) <-> In x l.
Proof.
  induction l as [|a r IH]; simpl; [tauto|].
  destruct (mem_str a r) eqn:E; simpl; rewrite IH.
  - apply mem_str_In in E. split; auto. intros [->|]; auto.
  - tauto.
Qed.

Lemma dedup_nodup l : NoDup (dedup l).
Proof.
  induction l as [|a r IH]; simpl; [constructor|].
  destruct (mem_str a r) eqn:E; auto. constructor; auto.
  rewrite dedup_in. intro Hin. apply mem_str_In in Hin. congruence.
Qed.

Lemma dedup_perm l l' : Permutation l l' -> Permutation (dedup l) (dedup l').
Proof.
  intros P. apply NoDup_Permutation; try apply dedup_nodup.
  intros x. rewrite !dedup_in. split; apply Permutation_in; auto. apply Permutation_sym; auto.
Qed.

Lemma flat_map_perm2 {A B} (f : A -> list B) l l' :
  Forall2 (fun a b => Permutation (f a) (f b)) l l' -> Permutation (flat_map f l) (flat_map f l').
Proof. induction 1; simpl; auto. apply Permutation_app; auto. Qed.

Lemma node_required_perm n n' : node_equiv n n' -> Permutation (node_required n) (node_required n').
Proof.
  intros (Hp & Hj & Hi & _ & Hs). unfold node_required.
  assert (F : forall p, negb (mem_str p (map fst (n_params n))) = negb (mem_str p (map fst (n_params n')))).
  { intros p. f_equal. apply jeq_obj_keys. exact Hj. }
  destruct (n_sweep n) as [s|], (n_sweep n') as [s'|]; try contradiction.
  - destruct Hs as (Ee & Pv & _). apply Permutation_app.
    + apply raw_ctx_perm. exact Pv.
    + rewrite (req_external_equiv n n' s s' Hi Ee). rewrite (filter_ext _ _ F). apply Permutation_refl.
  - rewrite Hi. rewrite (filter_ext _ _ F). apply Permutation_refl.
Qed.

Lemma node_created_perm n n' : node_equiv n n' -> Permutation (node_created n) (node_created n').
Proof.
  intros (Hp & Hj & Hi & Hc & Hs). unfold node_created. rewrite Hc, Hi.
  apply Permutation_app; [apply Permutation_refl|]. apply Permutation_app; [|apply Permutation_refl].
  destruct (n_sweep n) as [s|], (n_sweep n') as [s'|]; try contradiction; auto.
  destruct Hs as (_ & Pv & _). apply Permutation_map. exact Pv.
Qed.

Lemma required_global_perm c c' : cfg_equiv c c' -> Permutation (required_global c) (required_global c').
Proof.
  intros E. unfold required_global. apply filter_perm.
  - intros x. f_equal. apply mem_str_perm. apply flat_map_perm2.
    eapply Forall2_imp; [|exact E]. intros a b. apply node_created_perm.
  - apply flat_map_perm2. eapply Forall2_imp; [|exact E]. intros a b. apply node_required_perm.
Qed.

Lemma mem_str_app x a b : mem_str x (a ++ b) = mem_str x a || mem_str x b.
Proof. induction a as [|y a IH]; simpl; auto. rewrite IH, orb_assoc. reflexivity. Qed.

Lemma mem_str_filter (p : string -> bool) y l : mem_str y (filter p l) = mem_str y l && p y.
Proof.
  induction l as [|x r IH]; simpl; auto.
  destruct (String.eqb y x) eqn:E.
  - apply String.eqb_eq in E. subst x. destruct (p y) eqn:Py; simpl.
    + rewrite String.eqb_refl. reflexivity.
    + rewrite IH. rewrite ?Py. rewrite ?andb_false_r. reflexivity.
  - destruct (p x); simpl; [rewrite E|]; simpl; exact IH.
Qed.

Definition st_equiv (a b : list string * list string * list string) : Prop :=
  match a, b with
  | (o, d, r), (o', d', r') =>
      (forall x, mem_str x o = mem_str x o') /\ (forall x, mem_str x d = mem_str x d') /\ Permutation r r'
  end.

Lemma req_step_equiv a b n n' : st_equiv a b -> node_equiv n n' -> st_equiv (req_step a n) (req_step b n').
Proof.
  destruct a as [[o d] r], b as [[o' d'] r']. intros (Ho & Hd & Hr) E.
  pose proof (node_required_perm n n' E) as Pr. pose proof (node_created_perm n n' E) as Pc.
  destruct E as (_ & _ & Hi & _). unfold req_step, st_equiv. repeat split.
  - intros x. rewrite !mem_str_app, Ho, (mem_str_perm x _ _ Pc). reflexivity.
  - intros x. rewrite !mem_str_app, !mem_str_filter, Hd, Hi, (mem_str_perm x _ _ Pc). reflexivity.
  - apply Permutation_app; auto. apply filter_perm; auto.
    intros x. rewrite Ho, Hd. reflexivity.
Qed.

Lemma required_ordered_perm c c' : cfg_equiv c c' -> Permutation (required_ordered c) (required_ordered c').
Proof.
  intros E. unfold required_ordered.
  assert (G : forall a b, st_equiv a b -> st_equiv (fold_left req_step c a) (fold_left req_step c' b)).
  { induction E as [|n n' c c' En Ec IH]; intros a b Hab; simpl; auto.
    apply IH. apply req_step_equiv; auto. }
  specialize (G ([], [], []) ([], [], [])).
  destruct (fold_left req_step c ([], [], [])) as [[o d] r], (fold_left req_step c' ([], [], [])) as [[o' d'] r'].
  apply G. repeat split; auto.
Qed.

Theorem required_invariant c c' : cfg_equiv c c' -> required_keys c = required_keys c'.
Proof.
  intros E. unfold required_keys. apply ksort_canonical; [unfold sid; auto|].
  apply dedup_perm. destruct required_in_node_order.
  - apply required_ordered_perm; auto.
  - apply required_global_perm; auto.
Qed.

Theorem ids_invariant c c' : cfg_wf strict c = true -> cfg_equiv c c' -> spec_ids U5 H c = spec_ids U5 H c'.
Proof.
  intros W E. destruct (ids_invariant_main c c' W E) as (E1 & E2 & E3 & E4 & E5).
  unfold spec_ids. rewrite E1, E2, (E3 false), E4, E5, (required_invariant c c' E). reflexivity.
Qed.

End Inv.

(* ------------------------------------------------------------------ *)
(* purity: the implementation's identities after any history *)
Section Pure.
Variable U5 H : string -> string.

Lemma spec_nodes_nosweep enr : forall c k, has_sweep c = false ->
  spec_nodes U5 H enr k c = spec_nodes U5 H false k c.
Proof.
  induction c as [|n c IH]; intros k Hs; simpl; auto.
  unfold has_sweep in Hs. simpl in Hs. apply orb_false_iff in Hs as [Hn Hc].
  rewrite (IH (S k) Hc). destruct (n_sweep n); [discriminate|reflexivity].
Qed.

Theorem ids_of_nosweep enr c : has_sweep c = false -> ids_of U5 H enr c = spec_ids U5 H c.
Proof.
  intros Hs. unfold ids_of, spec_ids, pipeline_id, pipeline_pre, spec_json.
  rewrite (spec_nodes_nosweep enr c 0 Hs). reflexivity.
Qed.

Lemma step_clean : enrich_on_copy = true -> forall hist st,
  Forall (fun p => snd p = false) st -> Forall (fun p => snd p = false) (fold_left step hist st).
Proof.
  intros Hc. induction hist as [|e hist IH]; intros st F; simpl; auto.
  apply IH. destruct e as [c|i tr|c]; unfold step; auto.
  - apply Forall_app. split; auto.
  - rewrite Hc. cbn [negb]. rewrite andb_false_r. exact F.
Qed.

Theorem ids_pure : enrich_on_copy = true -> forall hist i c enr,
  nth_error (run_hist hist) i = Some (c, enr) -> impl_run_ids U5 H hist i = Some (spec_ids U5 H c).
Proof.
  intros Hc hist i c enr Hn. unfold impl_run_ids. rewrite Hn.
  pose proof (step_clean Hc hist [] (Forall_nil _)) as F. rewrite Forall_forall in F.
  specialize (F (c, enr) (nth_error_In _ _ Hn)). simpl in F. subst enr. reflexivity.
Qed.

Theorem ids_pure_partial : forall hist i c enr, has_sweep c = false ->
  nth_error (run_hist hist) i = Some (c, enr) -> impl_run_ids U5 H hist i = Some (spec_ids U5 H c).
Proof.
  intros hist i c enr Hs Hn. unfold impl_run_ids. rewrite Hn. rewrite ids_of_nosweep; auto.
Qed.

Theorem inspect_pure : forall hist c, impl_inspect_ids U5 H hist c = spec_ids U5 H c.
Proof. reflexivity. Qed.
End Pure.

(* ------------------------------------------------------------------ *)
(* Part 2 (C05): discrimination *)
Lemma obj_member m1 m2 k v : canon (JObj m1) = canon (JObj m2) -> In (k, v) m1 ->
  exists v', In (k, v') m2 /\ canon v = canon v'.
Proof.
  intros E Hin. rewrite !canon_obj in E. injection E as E.
  assert (I1 : In (k, canon v) (ksort fst (map cm m1))).
  { eapply Permutation_in; [apply ksort_perm|]. apply (in_map cm _ (k, v)). exact Hin. }
  rewrite E in I1.
  apply (Permutation_in _ (Permutation_sym (ksort_perm _ fst (map cm m2)))) in I1.
  apply in_map_iff in I1 as [[k' v'] [Ec I2]]. simpl in Ec. injection Ec as -> Ev.
  exists v'. split; auto.
Qed.

Lemma print_N_numlit n : numlit_ok (print_N n) = true.
Proof.
  pose proof (print_N_digits n) as D. unfold numlit_ok.
  destruct (print_N n) as [|c s] eqn:E.
  - exfalso. assert (print_N n = print_N n) by reflexivity.
    unfold print_N in E. destruct n; simpl in E; [discriminate|].
    unfold NilZero.string_of_uint in E. destruct (Pos.to_uint p) eqn:Ep; simpl in E; discriminate.
  - simpl in D. apply andb_true_iff in D as [Dc Ds]. apply andb_true_iff. split.
    + unfold num_first. rewrite Dc. reflexivity.
    + simpl. apply andb_true_iff. split.
      * unfold num_char. rewrite Dc. reflexivity.
      * eapply str_forall_impl; [|exact Ds]. intros x Hx. unfold num_char. rewrite Hx. reflexivity.
Qed.

Lemma jnat_inj i j : jnat i = jnat j -> i = j.
Proof. unfold jnat. intros E. injection E as E. apply print_N_inj in E. lia. Qed.

Definition node_ok (n : node) : bool := jok (JObj (n_params n)) && str_ok (processor_ref n).

Section Disc.
Variable U5 H : string -> string.
Hypothesis U5_ok : forall s, str_ok (U5 s) = true.
Hypothesis H_ok : forall s, str_ok (H s) = true.
Hypothesis Hcf : canon_fields = ["role"; "processor_ref"; "params"; "ports"; "declaration_index"; "declaration_subindex"].
Hypothesis Hsf : pipeline_sem_fields = ["name"; "node_uuid"; "payload_from"].

Lemma canon_node_jok i n : node_ok n = true -> jok (canon_node i n) = true.
Proof.
  intros W. unfold node_ok in W. apply andb_true_iff in W as [Wp Wr].
  unfold canon_node. rewrite Hcf. cbn [map canon_field String.eqb Ascii.eqb Bool.eqb].
  rewrite jok_obj. apply andb_true_iff. split; [reflexivity|].
  cbn [forallb mok]. cbn [jok] in *. rewrite Wr, Wp. unfold jnat. cbn [jok]. rewrite print_N_numlit. reflexivity.
Qed.

(* what a node uuid determines *)
Lemma node_json_inj i j n m : node_ok n = true -> node_ok m = true -> node_json i n = node_json j m ->
  i = j /\ processor_ref n = processor_ref m /\ canon (JObj (n_params n)) = canon (JObj (n_params m)).
Proof.
  intros Wn Wm E. unfold node_json in E.
  apply dumps_sorted_inj in E; try apply canon_node_jok; auto.
  unfold canon_node in E. rewrite Hcf in E. cbn [map] in E.
  assert (Fi : In "declaration_index" canon_fields) by (rewrite Hcf; simpl; auto 10).
  destruct (obj_member _ _ "declaration_index" _ E ltac:(simpl; auto 10)) as [v1 [I1 C1]].
  destruct (obj_member _ _ "processor_ref" _ E ltac:(simpl; auto 10)) as [v2 [I2 C2]].
  destruct (obj_member _ _ "params" _ E ltac:(simpl; auto 10)) as [v3 [I3 C3]].
  simpl in I1, I2, I3.
  repeat (destruct I1 as [I1|I1]; [try discriminate I1|]); try contradiction.
  repeat (destruct I2 as [I2|I2]; [try discriminate I2|]); try contradiction.
  repeat (destruct I3 as [I3|I3]; [try discriminate I3|]); try contradiction.
  injection I1 as <-. injection I2 as <-. injection I3 as <-.
  cbn [canon_field String.eqb Ascii.eqb Bool.eqb] in C1, C2, C3.
  split; [|split].
  - simpl in C1. apply jnat_inj. exact C1.
  - simpl in C2. injection C2; auto.
  - exact C3.
Qed.

(* within one pipeline all node uuids have distinct preimages, even for identical nodes *)
Theorem node_uuid_distinct_in_pipeline i j n m : node_ok n = true -> node_ok m = true -> i <> j ->
  node_json i n <> node_json j m.
Proof. intros Wn Wm Hij E. apply Hij. apply (node_json_inj i j n m Wn Wm E). Qed.

Definition node_fields (n : node) : string * json := (processor_ref n, canon (JObj (n_params n))).
Definition sem_fields (c : config) : list (string * json) := map node_fields c.

Lemma hash_eq (f : string -> string) a b : f a = f b -> a = b \/ Collision f.
Proof. intros E. destruct (string_dec a b); auto. right. exists a, b. auto. Qed.

Lemma uuids_fields : forall c1 c2 k, forallb node_ok c1 = true -> forallb node_ok c2 = true ->
  uuids_from U5 k c1 = uuids_from U5 k c2 -> sem_fields c1 = sem_fields c2 \/ Collision U5.
Proof.
  induction c1 as [|n c1 IH]; intros [|m c2] k W1 W2 E; simpl in *; try discriminate; auto.
  apply andb_true_iff in W1 as [Wn W1]. apply andb_true_iff in W2 as [Wm W2].
  injection E as Eu Er. unfold node_uuid in Eu.
  destruct (hash_eq U5 _ _ Eu) as [Ej|C]; auto.
  destruct (IH c2 (S k) W1 W2 Er) as [Ef|C]; auto.
  left. f_equal; auto. destruct (node_json_inj k k n m Wn Wm Ej) as (_ & E1 & E2).
  unfold node_fields. rewrite E1, E2. reflexivity.
Qed.

(* the pipeline semantic id determines the list of node uuids *)
Lemma sem_entry_jok u n : str_ok u = true -> jok (sem_entry H u n) = true.
Proof.
  intros Wu. unfold sem_entry. rewrite Hsf. cbn [map String.eqb Ascii.eqb Bool.eqb].
  destruct (n_sweep n); [destruct sem_includes_sweep|]; rewrite jok_obj; (apply andb_true_iff; split; [reflexivity|]);
    cbn [app forallb mok jok]; rewrite Wu; unfold node_sem_id; try rewrite H_ok; try reflexivity.
  destruct (n_sweep n); try rewrite H_ok; reflexivity.
Qed.

Lemma sem_entry_uuid u u' n n' : canon (sem_entry H u n) = canon (sem_entry H u' n') -> u = u'.
Proof.
  intros E. unfold sem_entry in E. rewrite Hsf in E. cbn [map String.eqb Ascii.eqb Bool.eqb] in E.
  destruct (obj_member _ _ "node_uuid" (JStr u) E ltac:(simpl; auto)) as [v [I C]].
  simpl in C. cbn [app In] in I.
  destruct I as [I|[I|[I|I]]]; try discriminate I.
  - injection I as <-. injection C; auto.
  - destruct (n_sweep n'); [destruct sem_includes_sweep|]; simpl in I; try contradiction.
    destruct I as [I|[]]. discriminate I.
Qed.

Lemma sem_entries_uuids : forall c1 c2 k,
  map canon (sem_entries U5 H k c1) = map canon (sem_entries U5 H k c2) ->
  uuids_from U5 k c1 = uuids_from U5 k c2.
Proof.
  induction c1 as [|n c1 IH]; intros [|m c2] k E; cbn [sem_entries map uuids_from] in *; try discriminate; auto.
  assert (E1 := f_equal (@hd json JNull) E). assert (E2 := f_equal (@tl json) E).
  cbn [hd tl] in E1, E2. f_equal.
  - eapply sem_entry_uuid. exact E1.
  - apply IH. exact E2.
Qed.

Lemma sem_entries_jok : forall c k, forallb jok (sem_entries U5 H k c) = true.
Proof.
  induction c as [|n c IH]; intros k; cbn [sem_entries forallb]; auto.
  rewrite sem_entry_jok; [|apply U5_ok]. rewrite IH. reflexivity.
Qed.

Theorem semantic_id_uuids c1 c2 : semantic_id U5 H c1 = semantic_id U5 H c2 ->
  uuids U5 c1 = uuids U5 c2 \/ Collision H.
Proof.
  unfold semantic_id. intros E. apply append_inj_l in E.
  destruct (hash_eq H _ _ E) as [Ep|C]; auto. left.
  unfold semantic_pre in Ep. apply prefixed_dumps_inj in Ep.
  - unfold semantic_struct in Ep. simpl in Ep. injection Ep as Ep. apply sem_entries_uuids. exact Ep.
  - unfold semantic_struct. simpl. rewrite sem_entries_jok. reflexivity.
  - unfold semantic_struct. simpl. rewrite sem_entries_jok. reflexivity.
Qed.

Theorem semantic_id_discriminates c1 c2 : forallb node_ok c1 = true -> forallb node_ok c2 = true ->
  semantic_id U5 H c1 = semantic_id U5 H c2 ->
  sem_fields c1 = sem_fields c2 \/ Collision U5 \/ Collision H.
Proof.
  intros W1 W2 E. destruct (semantic_id_uuids c1 c2 E) as [Eu|C]; auto.
  destruct (uuids_fields c1 c2 0 W1 W2 Eu); auto.
Qed.

(* node semantic id: determines the sanitized sweep block *)
Definition sweep_block (n : node) : option json :=
  match n_sweep n with Some s => Some (canon (strip_block (sweep_meta H n s))) | None => None end.

Theorem node_sem_discriminates n m s s' : n_sweep n = Some s -> n_sweep m = Some s' ->
  jok (strip_block (sweep_meta H n s)) = true -> jok (strip_block (sweep_meta H m s')) = true ->
  node_sem_id H n = node_sem_id H m -> sweep_block n = sweep_block m \/ Collision H.
Proof.
  intros En Em Jn Jm E. unfold node_sem_id, sweep_block in *. rewrite En, Em in *.
  destruct (hash_eq H _ _ E) as [Ep|C]; auto. left. f_equal.
  unfold node_sem_pre in Ep. apply prefixed_dumps_inj in Ep; auto.
Qed.

(* config id: determines the uuid-sorted list of (uuid, node semantic id) pairs *)
Lemma pair_json_inj l1 l2 : map canon (map pair_json l1) = map canon (map pair_json l2) -> l1 = l2.
Proof.
  revert l2. induction l1 as [|[a b] l1 IH]; intros [|[a' b'] l2] E; simpl in *; try discriminate; auto.
  injection E as -> -> E. f_equal. auto.
Qed.

Theorem config_id_pairs c1 c2 : config_id U5 H c1 = config_id U5 H c2 ->
  ksort fst (pairs U5 H c1) = ksort fst (pairs U5 H c2) \/ Collision H.
Proof.
  unfold config_id. intros E. apply append_inj_l in E.
  destruct (hash_eq H _ _ E) as [Ep|C]; auto. left.
  unfold config_pre in Ep.
  assert (J : forall c, jok (config_struct U5 H c) = true).
  { intros c. unfold config_struct. simpl. apply forallb_forall. intros x Hx.
    apply in_map_iff in Hx as [[u s] [<- Hin]]. simpl.
    assert (Hp : In (u, s) (pairs U5 H c)) by (eapply Permutation_in; [apply Permutation_sym, ksort_perm|exact Hin]).
    unfold pairs in Hp. pose proof (in_combine_l _ _ _ _ Hp) as Hu. pose proof (in_combine_r _ _ _ _ Hp) as Hs.
    assert (Su : str_ok u = true).
    { clear -Hu U5_ok. unfold uuids in Hu. generalize dependent 0%nat. induction c as [|n c IH]; simpl; intros k Hu; [contradiction|].
      destruct Hu as [<-|Hu]; [apply U5_ok|eauto]. }
    assert (Ss : str_ok s = true).
    { unfold node_sems in Hs. apply in_map_iff in Hs as [n [<- _]]. unfold node_sem_id.
      destruct (n_sweep n); [apply H_ok|reflexivity]. }
    rewrite Su, Ss. reflexivity. }
  apply dumps_sorted_inj in Ep; auto.
  unfold config_struct in Ep. simpl in Ep. injection Ep as Ep. apply pair_json_inj. exact Ep.
Qed.

End Disc.

(* what the sanitized sweep block determines, field by field *)
Section Block.
Variable H : string -> string.
Hypothesis Hui : ui_only_keys = ["preprocessor_view"].
Hypothesis Hdk : node_sem_dropped_key = "expr".

Definition pe_json (s : sweep) : json :=
  JObj (map (fun ke => (fst ke, JObj [("sig", expr_sig_json (snd ke))])) (sw_exprs s)).
Definition vars_json (s : sweep) : json :=
  JObj (map (fun kv => (fst kv, vspec_json H (snd kv))) (sw_vars s)).

(* the parts of the block that carry the swept expressions and the variable domains, as the code sanitises them *)
Definition pe_part (s : sweep) : json :=
  if node_sem_strip_scoped then strip_entries (pe_json s) else strip (pe_json s).
Definition vars_part (s : sweep) : json :=
  if node_sem_strip_scoped then vars_json s else strip (vars_json s).

Theorem sweep_block_fields n m s s' : n_sweep n = Some s -> n_sweep m = Some s' ->
  sweep_block H n = sweep_block H m ->
  pi_fqcn (n_info n) = pi_fqcn (n_info m) /\ sw_mode s = sw_mode s' /\ sw_broadcast s = sw_broadcast s' /\
  sw_collection s = sw_collection s' /\
  canon (pe_part s) = canon (pe_part s') /\
  canon (vars_part s) = canon (vars_part s').
Proof.
  intros En Em E. unfold sweep_block in E. rewrite En, Em in E.
  apply (f_equal (fun o => match o with Some x => x | None => JNull end)) in E. cbv beta iota in E.
  unfold pe_part, vars_part. unfold strip_block in E. destruct node_sem_strip_scoped.
  { (* the repaired shape: top-level filter, raw source dropped inside the param_expressions entries only *)
  unfold sweep_meta, strip_scoped, strip_top, kfilter in E. rewrite Hui in E.
  cbn [filter fst snd mem_str String.eqb Ascii.eqb Bool.eqb orb negb] in E.
  unfold kmap at 1 2 in E.
  cbn [map fst snd String.eqb Ascii.eqb Bool.eqb] in E.
  fold (pe_json s) (pe_json s') (vars_json s) (vars_json s') in E.
  destruct (obj_member _ _ "element_ref" _ E ltac:(simpl; auto 12)) as [v1 [I1 C1]].
  destruct (obj_member _ _ "mode" _ E ltac:(simpl; auto 12)) as [v2 [I2 C2]].
  destruct (obj_member _ _ "broadcast" _ E ltac:(simpl; auto 12)) as [v3 [I3 C3]].
  destruct (obj_member _ _ "collection" _ E ltac:(simpl; auto 12)) as [v4 [I4 C4]].
  destruct (obj_member _ _ "param_expressions" _ E ltac:(simpl; auto 12)) as [v5 [I5 C5]].
  destruct (obj_member _ _ "variables" _ E ltac:(simpl; auto 12)) as [v6 [I6 C6]].
  cbn [In] in I1, I2, I3, I4, I5, I6.
  repeat (destruct I1 as [I1|I1]; [try discriminate I1|]); try contradiction.
  repeat (destruct I2 as [I2|I2]; [try discriminate I2|]); try contradiction.
  repeat (destruct I3 as [I3|I3]; [try discriminate I3|]); try contradiction.
  repeat (destruct I4 as [I4|I4]; [try discriminate I4|]); try contradiction.
  repeat (destruct I5 as [I5|I5]; [try discriminate I5|]); try contradiction.
  repeat (destruct I6 as [I6|I6]; [try discriminate I6|]); try contradiction.
  injection I1 as <-. injection I2 as <-. injection I3 as <-. injection I4 as <-. injection I5 as <-. injection I6 as <-.
  repeat split.
  - simpl in C1. injection C1; auto.
  - simpl in C2. injection C2; auto.
  - simpl in C3. injection C3; auto.
  - destruct (sw_collection s), (sw_collection s'); simpl in C4; try discriminate C4; auto. injection C4 as ->. reflexivity.
  - exact C5.
  - exact C6.
  }
  unfold sweep_meta in E. rewrite !strip_obj in E.
  unfold strip_m, dropped in E. rewrite Hui, Hdk in E.
  cbn [mem_str String.eqb Ascii.eqb Bool.eqb orb] in E.
  fold (pe_json s) (pe_json s') (vars_json s) (vars_json s') in E.
  destruct (obj_member _ _ "element_ref" _ E ltac:(simpl; auto 12)) as [v1 [I1 C1]].
  destruct (obj_member _ _ "mode" _ E ltac:(simpl; auto 12)) as [v2 [I2 C2]].
  destruct (obj_member _ _ "broadcast" _ E ltac:(simpl; auto 12)) as [v3 [I3 C3]].
  destruct (obj_member _ _ "collection" _ E ltac:(simpl; auto 12)) as [v4 [I4 C4]].
  destruct (obj_member _ _ "param_expressions" _ E ltac:(simpl; auto 12)) as [v5 [I5 C5]].
  destruct (obj_member _ _ "variables" _ E ltac:(simpl; auto 12)) as [v6 [I6 C6]].
  cbn [In] in I1, I2, I3, I4, I5, I6.
  repeat (destruct I1 as [I1|I1]; [try discriminate I1|]); try contradiction.
  repeat (destruct I2 as [I2|I2]; [try discriminate I2|]); try contradiction.
  repeat (destruct I3 as [I3|I3]; [try discriminate I3|]); try contradiction.
  repeat (destruct I4 as [I4|I4]; [try discriminate I4|]); try contradiction.
  repeat (destruct I5 as [I5|I5]; [try discriminate I5|]); try contradiction.
  repeat (destruct I6 as [I6|I6]; [try discriminate I6|]); try contradiction.
  injection I1 as <-. injection I2 as <-. injection I3 as <-. injection I4 as <-. injection I5 as <-. injection I6 as <-.
  repeat split.
  - simpl in C1. injection C1; auto.
  - simpl in C2. injection C2; auto.
  - simpl in C3. injection C3; auto.
  - destruct (sw_collection s), (sw_collection s'); simpl in C4; try discriminate C4; auto. injection C4 as ->. reflexivity.
  - exact C5.
  - exact C6.
Qed.
End Block.

(* the variant of the code in which the semantic id folds the node semantic id of sweep nodes in *)
Section DiscSweep.
Variable U5 H : string -> string.
Hypothesis Hsf : pipeline_sem_fields = ["name"; "node_uuid"; "payload_from"].
Hypothesis Hs : sem_includes_sweep = true.

Lemma sem_entry_nodesem u u' n n' : canon (sem_entry H u n) = canon (sem_entry H u' n') ->
  node_sem_id H n = node_sem_id H n'.
Proof.
  intros E. unfold sem_entry in E. rewrite Hsf, Hs in E. cbn [map String.eqb Ascii.eqb Bool.eqb] in E.
  unfold node_sem_id in *.
  destruct (n_sweep n) as [s|] eqn:En, (n_sweep n') as [s'|] eqn:En'; auto.
  - destruct (obj_member _ _ "node_semantic_id" _ E ltac:(cbn [app In]; auto 6)) as [v [I C]].
    cbn [app In] in I. destruct I as [I|[I|[I|[I|[]]]]]; try discriminate I.
    injection I as <-. simpl in C. injection C; auto.
  - destruct (obj_member _ _ "node_semantic_id" _ E ltac:(cbn [app In]; auto 6)) as [v [I C]].
    cbn [app In] in I. destruct I as [I|[I|[I|[]]]]; discriminate I.
  - symmetry in E.
    destruct (obj_member _ _ "node_semantic_id" _ E ltac:(cbn [app In]; auto 6)) as [v [I C]].
    cbn [app In] in I. destruct I as [I|[I|[I|[]]]]; discriminate I.
Qed.

Lemma sem_entries_nodesems : forall c1 c2 k,
  map canon (sem_entries U5 H k c1) = map canon (sem_entries U5 H k c2) -> node_sems H c1 = node_sems H c2.
Proof.
  induction c1 as [|n c1 IH]; intros [|m c2] k E; cbn [sem_entries map node_sems] in *; try discriminate E; auto.
  assert (E1 := f_equal (@hd json JNull) E). assert (E2 := f_equal (@tl json) E).
  cbn [hd tl] in E1, E2. f_equal.
  - eapply sem_entry_nodesem. exact E1.
  - apply (IH c2 (S k)). exact E2.
Qed.
End DiscSweep.

Section DiscFull.
Variable U5 H : string -> string.
Hypothesis U5_ok : forall s, str_ok (U5 s) = true.
Hypothesis H_ok : forall s, str_ok (H s) = true.
Hypothesis Hsf : pipeline_sem_fields = ["name"; "node_uuid"; "payload_from"].
Hypothesis Hs : sem_includes_sweep = true.

Theorem semantic_id_full c1 c2 : semantic_id U5 H c1 = semantic_id U5 H c2 ->
  (uuids U5 c1 = uuids U5 c2 /\ node_sems H c1 = node_sems H c2) \/ Collision H.
Proof.
  unfold semantic_id. intros E. apply append_inj_l in E.
  destruct (hash_eq H _ _ E) as [Ep|C]; auto. left.
  unfold semantic_pre in Ep. apply prefixed_dumps_inj in Ep.
  - unfold semantic_struct in Ep. rewrite !canon_obj in Ep. cbn [map cm ksort fold_right kinsert canon] in Ep.
    assert (Ee : map canon (sem_entries U5 H 0 c1) = map canon (sem_entries U5 H 0 c2)) by congruence.
    split.
    + apply (sem_entries_uuids U5 H Hsf c1 c2 0 Ee).
    + apply (sem_entries_nodesems U5 H Hsf Hs c1 c2 0 Ee).
  - unfold semantic_struct. rewrite jok_obj. cbn [map fst nodupb mem_str negb andb forallb mok str_ok str_forall char_ok jok].
    rewrite (sem_entries_jok U5 H U5_ok H_ok Hsf). reflexivity.
  - unfold semantic_struct. rewrite jok_obj. cbn [map fst nodupb mem_str negb andb forallb mok str_ok str_forall char_ok jok].
    rewrite (sem_entries_jok U5 H U5_ok H_ok Hsf). reflexivity.
Qed.
End DiscFull.
