(* Proofs/Inspect.v — soundness of the static inspection with respect to the executor:
   for the order-sensitive variant, an accepted pipeline whose required keys are supplied never
   fails on parameter resolution; refutation witnesses for the other variants. *)
From Coq Require Import List String ZArith Bool Lia Arith.
From SV Require Import Common.Prelude Model.Pipeline Model.Inspect Proofs.Pipeline.
Import ListNotations.
Local Open Scope string_scope.

(* ---- string sets ------------------------------------------------------------------------------ *)
Lemma smem_app k a b : smem k (a ++ b) = smem k a || smem k b.
Proof. unfold smem. apply existsb_app. Qed.

Lemma smem_sadd k j l : smem k (sadd j l) = String.eqb k j || smem k l.
Proof.
  unfold sadd. destruct (smem j l) eqn:E.
  - destruct (String.eqb_spec k j) as [->|]; simpl; [exact E|reflexivity].
  - rewrite smem_app. simpl. rewrite orb_false_r, orb_comm. reflexivity.
Qed.

Lemma smem_sunion k : forall b a, smem k (sunion a b) = smem k a || smem k b.
Proof.
  unfold sunion. induction b as [|x tl IH]; intros a; simpl.
  - rewrite orb_false_r. reflexivity.
  - rewrite IH, smem_sadd. destruct (String.eqb k x), (smem k a), (smem k tl); reflexivity.
Qed.

Lemma smem_sremove k j l : smem k (sremove j l) = negb (String.eqb k j) && smem k l.
Proof.
  unfold sremove. induction l as [|x tl IH]; simpl.
  - rewrite andb_false_r. reflexivity.
  - destruct (String.eqb_spec x j) as [->|Hn]; simpl.
    + rewrite IH. destruct (String.eqb k j); simpl; auto.
    + rewrite IH. destruct (String.eqb_spec k x) as [->|]; simpl; auto.
      destruct (String.eqb_spec x j); [contradiction|]. reflexivity.
Qed.

Lemma smem_fold_sremove k : forall cr del,
  smem k (fold_left (fun d j => sremove j d) cr del) = negb (smem k cr) && smem k del.
Proof.
  induction cr as [|x tl IH]; intros del; simpl; auto.
  rewrite IH, smem_sremove. destruct (String.eqb k x), (smem k tl), (smem k del); reflexivity.
Qed.

Definition nhas (k : string) (m : list (string * nat)) : bool :=
  match nlookup k m with Some _ => true | None => false end.

Lemma nhas_nupdate k j v m : nhas k (nupdate j v m) = String.eqb k j || nhas k m.
Proof.
  unfold nhas. induction m as [|[k' v'] tl IH]; simpl.
  - destruct (String.eqb k j); reflexivity.
  - destruct (String.eqb_spec j k') as [->|Hn]; simpl.
    + destruct (String.eqb k k'); reflexivity.
    + destruct (String.eqb_spec k k') as [->|]; simpl.
      * rewrite orb_true_r. reflexivity.
      * exact IH.
Qed.

Lemma nhas_nsetdefault k j v m : nhas k (nsetdefault j v m) = String.eqb k j || nhas k m.
Proof.
  unfold nsetdefault. destruct (nlookup j m) eqn:E.
  - destruct (String.eqb_spec k j) as [->|]; simpl; auto. unfold nhas. rewrite E. reflexivity.
  - apply nhas_nupdate.
Qed.

Lemma nhas_fold (b : bool) (idx : nat) k : forall cr (m : list (string * nat)),
  nhas k (fold_left (fun (m : list (string * nat)) (j : string) => if b then nupdate j idx m else nsetdefault j idx m) cr m) = smem k cr || nhas k m.
Proof.
  induction cr as [|x tl IH]; intros m; simpl; auto.
  rewrite IH. destruct b; rewrite ?nhas_nupdate, ?nhas_nsetdefault;
    destruct (String.eqb k x), (smem k tl), (nhas k m); reflexivity.
Qed.

Lemma smem_created_of k n :
  smem k (created_of n) =
  smem k (pr_created (n_proc n)) ||
  match pr_kind (n_proc n), n_ckey n with KProbe, Some key => String.eqb k key | _, _ => false end.
Proof.
  unfold created_of. rewrite smem_sunion, smem_app.
  destruct (pr_kind (n_proc n)); destruct (n_ckey n); simpl; rewrite ?orb_false_r; reflexivity.
Qed.

(* ---- honesty of a node: what the soundness argument needs from processors ------------------------ *)
(* on success every declared created key is present afterwards *)
Definition honest (n : node) : Prop :=
  forall d c d' c', exec_node n (d, c) = Ok (d', c') ->
  forall k, smem k (pr_created (n_proc n)) = true -> smem k (suppressed_of n) = false -> has k c' = true.

Lemma has_update k j v c : has k (update j v c) = String.eqb k j || has k c.
Proof.
  unfold has. destruct (String.eqb_spec k j) as [->|Hn].
  - rewrite lookup_update_same. reflexivity.
  - rewrite lookup_update_other by auto. reflexivity.
Qed.

Lemma has_remove_other k j c : k <> j -> has k (remove j c) = has k c.
Proof. intros H. unfold has. rewrite lookup_remove_other by auto. reflexivity. Qed.

Lemma apply_op_writes_keeps decl : forall ops c c' k,
  apply_op_writes decl ops c = Ok c' -> has k c = true -> has k c' = true.
Proof.
  induction ops as [|[j v|j] tl IH]; simpl; intros c c' k H Hk.
  - injection H as <-. exact Hk.
  - destruct (smem j decl); [|discriminate]. eapply IH; eauto. rewrite has_update, Hk. apply orb_true_r.
  - discriminate.
Qed.

Lemma apply_ctx_ops_keeps cr su : forall ops c c' k,
  apply_ctx_ops cr su ops c = Ok c' -> has k c = true -> smem k su = false -> has k c' = true.
Proof.
  induction ops as [|[j v|j] tl IH]; simpl; intros c c' k H Hk Hs.
  - injection H as <-. exact Hk.
  - destruct (smem j cr); [|discriminate]. eapply IH; eauto. rewrite has_update, Hk. apply orb_true_r.
  - destruct (smem j su) eqn:E; [|discriminate]. destruct (has j c); [|discriminate].
    eapply IH; eauto. rewrite has_remove_other; auto. intro; subst. congruence.
Qed.

(* a key that is present and not suppressed by the node is still present after the node *)
Lemma exec_keeps n d c d' c' k :
  exec_node n (d, c) = Ok (d', c') -> has k c = true -> smem k (suppressed_of n) = false -> has k c' = true.
Proof.
  intros H Hk Hs. unfold suppressed_of, is_ctx in Hs.
  destruct (pr_kind (n_proc n)) eqn:K.
  1-4: (destruct (exec_data_node n d c (d', c')) as (_ & ps & dd & pv & ops & c1 & R & P & W & E);
        [rewrite K; reflexivity|exact H|]; rewrite K in E;
        pose proof (apply_op_writes_keeps _ _ _ _ k W Hk) as H1;
        try (destruct (n_ckey n)); injection E as _ ->; rewrite ?has_update, ?H1, ?orb_true_r; auto).
  unfold exec_node in H. rewrite K in H.
  destruct (resolve_all _ _ _ _) as [ps|e]; simpl in H; [|discriminate].
  destruct (pr_run (n_proc n) d ps) as [[[dd pv] ops]|e]; simpl in H; [|discriminate].
  destruct (apply_ctx_ops _ _ ops c) as [c1|e] eqn:W; simpl in H; [|discriminate].
  injection H as _ <-. eapply apply_ctx_ops_keeps; eauto.
Qed.

(* the probe's context key is present after the node *)
Lemma exec_probe_key n d c d' c' key :
  pr_kind (n_proc n) = KProbe -> n_ckey n = Some key -> exec_node n (d, c) = Ok (d', c') -> has key c' = true.
Proof.
  intros K CK H. destruct (probe_passthrough n d c d' c' key K CK H) as (_ & (ps & dd & pv & ops & _ & L) & _).
  unfold has. rewrite L. reflexivity.
Qed.

(* ---- the simulation invariant ------------------------------------------------------------------------ *)
Definition avail (c0 : ctx) (st : istate) (k : string) : bool :=
  (nhas k (key_origin st) || has k c0) && negb (smem k (deleted st)).

Definition Inv (c0 c : ctx) (st : istate) : Prop := forall k, avail c0 st k = true -> has k c = true.

Definition node_ok (r : nreport) : bool :=
  negb (r_invalid r) && match r_errors r with [] => true | _ => false end.

Section Step.
Variable v : variant.
Hypothesis Hos : order_sensitive v = true.
Hypothesis Hde : deleted_at_entry v = true.

Lemma inspect_node_ok_construct idx n o st r st' :
  inspect_node v idx (n, o) st = (r, st') -> r_invalid r = false -> construct n = Ok tt.
Proof.
  unfold inspect_node. destruct (construct n) as [[]|[s cls w]]; auto.
  intros H Hr. injection H as <- _. discriminate.
Qed.

(* the state after a constructible node *)
Lemma inspect_node_state idx n o st r st' :
  inspect_node v idx (n, o) st = (r, st') -> r_invalid r = false ->
  (forall k, smem k (deleted st') = (negb (smem k (created_of n)) && smem k (deleted st)) || smem k (suppressed_of n)) /\
  (forall k, nhas k (key_origin st') = smem k (created_of n) || nhas k (key_origin st)) /\
  (forall k, smem k (all_required st) = true -> smem k (all_required st') = true).
Proof.
  intros H Hr. pose proof (inspect_node_ok_construct _ _ _ _ _ _ H Hr) as C.
  unfold inspect_node in H. rewrite C in H. injection H as _ <-. simpl.
  repeat split; intros k.
  - rewrite smem_sunion, smem_fold_sremove. reflexivity.
  - rewrite nhas_fold.
    destruct (pr_kind (n_proc n)) eqn:K; try reflexivity.
    destruct (n_ckey n) as [key|] eqn:CK; try reflexivity.
    rewrite nhas_nupdate, smem_created_of, K, CK.
    destruct (String.eqb k key), (smem k (pr_created (n_proc n))), (nhas k (key_origin st)); reflexivity.
  - intros Hk. rewrite smem_sunion, Hk. reflexivity.
Qed.

(* every parameter a constructible, error-free node resolves from the context is available,
   or is recorded as required *)
Lemma inspect_node_params idx n o st r st' name :
  inspect_node v idx (n, o) st = (r, st') -> node_ok r = true ->
  In name (pr_params (n_proc n)) ->
  has name (n_cfg n) = true \/ has name (pr_defaults (n_proc n)) = true \/
  (nhas name (key_origin st) = true /\ smem name (deleted st) = false) \/
  (smem name (all_required st') = true /\ smem name (deleted st) = false).
Proof.
  intros H Hok Hin. unfold node_ok in Hok. apply andb_true_iff in Hok as [Hinv Herr].
  apply negb_true_iff in Hinv.
  pose proof (inspect_node_ok_construct _ _ _ _ _ _ H Hinv) as C.
  unfold inspect_node in H. rewrite C in H. injection H as <- <-. simpl in *. clear Hinv.
  destruct (has name (n_cfg n)) eqn:Hc; [left; reflexivity|right].
  destruct (has name (pr_defaults (n_proc n))) eqn:Hd; [left; reflexivity|right].
  (* name is classified OContext *)
  set (origins := map (fun nm => (nm, classify n st nm))
                      (filter (fun nm => negb (has nm (n_cfg n))) (pr_params (n_proc n)))) in *.
  assert (Hcl : is_ctx_origin (classify n st name) = true).
  { unfold classify. rewrite Hc, Hd. destruct (nlookup name (key_origin st)); [destruct (smem name (deleted st))|]; reflexivity. }
  assert (Hreq : In name (map fst (filter (fun p => is_ctx_origin (snd p)) origins))).
  { apply in_map_iff. exists (name, classify n st name). split; auto.
    apply filter_In. split; auto. unfold origins. apply in_map_iff. exists name. split; auto.
    apply filter_In. split; auto. rewrite Hc. reflexivity. }
  (* not deleted at entry, otherwise the "deleted" error would have been recorded *)
  assert (Hnd : smem name (deleted st) = false).
  { destruct (smem name (deleted st)) eqn:E; auto. exfalso.
    rewrite Hde in Herr.
    match type of Herr with context [existsb ?f ?l] => assert (X : existsb f l = true) end.
    { apply existsb_exists. exists name. split.
      - apply filter_In. split; auto.
      - apply negb_true_iff. rewrite smem_app. apply orb_false_iff. split.
        + unfold has in Hc. clear - Hc. induction (n_cfg n) as [|[k' v'] tl IH]; simpl in *; auto.
          destruct (String.eqb name k'); [discriminate|]. auto.
        + (* not among the defaulted names *)
          clear - Hcl Hd Hc. unfold smem. apply not_true_is_false. intro Hex.
          apply existsb_exists in Hex as [x [Hx Ex]]. apply String.eqb_eq in Ex. subst x.
          apply in_map_iff in Hx as [[nm og] [E1 Hx]]. simpl in E1. subst nm.
          apply filter_In in Hx as [Hx Hdef]. simpl in Hdef.
          apply in_map_iff in Hx as [nm [E2 _]]. injection E2 as -> <-.
          destruct (classify n st name); simpl in *; discriminate. }
    rewrite X in Herr. discriminate. }
  destruct (nhas name (key_origin st)) eqn:Hk; [left; split; auto|right; split; auto].
  rewrite Hos, smem_sunion. apply orb_true_iff. right.
  unfold smem. apply existsb_exists. exists name. split; [|apply String.eqb_refl].
  apply filter_In. split; auto. unfold nhas in Hk. destruct (nlookup name (key_origin st)); [discriminate|reflexivity].
Qed.
End Step.

(* ---- soundness: accepted + required keys supplied => no node fails to resolve a parameter ------------ *)
Section Sound.
Variable v : variant.
Hypothesis Hos : order_sensitive v = true.
Hypothesis Hde : deleted_at_entry v = true.

Lemma inv_step idx n o st r st' c0 d c d' c' :
  inspect_node v idx (n, o) st = (r, st') -> node_ok r = true -> honest n ->
  exec_node n (d, c) = Ok (d', c') -> Inv c0 c st -> Inv c0 c' st'.
Proof.
  intros H Hok Hh E HI k Hav.
  assert (Hinv : r_invalid r = false).
  { unfold node_ok in Hok. apply andb_true_iff in Hok as [X _]. apply negb_true_iff in X. exact X. }
  destruct (inspect_node_state v idx n o st r st' H Hinv) as (Hdel & Hko & _).
  unfold avail in Hav. rewrite Hdel, Hko in Hav.
  apply andb_true_iff in Hav as [Hpres Hnd]. apply negb_true_iff in Hnd.
  apply orb_false_iff in Hnd as [Hnd Hsup].
  destruct (smem k (created_of n)) eqn:Hcr.
  - rewrite smem_created_of in Hcr. apply orb_true_iff in Hcr as [Hcr|Hcr].
    + eapply Hh; eauto.
    + destruct (pr_kind (n_proc n)) eqn:K; try discriminate.
      destruct (n_ckey n) as [key|] eqn:CK; try discriminate.
      apply String.eqb_eq in Hcr. subst k. eapply exec_probe_key; eauto.
  - simpl in Hnd, Hpres. eapply exec_keeps; eauto. apply HI. unfold avail. rewrite Hpres, Hnd. reflexivity.
Qed.

Lemma inspect_from_cons idx x tl st :
  inspect_from v idx (x :: tl) st =
  let '(r, st') := inspect_node v idx x st in
  let '(rs, stf) := inspect_from v (S idx) tl st' in (shadow v (all_required stf) (deleted st) r :: rs, stf).
Proof. reflexivity. Qed.

(* the second pass only rewrites reported origins *)
Lemma shadow_proj req del r :
  (r_invalid (shadow v req del r) = r_invalid r) /\ (r_errors (shadow v req del r) = r_errors r) /\
  (r_in (shadow v req del r) = r_in r) /\ (r_out (shadow v req del r) = r_out r) /\
  (r_created (shadow v req del r) = r_created r) /\ (r_suppressed (shadow v req del r) = r_suppressed r).
Proof. unfold shadow. destruct (default_second_pass v); simpl; repeat split; reflexivity. Qed.
Lemma node_ok_shadow req del r : node_ok (shadow v req del r) = node_ok r.
Proof. unfold node_ok. destruct (shadow_proj req del r) as (-> & -> & _). reflexivity. Qed.

Lemma inspect_from_required_mono : forall p idx st rs stf,
  inspect_from v idx p st = (rs, stf) -> forallb node_ok rs = true ->
  forall k, smem k (all_required st) = true -> smem k (all_required stf) = true.
Proof.
  induction p as [|[n o] tl IH]; intros idx st rs stf H Hok k Hk.
  - simpl in H. injection H as _ <-. exact Hk.
  - rewrite inspect_from_cons in H. destruct (inspect_node v idx (n, o) st) as [r st'] eqn:E.
    destruct (inspect_from v (S idx) tl st') as [rs' stf'] eqn:E2. injection H as <- <-.
    simpl in Hok. rewrite node_ok_shadow in Hok. apply andb_true_iff in Hok as [Hr Hrs].
    eapply IH; eauto.
    assert (Hinv : r_invalid r = false).
    { unfold node_ok in Hr. apply andb_true_iff in Hr as [X _]. apply negb_true_iff in X. exact X. }
    destruct (inspect_node_state v idx n o st r st' E Hinv) as (_ & _ & Hm). auto.
Qed.

Lemma resolve_all_total cfg c dfl : forall names,
  (forall name, In name names -> has name cfg = true \/ has name c = true \/ has name dfl = true) ->
  exists ps, resolve_all cfg c dfl names = Ok ps.
Proof.
  induction names as [|nm tl IH]; intros H; simpl; [eauto|].
  assert (Hr : exists x, resolve cfg c dfl nm = Ok x).
  { unfold resolve. destruct (H nm (or_introl eq_refl)) as [X|[X|X]]; unfold has in X.
    - destruct (lookup nm cfg); [eauto|discriminate].
    - destruct (lookup nm cfg); [eauto|]. destruct (lookup nm c); [eauto|discriminate].
    - destruct (lookup nm cfg); [eauto|]. destruct (lookup nm c); [eauto|]. destruct (lookup nm dfl); [eauto|discriminate]. }
  destruct Hr as [x ->]. destruct IH as [ps ->]; [intros; apply H; right; auto|]. simpl. eauto.
Qed.

(* Every node that is reached can resolve all of its parameters. *)
Theorem keys_sound : forall p idx st rs stf c0,
  inspect_from v idx p st = (rs, stf) ->
  forallb node_ok rs = true ->
  Forall (fun x => honest (fst x)) p ->
  (forall k, smem k (all_required stf) = true -> has k c0 = true) ->
  forall k i d c d' c' n o,
  Inv c0 c st ->
  run_from i (firstn k (map fst p)) (d, c) = Done (d', c') ->
  nth_error p k = Some (n, o) ->
  exists ps, resolve_all (n_cfg n) c' (pr_defaults (n_proc n)) (pr_params (n_proc n)) = Ok ps.
Proof.
  induction p as [|[n0 o0] tl IH]; intros idx st rs stf c0 H Hok Hh Hreq k i d c d' c' n o HI Hrun Hnth.
  - destruct k; discriminate.
  - rewrite inspect_from_cons in H. destruct (inspect_node v idx (n0, o0) st) as [r st'] eqn:E.
    destruct (inspect_from v (S idx) tl st') as [rs' stf'] eqn:E2. injection H as <- <-.
    simpl in Hok. rewrite node_ok_shadow in Hok. apply andb_true_iff in Hok as [Hr Hrs].
    inversion Hh as [|? ? Hh0 Hht]; subst. simpl in Hh0.
    destruct k as [|k].
    + simpl in Hrun, Hnth. inversion Hrun; subst d' c'. injection Hnth as -> ->.
      apply resolve_all_total. intros name Hin.
      destruct (inspect_node_params v Hos Hde idx n o st r st' name E Hr Hin) as [X|[X|[[X1 X2]|[X1 X2]]]]; auto.
      * right. left. apply HI. unfold avail. rewrite X1, X2. reflexivity.
      * right. left. apply HI. unfold avail. rewrite X2.
        rewrite (Hreq name (inspect_from_required_mono tl (S idx) st' rs' stf' E2 Hrs name X1)).
        rewrite orb_true_r. reflexivity.
    + cbn [firstn map fst run_from nth_error] in Hrun, Hnth.
      destruct (exec_node n0 (d, c)) as [[d1 c1]|e] eqn:Ex; [|discriminate].
      eapply (IH (S idx) st' rs' stf' c0 E2 Hrs Hht Hreq k (S i) d1 c1 d' c' n o); eauto.
      eapply inv_step; eauto.
Qed.
End Sound.

Lemma inv_init c0 : Inv c0 c0 init_state.
Proof.
  intros k H. unfold avail in H. simpl in H. rewrite andb_true_r in H. exact H.
Qed.

(* ---- soundness of the data-type flow check (last-data-carrying-node variant) --------------------------- *)
Definition thonest (x : inode) : Prop :=
  (pr_kind (n_proc (fst x)) = KOp \/ pr_kind (n_proc (fst x)) = KSource) ->
  forall d c d' c', exec_node (fst x) (d, c) = Ok (d', c') -> ty_of d' = snd x.

Fixpoint first_data_in (p : list inode) : option dtype :=
  match p with
  | [] => None
  | (n, _) :: tl => if is_ctx n then first_data_in tl else Some (pr_in (n_proc n))
  end.

(* what the analysis knows about the current data: its type, unless no data node ran yet, in which
   case the payload must suit the first data node (the validator cannot see the payload) *)
Definition TInv (cur : option dtype) (rest : list inode) (d : data) : Prop :=
  match cur with
  | Some t => t = TAny \/ ty_of d = t
  | None => match first_data_in rest with Some t => gate t d = true | None => True end
  end.

Lemma dtype_eqb_eq a b : dtype_eqb a b = true -> a = b.
Proof. destruct a, b; simpl; congruence. Qed.

Lemma gate_cases want d : gate want d = true -> want = TAny \/ ty_of d = want.
Proof.
  unfold gate. destruct want; intros H; auto; right; symmetry; apply dtype_eqb_eq; exact H.
Qed.

Lemma compat_gate t i d : compat t i = true -> (t = TAny \/ ty_of d = t) -> gate i d = true.
Proof.
  unfold compat, gate. intros Hc [->|<-].
  - destruct i; simpl in *; try discriminate; reflexivity.
  - destruct i; auto.
Qed.

Section TypeSound.
Variable v : variant.

Lemma inspect_node_types idx n o st r st' :
  inspect_node v idx (n, o) st = (r, st') -> r_invalid r = false ->
  r_in r = in_of n /\ r_out r = out_of (n, o).
Proof.
  intros H Hr. unfold inspect_node in H.
  destruct (construct n) as [u|[s cls w]]; injection H as <- _; simpl in *; [auto|discriminate].
Qed.

Lemma exec_data_unchanged n d c d' c' :
  (pr_kind (n_proc n) = KCtx \/ pr_kind (n_proc n) = KProbe \/ pr_kind (n_proc n) = KSink) ->
  exec_node n (d, c) = Ok (d', c') -> d' = d.
Proof.
  intros [K|[K|K]] H.
  - apply (ctxproc_frame n d c d' c' K H).
  - destruct (exec_data_node n d c (d', c')) as (_ & ps & dd & pv & ops & c1 & R & P & W & E); auto.
    { rewrite K. reflexivity. }
    rewrite K in E. destruct (n_ckey n); injection E as -> _; reflexivity.
  - apply (sink_passthrough n d c d' c' K H).
Qed.

Lemma exec_gate_passed n d c s' :
  is_ctx n = false -> exec_node n (d, c) = Ok s' -> gate (pr_in (n_proc n)) d = true.
Proof.
  intros K H. unfold is_ctx in K.
  destruct (exec_data_node n d c s') as (G & _); auto.
  destruct (pr_kind (n_proc n)); try reflexivity. discriminate.
Qed.

Theorem types_sound : forall p idx st rs stf,
  inspect_from v idx p st = (rs, stf) ->
  forallb node_ok rs = true ->
  Forall thonest p ->
  forall cur, forallb negb (typeflow_last cur rs) = true ->
  forall k i d c d' c' n o,
  TInv cur p d ->
  run_from i (firstn k (map fst p)) (d, c) = Done (d', c') ->
  nth_error p k = Some (n, o) -> is_ctx n = false ->
  gate (pr_in (n_proc n)) d' = true.
Proof.
  induction p as [|[n0 o0] tl IH]; intros idx st rs stf H Hok Hh cur Hflow k i d c d' c' n o HT Hrun Hnth Hdata.
  - destruct k; discriminate.
  - rewrite inspect_from_cons in H. destruct (inspect_node v idx (n0, o0) st) as [r st'] eqn:E.
    destruct (inspect_from v (S idx) tl st') as [rs' stf'] eqn:E2. injection H as <- <-.
    simpl in Hok. rewrite node_ok_shadow in Hok. apply andb_true_iff in Hok as [Hr Hrs].
    assert (Hinv : r_invalid r = false).
    { unfold node_ok in Hr. apply andb_true_iff in Hr as [X _]. apply negb_true_iff in X. exact X. }
    destruct (inspect_node_types idx n0 o0 st r st' E Hinv) as [Rin Rout].
    simpl in Hflow. destruct (shadow_proj v (all_required stf') (deleted st) r) as (_ & _ & Sin & Sout & _).
    rewrite Sin, Sout in Hflow. apply andb_true_iff in Hflow as [Hf0 Hfl]. apply negb_true_iff in Hf0.
    inversion Hh as [|? ? Hh0 Hht]; subst.
    destruct k as [|k].
    + cbn [firstn map fst run_from nth_error] in Hrun, Hnth. inversion Hrun; subst d' c'. injection Hnth as -> ->.
      rewrite Rin in Hf0. unfold in_of in Hf0. rewrite Hdata in Hf0.
      destruct cur as [t|].
      * apply negb_false_iff in Hf0. eapply compat_gate; eauto.
      * simpl in HT. rewrite Hdata in HT. exact HT.
    + cbn [firstn map fst run_from nth_error] in Hrun, Hnth.
      destruct (exec_node n0 (d, c)) as [[d1 c1]|e] eqn:Ex; [|discriminate].
      eapply (IH (S idx) st' rs' stf' E2 Hrs Hht _ Hfl k (S i) d1 c1 d' c' n o); eauto.
      (* the invariant after node n0 *)
      rewrite Rout. unfold out_of, is_ctx.
      destruct (pr_kind (n_proc n0)) eqn:K.
      * (* KSource *) simpl. right. apply (Hh0 (or_intror K) d c d1 c1 Ex).
      * (* KOp *) simpl. right. apply (Hh0 (or_introl K) d c d1 c1 Ex).
      * (* KProbe *) simpl. rewrite (exec_data_unchanged n0 d c d1 c1 (or_intror (or_introl K)) Ex).
        apply gate_cases. eapply exec_gate_passed; eauto. unfold is_ctx. rewrite K. reflexivity.
      * (* KSink *) simpl. rewrite (exec_data_unchanged n0 d c d1 c1 (or_intror (or_intror K)) Ex).
        apply gate_cases. eapply exec_gate_passed; eauto. unfold is_ctx. rewrite K. reflexivity.
      * (* KCtx *) rewrite (exec_data_unchanged n0 d c d1 c1 (or_introl K) Ex).
        unfold TInv in *. destruct cur; auto. simpl in HT. unfold is_ctx in HT. rewrite K in HT. exact HT.
Qed.
End TypeSound.

(* ---- reported origins versus the channel resolve actually uses ------------------------------------------ *)
Lemma has_lookup k c : has k c = true -> exists v, lookup k c = Some v.
Proof. unfold has. destruct (lookup k c); [eauto|discriminate]. Qed.
Lemma has_false_lookup k (c : ctx) : has k c = false -> lookup k c = None.
Proof. unfold has. destruct (lookup k c); [discriminate|reflexivity]. Qed.

Lemma classify_config n st name : classify n st name = OConfig <-> has name (n_cfg n) = true.
Proof.
  unfold classify. destruct (has name (n_cfg n)); split; intros H; try reflexivity; try discriminate.
  destruct (nlookup name (key_origin st)); [destruct (smem name (deleted st))|];
    destruct (has name (pr_defaults (n_proc n))); discriminate.
Qed.

(* reported "context": the value comes from the context (it is there, and the node configuration does
   not override it) *)
Theorem origin_context_truthful n st name j c :
  classify n st name = OContext j -> has name c = true ->
  exists v, lookup name c = Some v /\ resolve (n_cfg n) c (pr_defaults (n_proc n)) name = Ok v.
Proof.
  intros Hc Hh. destruct (has_lookup _ _ Hh) as [v Hv]. exists v. split; auto.
  apply resolve_context; auto.
  destruct (has name (n_cfg n)) eqn:E.
  - assert (X : classify n st name = OConfig) by (apply classify_config; exact E). congruence.
  - apply has_false_lookup. exact E.
Qed.

(* reported "default": truthful exactly when the key is absent from the context *)
Theorem origin_default_truthful n st name c :
  classify n st name = ODefault -> has name c = false ->
  exists v, lookup name (pr_defaults (n_proc n)) = Some v /\
            resolve (n_cfg n) c (pr_defaults (n_proc n)) name = Ok v.
Proof.
  intros Hc Hh. unfold classify in Hc.
  destruct (has name (n_cfg n)) eqn:E; [discriminate|].
  assert (Hd : has name (pr_defaults (n_proc n)) = true).
  { destruct (nlookup name (key_origin st)); [destruct (smem name (deleted st))|];
      destruct (has name (pr_defaults (n_proc n))); try discriminate; reflexivity. }
  destruct (has_lookup _ _ Hd) as [v Hv]. exists v. split; auto.
  apply resolve_default; auto; apply has_false_lookup; auto.
Qed.

Theorem origin_default_shadowed n st name c v :
  classify n st name = ODefault -> lookup name c = Some v ->
  resolve (n_cfg n) c (pr_defaults (n_proc n)) name = Ok v.
Proof.
  intros Hc Hv. apply resolve_context; auto. unfold classify in Hc.
  destruct (has name (n_cfg n)) eqn:E; [discriminate|]. apply has_false_lookup. exact E.
Qed.

(* ---- exactness: the context never holds a key the analysis does not account for ---------------------------
   Upper half of the simulation (Inv is the lower half): every key present at run time is either a key of
   the initial context or was created by an earlier node, and is not in the analysis' deleted set.  Needs
   nodes that really remove what they declare to suppress (honest_del).  With it, the origin the second
   pass finally reports for a defaulted parameter is true of the run: a parameter still reported as
   'default' finds its key absent from the context. *)
Definition honest_del (n : node) : Prop :=
  forall d c d' c', exec_node n (d, c) = Ok (d', c') ->
  forall k, smem k (suppressed_of n) = true -> has k c' = false.

Lemma has_remove k j c : has k (remove j c) = negb (String.eqb k j) && has k c.
Proof.
  unfold has. destruct (String.eqb_spec k j) as [->|Hn]; simpl.
  - rewrite lookup_remove_same. reflexivity.
  - rewrite lookup_remove_other by auto. reflexivity.
Qed.

Lemma apply_op_writes_only decl : forall ops c c' k,
  apply_op_writes decl ops c = Ok c' -> has k c' = true -> has k c = true \/ smem k decl = true.
Proof.
  induction ops as [|[j v|j] tl IH]; simpl; intros c c' k H Hk.
  - injection H as <-. auto.
  - destruct (smem j decl) eqn:E; [|discriminate].
    destruct (IH _ _ _ H Hk) as [X|X]; auto. rewrite has_update in X.
    apply orb_true_iff in X as [X|X]; auto. apply String.eqb_eq in X. subst. auto.
  - discriminate.
Qed.

Lemma apply_ctx_ops_only cr su : forall ops c c' k,
  apply_ctx_ops cr su ops c = Ok c' -> has k c' = true -> has k c = true \/ smem k cr = true.
Proof.
  induction ops as [|[j v|j] tl IH]; simpl; intros c c' k H Hk.
  - injection H as <-. auto.
  - destruct (smem j cr) eqn:E; [|discriminate].
    destruct (IH _ _ _ H Hk) as [X|X]; auto. rewrite has_update in X.
    apply orb_true_iff in X as [X|X]; auto. apply String.eqb_eq in X. subst. auto.
  - destruct (smem j su); [|discriminate]. destruct (has j c); [|discriminate].
    destruct (IH _ _ _ H Hk) as [X|X]; auto. rewrite has_remove in X.
    apply andb_true_iff in X as [_ X]. auto.
Qed.

(* a key present after a node was present before it or is one of the node's declared created keys *)
Lemma exec_only_declared n d c d' c' k :
  exec_node n (d, c) = Ok (d', c') -> has k c' = true -> has k c = true \/ smem k (created_of n) = true.
Proof.
  intros H Hk. rewrite smem_created_of.
  destruct (pr_kind (n_proc n)) eqn:K.
  1-4: (destruct (exec_data_node n d c (d', c')) as (_ & ps & dd & pv & ops & c1 & R & P & W & E);
        [rewrite K; reflexivity|exact H|]; rewrite K in E).
  - injection E as _ ->. destruct (apply_op_writes_only _ _ _ _ k W Hk) as [X|X]; auto. right. rewrite X. reflexivity.
  - injection E as _ ->. destruct (apply_op_writes_only _ _ _ _ k W Hk) as [X|X]; auto. right. rewrite X. reflexivity.
  - destruct (n_ckey n) as [key|]; injection E as _ ->.
    + rewrite has_update in Hk. apply orb_true_iff in Hk as [Hk|Hk].
      * right. rewrite Hk. apply orb_true_r.
      * destruct (apply_op_writes_only _ _ _ _ k W Hk) as [X|X]; auto. right. rewrite X. reflexivity.
    + destruct (apply_op_writes_only _ _ _ _ k W Hk) as [X|X]; auto. right. rewrite X. reflexivity.
  - injection E as _ ->. destruct (apply_op_writes_only _ _ _ _ k W Hk) as [X|X]; auto. right. rewrite X. reflexivity.
  - unfold exec_node in H. rewrite K in H.
    destruct (resolve_all _ _ _ _) as [ps|e]; simpl in H; [|discriminate].
    destruct (pr_run (n_proc n) d ps) as [[[dd pv] ops]|e]; simpl in H; [|discriminate].
    destruct (apply_ctx_ops _ _ ops c) as [c1|e] eqn:W; simpl in H; [|discriminate].
    injection H as _ <-. destruct (apply_ctx_ops_only _ _ _ _ _ k W Hk) as [X|X]; auto. right. rewrite X. reflexivity.
Qed.

Definition UInv (c0 c : ctx) (st : istate) : Prop :=
  forall k, has k c = true -> smem k (deleted st) = false /\ (nhas k (key_origin st) = true \/ has k c0 = true).

Lemma uinv_init c0 : UInv c0 c0 init_state.
Proof. intros k H. split; [reflexivity|right; exact H]. Qed.

Section Exact.
Variable v : variant.
Hypothesis Hos : order_sensitive v = true.
Hypothesis Hde : deleted_at_entry v = true.

Lemma uinv_step idx n o st r st' c0 d c d' c' :
  inspect_node v idx (n, o) st = (r, st') -> r_invalid r = false -> honest_del n ->
  exec_node n (d, c) = Ok (d', c') -> UInv c0 c st -> UInv c0 c' st'.
Proof.
  intros H Hinv Hd E HU k Hk.
  destruct (inspect_node_state v idx n o st r st' H Hinv) as (Hdel & Hko & _).
  rewrite Hdel, Hko.
  assert (Hs : smem k (suppressed_of n) = false).
  { destruct (smem k (suppressed_of n)) eqn:S; auto. rewrite (Hd d c d' c' E k S) in Hk. discriminate. }
  rewrite Hs, orb_false_r.
  destruct (smem k (created_of n)) eqn:Hcr; simpl.
  - split; auto.
  - destruct (exec_only_declared n d c d' c' k E Hk) as [X|X]; [|congruence].
    destruct (HU k X) as [A B]. split; auto.
Qed.

(* the origins a constructible node reports before the second pass *)
Lemma inspect_node_origins idx n o st r st' :
  inspect_node v idx (n, o) st = (r, st') ->
  forall name og, In (name, og) (r_origins r) ->
  has name (n_cfg n) = false /\ og = classify n st name /\ In name (pr_params (n_proc n)).
Proof.
  unfold inspect_node. destruct (construct n) as [[]|[s cls w]]; intros H name og Hin; injection H as <- _; simpl in Hin.
  - apply in_map_iff in Hin as [nm [E Hin]]. injection E as -> <-.
    apply filter_In in Hin as [Hp Hc]. apply negb_true_iff in Hc. auto.
  - contradiction.
Qed.

Lemma classify_context n st name j :
  classify n st name = OContext j ->
  (nhas name (key_origin st) = true /\ smem name (deleted st) = false) \/ has name (pr_defaults (n_proc n)) = false.
Proof.
  unfold classify, nhas. destruct (has name (n_cfg n)); [discriminate|].
  destruct (nlookup name (key_origin st)); [destruct (smem name (deleted st)) eqn:D|];
    destruct (has name (pr_defaults (n_proc n))); try discriminate; auto.
Qed.

Lemma classify_default n st name :
  classify n st name = ODefault ->
  has name (pr_defaults (n_proc n)) = true /\ (nhas name (key_origin st) = false \/ smem name (deleted st) = true).
Proof.
  unfold classify, nhas. destruct (has name (n_cfg n)); [discriminate|].
  destruct (nlookup name (key_origin st)); [destruct (smem name (deleted st)) eqn:D|];
    destruct (has name (pr_defaults (n_proc n))); try discriminate; auto.
Qed.

(* Every node that is reached: a parameter finally reported as 'default' is absent from the context,
   is not configured, and has a default — so its value is the default. *)
Theorem default_truthful_full : forall p idx st rs stf c0,
  inspect_from v idx p st = (rs, stf) ->
  forallb node_ok rs = true ->
  default_second_pass v = true ->
  Forall (fun x => honest_del (fst x)) p ->
  (forall k, has k c0 = true -> smem k (all_required stf) = true) ->
  forall k i d c d' c' n o r name,
  UInv c0 c st ->
  run_from i (firstn k (map fst p)) (d, c) = Done (d', c') ->
  nth_error p k = Some (n, o) -> nth_error rs k = Some r ->
  In (name, ODefault) (r_origins r) ->
  has name c' = false /\ has name (n_cfg n) = false /\ has name (pr_defaults (n_proc n)) = true.
Proof.
  induction p as [|[n0 o0] tl IH]; intros idx st rs stf c0 H Hok Hsp Hh Hjust k i d c d' c' n o r name HU Hrun Hnth Hr Hin.
  - destruct k; discriminate.
  - rewrite inspect_from_cons in H. destruct (inspect_node v idx (n0, o0) st) as [r0 st'] eqn:E.
    destruct (inspect_from v (S idx) tl st') as [rs' stf'] eqn:E2. injection H as <- <-.
    simpl in Hok. rewrite node_ok_shadow in Hok. apply andb_true_iff in Hok as [Hr0 Hrs].
    inversion Hh as [|? ? Hh0 Hht]; subst. simpl in Hh0.
    destruct k as [|k].
    + simpl in Hrun, Hnth, Hr. inversion Hrun; subst d' c'. injection Hnth as -> ->. injection Hr as <-.
      unfold shadow in Hin. rewrite Hsp in Hin. simpl in Hin.
      apply in_map_iff in Hin as [[nm og] [Erc Hin0]].
      destruct (inspect_node_origins idx n o st r0 st' E nm og Hin0) as (Hcfg & Hog & _).
      unfold reclass in Erc. simpl in Erc.
      destruct og as [| |j].
      * discriminate Erc.
      * destruct (smem nm (all_required stf') && negb (smem nm (deleted st))) eqn:Rq; [discriminate|].
        injection Erc as ->. symmetry in Hog. destruct (classify_default n st name Hog) as [Hdf Hwhy].
        split; [|split; auto].
        destruct (has name c) eqn:Hc; auto. exfalso.
        destruct (HU name Hc) as [Hnd Hsrc].
        destruct Hwhy as [Hnk|Hdl]; [|congruence].
        destruct Hsrc as [X|X]; [congruence|].
        rewrite (Hjust name X), Hnd in Rq. discriminate.
      * discriminate Erc.
    + cbn [firstn map fst run_from nth_error] in Hrun, Hnth, Hr.
      destruct (exec_node n0 (d, c)) as [[d1 c1]|e] eqn:Ex; [|discriminate].
      eapply (IH (S idx) st' rs' stf' c0 E2 Hrs Hsp Hht Hjust k (S i) d1 c1 d' c' n o r name); eauto.
      eapply uinv_step; eauto.
      unfold node_ok in Hr0. apply andb_true_iff in Hr0 as [X _]. apply negb_true_iff in X. exact X.
Qed.

(* ... and a parameter finally reported as coming from the context (an earlier node's key, the initial
   context, or a default shadowed by a required key) finds its key there: the value is the context's. *)
Theorem context_truthful_full : forall p idx st rs stf c0,
  inspect_from v idx p st = (rs, stf) ->
  forallb node_ok rs = true ->
  Forall (fun x => honest (fst x)) p ->
  (forall k, smem k (all_required stf) = true -> has k c0 = true) ->
  forall k i d c d' c' n o r name j,
  Inv c0 c st ->
  run_from i (firstn k (map fst p)) (d, c) = Done (d', c') ->
  nth_error p k = Some (n, o) -> nth_error rs k = Some r ->
  In (name, OContext j) (r_origins r) ->
  exists val, lookup name c' = Some val /\ resolve (n_cfg n) c' (pr_defaults (n_proc n)) name = Ok val.
Proof.
  induction p as [|[n0 o0] tl IH]; intros idx st rs stf c0 H Hok Hh Hreq k i d c d' c' n o r name j HI Hrun Hnth Hr Hin.
  - destruct k; discriminate.
  - rewrite inspect_from_cons in H. destruct (inspect_node v idx (n0, o0) st) as [r0 st'] eqn:E.
    destruct (inspect_from v (S idx) tl st') as [rs' stf'] eqn:E2. injection H as <- <-.
    simpl in Hok. rewrite node_ok_shadow in Hok. apply andb_true_iff in Hok as [Hr0 Hrs].
    inversion Hh as [|? ? Hh0 Hht]; subst. simpl in Hh0.
    destruct k as [|k].
    + simpl in Hrun, Hnth, Hr. inversion Hrun; subst d' c'. injection Hnth as -> ->. injection Hr as <-.
      assert (Hpres : has name c = true /\ has name (n_cfg n) = false).
      { assert (Horig : forall og, In (name, og) (r_origins r0) -> is_ctx_origin og = true -> has name c = true /\ has name (n_cfg n) = false).
        { intros og Hin0 Hog. destruct (inspect_node_origins idx n o st r0 st' E name og Hin0) as (Hcfg & Heq & Hp).
          split; auto. destruct og as [| |j0]; try discriminate. symmetry in Heq.
          destruct (classify_context n st name j0 Heq) as [[X1 X2]|Hnd].
          - apply HI. unfold avail. rewrite X1, X2. reflexivity.
          - destruct (inspect_node_params v Hos Hde idx n o st r0 st' name E Hr0 Hp) as [X|[X|[[X1 X2]|[X1 X2]]]]; try congruence.
            + apply HI. unfold avail. rewrite X1, X2. reflexivity.
            + apply HI. unfold avail. rewrite X2.
              rewrite (Hreq name (inspect_from_required_mono v tl (S idx) st' rs' stf' E2 Hrs name X1)).
              rewrite orb_true_r. reflexivity. }
        unfold shadow in Hin. destruct (default_second_pass v); [|eapply Horig; eauto].
        simpl in Hin. apply in_map_iff in Hin as [[nm og] [Erc Hin0]]. unfold reclass in Erc. simpl in Erc.
        destruct og as [| |j0].
        - discriminate Erc.
        - destruct (smem nm (all_required stf') && negb (smem nm (deleted st))) eqn:Rq; [|discriminate Erc].
          injection Erc as -> _. apply andb_true_iff in Rq as [R1 R2]. apply negb_true_iff in R2.
          destruct (inspect_node_origins idx n o st r0 st' E name ODefault Hin0) as (Hcfg & _ & _).
          split; auto. apply HI. unfold avail. rewrite (Hreq name R1), R2, orb_true_r. reflexivity.
        - injection Erc as -> _. eapply Horig; eauto. }
      destruct Hpres as [Hc Hcfg]. destruct (has_lookup _ _ Hc) as [val Hv]. exists val. split; auto.
      apply resolve_context; auto. apply has_false_lookup. exact Hcfg.
    + cbn [firstn map fst run_from nth_error] in Hrun, Hnth, Hr.
      destruct (exec_node n0 (d, c)) as [[d1 c1]|e] eqn:Ex; [|discriminate].
      eapply (IH (S idx) st' rs' stf' c0 E2 Hrs Hht Hreq k (S i) d1 c1 d' c' n o r name j); eauto.
      eapply (inv_step v); eauto.
Qed.
End Exact.

(* ---- "context produced by node j": j is the LAST node that declares the key -------------------------------------
   With key_origin recording the last creator (origin_last), a parameter reported as coming from node j finds that
   node j declares the key and no node between j and the reader does; together with the frame lemmas (a node that
   neither declares nor suppresses a key leaves its value alone) the value the reader resolves is the one present
   right after node j ran. *)
Lemma nlookup_nupdate k j v m : nlookup k (nupdate j v m) = if String.eqb k j then Some v else nlookup k m.
Proof.
  induction m as [|[k' v'] tl IH]; simpl.
  - destruct (String.eqb k j); reflexivity.
  - destruct (String.eqb_spec j k') as [->|Hn]; simpl.
    + destruct (String.eqb k k'); reflexivity.
    + destruct (String.eqb_spec k k') as [->|Hk]; simpl.
      * destruct (String.eqb_spec k' j) as [->|]; [congruence|reflexivity].
      * exact IH.
Qed.

Lemma nlookup_fold_nupdate idx k : forall cr (m : list (string * nat)),
  nlookup k (fold_left (fun (m : list (string * nat)) (j : string) => nupdate j idx m) cr m) =
  if smem k cr then Some idx else nlookup k m.
Proof.
  induction cr as [|x tl IH]; intros m; simpl; [reflexivity|].
  rewrite IH, nlookup_nupdate. unfold smem at 2. simpl.
  destruct (smem k tl) eqn:E; unfold smem in E; rewrite E; [rewrite orb_true_r; reflexivity|].
  rewrite orb_false_r. reflexivity.
Qed.

Section LastCreator.
Variable v : variant.
Hypothesis Hol : origin_last v = true.

(* key_origin after a constructible node *)
Lemma inspect_node_key_origin idx n o st r st' k :
  inspect_node v idx (n, o) st = (r, st') -> r_invalid r = false ->
  nlookup k (key_origin st') = if smem k (created_of n) then Some idx else nlookup k (key_origin st).
Proof.
  intros H Hr. unfold inspect_node in H.
  destruct (construct n) as [[]|[s cls w]]; [|injection H as <- _; discriminate].
  injection H as _ <-. simpl. rewrite Hol.
  rewrite nlookup_fold_nupdate.
  destruct (smem k (created_of n)) eqn:C; [reflexivity|].
  rewrite smem_created_of in C. apply orb_false_iff in C as [_ C].
  destruct (pr_kind (n_proc n)); try reflexivity. destruct (n_ckey n) as [key|]; try reflexivity.
  rewrite nlookup_nupdate, C. reflexivity.
Qed.

(* the invariant: every recorded origin j (numbering from idx0) points at a node of the prefix that declares the key,
   and no later node of the prefix declares it *)
Definition KInv (idx0 : nat) (pre : list inode) (st : istate) : Prop :=
  forall k j, nlookup k (key_origin st) = Some j ->
  idx0 <= j /\ j < idx0 + List.length pre /\
  (exists n o, nth_error pre (j - idx0) = Some (n, o) /\ smem k (created_of n) = true) /\
  (forall i n' o', j - idx0 < i -> nth_error pre i = Some (n', o') -> smem k (created_of n') = false).

Lemma kinv_step idx0 pre n o st r st' :
  inspect_node v (idx0 + List.length pre) (n, o) st = (r, st') -> r_invalid r = false ->
  KInv idx0 pre st -> KInv idx0 (pre ++ [(n, o)]) st'.
Proof.
  intros H Hr HK k j Hj.
  rewrite (inspect_node_key_origin _ _ _ _ _ _ k H Hr) in Hj.
  rewrite app_length. simpl.
  destruct (smem k (created_of n)) eqn:C.
  - injection Hj as <-. repeat split; try lia.
    + exists n, o. replace (idx0 + List.length pre - idx0) with (List.length pre) by lia.
      rewrite nth_error_app2 by lia. rewrite Nat.sub_diag. split; [reflexivity|exact C].
    + intros i n' o' Hi Hn. replace (idx0 + List.length pre - idx0) with (List.length pre) in Hi by lia.
      assert (X : nth_error (pre ++ [(n, o)]) i = None).
      { apply nth_error_None. rewrite app_length. simpl. lia. }
      congruence.
  - destruct (HK k j Hj) as (A & B & (n0 & o0 & N0 & C0) & D). repeat split; try lia.
    + exists n0, o0. split; auto. rewrite nth_error_app1 by lia. exact N0.
    + intros i n' o' Hi Hn. destruct (Nat.lt_ge_cases i (List.length pre)) as [L|G].
      * rewrite nth_error_app1 in Hn by exact L. eapply D; eauto.
      * rewrite nth_error_app2 in Hn by exact G.
        destruct (i - List.length pre) as [|m] eqn:E; simpl in Hn; [|destruct m; discriminate].
        injection Hn as <- _. exact C.
Qed.

(* a key some node of the prefix suppresses stays in the deleted set until a later node creates it again *)
Definition SInv (pre : list inode) (st : istate) : Prop :=
  forall k i n' o', nth_error pre i = Some (n', o') -> smem k (suppressed_of n') = true ->
  smem k (deleted st) = true \/
  exists i2 n2 o2, i < i2 /\ nth_error pre i2 = Some (n2, o2) /\ smem k (created_of n2) = true.

Lemma sinv_step idx pre n o st r st' :
  inspect_node v idx (n, o) st = (r, st') -> r_invalid r = false ->
  SInv pre st -> SInv (pre ++ [(n, o)]) st'.
Proof.
  intros H Hr HS k i n' o' Hn Hs.
  destruct (inspect_node_state v idx n o st r st' H Hr) as (Hdel & _ & _). rewrite Hdel.
  destruct (Nat.lt_ge_cases i (List.length pre)) as [L|G].
  - rewrite nth_error_app1 in Hn by exact L.
    destruct (HS k i n' o' Hn Hs) as [D|(i2 & n2 & o2 & A & B & C)].
    + destruct (smem k (created_of n)) eqn:Cn.
      * destruct (smem k (suppressed_of n)); [left; rewrite orb_true_r; reflexivity|].
        right. exists (List.length pre), n, o. split; [exact L|]. split; [|exact Cn].
        rewrite nth_error_app2 by lia. rewrite Nat.sub_diag. reflexivity.
      * left. rewrite D. reflexivity.
    + right. exists i2, n2, o2. split; auto. split; auto.
      rewrite nth_error_app1; [exact B|]. apply nth_error_Some. congruence.
  - rewrite nth_error_app2 in Hn by exact G.
    destruct (i - List.length pre) as [|m] eqn:E; simpl in Hn; [|destruct m; discriminate].
    injection Hn as <- _. left. rewrite Hs. apply orb_true_r.
Qed.

Theorem origin_names_last_creator : forall p idx0 pre st rs stf,
  inspect_from v (idx0 + List.length pre) p st = (rs, stf) ->
  forallb node_ok rs = true ->
  KInv idx0 pre st -> SInv pre st ->
  forall k n o r name j,
  nth_error p k = Some (n, o) -> nth_error rs k = Some r ->
  In (name, OContext (Some j)) (r_origins r) ->
  idx0 <= j /\ j < idx0 + List.length pre + k /\
  (exists nj oj, nth_error (pre ++ p) (j - idx0) = Some (nj, oj) /\ smem name (created_of nj) = true) /\
  (forall i n' o', j - idx0 < i -> i < List.length pre + k -> nth_error (pre ++ p) i = Some (n', o') ->
     smem name (created_of n') = false /\ smem name (suppressed_of n') = false).
Proof.
  induction p as [|[n0 o0] tl IH]; intros idx0 pre st rs stf H Hok HK HS k n o r name j Hnth Hr Hin.
  - destruct k; discriminate.
  - rewrite inspect_from_cons in H. destruct (inspect_node v (idx0 + List.length pre) (n0, o0) st) as [r0 st'] eqn:E.
    destruct (inspect_from v (S (idx0 + List.length pre)) tl st') as [rs' stf'] eqn:E2. injection H as <- <-.
    simpl in Hok. rewrite node_ok_shadow in Hok. apply andb_true_iff in Hok as [Hr0 Hrs].
    assert (Hinv : r_invalid r0 = false).
    { unfold node_ok in Hr0. apply andb_true_iff in Hr0 as [X _]. apply negb_true_iff in X. exact X. }
    destruct k as [|k].
    + simpl in Hnth, Hr. injection Hnth as -> ->. injection Hr as <-.
      (* the reported origin is the classification against st (the second pass leaves OContext (Some _) alone) *)
      assert (Hcl : classify n st name = OContext (Some j)).
      { unfold shadow in Hin. destruct (default_second_pass v).
        - simpl in Hin. apply in_map_iff in Hin as [[nm og] [Erc Hin0]].
          destruct (inspect_node_origins v (idx0 + List.length pre) n o st r0 st' E nm og Hin0) as (_ & Hog & _).
          unfold reclass in Erc. simpl in Erc. destruct og as [| |j0].
          + discriminate Erc.
          + destruct (smem nm _ && negb _); discriminate Erc.
          + injection Erc as -> ->. symmetry. exact Hog.
        - destruct (inspect_node_origins v (idx0 + List.length pre) n o st r0 st' E name _ Hin) as (_ & Hog & _). symmetry. exact Hog. }
      assert (Hlk : nlookup name (key_origin st) = Some j /\ smem name (deleted st) = false).
      { unfold classify in Hcl. destruct (has name (n_cfg n)); [discriminate|].
        destruct (nlookup name (key_origin st)) as [j0|]; [|destruct (has name (pr_defaults (n_proc n))); discriminate].
        destruct (smem name (deleted st)); [destruct (has name (pr_defaults (n_proc n))); discriminate|].
        injection Hcl as ->. split; reflexivity. }
      destruct Hlk as [Hlk Hnd].
      destruct (HK name j Hlk) as (A & B & (nj & oj & Nj & Cj) & D).
      split; [lia|]. split; [lia|]. split.
      { exists nj, oj. split; auto. rewrite nth_error_app1 by lia. exact Nj. }
      intros i n' o' Hi Hlt Hn. rewrite nth_error_app1 in Hn by lia. split.
      { eapply D; eauto. }
      destruct (smem name (suppressed_of n')) eqn:Sp; [|reflexivity]. exfalso.
      destruct (HS name i n' o' Hn Sp) as [X|(i2 & n2 & o2 & X1 & X2 & X3)]; [congruence|].
      rewrite (D i2 n2 o2) in X3; [discriminate|lia|exact X2].
    + simpl in Hnth, Hr.
      pose proof (kinv_step idx0 pre n0 o0 st r0 st' E Hinv HK) as HK'.
      pose proof (sinv_step _ pre n0 o0 st r0 st' E Hinv HS) as HS'.
      assert (Hlen : S (idx0 + List.length pre) = idx0 + List.length (pre ++ [(n0, o0)])%list) by (rewrite app_length; simpl; lia).
      rewrite Hlen in E2.
      destruct (IH idx0 (pre ++ [(n0, o0)])%list st' rs' stf' E2 Hrs HK' HS' k n o r name j Hnth Hr Hin) as (A & B & C & D).
      rewrite app_length in B. simpl in B.
      rewrite <- app_assoc in C. simpl in C.
      split; [lia|]. split; [lia|]. split; [exact C|].
      intros i n' o' Hi Hlt Hn. eapply D; eauto.
      * rewrite app_length. simpl. lia.
      * rewrite <- app_assoc. simpl. exact Hn.
Qed.
End LastCreator.

Lemma kinv_init idx0 : KInv idx0 [] init_state.
Proof. intros k j H. discriminate. Qed.
Lemma sinv_init st : SInv [] st.
Proof. intros k i n' o' H. destruct i; discriminate. Qed.

(* ---- ... and the value the reader resolves is the one present right after node j ran ------------------------------ *)
Lemma exec_frame n d c d' c' k :
  exec_node n (d, c) = Ok (d', c') -> smem k (created_of n) = false -> smem k (suppressed_of n) = false ->
  lookup k c' = lookup k c.
Proof.
  intros H Hc Hs. rewrite smem_created_of in Hc. apply orb_false_iff in Hc as [Hc Hp].
  unfold suppressed_of, is_ctx in Hs.
  destruct (pr_kind (n_proc n)) eqn:K.
  1-4: (destruct (exec_data_node n d c (d', c')) as (_ & ps & dd & pv & ops & c1 & R & P & W & E);
        [rewrite K; reflexivity|exact H|]; rewrite K in E;
        pose proof (apply_op_writes_frame _ _ _ _ W k Hc) as F).
  - injection E as _ ->. exact F.
  - injection E as _ ->. exact F.
  - destruct (n_ckey n) as [key|]; injection E as _ ->; [|exact F].
    rewrite lookup_update_other; [exact F|]. intro X. subst key. rewrite String.eqb_refl in Hp. discriminate.
  - injection E as _ ->. exact F.
  - destruct (ctxproc_frame n d c d' c' K H) as [_ F]. apply F; assumption.
Qed.

Lemma run_frame name : forall q i d c d' c',
  run_from i q (d, c) = Done (d', c') ->
  (forall n, In n q -> smem name (created_of n) = false /\ smem name (suppressed_of n) = false) ->
  lookup name c' = lookup name c.
Proof.
  induction q as [|n tl IH]; intros i d c d' c' H Hq; cbn [run_from] in H.
  - injection H as _ <-. reflexivity.
  - destruct (exec_node n (d, c)) as [[d1 c1]|e] eqn:E; [|discriminate H].
    rewrite (IH _ _ _ _ _ H (fun m Hm => Hq m (or_intror Hm))).
    destruct (Hq n (or_introl eq_refl)) as [A B]. eapply exec_frame; eauto.
Qed.

Lemma nth_error_firstn_lt {A} : forall n (l : list A) i, i < n -> nth_error (firstn n l) i = nth_error l i.
Proof.
  induction n as [|n IH]; intros l i H; [lia|]. destruct l as [|x tl]; [destruct i; reflexivity|].
  destruct i as [|i]; simpl; [reflexivity|]. apply IH. lia.
Qed.
Lemma nth_error_skipn_add {A} : forall n (l : list A) i, nth_error (skipn n l) i = nth_error l (n + i).
Proof.
  induction n as [|n IH]; intros l i; simpl; [reflexivity|]. destruct l as [|x tl]; [destruct i; reflexivity|]. apply IH.
Qed.

Theorem value_from_last_creator v : origin_last v = true -> forall p rs stf,
  inspect_from v 1 p init_state = (rs, stf) ->
  forallb node_ok rs = true ->
  forall k n o r name j d0 c0 d' c',
  nth_error p k = Some (n, o) -> nth_error rs k = Some r ->
  In (name, OContext (Some j)) (r_origins r) ->
  run (firstn k (map fst p)) (d0, c0) = Done (d', c') ->
  1 <= j <= k /\
  (exists nj oj, nth_error p (j - 1) = Some (nj, oj) /\ smem name (created_of nj) = true) /\
  exists dj cj, run (firstn j (map fst p)) (d0, c0) = Done (dj, cj) /\ lookup name c' = lookup name cj.
Proof.
  intros Hol p rs stf HI Hok k n o r name j d0 c0 d' c' Hnth Hr Hin Hrun.
  destruct (origin_names_last_creator v Hol p 1 [] init_state rs stf HI Hok (kinv_init 1) (sinv_init _)
              k n o r name j Hnth Hr Hin) as (A & B & (nj & oj & Nj & Cj) & D).
  simpl in B, Nj, D.
  split; [lia|]. split; [exists nj, oj; auto|].
  (* firstn k = firstn j ++ (nodes j .. k-1) *)
  assert (Hsplit : firstn k (map fst p) = (firstn j (map fst p) ++ firstn (k - j) (skipn j (map fst p)))%list).
  { rewrite <- (firstn_skipn j (map fst p)) at 1. rewrite firstn_app.
    rewrite firstn_length. assert (Lk : k < List.length (map fst p)).
    { assert (X : nth_error p k <> None) by (rewrite Hnth; discriminate).
      apply nth_error_Some in X. rewrite map_length. exact X. }
    rewrite Nat.min_l by lia. rewrite firstn_firstn. rewrite Nat.min_r by lia. reflexivity. }
  rewrite Hsplit in Hrun. unfold run in Hrun. rewrite run_from_app in Hrun.
  destruct (run_from 0 (firstn j (map fst p)) (d0, c0)) as [[dj cj]|x e|x e] eqn:Rj; try discriminate.
  exists dj, cj. split; [exact Rj|].
  eapply run_frame; [exact Hrun|].
  intros m Hm. apply In_nth_error in Hm as [t Ht].
  (* m is the node at position j + t < k of p *)
  assert (Lt : t < k - j).
  { assert (X : nth_error (firstn (k - j) (skipn j (map fst p))) t <> None) by congruence.
    apply nth_error_Some in X. rewrite firstn_length in X. lia. }
  rewrite nth_error_firstn_lt in Ht by exact Lt. rewrite nth_error_skipn_add in Ht.
  rewrite nth_error_map in Ht. destruct (nth_error p (j + t)) as [[n' o']|] eqn:Np; cbn [option_map fst] in Ht.
  - unfold inode in *. rewrite Np in Ht. simpl in Ht. injection Ht as <-. apply (D (j + t) n' o'); [lia|lia|exact Np].
  - unfold inode in *. rewrite Np in Ht. discriminate Ht.
Qed.
