(* Proofs/JobQueue.v -- invariants of the master / worker / client model over all schedules. *)
From Coq Require Import List Bool Arith Lia Permutation.
From SV Require Import Model.JobQueue.
Import ListNotations.

Notation cnt i l := (count_occ Nat.eq_dec l i).

(* ---------------------------------------------------------------- generic list facts *)
Lemma cnt_cons i x l : cnt i (x :: l) = cnt i [x] + cnt i l.
Proof. simpl. destruct (Nat.eq_dec x i); reflexivity. Qed.

Lemma cnt_app i (a b : list nat) : cnt i (a ++ b) = cnt i a + cnt i b.
Proof. apply count_occ_app. Qed.

Lemma cnt_self i : cnt i [i] = 1.
Proof. simpl. destruct (Nat.eq_dec i i); congruence. Qed.

Lemma cnt_other i x : x <> i -> cnt i [x] = 0.
Proof. intro. simpl. destruct (Nat.eq_dec x i); congruence. Qed.

Lemma cnt_in i l : In i l <-> cnt i l >= 1.
Proof. rewrite (count_occ_In Nat.eq_dec). lia. Qed.

Lemma cnt_notin i l : ~ In i l <-> cnt i l = 0.
Proof. rewrite cnt_in. lia. Qed.

Lemma remove_nth_cnt {A} (f : A -> nat) i : forall (l : list A) k x,
  nth_error l k = Some x -> cnt i (map f l) = cnt i [f x] + cnt i (map f (remove_nth k l)).
Proof.
  induction l as [|y t IH]; intros [|k] x H; simpl in H; try discriminate.
  - injection H as ->. cbn [remove_nth map]. apply cnt_cons.
  - cbn [remove_nth map]. rewrite (cnt_cons i (f y)), (cnt_cons i (f y) (map f (remove_nth k t))).
    rewrite (IH k x H). lia.
Qed.

Lemma remove_nth_in {A} : forall (l : list A) k y, In y (remove_nth k l) -> In y l.
Proof.
  induction l as [|x t IH]; intros [|k] y H; simpl in *; auto.
  destruct H; auto. right. eapply IH; eauto.
Qed.

Lemma remove_nth_length {A} : forall (l : list A) k x, nth_error l k = Some x -> length l = S (length (remove_nth k l)).
Proof.
  induction l as [|y t IH]; intros [|k] x H; simpl in H; try discriminate; simpl; auto.
  f_equal. eapply IH; eauto.
Qed.

Lemma set_nth_length {A} (v : A) : forall l k, length (set_nth k v l) = length l.
Proof. induction l; intros [|k]; simpl; auto. Qed.

Lemma map_fst_combine {A B} : forall (a : list A) (b : list B), length a = length b -> map fst (combine a b) = a.
Proof.
  induction a; intros [|y b] H; simpl in *; try discriminate; auto.
  f_equal. apply IHa. lia.
Qed.

Lemma nodup_fst_unique {A} (l : list (nat * A)) i x y :
  NoDup (map fst l) -> In (i, x) l -> In (i, y) l -> x = y.
Proof.
  induction l as [|[k v] t IH]; simpl; intros N Hx Hy; [tauto|].
  inversion N as [|? ? Hn N']; subst.
  destruct Hx as [Hx|Hx], Hy as [Hy|Hy].
  - congruence.
  - injection Hx as -> ->. exfalso. apply Hn. apply (in_map fst) in Hy. exact Hy.
  - injection Hy as -> ->. exfalso. apply Hn. apply (in_map fst) in Hx. exact Hx.
  - auto.
Qed.

Section Proofs.
  Variables J R E : Type.
  Variable exec : J -> outcome R E.
  Variable prep : J -> J.
  Variable F : facts.

  Notation state := (JobQueue.state J R E).
  Notation qjob := (nat * J)%type (only parsing).
  Notation status := (JobQueue.status R E).
  Notation fstate := (JobQueue.fstate R E).
  Notation step := (JobQueue.step J R E exec prep F).
  Notation step' := (JobQueue.step' J R E exec prep F).
  Notation run := (JobQueue.run J R E exec prep F).
  Notation produced := (JobQueue.produced J R E exec prep F).
  Notation resolve := (JobQueue.resolve J R E F).
  Notation reports := (JobQueue.reports F).
  Notation held := (JobQueue.held J).
  Notation places := (JobQueue.places J R E).
  Notation measure := (JobQueue.measure J R E).
  Notation init := (JobQueue.init J R E).
  Notation number := (JobQueue.number J).
  Notation lookup_fut := (JobQueue.lookup_fut R E).
  Notation set_fut := (JobQueue.set_fut R E).
  Notation sid := (JobQueue.sid R E).
  Notation fut_of := (JobQueue.fut_of R E).
  Notation quiescent := (JobQueue.quiescent J R E exec prep F).
  Notation replay := (JobQueue.replay J R E exec prep F).
  Notation actor_of := (JobQueue.actor_of J R E).
  Notation toenq := (JobQueue.toenq J R E).
  Notation queue := (JobQueue.queue J R E).
  Notation cfgch := (JobQueue.cfgch J R E).
  Notation hands := (JobQueue.hands J R E).
  Notation statch := (JobQueue.statch J R E).
  Notation futs := (JobQueue.futs J R E).
  Notation resolved := (JobQueue.resolved J R E).
  Notation setlog := (JobQueue.setlog J R E).
  Notation dropped := (JobQueue.dropped J R E).

  (* ------------------------------------------------------------ hands *)
  Lemma held_repeat n : held (repeat None n) = [].
  Proof. induction n; simpl; auto. Qed.

  Lemma held_cons (o : option qjob) t : held (o :: t) = (match o with Some q => [q] | None => [] end) ++ held t.
  Proof. reflexivity. Qed.

  Lemma held_take_cnt i : forall (h : list (option qjob)) w q,
    nth_error h w = Some None -> cnt i (map fst (held (set_nth w (Some q) h))) = cnt i [fst q] + cnt i (map fst (held h)).
  Proof.
    induction h as [|o t IH]; intros [|w] q H; simpl in H; try discriminate.
    - injection H as ->. cbn [set_nth]. rewrite !held_cons. cbn [app map]. apply cnt_cons.
    - cbn [set_nth]. rewrite !held_cons, !map_app, !cnt_app, (IH w q H). lia.
  Qed.

  Lemma held_fin_cnt i : forall (h : list (option qjob)) w q,
    nth_error h w = Some (Some q) -> cnt i (map fst (held h)) = cnt i [fst q] + cnt i (map fst (held (set_nth w None h))).
  Proof.
    induction h as [|o t IH]; intros [|w] q H; simpl in H; try discriminate.
    - injection H as ->. cbn [set_nth]. rewrite !held_cons. cbn [app map]. apply cnt_cons.
    - cbn [set_nth]. rewrite !held_cons, !map_app, !cnt_app, (IH w q H). lia.
  Qed.

  Lemma held_take_length : forall (h : list (option qjob)) w q,
    nth_error h w = Some None -> length (held (set_nth w (Some q) h)) = S (length (held h)).
  Proof.
    induction h as [|o t IH]; intros [|w] q H; simpl in H; try discriminate.
    - injection H as ->. reflexivity.
    - cbn [set_nth]. rewrite !held_cons, !app_length, (IH w q H). lia.
  Qed.

  Lemma held_fin_length : forall (h : list (option qjob)) w q,
    nth_error h w = Some (Some q) -> length (held h) = S (length (held (set_nth w None h))).
  Proof.
    induction h as [|o t IH]; intros [|w] q H; simpl in H; try discriminate.
    - injection H as ->. reflexivity.
    - cbn [set_nth]. rewrite !held_cons, !app_length, (IH w q H). lia.
  Qed.

  Lemma held_in : forall (h : list (option qjob)) w q, nth_error h w = Some (Some q) -> In q (held h).
  Proof.
    induction h as [|o t IH]; intros [|w] q H; simpl in H; try discriminate.
    - injection H as ->. simpl. auto.
    - cbn [JobQueue.held flat_map]. apply in_or_app. right. eapply IH; eauto.
  Qed.

  Lemma held_set_in : forall (h : list (option qjob)) w o x,
    In x (held (set_nth w o h)) -> In x (held h) \/ o = Some x.
  Proof.
    induction h as [|o' t IH]; intros [|w] o x H; simpl in H; auto.
    - apply in_app_or in H. destruct H as [H|H].
      + destruct o as [q|]; simpl in H; [destruct H as [->|[]]; auto | tauto].
      + left. cbn [JobQueue.held flat_map]. apply in_or_app. auto.
    - apply in_app_or in H. destruct H as [H|H].
      + left. cbn [JobQueue.held flat_map]. apply in_or_app. auto.
      + destruct (IH w o x H); auto. left. cbn [JobQueue.held flat_map]. apply in_or_app. auto.
  Qed.

  Lemma held_nil_all_none : forall (h : list (option qjob)) w, held h = [] -> w < length h -> nth_error h w = Some None.
  Proof.
    induction h as [|o t IH]; intros w H L; simpl in L; [lia|].
    cbn [JobQueue.held flat_map] in H. apply app_eq_nil in H. destruct H as [H1 H2].
    destruct w; simpl.
    - destruct o; [discriminate|reflexivity].
    - apply IH; auto. lia.
  Qed.

  Lemma held_cons_some : forall (h : list (option qjob)) q t, held h = q :: t -> exists w q', nth_error h w = Some (Some q').
  Proof.
    induction h as [|o h IH]; intros q t H; [discriminate|].
    destruct o as [q0|].
    - exists 0, q0. reflexivity.
    - cbn [JobQueue.held flat_map app] in H. destruct (IH _ _ H) as (w & q' & Hw). exists (S w), q'. exact Hw.
  Qed.

  (* ------------------------------------------------------------ futures *)
  Lemma lookup_set_fut t v : forall fs i,
    lookup_fut i (set_fut t v fs) =
    if Nat.eqb i t then match lookup_fut t fs with Some _ => Some v | None => None end else lookup_fut i fs.
  Proof.
    induction fs as [|[k f] fs IH]; intros i; simpl.
    - destruct (Nat.eqb i t); reflexivity.
    - destruct (Nat.eqb t k) eqn:Etk; simpl.
      + apply Nat.eqb_eq in Etk. subst k. destruct (Nat.eqb i t) eqn:Eit; reflexivity.
      + destruct (Nat.eqb i k) eqn:Eik.
        * apply Nat.eqb_eq in Eik. subst k. rewrite Nat.eqb_sym in Etk. rewrite Etk. reflexivity.
        * apply IH.
  Qed.

  Lemma set_fut_ids t v : forall fs, map fst (set_fut t v fs) = map fst fs.
  Proof. induction fs as [|[k f] fs IH]; simpl; auto. destruct (Nat.eqb t k); simpl; congruence. Qed.

  Lemma lookup_app : forall fs i j f,
    lookup_fut i (fs ++ [(j, f)]) =
    match lookup_fut i fs with Some x => Some x | None => if Nat.eqb i j then Some f else None end.
  Proof. induction fs as [|[k g] fs IH]; intros; simpl; auto. destruct (Nat.eqb i k); auto. Qed.

  Lemma lookup_some_in : forall fs i f, lookup_fut i fs = Some f -> In i (map fst fs).
  Proof.
    induction fs as [|[k g] fs IH]; intros i f H; simpl in *; [discriminate|].
    destruct (Nat.eqb i k) eqn:Ek; [apply Nat.eqb_eq in Ek; auto | right; eauto].
  Qed.

  Lemma in_lookup_some : forall fs i, In i (map fst fs) -> exists f, lookup_fut i fs = Some f.
  Proof.
    induction fs as [|[k g] fs IH]; intros i H; simpl in *; [tauto|].
    destruct (Nat.eqb i k) eqn:Ek; [eauto|]. destruct H as [H|H]; [subst; rewrite Nat.eqb_refl in Ek; discriminate | auto].
  Qed.

  (* ------------------------------------------------------------ resolve only touches futures and the set log *)
  Lemma resolve_frame m s :
    toenq (resolve m s) = toenq s /\ queue (resolve m s) = queue s /\ cfgch (resolve m s) = cfgch s /\
    hands (resolve m s) = hands s /\ statch (resolve m s) = statch s /\ resolved (resolve m s) = resolved s /\
    dropped (resolve m s) = dropped s /\ map fst (futs (resolve m s)) = map fst (futs s).
  Proof.
    unfold JobQueue.resolve.
    destruct (if future_resolved_by_job_id F then Some (sid m) else first_pending R E (futs s)) as [t|]; [|tauto].
    destruct (lookup_fut t (futs s)) as [[| |]|]; try tauto.
    cbn. rewrite set_fut_ids. tauto.
  Qed.

  Lemma resolve_places m s i : cnt i (places (resolve m s)) = cnt i (places s).
  Proof.
    destruct (resolve_frame m s) as (A & B & C & D & G & H & I & _).
    unfold JobQueue.places. rewrite A, B, C, D, G, H, I. reflexivity.
  Qed.

  Lemma resolve_measure m s : measure (resolve m s) = measure s.
  Proof.
    destruct (resolve_frame m s) as (A & B & C & D & G & _).
    unfold JobQueue.measure. rewrite A, B, C, D, G. reflexivity.
  Qed.

  (* ------------------------------------------------------------ case analysis of an enabled step *)
  Ltac step_inv H :=
    match type of H with JobQueue.step _ _ _ _ _ _ ?s ?a = Some ?s' =>
      unfold JobQueue.step in H;
      destruct a as [ | | k | w k | w ];
      [ destruct (toenq s) as [|q t] eqn:Eq; [discriminate|]
      | destruct (queue s) as [|q t] eqn:Eq; [discriminate|]
      | destruct (nth_error (statch s) k) as [m|] eqn:Em; [|discriminate]
      | destruct (nth_error (hands s) w) as [[q0|]|] eqn:Eh; try discriminate;
        destruct (nth_error (cfgch s) k) as [q|] eqn:Ec; [|discriminate]
      | destruct (nth_error (hands s) w) as [[q|]|] eqn:Eh; try discriminate;
        destruct (produced q) as [m|] eqn:Ep ];
      injection H as H; subst s'
    end.

  Tactic Notation "proj" :=
    cbn [JobQueue.toenq JobQueue.queue JobQueue.cfgch JobQueue.hands JobQueue.statch JobQueue.futs JobQueue.resolved
         JobQueue.setlog JobQueue.dropped JobQueue.with_futs].
  Tactic Notation "proj" "in" hyp(H) :=
    cbn [JobQueue.toenq JobQueue.queue JobQueue.cfgch JobQueue.hands JobQueue.statch JobQueue.futs JobQueue.resolved
         JobQueue.setlog JobQueue.dropped JobQueue.with_futs] in H.

  (* ------------------------------------------------------------ conservation of jobs (no loss, no duplication) *)
  Lemma step_places s a s' i : step s a = Some s' -> cnt i (places s') = cnt i (places s).
  Proof.
    intro H. step_inv H.
    - unfold JobQueue.places; proj. rewrite Eq. rewrite !map_app, !cnt_app. cbn [map].
      rewrite (cnt_cons i (fst q) (map fst t)). lia.
    - unfold JobQueue.places; proj. rewrite Eq. rewrite !map_app, !cnt_app. cbn [map].
      rewrite (cnt_cons i (fst q) (map fst t)). lia.
    - rewrite resolve_places. unfold JobQueue.places; proj.
      rewrite !map_app, !cnt_app. rewrite (remove_nth_cnt sid i _ _ _ Em). cbn [map]. lia.
    - unfold JobQueue.places; proj. rewrite !cnt_app.
      rewrite (remove_nth_cnt fst i _ _ _ Ec), (held_take_cnt i _ _ q Eh). lia.
    - unfold JobQueue.places; proj. rewrite !map_app, !cnt_app. rewrite (held_fin_cnt i _ _ _ Eh). cbn [map].
      assert (sid m = fst q) as ->.
      { unfold JobQueue.produced in Ep. destruct (exec (prep (snd q))) as [r|kd e].
        - injection Ep as <-. reflexivity.
        - destruct (reports kd); [injection Ep as <-; reflexivity | discriminate]. }
      lia.
    - unfold JobQueue.places; proj. rewrite !map_app, !cnt_app. rewrite (held_fin_cnt i _ _ _ Eh). cbn [map]. lia.
  Qed.

  Lemma run_places sch : forall s i, cnt i (places (run sch s)) = cnt i (places s).
  Proof.
    induction sch as [|a sch IH]; intros s i; [reflexivity|].
    cbn [JobQueue.run fold_left]. fold (run sch (step' s a)). rewrite IH.
    unfold JobQueue.step'. destruct (step s a) eqn:Hs; [eapply step_places; eauto | reflexivity].
  Qed.

  Lemma init_places all nw : places (init all nw) = map fst all.
  Proof. unfold JobQueue.places, JobQueue.init; proj. rewrite held_repeat. cbn [map app]. apply app_nil_r. Qed.

  Theorem no_loss_run all nw sch :
    NoDup (map fst all) ->
    let s := run sch (init all nw) in
    Permutation (map fst all) (places s) /\ NoDup (places s).
  Proof.
    intros N s.
    assert (C : forall i, cnt i (places s) = cnt i (map fst all)).
    { intro i. unfold s. rewrite run_places, init_places. reflexivity. }
    split.
    - apply (Permutation_count_occ Nat.eq_dec). intro i. symmetry. apply C.
    - apply (NoDup_count_occ Nat.eq_dec). intro i. rewrite C. apply (NoDup_count_occ Nat.eq_dec). exact N.
  Qed.

  (* ------------------------------------------------------------ progress measure *)
  Lemma step_decreases s a s' : step s a = Some s' -> measure s' < measure s.
  Proof.
    intro H. step_inv H.
    - unfold JobQueue.measure; proj. rewrite Eq, app_length. cbn [length]. lia.
    - unfold JobQueue.measure; proj. rewrite Eq, app_length. cbn [length]. lia.
    - rewrite resolve_measure. unfold JobQueue.measure; proj. rewrite (remove_nth_length _ _ _ Em). lia.
    - unfold JobQueue.measure; proj. rewrite (remove_nth_length _ _ _ Ec), (held_take_length _ _ q Eh). lia.
    - unfold JobQueue.measure; proj. rewrite (held_fin_length _ _ _ Eh), app_length. cbn [length]. lia.
    - unfold JobQueue.measure; proj. rewrite (held_fin_length _ _ _ Eh). lia.
  Qed.

  (* number of steps of a schedule that were enabled when their turn came *)
  Fixpoint effective (sch : list actor) (s : state) : nat :=
    match sch with
    | [] => 0
    | a :: t => match step s a with Some s' => S (effective t s') | None => effective t s end
    end.

  Lemma effective_bounded sch : forall s, effective sch s + measure (run sch s) <= measure s.
  Proof.
    induction sch as [|a sch IH]; intros s; [simpl; lia|].
    cbn [effective JobQueue.run fold_left]. fold (run sch (step' s a)). unfold JobQueue.step'.
    destruct (step s a) as [s'|] eqn:Hs.
    - specialize (IH s'). apply step_decreases in Hs. lia.
    - apply IH.
  Qed.

  (* ------------------------------------------------------------ a completed future never changes again (any facts) *)
  Lemma step_stable s a s' i f :
    step s a = Some s' -> lookup_fut i (futs s) = Some f -> f <> Pending -> lookup_fut i (futs s') = Some f.
  Proof.
    intros H L NP. step_inv H; cbn; auto.
    - rewrite lookup_app, L. reflexivity.
    - unfold JobQueue.resolve. cbn.
      destruct (if future_resolved_by_job_id F then Some (sid m) else first_pending R E (futs s)) as [t|]; [|exact L].
      destruct (lookup_fut t (futs s)) as [[| |]|] eqn:Lt; try exact L.
      cbn. rewrite lookup_set_fut. destruct (Nat.eqb i t) eqn:Eit; [|exact L].
      apply Nat.eqb_eq in Eit. subst t. rewrite L in Lt. injection Lt as ->. congruence.
  Qed.

  Lemma run_stable sch : forall s i f,
    lookup_fut i (futs s) = Some f -> f <> Pending -> lookup_fut i (futs (run sch s)) = Some f.
  Proof.
    induction sch as [|a sch IH]; intros s i f L NP; [exact L|].
    cbn [JobQueue.run fold_left]. fold (run sch (step' s a)). apply IH; auto.
    unfold JobQueue.step'. destruct (step s a) eqn:Hs; [eapply step_stable; eauto | exact L].
  Qed.

  (* ------------------------------------------------------------ the invariant *)
  Section Invariant.
    Variable all : list qjob.
    Variable nw : nat.
    Hypothesis all_nodup : NoDup (map fst all).

    Definition msg_ok (m : status) : Prop := exists j, In (sid m, j) all /\ produced (sid m, j) = Some m.

    Definition jobs_in (s : state) : list qjob := toenq s ++ queue s ++ cfgch s ++ held (hands s) ++ dropped s.

    Record Inv1 (s : state) : Prop := {
      inv_places : forall i, cnt i (places s) = cnt i (map fst all);
      inv_jobs : forall q, In q (jobs_in s) -> In q all;
      inv_msgs : forall m, In m (statch s ++ resolved s) -> msg_ok m;
      inv_ids : map fst (futs s) ++ map fst (toenq s) = map fst all;
      inv_dropped : forall q, In q (dropped s) -> produced q = None;
      inv_hands : length (hands s) = nw
    }.

    Lemma produced_ok q m : In q all -> produced q = Some m -> msg_ok m.
    Proof.
      intros Hq Hp. destruct q as [i j].
      assert (sid m = i) as Hs.
      { unfold JobQueue.produced in Hp. cbn in Hp. destruct (exec (prep j)) as [r|kd e].
        - injection Hp as <-. reflexivity.
        - destruct (reports kd); [injection Hp as <-; reflexivity | discriminate]. }
      exists j. rewrite Hs. auto.
    Qed.

    Lemma init_inv1 : Inv1 (init all nw).
    Proof.
      constructor.
      - intro i. rewrite init_places. reflexivity.
      - intros q H. unfold jobs_in, JobQueue.init in H. proj in H. rewrite held_repeat in H. cbn [app] in H.
        rewrite app_nil_r in H. exact H.
      - intros m H. cbn in H. destruct H.
      - reflexivity.
      - intros q H. cbn in H. destruct H.
      - unfold JobQueue.init; proj. apply repeat_length.
    Qed.

    Lemma resolve_poll_frame m k s :
      let s1 := resolve m (mkState (toenq s) (queue s) (cfgch s) (hands s) (remove_nth k (statch s))
                                   (futs s) (resolved s ++ [m]) (setlog s) (dropped s)) in
      toenq s1 = toenq s /\ queue s1 = queue s /\ cfgch s1 = cfgch s /\ hands s1 = hands s /\
      statch s1 = remove_nth k (statch s) /\ resolved s1 = resolved s ++ [m] /\ dropped s1 = dropped s /\
      map fst (futs s1) = map fst (futs s).
    Proof.
      intro s1. unfold s1.
      destruct (resolve_frame m (mkState (toenq s) (queue s) (cfgch s) (hands s) (remove_nth k (statch s))
                                         (futs s) (resolved s ++ [m]) (setlog s) (dropped s)))
        as (A & B & C & D' & G & H' & I' & K).
      rewrite A, B, C, D', G, H', I', K. proj. tauto.
    Qed.

    Lemma step_inv1 s a s' : Inv1 s -> step s a = Some s' -> Inv1 s'.
    Proof.
      intros [P Jb M I D Hh] H.
      constructor.
      - intro i. rewrite (step_places _ _ _ i H). apply P.
      - (* jobs *)
        intros x Hx. apply Jb. revert Hx. unfold jobs_in. step_inv H.
        + proj. rewrite ?Eq, !in_app_iff. cbn [In]. tauto.
        + proj. rewrite ?Eq, !in_app_iff. cbn [In]. tauto.
        + destruct (resolve_poll_frame m k s) as (A & B & C & D' & _ & _ & G & _).
          rewrite A, B, C, D', G. tauto.
        + proj. rewrite !in_app_iff. intros [Hx|[Hx|[Hx|[Hx|Hx]]]]; auto.
          * right; right; left. eapply remove_nth_in; eauto.
          * apply held_set_in in Hx. destruct Hx as [Hx|Hx]; auto.
            injection Hx as ->. right; right; left. eapply nth_error_In; eauto.
        + proj. rewrite !in_app_iff. intros [Hx|[Hx|[Hx|[Hx|Hx]]]]; auto.
          apply held_set_in in Hx. destruct Hx as [Hx|Hx]; [auto|discriminate].
        + proj. rewrite !in_app_iff. cbn [In]. intros [Hx|[Hx|[Hx|[Hx|[Hx|[Hx|[]]]]]]]; auto.
          * apply held_set_in in Hx. destruct Hx as [Hx|Hx]; [auto|discriminate].
          * subst x. right; right; right; left. eapply held_in; eauto.
      - (* messages *)
        intros x Hx. apply in_app_or in Hx. step_inv H.
        + apply M. apply in_or_app. exact Hx.
        + apply M. apply in_or_app. exact Hx.
        + destruct (resolve_poll_frame m k s) as (_ & _ & _ & _ & G & H' & _).
          rewrite G, H' in Hx. apply M. rewrite in_app_iff.
          destruct Hx as [Hx|Hx].
          * left. eapply remove_nth_in; eauto.
          * apply in_app_or in Hx. destruct Hx as [Hx|[<-|[]]]; auto. left. eapply nth_error_In; eauto.
        + apply M. apply in_or_app. exact Hx.
        + proj in Hx. destruct Hx as [Hx|Hx].
          * apply in_app_or in Hx. destruct Hx as [Hx|[<-|[]]].
            -- apply M. apply in_or_app. auto.
            -- eapply produced_ok; eauto. apply Jb. unfold jobs_in. rewrite !in_app_iff.
               right; right; right; left. eapply held_in; eauto.
          * apply M. apply in_or_app. auto.
        + apply M. apply in_or_app. exact Hx.
      - (* ids *)
        step_inv H; proj; auto.
        + rewrite ?Eq in I. rewrite map_app. cbn [map] in *. rewrite <- app_assoc. exact I.
        + destruct (resolve_poll_frame m k s) as (A & _ & _ & _ & _ & _ & _ & G).
          rewrite A, G. exact I.
      - (* dropped *)
        intros x Hx. step_inv H; proj in Hx; auto.
        + destruct (resolve_poll_frame m k s) as (_ & _ & _ & _ & _ & _ & G & _).
          rewrite G in Hx. auto.
        + apply in_app_or in Hx. destruct Hx as [Hx|[<-|[]]]; auto.
      - (* hands *)
        step_inv H; proj; rewrite ?set_nth_length; auto.
        destruct (resolve_poll_frame m k s) as (_ & _ & _ & G & _).
        rewrite G. exact Hh.
    Qed.

    Lemma run_inv1 sch : forall s, Inv1 s -> Inv1 (run sch s).
    Proof.
      induction sch as [|a sch IH]; intros s HI; [exact HI|].
      cbn [JobQueue.run fold_left]. fold (run sch (step' s a)). apply IH.
      unfold JobQueue.step'. destruct (step s a) eqn:Hs; [eapply step_inv1; eauto | exact HI].
    Qed.

    Lemma cnt_all_le1 i : cnt i (map fst all) <= 1.
    Proof. apply (NoDup_count_occ Nat.eq_dec). exact all_nodup. Qed.

    (* ---------------------------------------------------------- correlation by job id *)
    Section ById.
      Hypothesis by_id : future_resolved_by_job_id F = true.

      Record Inv2 (s : state) : Prop := {
        inv_futs : forall i f, lookup_fut i (futs s) = Some f ->
                     (f = Pending /\ ~ In i (map sid (resolved s))) \/
                     (exists m, In m (resolved s) /\ sid m = i /\ f = fut_of m);
        inv_setlog : setlog s = map sid (resolved s)
      }.

      Lemma init_inv2 : Inv2 (init all nw).
      Proof. constructor; cbn; [intros i f H; discriminate | reflexivity]. Qed.

      Lemma step_inv2 s a s' : Inv1 s -> Inv2 s -> step s a = Some s' -> Inv2 s'.
      Proof.
        intros [P Jb M I D Hh] [Fu Sl] H.
        step_inv H.
        - (* enqueue: the new Future is pending and its id has not been resolved *)
          constructor; cbn; auto.
          intros i f L. rewrite lookup_app in L.
          destruct (lookup_fut i (futs s)) as [x|] eqn:Lx.
          + injection L as <-. apply Fu. exact Lx.
          + destruct (Nat.eqb i (fst q)) eqn:Eiq; [|discriminate].
            injection L as <-. apply Nat.eqb_eq in Eiq. subst i. left. split; auto.
            apply cnt_notin. specialize (P (fst q)). pose proof (cnt_all_le1 (fst q)) as Le.
            unfold JobQueue.places in P. rewrite Eq in P. cbn [map] in P.
            rewrite !cnt_app, (cnt_cons (fst q) (fst q)), cnt_self in P. lia.
        - constructor; cbn; auto.
        - (* poll *)
          assert (Hm : In m (statch s)) by (eapply nth_error_In; eauto).
          assert (Ct : cnt (sid m) (map sid (statch s)) >= 1) by (apply cnt_in; apply in_map; exact Hm).
          pose proof (P (sid m)) as Pm. pose proof (cnt_all_le1 (sid m)) as Le.
          unfold JobQueue.places in Pm. rewrite !cnt_app in Pm.
          assert (Nr : ~ In (sid m) (map sid (resolved s))) by (apply cnt_notin; lia).
          assert (Nt : ~ In (sid m) (map fst (toenq s))) by (apply cnt_notin; lia).
          assert (Ia : In (sid m) (map fst all)) by (apply cnt_in; lia).
          rewrite <- I in Ia. apply in_app_or in Ia. destruct Ia as [Ia|Ia]; [|contradiction].
          destruct (in_lookup_some _ _ Ia) as [f0 L0].
          assert (f0 = Pending) as ->.
          { destruct (Fu _ _ L0) as [[-> _]|(m' & Hm' & Hs' & _)]; auto.
            exfalso. apply Nr. rewrite <- Hs'. apply in_map. exact Hm'. }
          unfold JobQueue.resolve. rewrite by_id. cbn. rewrite L0.
          constructor; cbn.
          + intros i f L. rewrite lookup_set_fut in L. rewrite map_app, in_app_iff. cbn [map In].
            destruct (Nat.eqb i (sid m)) eqn:Eim.
            * apply Nat.eqb_eq in Eim. subst i. rewrite L0 in L. injection L as <-.
              right. exists m. split; [apply in_or_app; right; left; reflexivity | auto].
            * apply Nat.eqb_neq in Eim. destruct (Fu _ _ L) as [[-> Hn]|(m' & Hm' & Hs' & Hf)].
              -- left. split; auto. intros [X|[X|[]]]; auto.
              -- right. exists m'. split; [apply in_or_app; auto | auto].
          + rewrite Sl, map_app. reflexivity.
        - constructor; cbn; auto.
        - constructor; cbn; auto.
        - constructor; cbn; auto.
      Qed.

      Lemma run_inv12 sch : forall s, Inv1 s -> Inv2 s -> Inv1 (run sch s) /\ Inv2 (run sch s).
      Proof.
        induction sch as [|a sch IH]; intros s H1 H2; [auto|].
        cbn [JobQueue.run fold_left]. fold (run sch (step' s a)). unfold JobQueue.step'.
        destruct (step s a) eqn:Hs; [|auto].
        apply IH; [eapply step_inv1; eauto | eapply step_inv2; eauto].
      Qed.

      Lemma reach_inv sch : Inv1 (run sch (init all nw)) /\ Inv2 (run sch (init all nw)).
      Proof. apply run_inv12; [apply init_inv1 | apply init_inv2]. Qed.

      (* a completed Future holds the result of its own job, annotated with its own id *)
      Theorem own_result sch i i' r :
        lookup_fut i (futs (run sch (init all nw))) = Some (FDone i' r) ->
        i' = i /\ exists j, In (i, j) all /\ exec (prep j) = Succ r.
      Proof.
        intro L. destruct (reach_inv sch) as [[_ _ M _ _ _] [Fu _]].
        destruct (Fu _ _ L) as [[X _]|(m & Hm & Hs & Hf)]; [discriminate|].
        destruct (M m (in_or_app _ _ _ (or_intror Hm))) as (j & Hj & Hp).
        destruct m as [i0 r0|i0 e0]; cbn in Hf; [|discriminate].
        injection Hf as -> ->. cbn in Hs. subst i0. split; [reflexivity|].
        exists j. cbn in Hj. split; [exact Hj|].
        unfold JobQueue.produced in Hp. cbn in Hp. destruct (exec (prep j)) as [r1|kd e].
        - injection Hp as ->. reflexivity.
        - destruct (reports kd); discriminate.
      Qed.

      (* a failed Future carries the error of its own job *)
      Theorem own_error sch i e :
        lookup_fut i (futs (run sch (init all nw))) = Some (FFailed e) ->
        exists j k, In (i, j) all /\ exec (prep j) = Fail k e /\ reports k = true.
      Proof.
        intro L. destruct (reach_inv sch) as [[_ _ M _ _ _] [Fu _]].
        destruct (Fu _ _ L) as [[X _]|(m & Hm & Hs & Hf)]; [discriminate|].
        destruct (M m (in_or_app _ _ _ (or_intror Hm))) as (j & Hj & Hp).
        destruct m as [i0 r0|i0 e0]; cbn in Hf; [discriminate|].
        injection Hf as ->. cbn in Hs. subst i0. exists j. cbn in Hj.
        unfold JobQueue.produced in Hp. cbn in Hp. destruct (exec (prep j)) as [r1|kd e1]; [discriminate|].
        destruct (reports kd) eqn:Er; [|discriminate]. injection Hp as ->. exists kd. auto.
      Qed.

      (* set_result / set_exception is called at most once per Future *)
      Theorem set_once_log sch : NoDup (setlog (run sch (init all nw))).
      Proof.
        destruct (reach_inv sch) as [[P _ _ _ _ _] [_ Sl]]. rewrite Sl.
        apply (NoDup_count_occ Nat.eq_dec). intro i. specialize (P i). pose proof (cnt_all_le1 i).
        unfold JobQueue.places in P. rewrite !cnt_app in P. lia.
      Qed.

      (* what a Future can be, knowing its job *)
      Lemma future_of_job sch i j f :
        In (i, j) all -> lookup_fut i (futs (run sch (init all nw))) = Some f ->
        f = Pending \/ (exists m, produced (i, j) = Some m /\ f = fut_of m).
      Proof.
        intros Hj L. destruct (reach_inv sch) as [[_ _ M _ _ _] [Fu _]].
        destruct (Fu _ _ L) as [[-> _]|(m & Hm & Hs & Hf)]; [auto|]. right.
        destruct (M m (in_or_app _ _ _ (or_intror Hm))) as (j' & Hj' & Hp). rewrite Hs in *.
        rewrite (nodup_fst_unique all i j j' all_nodup Hj Hj'). eauto.
      Qed.

      (* liveness, part 2: while a Future is pending some step is enabled -- unless a worker dropped its job *)
      Theorem pending_enabled sch i :
        nw >= 1 ->
        let s := run sch (init all nw) in
        lookup_fut i (futs s) = Some Pending ->
        (exists a, step s a <> None) \/ In i (map fst (dropped s)).
      Proof.
        intros Hw s L. destruct (reach_inv sch) as [[P Jb M I D Hh] [Fu Sl]]. fold s in P, Jb, M, I, D, Hh, Fu, Sl.
        destruct (toenq s) as [|q t] eqn:Et; [|left; exists CEnqueue; unfold JobQueue.step; rewrite Et; discriminate].
        destruct (queue s) as [|q t] eqn:Eq; [|left; exists MDequeue; unfold JobQueue.step; rewrite Eq; discriminate].
        destruct (statch s) as [|m t] eqn:Es; [|left; exists (MPoll 0); unfold JobQueue.step; rewrite Es; discriminate].
        destruct (held (hands s)) as [|q t] eqn:Eh.
        2:{ left. destruct (held_cons_some _ _ _ Eh) as (w & q' & Hq). exists (WFinish w).
            unfold JobQueue.step. rewrite Hq. destruct (produced q'); discriminate. }
        destruct (cfgch s) as [|q t] eqn:Ec.
        2:{ left. exists (WTake 0 0). unfold JobQueue.step.
            rewrite (held_nil_all_none _ 0 Eh) by lia. rewrite Ec. cbn. discriminate. }
        right. destruct (Fu _ _ L) as [[_ Nr]|(m & _ & _ & Hf)]; [|destruct m; discriminate].
        specialize (P i). unfold JobQueue.places in P. rewrite Et, Eq, Ec, Eh, Es in P. cbn [map app] in P.
        rewrite cnt_app in P. apply cnt_notin in Nr. rewrite Nr in P.
        assert (Ia : cnt i (map fst all) >= 1).
        { apply cnt_in. rewrite <- I. apply in_or_app. left. eapply lookup_some_in; eauto. }
        apply cnt_in. lia.
      Qed.
      (* liveness under a fair scheduler: when nothing is enabled any more, no Future is pending *)
      Theorem quiescent_all_resolved sch :
        nw >= 1 -> (forall q, In q all -> produced q <> None) ->
        let s := run sch (init all nw) in
        quiescent s -> forall i, In i (map fst all) -> exists f, lookup_fut i (futs s) = Some f /\ f <> Pending.
      Proof.
        intros Hw Hp s Q i Hi. destruct (reach_inv sch) as [[P Jb M I D Hh] _]. fold s in P, Jb, M, I, D, Hh.
        assert (Et : toenq s = []).
        { specialize (Q CEnqueue). unfold JobQueue.step in Q. destruct (toenq s); [reflexivity|discriminate]. }
        rewrite Et in I. cbn [map] in I. rewrite app_nil_r in I. rewrite <- I in Hi.
        destruct (in_lookup_some _ _ Hi) as [f L]. exists f. split; [exact L|].
        intros ->. destruct (pending_enabled sch i Hw L) as [[a Ha]|Hd].
        - apply Ha. apply Q.
        - fold s in Hd. apply in_map_iff in Hd. destruct Hd as (q & _ & Hq).
          apply (Hp q); [|apply D; exact Hq].
          apply Jb. unfold jobs_in. rewrite !in_app_iff. tauto.
      Qed.
    End ById.
  End Invariant.

  Lemma init_measure all nw : measure (init all nw) = 5 * length all.
  Proof. unfold JobQueue.measure, JobQueue.init; proj. rewrite held_repeat. cbn [length]. lia. Qed.

  Lemma number_length (js : list J) : length (number js) = length js.
  Proof. unfold JobQueue.number. rewrite combine_length, seq_length. lia. Qed.

  (* ------------------------------------------------------------ trace validation is sound: replayed states are reachable *)
  Lemma replay_reachable evs : forall s s', replay evs s = Some s' -> exists sch, run sch s = s'.
  Proof.
    induction evs as [|e evs IH]; intros s s' H; simpl in H.
    - injection H as <-. exists []. reflexivity.
    - destruct (actor_of s e) as [a|]; [|discriminate].
      destruct (step s a) as [s1|] eqn:Hs; [|discriminate].
      destruct (IH _ _ H) as [sch Hr]. exists (a :: sch).
      cbn [JobQueue.run fold_left]. unfold JobQueue.step' at 2. rewrite Hs. exact Hr.
  Qed.

  Lemma number_ids (js : list J) : map fst (number js) = seq 0 (length js).
  Proof. unfold JobQueue.number. apply map_fst_combine. rewrite seq_length. reflexivity. Qed.

  Lemma number_nodup (js : list J) : NoDup (map fst (number js)).
  Proof. rewrite number_ids. apply seq_NoDup. Qed.

  Lemma number_in (js : list J) i j : In (i, j) (number js) <-> nth_error js i = Some j.
  Proof.
    unfold JobQueue.number.
    assert (G : forall (l : list J) b i j, In (i, j) (combine (seq b (length l)) l) <-> (b <= i /\ nth_error l (i - b) = Some j)).
    { induction l as [|x l IH]; intros b i0 j0; simpl.
      - split; [tauto|]. intros [_ H]. destruct (i0 - b); discriminate.
      - rewrite IH. split.
        + intros [H|[H1 H2]].
          * injection H as <- <-. split; [lia|]. rewrite Nat.sub_diag. reflexivity.
          * split; [lia|]. replace (i0 - b) with (S (i0 - S b)) by lia. exact H2.
        + intros [H1 H2]. destruct (i0 - b) as [|n] eqn:En.
          * left. injection H2 as ->. f_equal. lia.
          * right. split; [lia|]. replace (i0 - S b) with n by lia. exact H2. }
    rewrite G. rewrite Nat.sub_0_r. split; [tauto|]. intro; split; [lia|auto].
  Qed.
End Proofs.

(* ---------------------------------------------------------------- statements over a batch `js` (ids = enqueue positions) *)
Section Batch.
  Variables J R E : Type.
  Variable exec : J -> outcome R E.
  Variable prep : J -> J.
  Variable F : facts.
  Variable js : list J.
  Variable nw : nat.
  Hypothesis by_id : future_resolved_by_job_id F = true.

  Notation s0 := (init J R E (number J js) nw).
  Notation run := (run J R E exec prep F).
  Notation fut i s := (lookup_fut R E i (futs J R E s)).

  Theorem batch_own_result sch i i' r :
    fut i (run sch s0) = Some (FDone i' r) ->
    i' = i /\ exists j, nth_error js i = Some j /\ exec (prep j) = Succ r.
  Proof.
    intro L. destruct (own_result J R E exec prep F _ nw (number_nodup J js) by_id sch i i' r L) as [-> (j & Hj & He)].
    split; [reflexivity|]. exists j. split; [apply (number_in J R E exec prep); exact Hj | exact He].
  Qed.

  Theorem batch_own_error sch i e :
    fut i (run sch s0) = Some (FFailed e) ->
    exists j k, nth_error js i = Some j /\ exec (prep j) = Fail k e /\ reports F k = true.
  Proof.
    intro L. destruct (own_error J R E exec prep F _ nw (number_nodup J js) by_id sch i e L) as (j & k & Hj & He & Hr).
    exists j, k. split; [apply (number_in J R E exec prep); exact Hj | auto].
  Qed.

  (* the Future of a job whose pipeline fails: Failed with that error once resolved if the failure kind is reported,
     pending for ever (every schedule) if it is not *)
  Theorem batch_failing sch i j k e f :
    nth_error js i = Some j -> exec (prep j) = Fail k e -> fut i (run sch s0) = Some f ->
    if reports F k then f = Pending \/ f = FFailed e else f = Pending.
  Proof.
    intros Hj He L. apply (number_in J R E exec prep) in Hj.
    destruct (future_of_job J R E exec prep F _ nw (number_nodup J js) by_id sch i j f Hj L) as [->|(m & Hp & ->)].
    - destruct (reports F k); auto.
    - unfold produced in Hp. cbn [snd fst] in Hp. rewrite He in Hp. destruct (reports F k); [|discriminate].
      injection Hp as <-. right. reflexivity.
  Qed.

  (* at quiescence every Future holds exactly its own job's outcome *)
  Theorem batch_quiescent sch :
    nw >= 1 ->
    (forall j k e, In j js -> exec (prep j) = Fail k e -> reports F k = true) ->
    quiescent J R E exec prep F (run sch s0) ->
    forall i j, nth_error js i = Some j ->
    fut i (run sch s0) = Some (match exec (prep j) with Succ r => FDone i r | Fail _ e => FFailed e end).
  Proof.
    intros Hw Hrep Q i j Hj.
    assert (Hq : In (i, j) (number J js)) by (apply (number_in J R E exec prep); exact Hj).
    assert (Hp : forall q, In q (number J js) -> produced J R E exec prep F q <> None).
    { intros [i0 j0] H0. apply (number_in J R E exec prep) in H0. apply nth_error_In in H0.
      unfold produced. cbn [snd fst]. destruct (exec (prep j0)) as [r|k e] eqn:E0; [discriminate|].
      rewrite (Hrep j0 k e H0 E0). discriminate. }
    destruct (quiescent_all_resolved J R E exec prep F _ nw (number_nodup J js) by_id sch Hw Hp Q i
                (in_map fst _ _ Hq)) as (f & L & NP).
    rewrite L. f_equal.
    destruct (future_of_job J R E exec prep F _ nw (number_nodup J js) by_id sch i j f Hq L) as [->|(m & Hm & ->)];
      [congruence|].
    unfold produced in Hm. cbn [snd fst] in Hm. destruct (exec (prep j)) as [r|k e].
    - injection Hm as <-. reflexivity.
    - destruct (reports F k); [injection Hm as <-; reflexivity | discriminate].
  Qed.
End Batch.
