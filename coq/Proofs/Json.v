(* Proofs/Json.v — lemmas about Model/Json.v:
   - induction principle for the nested json type
   - the token sequence is a prefix code (token-level injectivity of dumps)
   - the rendering of token sequences that come from JSON values of the fragment
     is lexically unambiguous (character-level injectivity)
   - canonical form is invariant under permutation of mapping members at any depth *)
From Coq Require Import List String Ascii NArith Bool Lia Permutation.
From SV Require Import Common.Prelude Model.Json.
Import ListNotations.
Open Scope string_scope.

Section JsonInd.
Variable P : json -> Prop.
Hypothesis HNull : P JNull.
Hypothesis HBool : forall b, P (JBool b).
Hypothesis HNum : forall s, P (JNum s).
Hypothesis HStr : forall s, P (JStr s).
Hypothesis HArr : forall l, Forall P l -> P (JArr l).
Hypothesis HObj : forall m, Forall (fun kv => P (snd kv)) m -> P (JObj m).

Fixpoint json_ind' (j : json) : P j :=
  match j with
  | JNull => HNull
  | JBool b => HBool b
  | JNum s => HNum s
  | JStr s => HStr s
  | JArr l =>
      HArr l ((fix go (l : list json) : Forall P l :=
                 match l with [] => Forall_nil _ | a :: tl => Forall_cons _ (json_ind' a) (go tl) end) l)
  | JObj m =>
      HObj m ((fix go (m : list (string * json)) : Forall (fun kv => P (snd kv)) m :=
                 match m with [] => Forall_nil _ | kv :: tl => Forall_cons _ (json_ind' (snd kv)) (go tl) end) m)
  end.
End JsonInd.

(* ------------------------------------------------------------------ *)
(* named versions of the local list printers *)
Fixpoint tl_ (l : list json) (k : list tok) {struct l} : list tok :=
  match l with
  | [] => k
  | a :: r => match r with [] => toksk a k | _ :: _ => toksk a (TComma :: tl_ r k) end
  end.
Fixpoint tm_ (m : list (string * json)) (k : list tok) {struct m} : list tok :=
  match m with
  | [] => k
  | (key, v) :: r =>
      TStr key :: TColon :: match r with [] => toksk v k | _ :: _ => toksk v (TComma :: tm_ r k) end
  end.
Lemma toksk_arr l k : toksk (JArr l) k = TLB :: tl_ l (TRB :: k).
Proof. reflexivity. Qed.
Lemma toksk_obj m k : toksk (JObj m) k = TLC :: tm_ m (TRC :: k).
Proof. reflexivity. Qed.

Definition punct (t : tok) : bool :=
  match t with TLB | TRB | TLC | TRC | TComma | TColon => true | _ => false end.
Definition starter (t : tok) : bool :=
  match t with TRB | TRC | TComma | TColon => false | _ => true end.

Lemma toksk_head j k : exists t r, toksk j k = t :: r /\ starter t = true.
Proof.
  destruct j as [|b|s|s|l|m]; try destruct b; eexists; eexists; split; reflexivity.
Qed.

Lemma tl_head b r k : exists t q, tl_ (b :: r) k = t :: q /\ starter t = true.
Proof. destruct r; simpl; apply toksk_head. Qed.

(* ------------------------------------------------------------------ *)
(* prefix code *)
Lemma toksk_inj : forall a b k1 k2, toksk a k1 = toksk b k2 -> a = b /\ k1 = k2.
Proof.
  induction a as [|x|s|s|l IH|m IH] using json_ind'; intros b k1 k2 H.
  - destruct b as [|y|?|?|?|?]; try destruct y; simpl in H; try discriminate H.
    injection H; auto.
  - destruct b as [|y|?|?|?|?]; destruct x; try destruct y; simpl in H; try discriminate H;
      injection H; auto.
  - destruct b as [|y|?|?|?|?]; try destruct y; simpl in H; try discriminate H.
    injection H; intros; subst; auto.
  - destruct b as [|y|?|?|?|?]; try destruct y; simpl in H; try discriminate H.
    injection H; intros; subst; auto.
  - destruct b as [|y|?|?|l2|?]; try destruct y; try (simpl in H; discriminate H).
    rewrite !toksk_arr in H. injection H as H.
    assert (G : l = l2 /\ k1 = k2); [|destruct G; subst; auto].
    revert l2 H. induction IH as [|a r Ha Hr IHr]; intros l2 H.
    + destruct l2 as [|b r2]; simpl in H.
      * injection H; auto.
      * exfalso. destruct (tl_head b r2 (TRB :: k2)) as [t [q [E S]]].
        simpl in E. rewrite E in H. injection H as Ht _. subst t. discriminate S.
    + destruct l2 as [|b r2].
      * exfalso. destruct (tl_head a r (TRB :: k1)) as [t [q [E S]]].
        simpl in E, H. rewrite E in H. injection H as Ht _. subst t. discriminate S.
      * destruct r as [|a' r]; destruct r2 as [|b' r2]; simpl in H.
        -- apply Ha in H as [-> H]. injection H; auto.
        -- apply Ha in H as [_ H]. discriminate H.
        -- apply Ha in H as [_ H]. discriminate H.
        -- apply Ha in H as [-> H]. injection H as H.
           destruct (IHr (b' :: r2) H) as [E ->]. rewrite E. auto.
  - destruct b as [|y|?|?|?|m2]; try destruct y; try (simpl in H; discriminate H).
    rewrite !toksk_obj in H. injection H as H.
    assert (G : m = m2 /\ k1 = k2); [|destruct G; subst; auto].
    revert m2 H. induction IH as [|[ka a] r Ha Hr IHr]; intros m2 H.
    + destruct m2 as [|[kb b] r2]; simpl in H.
      * injection H; auto.
      * discriminate H.
    + destruct m2 as [|[kb b] r2]; [simpl in H; discriminate H|].
      simpl in Ha.
      destruct r as [|a' r]; destruct r2 as [|b' r2]; simpl in H; injection H as Hk H; subst kb.
      * apply Ha in H as [-> H]. injection H; auto.
      * apply Ha in H as [_ H]. discriminate H.
      * apply Ha in H as [_ H]. discriminate H.
      * apply Ha in H as [-> H]. injection H as H.
        destruct (IHr (b' :: r2) H) as [E ->]. rewrite E. auto.
Qed.

Theorem dumps_tokens_injective a b : dumps_tokens a = dumps_tokens b -> canon a = canon b.
Proof. unfold dumps_tokens. intros H. apply toksk_inj in H. tauto. Qed.

(* ------------------------------------------------------------------ *)
(* permutation invariance of the canonical form *)
Scheme jeq_m := Minimality for jeq Sort Prop
  with jeql_m := Minimality for jeql Sort Prop
  with jeqm_m := Minimality for jeqm Sort Prop.
Combined Scheme jeq_mutind from jeq_m, jeql_m, jeqm_m.

Definition cm (kv : string * json) : string * json := match kv with (k, v) => (k, canon v) end.
Definition mok (kv : string * json) : bool := match kv with (k, v) => str_ok k && jok v end.

Lemma canon_obj m : canon (JObj m) = JObj (ksort fst (map cm m)).
Proof. reflexivity. Qed.
Lemma jok_obj m : jok (JObj m) = nodupb (map fst m) && forallb mok m.
Proof. reflexivity. Qed.

Lemma mem_str_In x l : mem_str x l = true <-> In x l.
Proof.
  induction l as [|y r IH]; simpl; [split; [discriminate|tauto]|].
  rewrite orb_true_iff, IH, String.eqb_eq. split; intros [H|H]; auto.
Qed.

Lemma nodupb_NoDup l : nodupb l = true <-> NoDup l.
Proof.
  induction l as [|x r IH]; simpl; [split; [constructor|auto]|].
  rewrite andb_true_iff, negb_true_iff, IH. split.
  - intros [H1 H2]. constructor; auto. rewrite <- mem_str_In. congruence.
  - intros H. inversion H; subst. split; auto.
    destruct (mem_str x r) eqn:E; auto. apply mem_str_In in E. contradiction.
Qed.

Lemma nodup_fst_inj {B} (l : list (string * B)) : NoDup (map fst l) ->
  forall a b, In a l -> In b l -> fst a = fst b -> a = b.
Proof.
  induction l as [|x r IH]; simpl; intros ND a b Ia Ib E; [contradiction|].
  inversion ND as [|? ? Hn ND']; subst.
  destruct Ia as [->|Ia]; destruct Ib as [->|Ib]; auto.
  - exfalso. apply Hn. rewrite E. apply in_map; auto.
  - exfalso. apply Hn. rewrite <- E. apply in_map; auto.
Qed.

Lemma map_fst_cm m : map fst (map cm m) = map fst m.
Proof. induction m as [|[k v] r IH]; simpl; congruence. Qed.

Lemma forallb_perm {A} (f : A -> bool) l l' : Permutation l l' -> forallb f l = true -> forallb f l' = true.
Proof.
  intros Pm. rewrite !forallb_forall. intros H x Hx. apply H.
  eapply Permutation_in; [apply Permutation_sym; exact Pm|exact Hx].
Qed.

Lemma ksort_fst_perm {B} (l1 l2 : list (string * B)) :
  NoDup (map fst l1) -> Permutation l1 l2 -> ksort fst l1 = ksort fst l2.
Proof.
  intros ND Pm. apply (ksort_canonical_on _ fst (fun x => In x l1)); auto.
  - intros a b. apply nodup_fst_inj; auto.
  - rewrite Forall_forall; auto.
Qed.

(* key uniqueness at every depth is all that permutation invariance needs *)
Fixpoint knd (j : json) : bool :=
  match j with
  | JArr l => forallb knd l
  | JObj m => nodupb (map fst m) && forallb (fun kv => match kv with (k, v) => knd v end) m
  | _ => true
  end.
Definition mknd (kv : string * json) : bool := match kv with (k, v) => knd v end.
Lemma knd_obj m : knd (JObj m) = nodupb (map fst m) && forallb mknd m.
Proof. reflexivity. Qed.

Lemma jok_knd : forall j, jok j = true -> knd j = true.
Proof.
  induction j as [|x|s|s|l IH|m IH] using json_ind'; simpl; auto.
  - intros H. rewrite forallb_forall in *. rewrite Forall_forall in IH. auto.
  - intros H. apply andb_true_iff in H as [H0 H]. rewrite H0. simpl.
    rewrite forallb_forall in *. rewrite Forall_forall in IH.
    intros [k v] Hx. specialize (H _ Hx). specialize (IH _ Hx). simpl in *.
    apply andb_true_iff in H as [H1 H2]. auto.
Qed.

Lemma jeq_canon_all :
  (forall a b, jeq a b -> knd a = true -> canon a = canon b) /\
  (forall l l', jeql l l' -> forallb knd l = true -> map canon l = map canon l') /\
  (forall m m', jeqm m m' -> forallb mknd m = true -> map cm m = map cm m').
Proof.
  apply jeq_mutind; intros; auto.
  - simpl. f_equal. apply H0. exact H1.
  - rewrite knd_obj in H2. apply andb_true_iff in H2 as [ND FA].
    rewrite !canon_obj. f_equal.
    rewrite <- (H1 (forallb_perm _ _ _ H FA)).
    apply ksort_fst_perm.
    + rewrite map_fst_cm. apply nodupb_NoDup; auto.
    + apply Permutation_map; auto.
  - simpl in *. apply andb_true_iff in H3 as [Ha Hl]. f_equal; auto.
  - simpl in *. apply andb_true_iff in H3 as [Ha Hl].
    f_equal; auto. f_equal; auto.
Qed.

Theorem jeq_canon a b : knd a = true -> jeq a b -> canon a = canon b.
Proof. intros W E. apply jeq_canon_all; auto. Qed.

Theorem dumps_perm_invariant a b : knd a = true -> jeq a b -> dumps_sorted a = dumps_sorted b.
Proof. intros W E. unfold dumps_sorted, dumps_tokens. rewrite (jeq_canon a b W E). reflexivity. Qed.

Lemma jeq_refl_all : forall a, jeq a a.
Proof.
  induction a as [|x|s|s|l IH|m IH] using json_ind'; try constructor.
  - induction IH; constructor; auto.
  - apply jeq_obj with (m1 := m); auto. induction IH as [|[k v] r]; constructor; auto.
Qed.

Lemma jeqm_refl m : jeqm m m.
Proof. induction m as [|[k v] r]; constructor; auto. apply jeq_refl_all. Qed.

(* a pure permutation of the members of one mapping *)
Lemma jeq_perm m m' : Permutation m m' -> jeq (JObj m) (JObj m').
Proof. intros Pm. apply jeq_obj with (m1 := m'); auto. apply jeqm_refl. Qed.

(* ------------------------------------------------------------------ *)
(* the rendering of well-lexed token lists is unambiguous *)
Definition tok_ok (t : tok) : bool :=
  match t with TNum s => numlit_ok s | TStr s => str_ok s | _ => true end.
Definition headp (k : list tok) : bool := match k with [] => true | t :: _ => punct t end.
Fixpoint lexwf (l : list tok) : bool :=
  match l with
  | [] => true
  | t :: r => tok_ok t && (match t with TNum _ => headp r | _ => true end) && lexwf r
  end.

Definition endish (k : string) : bool :=
  match k with EmptyString => true | String c _ => negb (num_char c) end.

Lemma num_split : forall s1 s2 k1 k2,
  str_forall num_char s1 = true -> str_forall num_char s2 = true ->
  endish k1 = true -> endish k2 = true -> s1 ++ k1 = s2 ++ k2 -> s1 = s2 /\ k1 = k2.
Proof.
  induction s1 as [|a s1 IH]; intros [|b s2] k1 k2 H1 H2 E1 E2 E; simpl in *; auto.
  - subst k1. simpl in E1. apply andb_true_iff in H2 as [H2 _]. rewrite H2 in E1. discriminate.
  - subst k2. simpl in E2. apply andb_true_iff in H1 as [H1 _]. rewrite H1 in E2. discriminate.
  - injection E as -> E. apply andb_true_iff in H1 as [_ H1]. apply andb_true_iff in H2 as [_ H2].
    destruct (IH _ _ _ H1 H2 E1 E2 E); subst; auto.
Qed.

Lemma render_punct_endish t r : punct t = true -> endish (render (t :: r)) = true.
Proof. destruct t; simpl; intros H; try discriminate H; reflexivity. Qed.

Lemma headp_endish r : headp r = true -> endish (render r) = true.
Proof. destruct r as [|t r]; simpl; auto. apply render_punct_endish. Qed.

Lemma numlit_first s : numlit_ok s = true ->
  exists c s', s = String c s' /\ num_first c = true /\ str_forall num_char s = true.
Proof.
  destruct s as [|c s']; simpl; [discriminate|]. intros H.
  apply andb_true_iff in H as [H1 H2]. eauto.
Qed.

Definition qc : ascii := ascii_of_nat 34.
Lemma str_ok_noquote s : str_ok s = true -> str_forall (fun x => negb (Ascii.eqb x qc)) s = true.
Proof.
  apply str_forall_impl. intros c H. unfold char_ok in H.
  apply negb_true_iff. apply Ascii.eqb_neq. intro E. subst c. vm_compute in H. discriminate.
Qed.

Lemma escape_ok s : str_ok s = true -> escape s = s.
Proof.
  induction s as [|c r IH]; simpl; auto. intros H. apply andb_true_iff in H as [Hc Hr].
  unfold char_ok in Hc. apply andb_true_iff in Hc as [Hc H92]. apply andb_true_iff in Hc as [_ H34].
  apply negb_true_iff in H92, H34. rewrite H92, H34. simpl. rewrite IH; auto.
Qed.

Lemma num_first_not_quote c : num_first c = true -> c <> qc.
Proof. intros H E. subst. vm_compute in H. discriminate. Qed.

Ltac fixedtok H IH :=
  simpl in H; try discriminate H;
  try (injection H as H; f_equal; apply IH; auto).

Theorem render_inj : forall t1 t2, lexwf t1 = true -> lexwf t2 = true ->
  render t1 = render t2 -> t1 = t2.
Proof.
  induction t1 as [|a r1 IH]; intros [|b r2] W1 W2 H; auto.
  - exfalso. simpl in W2. apply andb_true_iff in W2 as [W2 _]. apply andb_true_iff in W2 as [W2 _].
    destruct b; simpl in H; try discriminate H.
    + apply numlit_first in W2 as [c [s' [-> _]]]. discriminate H.
  - exfalso. simpl in W1. apply andb_true_iff in W1 as [W1 _]. apply andb_true_iff in W1 as [W1 _].
    destruct a; simpl in H; try discriminate H.
    + apply numlit_first in W1 as [c [s' [-> _]]]. discriminate H.
  - simpl in W1, W2.
    apply andb_true_iff in W1 as [W1 L1]. apply andb_true_iff in W1 as [Oa Fa].
    apply andb_true_iff in W2 as [W2 L2]. apply andb_true_iff in W2 as [Ob Fb].
    specialize (IH r2 L1 L2).
    destruct a as [| | |sa|sa| | | | | |]; destruct b as [| | |sb|sb| | | | | |];
      try (simpl in H; try discriminate H; injection H as H; f_equal; apply IH; exact H);
      try (exfalso; simpl in Oa; apply numlit_first in Oa as [c [s' [-> [Hc _]]]];
           simpl in H; injection H as Hch _; subst c; vm_compute in Hc; discriminate Hc);
      try (exfalso; simpl in Ob; apply numlit_first in Ob as [c [s' [-> [Hc _]]]];
           simpl in H; injection H as Hch _; subst c; vm_compute in Hc; discriminate Hc).
    + (* num / num *)
      simpl in Oa, Ob, H.
      apply numlit_first in Oa as [ca [sa' [Ea [_ Na]]]].
      apply numlit_first in Ob as [cb [sb' [Eb [_ Nb]]]].
      destruct (num_split sa sb (render r1) (render r2) Na Nb (headp_endish _ Fa) (headp_endish _ Fb) H)
        as [-> Hr].
      f_equal. apply IH. exact Hr.
    + (* str / str *)
      simpl in Oa, Ob, H. injection H as H.
      rewrite (escape_ok _ Oa), (escape_ok _ Ob) in H.
      rewrite !append_assoc in H.
      destruct (delim_split qc sa sb _ _ (str_ok_noquote _ Oa) (str_ok_noquote _ Ob) H) as [-> Hr].
      f_equal. apply IH. exact Hr.
Qed.

(* token lists of JSON values of the fragment are well-lexed *)
Fixpoint jlex (j : json) : bool :=
  match j with
  | JNull | JBool _ => true
  | JNum s => numlit_ok s
  | JStr s => str_ok s
  | JArr l => forallb jlex l
  | JObj m => forallb (fun kv => match kv with (k, v) => str_ok k && jlex v end) m
  end.
Definition mlex (kv : string * json) : bool := match kv with (k, v) => str_ok k && jlex v end.

Lemma jok_jlex : forall j, jok j = true -> jlex j = true.
Proof.
  induction j as [|x|s|s|l IH|m IH] using json_ind'; simpl; auto.
  - intros H. rewrite forallb_forall in *. rewrite Forall_forall in IH. auto.
  - intros H. apply andb_true_iff in H as [_ H]. rewrite forallb_forall in *. rewrite Forall_forall in IH.
    intros [k v] Hx. specialize (H _ Hx). specialize (IH _ Hx). simpl in *.
    apply andb_true_iff in H as [H1 H2]. rewrite H1. simpl. auto.
Qed.

Lemma jlex_canon : forall j, jlex j = true -> jlex (canon j) = true.
Proof.
  induction j as [|x|s|s|l IH|m IH] using json_ind'; simpl; auto.
  - intros H. rewrite forallb_forall in *. rewrite Forall_forall in IH.
    intros x Hx. apply in_map_iff in Hx as [y [<- Hy]]. auto.
  - intros H. eapply forallb_perm; [apply ksort_perm|].
    rewrite forallb_forall in *. rewrite Forall_forall in IH.
    intros x Hx. apply in_map_iff in Hx as [[k v] [<- Hy]].
    specialize (H _ Hy). specialize (IH _ Hy). simpl in *.
    apply andb_true_iff in H as [H1 H2]. rewrite H1. simpl. auto.
Qed.

Lemma lexwf_toksk : forall j k, jlex j = true -> lexwf k = true -> headp k = true ->
  lexwf (toksk j k) = true.
Proof.
  induction j as [|x|s|s|l IH|m IH] using json_ind'; intros k J L Hp.
  - simpl. auto.
  - destruct x; simpl; auto.
  - simpl in *. rewrite J, Hp, L. reflexivity.
  - simpl in *. rewrite J, L. reflexivity.
  - rewrite toksk_arr. simpl in J |- *.
    assert (G : forall k', lexwf k' = true -> headp k' = true -> lexwf (tl_ l k') = true).
    { clear k L Hp. induction IH as [|a r Ha Hr IHr]; intros k' L Hp; simpl; auto.
      simpl in J. apply andb_true_iff in J as [Ja Jr].
      destruct r as [|a' r]; [apply Ha; auto|].
      apply Ha; auto. simpl. apply IHr; auto. }
    apply G; auto.
  - rewrite toksk_obj. simpl in J |- *.
    assert (G : forall k', lexwf k' = true -> headp k' = true -> lexwf (tm_ m k') = true).
    { clear k L Hp. induction IH as [|[ka a] r Ha Hr IHr]; intros k' L Hp; simpl; auto.
      simpl in J, Ha. apply andb_true_iff in J as [Ja Jr]. apply andb_true_iff in Ja as [Jk Ja].
      rewrite Jk. simpl.
      destruct r as [|a' r]; [apply Ha; auto|].
      apply Ha; auto. simpl. apply IHr; auto. }
    apply G; auto.
Qed.

(* character-level injectivity of json.dumps(sort_keys=True, separators=(",",":")) on the fragment *)
Theorem dumps_sorted_inj a b : jok a = true -> jok b = true ->
  dumps_sorted a = dumps_sorted b -> canon a = canon b.
Proof.
  intros Wa Wb H. apply dumps_tokens_injective. unfold dumps_sorted in H.
  apply render_inj; auto; unfold dumps_tokens; apply lexwf_toksk; auto;
    apply jlex_canon, jok_jlex; auto.
Qed.

(* appending a prefix (the hash domain separators) keeps injectivity *)
Lemma prefixed_dumps_inj p a b : jok a = true -> jok b = true ->
  p ++ dumps_sorted a = p ++ dumps_sorted b -> canon a = canon b.
Proof. intros Wa Wb H. apply append_inj_l in H. apply dumps_sorted_inj; auto. Qed.
