(* Proofs/Launch.v — lemmas about Model/Launch.v *)
From Coq Require Import List String ZArith NArith Bool Arith Lia Permutation.
From SV Require Import Common.Prelude Model.Pipeline Model.Launch.
Import ListNotations.
Open Scope string_scope.
Open Scope list_scope.

(* ---- run bodies contain node records and one end record only --------------------------------- *)
Definition body_ev (e : ev) : Prop := match e with Ser _ _ | PEnd 0 _ => True | _ => False end.

Lemma body_events p s : Forall body_ev (body p s).
Proof.
  unfold body. destruct (impl_run p s); try constructor.
  - apply Forall_app; split; [|repeat constructor]. apply Forall_forall. intros e He.
    apply in_map_iff in He as [i [<- _]]. exact I.
  - apply Forall_app; split; [|repeat constructor]. apply Forall_forall. intros x He.
    apply in_map_iff in He as [i [<- _]]. exact I.
Qed.

Lemma map_id_on {A} (f : A -> A) (P : A -> Prop) l :
  (forall x, P x -> f x = x) -> Forall P l -> map f l = l.
Proof. intros Hf. induction 1; simpl; [reflexivity|]. rewrite Hf, IHForall; auto. Qed.

Lemma body_strip p s : map strip_fk_ev (body p s) = body p s.
Proof. apply (map_id_on _ body_ev); [|apply body_events]. intros [] Hx; simpl in *; auto; contradiction. Qed.
Lemma body_set_fk fk p s : map (set_fk fk) (body p s) = body p s.
Proof. apply (map_id_on _ body_ev); [|apply body_events]. intros [] Hx; simpl in *; auto; contradiction. Qed.
Lemma body_norm_seq n p s : map norm_ev (map (seq_ev n) (body p s)) = body p s.
Proof.
  rewrite map_map. apply (map_id_on _ body_ev); [|apply body_events].
  intros [] Hx; simpl in *; try contradiction; auto. destruct seq; [reflexivity|contradiction].
Qed.
Lemma body_no_rs p s : filter is_rs (body p s) = [].
Proof.
  pose proof (body_events p s) as Hb. induction Hb; simpl; auto.
  destruct x; simpl in *; try contradiction; auto.
Qed.
Lemma body_no_pstart p s : filter is_pstart (body p s) = [].
Proof.
  pose proof (body_events p s) as Hb. induction Hb; simpl; auto.
  destruct x; simpl in *; try contradiction; auto.
Qed.

Section Hashed.
Variable H : string -> string.

Lemma strip_standalone pl t c : strip_fk (standalone H pl t c) = standalone H pl t c.
Proof.
  unfold standalone, strip_fk; simpl. f_equal. destruct t; simpl; [|reflexivity]. now rewrite body_strip.
Qed.

Lemma strip_tag o i c r : strip_fk (tag o i c r) = strip_fk r.
Proof.
  unfold tag. destruct (o_active o); [|reflexivity]. unfold strip_fk; simpl. f_equal.
  rewrite map_map. apply map_ext. intros []; reflexivity.
Qed.

Lemma tag_outcome o i c r : ro_outcome (tag o i c r) = ro_outcome r.
Proof. unfold tag. destruct (o_active o); reflexivity. Qed.

(* every started run of the Spec launch is the tagged standalone run of its own context *)
Lemma spec_runs_nth pl o : forall cs i0 j r,
  nth_error (spec_runs H pl o i0 cs) j = Some r ->
  exists c, nth_error cs j = Some c /\
            r = tag o (i0 + j) (merge (o_cli o) c) (standalone H pl (o_traced o) (merge (o_cli o) c)).
Proof.
  induction cs as [|c cs IH]; intros i0 j r Hn; simpl in Hn.
  - destruct j; discriminate.
  - destruct j as [|j]; simpl in Hn.
    + injection Hn as <-. exists c. split; [reflexivity|]. now rewrite Nat.add_0_r.
    + destruct (is_done _) in Hn.
      * apply IH in Hn as [c' [Hc Hr]]. exists c'. split; [exact Hc|]. now rewrite <- plus_n_Sm.
      * destruct j; discriminate.
Qed.

Lemma spec_runs_length pl o : forall cs i0, List.length (spec_runs H pl o i0 cs) <= List.length cs.
Proof. induction cs; intros; simpl; [lia|]. destruct (is_done _); simpl; [specialize (IHcs (S i0))|]; lia. Qed.

Lemma spec_runs_strip pl o : forall cs i0,
  map strip_fk (spec_runs H pl o i0 cs) =
  map (standalone H pl (o_traced o)) (firstn (List.length (spec_runs H pl o i0 cs)) (map (merge (o_cli o)) cs)).
Proof.
  induction cs as [|c cs IH]; intros i0; simpl; [reflexivity|].
  rewrite strip_tag, strip_standalone. f_equal.
  destruct (is_done _); simpl; [apply IH|reflexivity].
Qed.

(* shape: all started runs but the last completed; the launch stops at the first failing run *)
Lemma all_done_cons r rs : all_done (r :: rs) = is_done (ro_outcome r) && all_done rs.
Proof. reflexivity. Qed.
Lemma completed_cons r rs : completed (r :: rs) = (if is_done (ro_outcome r) then 1 else 0) + completed rs.
Proof. unfold completed. simpl. destruct (is_done (ro_outcome r)); reflexivity. Qed.

Lemma spec_runs_shape pl o : forall cs i0,
  all_done (removelast (spec_runs H pl o i0 cs)) = true /\
  (all_done (spec_runs H pl o i0 cs) = true -> List.length (spec_runs H pl o i0 cs) = List.length cs) /\
  (all_done (spec_runs H pl o i0 cs) = false -> completed (spec_runs H pl o i0 cs) = List.length (spec_runs H pl o i0 cs) - 1).
Proof.
  induction cs as [|c cs IH]; intros i0; [simpl; repeat split; auto; discriminate|].
  cbn [spec_runs].
  set (r := tag o i0 (merge (o_cli o) c) (standalone H pl (o_traced o) (merge (o_cli o) c))).
  destruct (is_done (ro_outcome r)) eqn:Hd.
  - destruct (IH (S i0)) as [A [B C]].
    set (rs := spec_runs H pl o (S i0) cs) in *.
    rewrite all_done_cons, completed_cons, Hd. cbn [andb length]. repeat split.
    + destruct rs as [|x rs']; [reflexivity|].
      change (removelast (r :: x :: rs')) with (r :: removelast (x :: rs')).
      rewrite all_done_cons, Hd. exact A.
    + intros Hall. simpl. f_equal. apply B, Hall.
    + intros Hall. rewrite (C Hall). destruct rs; [discriminate|]. simpl. lia.
  - rewrite all_done_cons, completed_cons, Hd. cbn. repeat split; auto. discriminate.
Qed.

Lemma completed_all_done rs : all_done rs = true -> completed rs = List.length rs.
Proof.
  unfold all_done, completed. induction rs; simpl; auto.
  intros Hx. apply andb_true_iff in Hx as [-> Hx]. simpl. f_equal. auto.
Qed.

(* if no planned run fails, every run is started *)
Lemma spec_runs_all pl o : forall cs i0,
  (forall c, In c cs -> is_done (impl_run (p_nodes pl) (DNone, merge (o_cli o) c)) = true) ->
  List.length (spec_runs H pl o i0 cs) = List.length cs.
Proof.
  induction cs as [|c cs IH]; intros i0 Hall; simpl; [reflexivity|].
  rewrite tag_outcome. simpl. rewrite (Hall c) by (left; reflexivity). simpl. f_equal. apply IH.
  intros c' Hc. apply Hall. right; exact Hc.
Qed.

(* run events never contain run-space records; each run has exactly one pipeline_start, first *)
Lemma run_events_no_rs pl o : forall cs i0, filter is_rs (flat_map ro_events (spec_runs H pl o i0 cs)) = [].
Proof.
  induction cs as [|c cs IH]; intros i0; simpl; [reflexivity|].
  rewrite filter_app.
  assert (E : filter is_rs (ro_events (tag o i0 (merge (o_cli o) c) (standalone H pl (o_traced o) (merge (o_cli o) c)))) = []).
  { unfold tag, standalone. destruct (o_active o), (o_traced o); simpl; auto.
    - rewrite body_set_fk. apply body_no_rs.
    - apply body_no_rs. }
  rewrite E. simpl. destruct (is_done _); simpl; [apply IH|reflexivity].
Qed.

Lemma tagged_events pl o i c : o_active o = true -> o_traced o = true ->
  ro_events (tag o i c (standalone H pl (o_traced o) c)) =
  PStart 0 (H (p_canon pl)) (Some (o_launch o, o_attempt o, i, c)) :: body (p_nodes pl) (DNone, c).
Proof. intros Ha Ht. unfold tag, standalone. rewrite Ha, Ht. simpl. now rewrite body_set_fk. Qed.

(* ---- Impl refines Spec ------------------------------------------------------------------------------- *)
Definition history_free (v : variant) (pl : pipe) : Prop :=
  v_enrich_on_copy v = true \/ p_canon pl = p_canon_enriched pl.

Lemma impl_plid_ok v pl st : history_free v pl -> impl_plid H v pl st = H (p_canon pl).
Proof.
  intros [Hv|Hc]; unfold impl_plid; [now rewrite Hv|].
  destruct (v_enrich_on_copy v); auto. destruct (i_enriched st); auto. now rewrite Hc.
Qed.

Lemma impl_one_norm v pl o st i c : history_free v pl ->
  norm_run (fst (impl_one H v pl o st i c)) = tag o i c (standalone H pl (o_traced o) c).
Proof.
  intros Hf. unfold impl_one, tag, standalone. destruct (o_traced o); simpl.
  - unfold norm_run; simpl. rewrite body_norm_seq, impl_plid_ok by exact Hf.
    destruct (o_active o); simpl; [now rewrite body_set_fk|reflexivity].
  - destruct (o_active o); reflexivity.
Qed.

Lemma norm_run_outcome r : ro_outcome (norm_run r) = ro_outcome r.
Proof. reflexivity. Qed.

Lemma impl_runs_norm v pl o : history_free v pl -> v_stop_after_failure v = true ->
  forall cs st i, map norm_run (fst (impl_runs H v pl o st i cs)) = spec_runs H pl o i cs.
Proof.
  intros Hf Hs. induction cs as [|c cs IH]; intros st i; simpl; [reflexivity|].
  pose proof (impl_one_norm v pl o st i (merge (o_cli o) c) Hf) as E.
  destruct (impl_one H v pl o st i (merge (o_cli o) c)) as [r st1] eqn:E1. simpl in E.
  rewrite Hs. simpl. rewrite orb_false_r.
  assert (Ho : ro_outcome r = ro_outcome (tag o i (merge (o_cli o) c) (standalone H pl (o_traced o) (merge (o_cli o) c)))).
  { rewrite <- E. reflexivity. }
  rewrite <- Ho.
  destruct (is_done (ro_outcome r)).
  - specialize (IH st1 (S i)). destruct (impl_runs H v pl o st1 (S i) cs) as [rs st2]. simpl in *. now rewrite E, IH.
  - simpl. now rewrite E.
Qed.

Lemma completed_norm rs : completed (map norm_run rs) = completed rs.
Proof. unfold completed. induction rs; simpl; auto. destruct (is_done (ro_outcome a)); simpl; auto. Qed.
Lemma all_done_norm rs : all_done (map norm_run rs) = all_done rs.
Proof. unfold all_done. induction rs; simpl; auto. now rewrite IHrs. Qed.

Theorem impl_refines_spec v pl o cs : history_free v pl -> v_stop_after_failure v = true ->
  norm_launch (impl_launch H v pl o cs) = spec_launch H pl o cs.
Proof.
  intros Hf Hs. unfold impl_launch, spec_launch, norm_launch.
  pose proof (impl_runs_norm v pl o Hf Hs cs (mkI false (if o_active o && o_traced o then 1 else 0)) 0) as E.
  destruct (impl_runs H v pl o _ 0 cs) as [rs st]. simpl in *.
  rewrite <- E. unfold start_ev, end_ev, exit_of. rewrite completed_norm, all_done_norm.
  destruct (o_active o && o_traced o); simpl; reflexivity.
Qed.
End Hashed.

(* ---- run-space identifiers ------------------------------------------------------------------------------ *)
Lemma find_map_app {A B} (f : A -> option B) a b :
  find_map f (a ++ b) = match find_map f a with Some w => Some w | None => find_map f b end.
Proof. induction a; simpl; auto. destruct (f a); auto. Qed.

Lemma find_map_swap {A B} (f : A -> option B) a x y b :
  f x = None \/ f y = None -> find_map f (a ++ x :: y :: b) = find_map f (a ++ y :: x :: b).
Proof.
  intros Hxy. rewrite !find_map_app. destruct (find_map f a); auto. simpl.
  destruct Hxy as [E|E]; rewrite E; destruct (f x), (f y); try discriminate; auto.
Qed.

Lemma find_map_replace {A B} (f : A -> option B) a x x' b :
  f x = f x' -> find_map f (a ++ x :: b) = find_map f (a ++ x' :: b).
Proof. intros E. rewrite !find_map_app. simpl. now rewrite E. Qed.

Lemma parse_block_swap a x y b : bkey x <> bkey y -> parse_block (a ++ x :: y :: b) = parse_block (a ++ y :: x :: b).
Proof.
  intros Hk. unfold parse_block.
  rewrite !(find_map_swap _ a x y b); [reflexivity|..]; destruct x, y; simpl in *; auto; congruence.
Qed.

Lemma nodup_key_inj {V} (m : list (string * V)) : NoDup (map fst m) ->
  forall a b, In a m -> In b m -> fst a = fst b -> a = b.
Proof.
  induction m as [|h m IH]; intros Hn a b Ha Hb E; [destruct Ha|].
  inversion Hn as [|? ? Hnot Hn']; subst. destruct Ha as [<-|Ha], Hb as [<-|Hb]; auto.
  - exfalso. apply Hnot. rewrite E. apply in_map, Hb.
  - exfalso. apply Hnot. rewrite <- E. apply in_map, Ha.
Qed.

Lemma ksort_perm_nodup {V W} (g : string * V -> string * W) (l l' : list (string * V)) :
  (forall p, fst (g p) = fst p) -> Permutation l l' -> NoDup (map fst l) ->
  ksort fst (map g l) = ksort fst (map g l').
Proof.
  intros Hg Hp Hn.
  apply (ksort_canonical_on _ fst (fun x => In x (map g l))).
  - apply nodup_key_inj. rewrite map_map. erewrite map_ext; [exact Hn|]. intros p; apply Hg.
  - apply Forall_forall. auto.
  - apply Permutation_map, Hp.
Qed.

Lemma block_json_cos blk blk' : bcos blk blk' -> block_json (parse_block blk) = block_json (parse_block blk').
Proof.
  intros [a x y b Hk | a l l' b Hp Hn].
  - now rewrite (parse_block_swap a x y b Hk).
  - unfold parse_block, block_json. rewrite !find_map_app. simpl.
    destruct (find_map (fun f : bfield => match f with BContext s => Some s | _ => None end) a); simpl; [reflexivity|].
    rewrite (ksort_perm_nodup (fun p : string * list jv => (fst p, JArr (snd p))) l l') by auto. reflexivity.
Qed.

Lemma parse_swap a x y b : rkey x <> rkey y -> parse (a ++ x :: y :: b) = parse (a ++ y :: x :: b).
Proof.
  intros Hk. unfold parse.
  rewrite !(find_map_swap _ a x y b); [reflexivity|..]; destruct x, y; simpl in *; auto; congruence.
Qed.

Theorem cfg_json_cosmetic r r' : cosmetic r r' -> cfg_json (parse r) = cfg_json (parse r').
Proof.
  induction 1 as [r | r1 r2 r3 _ IH1 _ IH2 | a x y b Hk | a p blk blk' q b Hc].
  - reflexivity.
  - congruence.
  - now rewrite (parse_swap a x y b Hk).
  - unfold parse, cfg_json.
    rewrite !(find_map_replace _ a (RBlocks (p ++ blk :: q)) (RBlocks (p ++ blk' :: q)) b) by reflexivity.
    f_equal. f_equal. f_equal. f_equal.
    rewrite !find_map_app. simpl. destruct (find_map _ a); [reflexivity|]. simpl.
    rewrite !map_app. simpl. now rewrite (block_json_cos blk blk' Hc).
Qed.

(* fingerprints *)
Lemma fp_json_inj f g : fp_json f = fp_json g -> f = g.
Proof. destruct f as [[[a b] c] d], g as [[[a' b'] c'] d']. simpl. intros E. injection E. intros; subst. reflexivity. Qed.

Lemma map_inj {A B} (f : A -> B) : (forall a b, f a = f b -> a = b) -> forall l l', map f l = map f l' -> l = l'.
Proof.
  intros Hf. induction l; intros [|b l'] E; simpl in E; try discriminate; auto.
  injection E as E1 E2. f_equal; auto.
Qed.

Lemma rsm_json_inj s fps fps' : rsm_json s fps = rsm_json s fps' -> fps = fps'.
Proof. unfold rsm_json. intros E. injection E as E. apply (map_inj _ fp_json_inj), E. Qed.

Definition fp_eq_dec : forall a b : fingerprint, {a = b} + {a <> b}.
Proof. repeat decide equality. Defined.

(* ---- statements used by Properties/C09.v -------------------------------------------------------------------- *)
Section Statements.
Variable H : string -> string.

Lemma impl_launch_nth v pl o cs i r : history_free v pl -> v_stop_after_failure v = true ->
  nth_error (l_runs (impl_launch H v pl o cs)) i = Some r ->
  exists c, nth_error cs i = Some c /\
            norm_run r = tag o i (merge (o_cli o) c) (standalone H pl (o_traced o) (merge (o_cli o) c)).
Proof.
  intros Hf Hs Hn.
  pose proof (impl_refines_spec H v pl o cs Hf Hs) as E.
  apply (f_equal l_runs) in E. unfold norm_launch in E; simpl in E.
  assert (Hn' : nth_error (map norm_run (l_runs (impl_launch H v pl o cs))) i = Some (norm_run r)).
  { rewrite nth_error_map, Hn. reflexivity. }
  rewrite E in Hn'. unfold spec_launch in Hn'; simpl in Hn'.
  apply spec_runs_nth in Hn' as [c [Hc Hr]]. exists c. split; [exact Hc|exact Hr].
Qed.

Lemma no_leak_impl v pl o cs cs' i j r r' : history_free v pl -> v_stop_after_failure v = true ->
  nth_error (l_runs (impl_launch H v pl o cs)) i = Some r ->
  nth_error (l_runs (impl_launch H v pl o cs')) j = Some r' ->
  nth_error cs i = nth_error cs' j ->
  strip_fk (norm_run r) = strip_fk (norm_run r').
Proof.
  intros Hf Hs Hr Hr' E.
  destruct (impl_launch_nth v pl o cs i r Hf Hs Hr) as [c [Hc ->]].
  destruct (impl_launch_nth v pl o cs' j r' Hf Hs Hr') as [c' [Hc' ->]].
  rewrite !strip_tag. rewrite Hc, Hc' in E. injection E as ->. reflexivity.
Qed.

Lemma launch_is_map_spec pl o cs :
  map strip_fk (l_runs (spec_launch H pl o cs)) =
    map (standalone H pl (o_traced o)) (firstn (List.length (l_runs (spec_launch H pl o cs))) (map (merge (o_cli o)) cs))
  /\ List.length (l_runs (spec_launch H pl o cs)) <= List.length cs
  /\ ((forall c, In c cs -> is_done (impl_run (p_nodes pl) (DNone, merge (o_cli o) c)) = true) ->
      map strip_fk (l_runs (spec_launch H pl o cs)) = map (standalone H pl (o_traced o)) (map (merge (o_cli o)) cs)).
Proof.
  unfold spec_launch; simpl. repeat split.
  - apply spec_runs_strip.
  - apply spec_runs_length.
  - intros Hall. rewrite spec_runs_strip, (spec_runs_all H pl o cs 0 Hall).
    rewrite <- (map_length (merge (o_cli o)) cs), firstn_all. reflexivity.
Qed.

Lemma bracket_spec pl o cs : o_active o = true -> o_traced o = true ->
  let L := spec_launch H pl o cs in
  flat L = RSStart 0 (o_spec_id o) (o_launch o) (o_attempt o) (o_combine o) (List.length cs) (o_maxr o) (o_inputs_id o)
           :: flat_map ro_events (l_runs L)
           ++ [RSEnd 0 (o_launch o) (o_attempt o) (List.length cs) (completed (l_runs L)) (if all_done (l_runs L) then "" else "failed")]
  /\ filter is_rs (flat_map ro_events (l_runs L)) = []
  /\ all_done (removelast (l_runs L)) = true
  /\ (all_done (l_runs L) = true -> List.length (l_runs L) = List.length cs /\ completed (l_runs L) = List.length cs /\ l_exit L = 0%Z)
  /\ (all_done (l_runs L) = false ->
      completed (l_runs L) = List.length (l_runs L) - 1 /\ List.length (l_runs L) <= List.length cs /\ l_exit L = 4%Z).
Proof.
  intros Ha Ht. unfold spec_launch, flat, start_ev, end_ev, exit_of; simpl. rewrite Ha, Ht; simpl.
  destruct (spec_runs_shape H pl o cs 0) as [A [B C]].
  repeat split.
  - apply run_events_no_rs.
  - exact A.
  - apply B, H0.
  - rewrite completed_all_done by exact H0. apply B, H0.
  - now rewrite H0.
  - apply C, H0.
  - apply spec_runs_length.
  - now rewrite H0.
Qed.

Lemma fk_fields_spec pl o cs i r : o_active o = true -> o_traced o = true ->
  nth_error (l_runs (spec_launch H pl o cs)) i = Some r ->
  exists c, nth_error cs i = Some c /\
    ro_events r = PStart 0 (H (p_canon pl)) (Some (o_launch o, o_attempt o, i, merge (o_cli o) c))
                  :: body (p_nodes pl) (DNone, merge (o_cli o) c)
    /\ filter is_pstart (body (p_nodes pl) (DNone, merge (o_cli o) c)) = [].
Proof.
  intros Ha Ht Hn. unfold spec_launch in Hn; simpl in Hn.
  apply spec_runs_nth in Hn as [c [Hc ->]]. exists c. split; [exact Hc|]. split.
  - simpl. apply tagged_events; assumption.
  - apply body_no_pstart.
Qed.
End Statements.
