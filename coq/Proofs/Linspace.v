From Coq Require Import List ZArith Bool Lia Arith.
From Coq Require Import PrimFloat.
Import ListNotations.
From SV Require Import Model.Linspace.

Lemma set_last_length {A} (l : list A) x : length (set_last l x) = length l.
Proof.
  induction l as [|h tl IH]; simpl; auto. destruct tl as [|h2 tl2]; simpl in *; auto.
Qed.

Lemma set_last_last {A} (l : list A) x d : l <> [] -> last (set_last l x) d = x.
Proof.
  induction l as [|h tl IH]; [congruence|]. intros _.
  destruct tl as [|h2 tl2]; [reflexivity|].
  change (set_last (h :: h2 :: tl2) x) with (h :: set_last (h2 :: tl2) x).
  assert (E : set_last (h2 :: tl2) x <> []).
  { intros C. apply (f_equal (@length A)) in C. rewrite set_last_length in C. discriminate. }
  destruct (set_last (h2 :: tl2) x) as [|a b] eqn:S; [congruence|].
  change (last (h :: a :: b) d) with (last (a :: b) d). apply IH. discriminate.
Qed.

Lemma set_last_nth {A} (l : list A) x d i : S i < length l -> nth i (set_last l x) d = nth i l d.
Proof.
  revert i. induction l as [|h tl IH]; intros i Hi; [simpl in Hi; lia|].
  destruct tl as [|h2 tl2]; [simpl in Hi; lia|].
  change (set_last (h :: h2 :: tl2) x) with (h :: set_last (h2 :: tl2) x).
  destruct i as [|j]; [reflexivity|]. simpl nth. apply IH. simpl in *. lia.
Qed.

Theorem linspace_length lo hi num e : length (linspace lo hi num e) = num.
Proof.
  unfold linspace.
  assert (L : forall f : float -> float, length (map f (map fl_of_nat (seq 0 num))) = num).
  { intros f. rewrite !map_length, seq_length. reflexivity. }
  destruct (e && Nat.ltb 1 num); rewrite ?set_last_length, map_length;
  destruct (if e then (num - 1)%nat else num); try apply L;
  destruct (PrimFloat.eqb _ zero); apply L.
Qed.

Theorem linspace_endpoint lo hi num d : 1 < num -> last (linspace lo hi num true) d = hi.
Proof.
  intros H. unfold linspace. simpl andb. apply Nat.ltb_lt in H. rewrite H.
  apply set_last_last. intros C. apply (f_equal (@length float)) in C.
  rewrite map_length in C. apply Nat.ltb_lt in H.
  destruct (num - 1)%nat; [|destruct (PrimFloat.eqb _ zero)]; rewrite !map_length, seq_length in C; simpl in C; lia.
Qed.

(* every element except an overwritten last one is the documented formula *)
Theorem linspace_nth lo hi num e i d :
  i < num -> (e = true -> S i < num \/ num = 1%nat) ->
  nth i (linspace lo hi num e) d = linspace_elem lo hi (if e then (num - 1)%nat else num) i.
Proof.
  intros Hi He. unfold linspace, linspace_elem.
  set (dv := if e then (num - 1)%nat else num).
  assert (N : forall f : float -> float,
              nth i (map (fun y => PrimFloat.add y lo) (map f (map fl_of_nat (seq 0 num)))) d = PrimFloat.add (f (fl_of_nat i)) lo).
  { intros f. rewrite (nth_indep _ d (PrimFloat.add (f (fl_of_nat 0)) lo)) by (rewrite !map_length, seq_length; exact Hi).
    rewrite (map_nth (fun y => PrimFloat.add y lo)), (map_nth f), (map_nth fl_of_nat), seq_nth by exact Hi. reflexivity. }
  assert (G : forall f : float -> float,
     nth i (if e && Nat.ltb 1 num
            then set_last (map (fun y => PrimFloat.add y lo) (map f (map fl_of_nat (seq 0 num)))) hi
            else map (fun y => PrimFloat.add y lo) (map f (map fl_of_nat (seq 0 num)))) d = PrimFloat.add (f (fl_of_nat i)) lo).
  { intros f. destruct (e && Nat.ltb 1 num) eqn:B; [|apply N].
    apply andb_true_iff in B. destruct B as [Be Bn]. apply Nat.ltb_lt in Bn.
    destruct (He Be) as [H1|H1]; [|lia].
    rewrite set_last_nth by (rewrite !map_length, seq_length; exact H1). apply N. }
  destruct dv; [apply G|]. destruct (PrimFloat.eqb _ zero); apply G.
Qed.

Example ex_descending :
  fleqb (linspace 2 (-1) 4 true) [2; 1; 0; -1]%float = true /\
  fleqb (linspace 0 1 4 false) [0; 0.25; 0.5; 0.75]%float = true.
Proof. split; vm_compute; reflexivity. Qed.
