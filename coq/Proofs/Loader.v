From Coq Require Import List String ZArith Bool.
From SV Require Import Model.RunSpace Model.Loader.
Import ListNotations.
Local Open Scope string_scope.

Lemma mode_eqb_eq a b : mode_eqb a b = true -> a = b.
Proof. destruct a, b; simpl; congruence. Qed.

Lemma load_source_full f bm s :
  load_source f bm (mkRawSource (s_cols s) (s_select s) (s_rename s) (Some (s_mode s))) = s.
Proof. destruct s; reflexivity. Qed.

(* a specification written with every member is read back whatever the defaults are *)
Theorem load_write_full f sp dry : load f (write_full sp dry) = (sp, dry).
Proof.
  unfold load, write_full; simpl. f_equal.
  - destruct sp as [c m bs]; simpl. f_equal.
    rewrite map_map. rewrite <- (map_id bs) at 2. apply map_ext. intros [bm bc [s|]]; unfold load_block; simpl.
    + rewrite load_source_full. reflexivity.
    + reflexivity.
  - unfold load_dry. destruct (d_dry_truthy f), dry; reflexivity.
Qed.

Lemma load_source_minimal bm s :
  load_source documented bm
    (mkRawSource (s_cols s) (s_select s) (s_rename s) (if mode_eqb (s_mode s) ByPosition then None else Some (s_mode s))) = s.
Proof. destruct s as [c se r m]; unfold load_source; simpl. destruct m; reflexivity. Qed.

(* ... and with the documented defaults, also when every member holding its default is left out *)
Theorem load_write_minimal sp dry : load documented (write_minimal sp dry) = (sp, dry).
Proof.
  unfold load, write_minimal; simpl. f_equal.
  - destruct sp as [c m bs]; simpl. f_equal.
    + destruct c; reflexivity.
    + destruct (Z.eqb_spec m 1000); subst; reflexivity.
    + rewrite map_map. rewrite <- (map_id bs) at 2. apply map_ext. intros [bm bc [s|]]; unfold load_block; simpl.
      * rewrite load_source_minimal. destruct bc; reflexivity.
      * destruct bc; reflexivity.
  - destruct dry; reflexivity.
Qed.

(* the expansion is defined on what is read back: both spellings of one specification plan the same runs *)
Corollary spellings_agree sp dry :
  fst (load documented (write_minimal sp dry)) = fst (load documented (write_full sp dry)).
Proof. rewrite load_write_minimal, load_write_full. reflexivity. Qed.

(* every truthy spelling of dry_run asks for a dry run, every falsy one does not *)
Theorem dry_run_is_truthiness f y : d_dry_truthy f = true -> load_dry f (Some y) = truthy y.
Proof. intros H. unfold load_dry. rewrite H. reflexivity. Qed.

(* ---- the variants a change of the loader can produce ---- *)
(* a source that follows its block's mode: a combinatorial block whose source leaves `mode` out is read as a
   combinatorial source (its columns are multiplied out instead of being aligned row by row) *)
Definition follow_block_witness : spec :=
  mkSpec Combinatorial 1000
    [mkBlock Combinatorial [] (Some (mkSource [("a", [VInt 1; VInt 2]); ("b", [VInt 3; VInt 4])] None [] ByPosition))].
Theorem source_mode_refuted f :
  d_source_mode f = None -> fst (load f (write_minimal follow_block_witness false)) <> follow_block_witness.
Proof. intros H. unfold load, write_minimal, follow_block_witness, load_block, load_source; simpl. rewrite H. discriminate. Qed.

Theorem dry_identity_refuted f :
  d_dry_truthy f = false -> load_dry f (Some (YInt 1)) = false /\ truthy (YInt 1) = true.
Proof. intros H. unfold load_dry. rewrite H. split; reflexivity. Qed.

Theorem default_refuted f sp :
  (d_combine f <> Combinatorial -> sp_combine sp = Combinatorial -> sp_combine (fst (load f (write_minimal sp false))) <> sp_combine sp) /\
  (d_max_runs f <> 1000%Z -> sp_max_runs sp = 1000%Z -> sp_max_runs (fst (load f (write_minimal sp false))) <> sp_max_runs sp).
Proof.
  split; intros Hd Hs; unfold load, write_minimal; simpl; rewrite Hs; simpl; congruence.
Qed.
