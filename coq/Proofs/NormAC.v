(* Proofs/NormAC.v — AC-completeness: expressions equal up to commutativity and
   associativity of the commutative operators (at any depth) have the same
   signature; plus the "signature determines the normal form" corollaries. *)
From Coq Require Import List String Ascii NArith ZArith Bool Lia Permutation.
From SV Require Import Common.Prelude Model.Expr Proofs.ExprInd Proofs.DumpInj Proofs.NormSound.
Import ListNotations.

Local Open Scope list_scope.

Section AC.
Variable comm : binop -> bool.

Inductive ac : expr -> expr -> Prop :=
| ac_refl e : ac e e
| ac_sym a b : ac a b -> ac b a
| ac_trans a b c : ac a b -> ac b c -> ac a c
| ac_comm op a b : comm op = true -> ac (Bin op a b) (Bin op b a)
| ac_assoc op a b c : comm op = true -> ac (Bin op (Bin op a b) c) (Bin op a (Bin op b c))
| ac_un o a a' : ac a a' -> ac (Un o a) (Un o a')
| ac_bin o a a' b b' : ac a a' -> ac b b' -> ac (Bin o a b) (Bin o a' b')
| ac_if c c' t t' f f' : ac c c' -> ac t t' -> ac f f' -> ac (IfE c t f) (IfE c' t' f')
| ac_call f l l' : acl l l' -> ac (Call f l) (Call f l')
| ac_cmp l l' r r' : ac l l' -> acp r r' -> ac (Cmp l r) (Cmp l' r')
| ac_bool o l l' : acl l l' -> ac (BoolE o l) (BoolE o l')
with acl : list expr -> list expr -> Prop :=
| acl_nil : acl [] []
| acl_cons a a' l l' : ac a a' -> acl l l' -> acl (a :: l) (a' :: l')
with acp : list (cmpop * expr) -> list (cmpop * expr) -> Prop :=
| acp_nil : acp [] []
| acp_cons o a a' l l' : ac a a' -> acp l l' -> acp ((o, a) :: l) ((o, a') :: l').

Scheme ac_m := Minimality for ac Sort Prop
  with acl_m := Minimality for acl Sort Prop
  with acp_m := Minimality for acp Sort Prop.
Combined Scheme ac_mutind from ac_m, acl_m, acp_m.

(* ac preserves well-formedness *)
Lemma ac_wf_all :
  (forall a b, ac a b -> wf a = wf b) /\
  (forall l l', acl l l' -> forallb wf l = forallb wf l') /\
  (forall l l', acp l l' -> forallb (fun p => wf (snd p)) l = forallb (fun p => wf (snd p)) l').
Proof.
  apply ac_mutind; intros; simpl; try congruence.
  - apply andb_comm.
  - rewrite andb_assoc. reflexivity.
Qed.

Lemma ac_wf a b : ac a b -> wf a = wf b.
Proof. apply ac_wf_all. Qed.

Notation nrm := (norm comm).
Definition chain' (op : binop) (e : expr) : list expr :=
  fst (nt comm (Some op) e) :: snd (nt comm (Some op) e).

Lemma chain_bin_same op l r : comm op = true ->
  chain' op (Bin op l r) = chain' op l ++ chain' op r.
Proof.
  intros Hc. unfold chain'. simpl. rewrite Hc, binop_eqb_refl.
  destruct (nt comm (Some op) l) as [l1 ls]. destruct (nt comm (Some op) r) as [r1 rs]. reflexivity.
Qed.

Lemma chain_bin_other op op' l r : comm op = true -> binop_eqb op op' = false ->
  chain' op' (Bin op l r) =
  [rebuild_sorted op (fst (nt comm (Some op) l)) (chain' op l ++ chain' op r)].
Proof.
  intros Hc Hne. unfold chain'. simpl. rewrite Hc, Hne.
  destruct (nt comm (Some op) l) as [l1 ls]. destruct (nt comm (Some op) r) as [r1 rs]. reflexivity.
Qed.

Lemma norm_bin_comm op l r : comm op = true ->
  nrm (Bin op l r) = rebuild_sorted op (fst (nt comm (Some op) l)) (chain' op l ++ chain' op r).
Proof.
  intros Hc. unfold norm, chain'. simpl. rewrite Hc.
  destruct (nt comm (Some op) l) as [l1 ls]. destruct (nt comm (Some op) r) as [r1 rs]. reflexivity.
Qed.

Lemma chain_bin_noncomm op op' l r : comm op = false ->
  chain' op' (Bin op l r) = [Bin op (nrm l) (nrm r)].
Proof. intros Hc. unfold chain', norm. simpl. rewrite Hc. reflexivity. Qed.

Lemma norm_bin_noncomm op l r : comm op = false -> nrm (Bin op l r) = Bin op (nrm l) (nrm r).
Proof. intros Hc. unfold norm. simpl. rewrite Hc. reflexivity. Qed.

Lemma chain_wf op e : wf e = true -> forallb wf (chain' op e) = true.
Proof.
  intros W. unfold chain'. simpl. destruct (nt_wf comm e W (Some op)) as [H1 H2]. rewrite H1, H2. reflexivity.
Qed.

Lemma chain_ne op e : chain' op e <> [].
Proof. unfold chain'. discriminate. Qed.

Lemma rebuild_sorted_perm op d d' A B :
  forallb wf A = true -> A <> [] -> Permutation A B ->
  rebuild_sorted op d A = rebuild_sorted op d' B.
Proof.
  intros WA Hne P. unfold rebuild_sorted.
  assert (E : ksort dump A = ksort dump B).
  { apply (ksort_canonical_on _ dump (fun e => wf e = true)); auto.
    - intros a b Wa Wb. apply dump_inj; auto.
    - apply Forall_forall. intros x Hx. rewrite forallb_forall in WA. auto. }
  rewrite <- E.
  pose proof (ksort_perm _ dump A) as PA.
  destruct (ksort dump A); auto.
  apply Permutation_sym, Permutation_nil in PA. contradiction.
Qed.

Definition Rel (a b : expr) : Prop :=
  nrm a = nrm b /\ forall op, Permutation (chain' op a) (chain' op b).

Lemma bin_lift op l r l' r' : comm op = true ->
  wf l = true -> wf r = true ->
  Permutation (chain' op l ++ chain' op r) (chain' op l' ++ chain' op r') ->
  Rel (Bin op l r) (Bin op l' r').
Proof.
  intros Hc Wl Wr P.
  assert (WA : forallb wf (chain' op l ++ chain' op r) = true).
  { rewrite forallb_app, !chain_wf; auto. }
  assert (NE : chain' op l ++ chain' op r <> []).
  { intro E. apply app_eq_nil in E as [E _]. exact (chain_ne _ _ E). }
  split.
  - rewrite !norm_bin_comm by auto. apply rebuild_sorted_perm; auto.
  - intros op'. destruct (binop_eqb op op') eqn:E.
    + apply binop_eqb_eq in E. subst op'. rewrite !chain_bin_same by auto. exact P.
    + rewrite !(chain_bin_other op op') by auto.
      rewrite (rebuild_sorted_perm op _ (fst (nt comm (Some op) l')) _ _ WA NE P). apply Permutation_refl.
Qed.

Lemma rel_single a b X Y :
  (forall c, nt comm c a = (X, [])) -> (forall c, nt comm c b = (Y, [])) -> X = Y -> Rel a b.
Proof.
  intros Ha Hb E. split.
  - unfold norm. rewrite Ha, Hb. exact E.
  - intros op. unfold chain'. rewrite Ha, Hb. simpl. rewrite E. apply Permutation_refl.
Qed.

Lemma ac_rel_all :
  (forall a b, ac a b -> wf a = true -> Rel a b) /\
  (forall l l', acl l l' -> forallb wf l = true ->
     map (fun a => fst (nt comm None a)) l = map (fun a => fst (nt comm None a)) l') /\
  (forall l l', acp l l' -> forallb (fun p => wf (snd p)) l = true ->
     map (fun p => match p with (o, a) => (o, fst (nt comm None a)) end) l =
     map (fun p => match p with (o, a) => (o, fst (nt comm None a)) end) l').
Proof.
  apply ac_mutind.
  - (* refl *) intros e _. split; auto.
  - (* sym *) intros a b Hab IH Wb.
    assert (Wa : wf a = true) by (rewrite (ac_wf _ _ Hab); exact Wb).
    destruct (IH Wa) as [E P]. split; auto. intros op. apply Permutation_sym; auto.
  - (* trans *) intros a b c Hab IH1 Hbc IH2 Wa.
    assert (Wb : wf b = true) by (rewrite <- (ac_wf _ _ Hab); exact Wa).
    destruct (IH1 Wa) as [E1 P1]. destruct (IH2 Wb) as [E2 P2]. split; [congruence|].
    intros op. eapply perm_trans; eauto.
  - (* comm *) intros op a b Hc W. simpl in W. apply andb_true_iff in W as [Wa Wb].
    apply bin_lift; auto. apply Permutation_app_comm.
  - (* assoc *) intros op a b c Hc W. simpl in W.
    apply andb_true_iff in W as [Wab Wc]. apply andb_true_iff in Wab as [Wa Wb].
    apply bin_lift; auto.
    + simpl. rewrite Wa, Wb. reflexivity.
    + rewrite !chain_bin_same by auto. rewrite app_assoc. apply Permutation_refl.
  - (* un *) intros o a a' _ IH W. simpl in W. destruct (IH W) as [E _].
    apply (rel_single _ _ (Un o (nrm a)) (Un o (nrm a'))); auto. congruence.
  - (* bin *) intros o a a' b b' _ IHa _ IHb W. simpl in W. apply andb_true_iff in W as [Wa Wb].
    destruct (IHa Wa) as [Ea Pa]. destruct (IHb Wb) as [Eb Pb].
    destruct (comm o) eqn:Hc.
    + apply bin_lift; auto. apply Permutation_app; auto.
    + split.
      * rewrite !norm_bin_noncomm by auto. congruence.
      * intros op. rewrite !chain_bin_noncomm by auto. rewrite Ea, Eb. apply Permutation_refl.
  - (* if *) intros c c' t t' f f' _ IHc _ IHt _ IHf W. simpl in W.
    apply andb_true_iff in W as [W Wf]. apply andb_true_iff in W as [Wc Wt].
    destruct (IHc Wc) as [Ec _]. destruct (IHt Wt) as [Et _]. destruct (IHf Wf) as [Ef _].
    apply (rel_single _ _ (IfE (nrm c) (nrm t) (nrm f)) (IfE (nrm c') (nrm t') (nrm f'))); auto. congruence.
  - (* call *) intros f l l' _ IH W. simpl in W. apply andb_true_iff in W as [_ W].
    apply (rel_single _ _ (Call f (map (fun a => fst (nt comm None a)) l))
                          (Call f (map (fun a => fst (nt comm None a)) l'))); auto.
    rewrite IH; auto.
  - (* cmp *) intros l l' r r' _ IHl _ IHr W. simpl in W. apply andb_true_iff in W as [Wl Wr].
    destruct (IHl Wl) as [El _].
    apply (rel_single _ _
      (Cmp (nrm l) (map (fun p => match p with (o, a) => (o, fst (nt comm None a)) end) r))
      (Cmp (nrm l') (map (fun p => match p with (o, a) => (o, fst (nt comm None a)) end) r'))); auto.
    rewrite IHr, El; auto.
  - (* bool *) intros o l l' _ IH W. simpl in W.
    apply (rel_single _ _ (BoolE o (map (fun a => fst (nt comm None a)) l))
                          (BoolE o (map (fun a => fst (nt comm None a)) l'))); auto.
    rewrite IH; auto.
  - (* acl nil *) auto.
  - (* acl cons *) intros a a' l l' _ IHa _ IHl W. simpl in W. apply andb_true_iff in W as [Wa Wl].
    simpl. destruct (IHa Wa) as [E _]. unfold norm in E. rewrite E, IHl; auto.
  - (* acp nil *) auto.
  - (* acp cons *) intros o a a' l l' _ IHa _ IHl W. simpl in W. apply andb_true_iff in W as [Wa Wl].
    simpl. destruct (IHa Wa) as [E _]. unfold norm in E. rewrite E, IHl; auto.
Qed.

Theorem ac_same_sig a b : wf a = true -> ac a b -> sig comm a = sig comm b.
Proof.
  intros W H. unfold sig. destruct (proj1 ac_rel_all a b H W) as [E _]. rewrite E. reflexivity.
Qed.

(* The signature determines the normal form. *)
Theorem sig_norm a b : wf a = true -> wf b = true -> sig comm a = sig comm b -> nrm a = nrm b.
Proof. intros Wa Wb H. apply dump_inj; auto; apply norm_wf; auto. Qed.

Corollary swap_noncomm_changes_sig op a b : wf a = true -> wf b = true -> comm op = false ->
  sig comm (Bin op a b) = sig comm (Bin op b a) -> sig comm a = sig comm b.
Proof.
  intros Wa Wb Hc H. apply sig_norm in H; simpl; try (rewrite Wa, Wb; reflexivity).
  rewrite !norm_bin_noncomm in H by auto. injection H as H _. unfold sig. congruence.
Qed.

Corollary const_change_changes_sig n m : sig comm (Const n) = sig comm (Const m) -> n = m.
Proof. intros H. apply sig_norm in H; auto. unfold norm in H. simpl in H. congruence. Qed.

Corollary var_change_changes_sig x y : noquote x = true -> noquote y = true ->
  sig comm (Var x) = sig comm (Var y) -> x = y.
Proof. intros Wx Wy H. apply sig_norm in H; auto. unfold norm in H. simpl in H. congruence. Qed.

Corollary func_change_changes_sig f g args args' :
  wf (Call f args) = true -> wf (Call g args') = true ->
  sig comm (Call f args) = sig comm (Call g args') -> f = g.
Proof. intros W1 W2 H. apply sig_norm in H; auto. unfold norm in H. simpl in H. congruence. Qed.

Corollary unop_change_changes_sig o o' a b : wf a = true -> wf b = true ->
  sig comm (Un o a) = sig comm (Un o' b) -> o = o' /\ sig comm a = sig comm b.
Proof.
  intros Wa Wb H. apply sig_norm in H; auto. unfold norm in H. simpl in H.
  injection H as -> H. split; auto. unfold sig, norm. congruence.
Qed.

Corollary binop_change_changes_sig o o' a b a' b' :
  comm o = false -> comm o' = false ->
  wf a = true -> wf b = true -> wf a' = true -> wf b' = true ->
  sig comm (Bin o a b) = sig comm (Bin o' a' b') ->
  o = o' /\ sig comm a = sig comm a' /\ sig comm b = sig comm b'.
Proof.
  intros Hc Hc' Wa Wb Wa' Wb' H.
  apply sig_norm in H; simpl; try (rewrite ?Wa, ?Wb, ?Wa', ?Wb'; reflexivity).
  rewrite !norm_bin_noncomm in H by auto. injection H as -> H1 H2.
  unfold sig. repeat split; congruence.
Qed.
End AC.

(* ------------------------------------------------------------------ *)
(* Exactness: every expression is AC-equivalent to its normal form, hence equal
   signatures imply AC-equivalence (the converse of ac_same_sig). *)
Section Exact.
Variable comm : binop -> bool.
Notation ac' := (ac comm).
Notation nrm := (norm comm).

Lemma rebuild_acc_cong op : forall l a a', ac' a a' -> ac' (rebuild op a l) (rebuild op a' l).
Proof.
  induction l as [|h t IH]; intros a a' H; simpl; auto.
  apply IH. apply ac_bin; [exact H|apply ac_refl].
Qed.

Lemma rebuild_app op : forall l1 l2 a, rebuild op a (l1 ++ l2) = rebuild op (rebuild op a l1) l2.
Proof. induction l1 as [|h t IH]; intros l2 a; simpl; auto. Qed.

Lemma swap_last op a x y : comm op = true -> ac' (Bin op (Bin op a y) x) (Bin op (Bin op a x) y).
Proof.
  intros Hc.
  eapply ac_trans; [apply ac_assoc; exact Hc|].
  eapply ac_trans; [apply ac_bin; [apply ac_refl|apply ac_comm; exact Hc]|].
  apply ac_sym. apply ac_assoc. exact Hc.
Qed.

Lemma rebuild_perm op l l' : comm op = true -> Permutation l l' ->
  forall a, ac' (rebuild op a l) (rebuild op a l').
Proof.
  intros Hc P. induction P as [|x l1 l2 P IH|x y l1|l1 l2 l3 P1 IH1 P2 IH2]; intros a; simpl.
  - apply ac_refl.
  - apply IH.
  - apply rebuild_acc_cong. apply swap_last. exact Hc.
  - eapply ac_trans; [apply IH1|apply IH2].
Qed.

Lemma rebuild_head_swap op h x t : comm op = true ->
  ac' (rebuild op h (x :: t)) (rebuild op x (h :: t)).
Proof. intros Hc. simpl. apply rebuild_acc_cong. apply ac_comm. exact Hc. Qed.

Lemma rb_perm op h t h' t' : comm op = true -> Permutation (h :: t) (h' :: t') ->
  ac' (rebuild op h t) (rebuild op h' t').
Proof.
  intros Hc P.
  assert (Hin : In h (h' :: t')) by (eapply Permutation_in; [exact P|left; reflexivity]).
  destruct Hin as [E|Hin].
  - subst h'. apply rebuild_perm; auto. eapply Permutation_cons_inv; eauto.
  - apply in_split in Hin as (t1 & t2 & ->).
    assert (P' : Permutation t (h' :: t1 ++ t2)).
    { apply (Permutation_cons_inv (a := h)).
      eapply perm_trans; [exact P|].
      eapply perm_trans; [apply perm_skip; apply Permutation_sym; apply Permutation_middle|].
      apply perm_swap. }
    eapply ac_trans; [apply rebuild_perm; [exact Hc|exact P']|].
    eapply ac_trans; [apply rebuild_head_swap; exact Hc|].
    apply rebuild_perm; auto. apply Permutation_middle.
Qed.

Lemma bin_rebuild op : comm op = true -> forall l X b,
  ac' (Bin op X (rebuild op b l)) (rebuild op (Bin op X b) l).
Proof.
  intros Hc. induction l as [|y t IH]; intros X b; simpl.
  - apply ac_refl.
  - eapply ac_trans; [apply IH|].
    apply rebuild_acc_cong. apply ac_sym. apply ac_assoc. exact Hc.
Qed.

Definition rbl (op : binop) (l : list expr) (d : expr) : expr :=
  match l with [] => d | h :: t => rebuild op h t end.

Lemma rbl_app op a A b B d : comm op = true ->
  ac' (Bin op (rbl op (a :: A) d) (rbl op (b :: B) d)) (rbl op ((a :: A) ++ (b :: B)) d).
Proof.
  intros Hc. simpl. rewrite rebuild_app. simpl. apply bin_rebuild. exact Hc.
Qed.

Definition ToNorm (e : expr) : Prop :=
  ac' e (nrm e) /\ forall op, comm op = true -> ac' e (rbl op (chain' comm op e) e).

Lemma to_norm_single e X :
  (forall c, nt comm c e = (X, [])) -> ac' e X -> ToNorm e.
Proof.
  intros Hnt H. split.
  - unfold norm. rewrite Hnt. exact H.
  - intros op _. unfold chain'. rewrite Hnt. simpl. exact H.
Qed.

Lemma acl_norm args : Forall ToNorm args -> acl comm args (map (fun a => fst (nt comm None a)) args).
Proof.
  induction 1 as [|a t [Ha _] _ IH]; simpl; constructor; auto.
Qed.

Lemma acp_norm rest : Forall (fun p => ToNorm (snd p)) rest ->
  acp comm rest (map (fun p => match p with (o, a) => (o, fst (nt comm None a)) end) rest).
Proof.
  induction 1 as [|[o a] t [Ha _] _ IH]; simpl; constructor; auto.
Qed.

Theorem ac_to_norm : forall e, ToNorm e.
Proof.
  induction e as [x|n|o a IHa|o l r IHl IHr|c t f IHc IHt IHf|f args IH|l rest IHl IH|o vs IH] using expr_ind'.
  - apply (to_norm_single _ (Var x)); auto. apply ac_refl.
  - apply (to_norm_single _ (Const n)); auto. apply ac_refl.
  - apply (to_norm_single _ (Un o (nrm a))); auto. apply ac_un. apply IHa.
  - destruct (comm o) eqn:Hc.
    + destruct IHl as [_ IHl]. destruct IHr as [_ IHr].
      specialize (IHl o Hc). specialize (IHr o Hc).
      assert (Hflat : ac' (Bin o l r) (rbl o (chain' comm o l ++ chain' comm o r) (Bin o l r))).
      { eapply ac_trans; [apply ac_bin; [exact IHl|exact IHr]|].
        unfold chain'. apply (rbl_app o _ _ _ _ (Bin o l r) Hc). }
      split.
      * rewrite norm_bin_comm by auto. eapply ac_trans; [exact Hflat|].
        unfold rebuild_sorted.
        pose proof (ksort_perm _ dump (chain' comm o l ++ chain' comm o r)) as P.
        destruct (ksort dump (chain' comm o l ++ chain' comm o r)) as [|h tl] eqn:E.
        -- apply Permutation_sym, Permutation_nil in P. unfold chain' in P. discriminate.
        -- unfold chain' in *. simpl app in *. simpl rbl. apply rb_perm; auto.
      * intros op Hop. destruct (binop_eqb o op) eqn:Eo.
        -- apply binop_eqb_eq in Eo. subst op. rewrite chain_bin_same by auto.
           unfold chain' in *. simpl app in *. simpl rbl in *. exact Hflat.
        -- rewrite (chain_bin_other comm o op) by auto. unfold rbl at 1. cbn [rebuild].
           eapply ac_trans; [exact Hflat|]. unfold rebuild_sorted.
           pose proof (ksort_perm _ dump (chain' comm o l ++ chain' comm o r)) as P.
           destruct (ksort dump (chain' comm o l ++ chain' comm o r)) as [|h tl] eqn:E.
           ++ apply Permutation_sym, Permutation_nil in P. unfold chain' in P. discriminate.
           ++ unfold chain' in *. simpl app in *. simpl rbl. apply rb_perm; auto.
    + apply (to_norm_single _ (Bin o (nrm l) (nrm r))).
      * intros c. simpl. rewrite Hc. reflexivity.
      * apply ac_bin; [apply IHl|apply IHr].
  - apply (to_norm_single _ (IfE (nrm c) (nrm t) (nrm f))); auto.
    apply ac_if; [apply IHc|apply IHt|apply IHf].
  - apply (to_norm_single _ (Call f (map (fun a => fst (nt comm None a)) args))); auto.
    apply ac_call. apply acl_norm; auto.
  - apply (to_norm_single _ (Cmp (nrm l)
             (map (fun p => match p with (o, a) => (o, fst (nt comm None a)) end) rest))); auto.
    apply ac_cmp; [apply IHl|apply acp_norm; auto].
  - apply (to_norm_single _ (BoolE o (map (fun a => fst (nt comm None a)) vs))); auto.
    apply ac_bool. apply acl_norm; auto.
Qed.

Theorem sig_exact e1 e2 : wf e1 = true -> wf e2 = true ->
  sig comm e1 = sig comm e2 -> ac' e1 e2.
Proof.
  intros W1 W2 H. pose proof (sig_norm comm e1 e2 W1 W2 H) as E.
  eapply ac_trans; [apply (proj1 (ac_to_norm e1))|]. rewrite E.
  apply ac_sym. apply (proj1 (ac_to_norm e2)).
Qed.
End Exact.
