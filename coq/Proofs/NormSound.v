(* Proofs/NormSound.v — the normaliser preserves the value of every expression
   under every assignment (exact integer semantics), and preserves wf. *)
From Coq Require Import List String Ascii NArith ZArith Bool Lia Permutation.
From SV Require Import Common.Prelude Model.Expr Proofs.ExprInd.
Import ListNotations.

(* named versions of eval's local fixpoints *)
Section Named.
Variable rho : string -> option Z.

Fixpoint cmp_chain (v : Z) (rest : list (cmpop * expr)) {struct rest} : option Z :=
  match rest with
  | [] => Some 1%Z
  | (o, a) :: tl =>
      match eval rho a with
      | None => None
      | Some w => if cmp_eval o v w then cmp_chain w tl else Some 0%Z
      end
  end.

Definition bool_go (o : boolop) : list expr -> option Z :=
  fix go (vs : list expr) {struct vs} : option Z :=
  match vs with
  | [] => None
  | a :: tl =>
      match eval rho a with
      | None => None
      | Some v =>
          match tl with
          | [] => Some v
          | _ :: _ =>
              match o with
              | And => if truthy v then go tl else Some v
              | Or => if truthy v then Some v else go tl
              end
          end
      end
  end.

Lemma eval_cmp l rest :
  eval rho (Cmp l rest) = match eval rho l with None => None | Some v0 => cmp_chain v0 rest end.
Proof. reflexivity. Qed.

Lemma eval_bool o vs : eval rho (BoolE o vs) = bool_go o vs.
Proof. reflexivity. Qed.

Lemma eval_call f args :
  eval rho (Call f args) =
  match sequence (map (eval rho) args) with None => None | Some vs => call_eval f vs end.
Proof. reflexivity. Qed.
End Named.

Definition AM (op : binop) : Prop := op = Add \/ op = Mult.

Definition comb (op : binop) (a b : option Z) : option Z :=
  match a, b with Some x, Some y => binop_eval op x y | _, _ => None end.

Definition unit_of (op : binop) : Z := match op with Mult => 1%Z | _ => 0%Z end.

Definition foldc (op : binop) (vs : list (option Z)) (a : option Z) : option Z :=
  fold_left (comb op) vs a.

Lemma comb_unit_l op x : AM op -> comb op (Some (unit_of op)) x = x.
Proof. intros [-> | ->]; destruct x; cbn [comb unit_of binop_eval]; auto; f_equal; lia. Qed.

Lemma comb_unit_r op x : AM op -> comb op x (Some (unit_of op)) = x.
Proof. intros [-> | ->]; destruct x; cbn [comb unit_of binop_eval]; auto; f_equal; lia. Qed.

Lemma comb_assoc op a b c : AM op -> comb op (comb op a b) c = comb op a (comb op b c).
Proof. intros [-> | ->]; destruct a, b, c; cbn [comb unit_of binop_eval]; auto; f_equal; lia. Qed.

Lemma comb_comm op a b : AM op -> comb op a b = comb op b a.
Proof. intros [-> | ->]; destruct a, b; cbn [comb unit_of binop_eval]; auto; f_equal; lia. Qed.

Lemma comb_rcomm op a x y : AM op -> comb op (comb op a x) y = comb op (comb op a y) x.
Proof.
  intros H. rewrite !comb_assoc by auto. f_equal. apply comb_comm; auto.
Qed.

Lemma foldc_perm op l l' : AM op -> Permutation l l' -> forall a, foldc op l a = foldc op l' a.
Proof.
  intros H Pm. unfold foldc.
  induction Pm as [|x l1 l2 Pm IHp|x y l1|l1 l2 l3 P1 IH1 P2 IH2]; intros a.
  - reflexivity.
  - simpl. apply IHp.
  - simpl. rewrite comb_rcomm; auto.
  - rewrite IH1. apply IH2.
Qed.

Lemma foldc_shift op l : AM op -> forall b,
  foldc op l b = comb op b (foldc op l (Some (unit_of op))).
Proof.
  intros H. unfold foldc. induction l as [|x t IH]; intros b; cbn [fold_left].
  - rewrite comb_unit_r; auto.
  - rewrite (IH (comb op b x)), (IH (comb op (Some (unit_of op)) x)).
    rewrite comb_unit_l by auto. apply comb_assoc; auto.
Qed.

Lemma foldc_app op l1 l2 : AM op ->
  foldc op (l1 ++ l2) (Some (unit_of op)) =
  comb op (foldc op l1 (Some (unit_of op))) (foldc op l2 (Some (unit_of op))).
Proof.
  intros H. unfold foldc at 1. rewrite fold_left_app. fold (foldc op l1 (Some (unit_of op))).
  fold (foldc op l2 (foldc op l1 (Some (unit_of op)))). apply foldc_shift; auto.
Qed.

Lemma binop_eqb_eq a b : binop_eqb a b = true -> a = b.
Proof. destruct a, b; simpl; congruence. Qed.

Lemma binop_eqb_refl a : binop_eqb a a = true.
Proof. destruct a; reflexivity. Qed.

Section Sound.
Variable comm : binop -> bool.
Hypothesis comm_ok : forall o, comm o = true -> AM o.
Variable rho : string -> option Z.
Notation ev := (eval rho).

Definition evalc (op : binop) (ts : list expr) : option Z :=
  foldc op (map ev ts) (Some (unit_of op)).

Lemma eval_bin op l r : ev (Bin op l r) = comb op (ev l) (ev r).
Proof. simpl. destruct (ev l), (ev r); reflexivity. Qed.

Lemma eval_rebuild op : forall l acc, ev (rebuild op acc l) = foldc op (map ev l) (ev acc).
Proof.
  induction l as [|h t IH]; intros acc; simpl; auto.
  rewrite IH, eval_bin. reflexivity.
Qed.

Lemma evalc_cons op h tl : AM op -> evalc op (h :: tl) = foldc op (map ev tl) (ev h).
Proof. intros H. unfold evalc, foldc. cbn [map fold_left]. rewrite comb_unit_l; auto. Qed.

Lemma evalc_single op x : AM op -> evalc op [x] = ev x.
Proof. intros H. rewrite evalc_cons; auto. Qed.

Lemma evalc_app op a b : AM op -> evalc op (a ++ b) = comb op (evalc op a) (evalc op b).
Proof. intros H. unfold evalc. rewrite map_app. apply foldc_app; auto. Qed.

Lemma evalc_perm op a b : AM op -> Permutation a b -> evalc op a = evalc op b.
Proof. intros H P. unfold evalc. apply foldc_perm; auto. apply Permutation_map; auto. Qed.

Lemma eval_rebuild_sorted op d ts : AM op -> ts <> [] ->
  ev (rebuild_sorted op d ts) = evalc op ts.
Proof.
  intros H Hne. unfold rebuild_sorted.
  pose proof (ksort_perm _ dump ts) as P.
  destruct (ksort dump ts) as [|h tl] eqn:E.
  - apply Permutation_sym, Permutation_nil in P. contradiction.
  - rewrite eval_rebuild, <- evalc_cons by auto. symmetry. apply evalc_perm; auto.
Qed.

Definition chain (c : option binop) (e : expr) : list expr :=
  fst (nt comm c e) :: snd (nt comm c e).

Definition SoundAt (e : expr) : Prop :=
  ev (norm comm e) = ev e /\ forall op, comm op = true -> evalc op (chain (Some op) e) = ev e.

(* For an expression that is not a commutative BinOp, the context is irrelevant. *)
Lemma sound_leaf e X :
  (forall c, nt comm c e = (X, [])) -> ev X = ev e -> SoundAt e.
Proof.
  intros Hnt HX. split.
  - unfold norm. rewrite Hnt. exact HX.
  - intros op Hop. unfold chain. rewrite Hnt. simpl. rewrite evalc_single; auto.
Qed.

Lemma map_norm_eval args :
  Forall SoundAt args -> map ev (map (fun a => fst (nt comm None a)) args) = map ev args.
Proof.
  induction 1 as [|a t [Ha _] _ IH]; simpl; auto. unfold norm in Ha. rewrite Ha, IH. reflexivity.
Qed.

Lemma cmp_chain_norm rest :
  Forall (fun p => SoundAt (snd p)) rest -> forall v,
  cmp_chain rho v (map (fun p => match p with (o, a) => (o, fst (nt comm None a)) end) rest)
  = cmp_chain rho v rest.
Proof.
  induction 1 as [|[o a] t [Ha _] _ IH]; intros v; simpl; auto.
  simpl in Ha. unfold norm in Ha. rewrite Ha. destruct (ev a); auto.
  destruct (cmp_eval o v z); auto.
Qed.

Lemma bool_go_norm o vs :
  Forall SoundAt vs ->
  bool_go rho o (map (fun a => fst (nt comm None a)) vs) = bool_go rho o vs.
Proof.
  induction 1 as [|a t [Ha _] _ IH]; simpl; auto.
  unfold norm in Ha. rewrite Ha. destruct (ev a); auto.
  destruct t as [|b t']; simpl; auto.
  simpl in IH. rewrite IH. reflexivity.
Qed.

Theorem nt_sound : forall e, SoundAt e.
Proof.
  induction e as [x|n|o a IHa|o l r IHl IHr|c t f IHc IHt IHf|f args IH|l rest IHl IH|o vs IH] using expr_ind'.
  - apply (sound_leaf _ (Var x)); auto.
  - apply (sound_leaf _ (Const n)); auto.
  - apply (sound_leaf _ (Un o (norm comm a))); auto.
    simpl. destruct IHa as [-> _]. reflexivity.
  - (* Bin *)
    destruct (comm o) eqn:Hc.
    + pose proof (comm_ok _ Hc) as HAM.
      destruct IHl as [_ IHl]. destruct IHr as [_ IHr].
      specialize (IHl o Hc). specialize (IHr o Hc). unfold chain in IHl, IHr.
      assert (Hts : evalc o ((fst (nt comm (Some o) l) :: snd (nt comm (Some o) l)) ++
                              (fst (nt comm (Some o) r) :: snd (nt comm (Some o) r))) = ev (Bin o l r)).
      { rewrite evalc_app, IHl, IHr, eval_bin; auto. }
      split.
      * unfold norm. simpl. rewrite Hc.
        destruct (nt comm (Some o) l) as [l1 ls]. destruct (nt comm (Some o) r) as [r1 rs].
        simpl fst. rewrite eval_rebuild_sorted; auto. simpl; discriminate.
      * intros op Hop. unfold chain. simpl nt. rewrite Hc.
        destruct (nt comm (Some o) l) as [l1 ls]. destruct (nt comm (Some o) r) as [r1 rs].
        simpl fst in *. simpl snd in *.
        destruct (binop_eqb o op) eqn:Eo.
        -- apply binop_eqb_eq in Eo. subst op. simpl fst. simpl snd.
           exact Hts.
        -- simpl fst. simpl snd. rewrite evalc_single by auto.
           rewrite eval_rebuild_sorted; auto. simpl; discriminate.
    + apply (sound_leaf _ (Bin o (norm comm l) (norm comm r))).
      * intros c. simpl. rewrite Hc. reflexivity.
      * rewrite !eval_bin. destruct IHl as [-> _]. destruct IHr as [-> _]. reflexivity.
  - apply (sound_leaf _ (IfE (norm comm c) (norm comm t) (norm comm f))); auto.
    simpl. destruct IHc as [-> _]. destruct IHt as [-> _]. destruct IHf as [-> _]. reflexivity.
  - apply (sound_leaf _ (Call f (map (fun a => fst (nt comm None a)) args))); auto.
    rewrite !eval_call, map_norm_eval; auto.
  - apply (sound_leaf _ (Cmp (norm comm l)
             (map (fun p => match p with (o, a) => (o, fst (nt comm None a)) end) rest))); auto.
    rewrite !eval_cmp. destruct IHl as [-> _]. destruct (ev l); auto. apply cmp_chain_norm; auto.
  - apply (sound_leaf _ (BoolE o (map (fun a => fst (nt comm None a)) vs))); auto.
    rewrite !eval_bool. apply bool_go_norm; auto.
Qed.

Corollary norm_sound e : ev (norm comm e) = ev e.
Proof. apply nt_sound. Qed.
End Sound.

(* ------------------------------------------------------------------ *)
(* wf is preserved *)
Section WF.
Variable comm : binop -> bool.

Lemma wf_rebuild op : forall l acc, wf acc = true -> forallb wf l = true -> wf (rebuild op acc l) = true.
Proof.
  induction l as [|h t IH]; intros acc Ha Hl; simpl in *; auto.
  apply andb_true_iff in Hl as [Hh Ht]. apply IH; auto. simpl. rewrite Ha, Hh. reflexivity.
Qed.

Lemma forallb_perm {A} (p : A -> bool) l l' : Permutation l l' -> forallb p l = forallb p l'.
Proof.
  induction 1; simpl; auto; try congruence.
  rewrite !andb_assoc. f_equal. apply andb_comm.
Qed.

Lemma wf_rebuild_sorted op d ts : wf d = true -> forallb wf ts = true -> wf (rebuild_sorted op d ts) = true.
Proof.
  intros Hd Hts. unfold rebuild_sorted.
  rewrite (forallb_perm wf _ _ (ksort_perm _ dump ts)) in Hts.
  destruct (ksort dump ts) as [|h tl]; auto. simpl in Hts.
  apply andb_true_iff in Hts as [Hh Ht]. apply wf_rebuild; auto.
Qed.

Definition WfAt (e : expr) : Prop :=
  wf e = true -> forall c, wf (fst (nt comm c e)) = true /\ forallb wf (snd (nt comm c e)) = true.

Lemma forallb_map_norm args :
  Forall WfAt args -> forallb wf args = true ->
  forallb wf (map (fun a => fst (nt comm None a)) args) = true.
Proof.
  induction 1 as [|a t Ha _ IH]; simpl; auto. intros H. apply andb_true_iff in H as [H1 H2].
  rewrite (proj1 (Ha H1 None)), IH; auto.
Qed.

Theorem nt_wf : forall e, WfAt e.
Proof.
  induction e as [x|n|o a IHa|o l r IHl IHr|c t f IHc IHt IHf|f args IH|l rest IHl IH|o vs IH] using expr_ind';
    intros W cx; simpl in W.
  - simpl; auto.
  - simpl; auto.
  - simpl. split; auto. apply IHa; auto.
  - apply andb_true_iff in W as [Wl Wr]. simpl.
    destruct (comm o) eqn:Hc.
    + destruct (IHl Wl (Some o)) as [Hl1 Hl2]. destruct (IHr Wr (Some o)) as [Hr1 Hr2].
      destruct (nt comm (Some o) l) as [l1 ls]. destruct (nt comm (Some o) r) as [r1 rs].
      simpl in *.
      assert (Hts : forallb wf (l1 :: ls ++ r1 :: rs) = true).
      { simpl. rewrite forallb_app. simpl. rewrite Hl1, Hl2, Hr1, Hr2. reflexivity. }
      destruct cx as [op'|].
      * destruct (binop_eqb o op'); simpl.
        -- split; auto. rewrite forallb_app. simpl. rewrite Hl2, Hr1, Hr2. reflexivity.
        -- split; auto. apply wf_rebuild_sorted; auto.
      * simpl. split; auto. apply wf_rebuild_sorted; auto.
    + simpl. split; auto. rewrite (proj1 (IHl Wl None)), (proj1 (IHr Wr None)). reflexivity.
  - apply andb_true_iff in W as [W Wf]. apply andb_true_iff in W as [Wc Wt].
    simpl. split; auto.
    rewrite (proj1 (IHc Wc None)), (proj1 (IHt Wt None)), (proj1 (IHf Wf None)). reflexivity.
  - apply andb_true_iff in W as [Wf Wa]. simpl. split; auto. rewrite Wf. simpl.
    apply forallb_map_norm; auto.
  - apply andb_true_iff in W as [Wl Wr]. simpl. split; auto.
    rewrite (proj1 (IHl Wl None)). simpl.
    clear - IH Wr. induction IH as [|[o a] t Ha _ IHt]; simpl in *; auto.
    apply andb_true_iff in Wr as [H1 H2]. rewrite (proj1 (Ha H1 None)), IHt; auto.
  - simpl. split; auto. apply forallb_map_norm; auto.
Qed.

Corollary norm_wf e : wf e = true -> wf (norm comm e) = true.
Proof. intros W. apply (nt_wf e W None). Qed.
End WF.
