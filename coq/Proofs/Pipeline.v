(* Proofs/Pipeline.v — laws of the dual-channel executor, for every processor. *)
From Coq Require Import List String ZArith Bool Lia Arith.
From SV Require Import Common.Prelude Model.Pipeline.
Import ListNotations.
Local Open Scope string_scope.

(* ---- context maps ------------------------------------------------------------------------ *)
Lemma lookup_update_same k v c : lookup k (update k v c) = Some v.
Proof.
  induction c as [|[k' v'] tl IH]; simpl.
  - rewrite String.eqb_refl. reflexivity.
  - destruct (String.eqb k k') eqn:E; simpl; rewrite ?String.eqb_refl, ?E; auto.
Qed.

Lemma lookup_update_other k j v c : j <> k -> lookup j (update k v c) = lookup j c.
Proof.
  intros H. induction c as [|[k' v'] tl IH]; simpl.
  - destruct (String.eqb j k) eqn:E; auto. apply String.eqb_eq in E. contradiction.
  - destruct (String.eqb k k') eqn:E; simpl.
    + apply String.eqb_eq in E. subst k'.
      destruct (String.eqb j k) eqn:E2; auto. apply String.eqb_eq in E2. contradiction.
    + destruct (String.eqb j k'); auto.
Qed.

Lemma lookup_remove_same k c : lookup k (remove k c) = None.
Proof.
  induction c as [|[k' v'] tl IH]; simpl; auto.
  destruct (String.eqb k k') eqn:E; simpl; rewrite ?E; auto.
Qed.

Lemma lookup_remove_other k j c : j <> k -> lookup j (remove k c) = lookup j c.
Proof.
  intros H. induction c as [|[k' v'] tl IH]; simpl; auto.
  destruct (String.eqb k k') eqn:E; simpl.
  - apply String.eqb_eq in E. subst k'.
    destruct (String.eqb j k) eqn:E2; auto. apply String.eqb_eq in E2. contradiction.
  - destruct (String.eqb j k'); auto.
Qed.

Lemma smem_false_neq j k l : smem j l = false -> smem k l = true -> j <> k.
Proof. intros H1 H2 E. subst. congruence. Qed.

(* ---- resolution precedence: node configuration > context > default ------------------------- *)
Theorem resolve_config cfg c dfl name v : lookup name cfg = Some v -> resolve cfg c dfl name = Ok v.
Proof. unfold resolve. intros ->. reflexivity. Qed.

Theorem resolve_context cfg c dfl name v :
  lookup name cfg = None -> lookup name c = Some v -> resolve cfg c dfl name = Ok v.
Proof. unfold resolve. intros -> ->. reflexivity. Qed.

Theorem resolve_default cfg c dfl name v :
  lookup name cfg = None -> lookup name c = None -> lookup name dfl = Some v -> resolve cfg c dfl name = Ok v.
Proof. unfold resolve. intros -> -> ->. reflexivity. Qed.

Theorem resolve_missing cfg c dfl name :
  lookup name cfg = None -> lookup name c = None -> lookup name dfl = None ->
  resolve cfg c dfl name = Fail (Err SResolve "KeyError" name).
Proof. unfold resolve. intros -> -> ->. reflexivity. Qed.

(* the resolved list gives every parameter its resolved value, in signature order *)
Lemma resolve_all_spec cfg c dfl : forall names ps,
  resolve_all cfg c dfl names = Ok ps ->
  map fst ps = names /\ Forall (fun kv => resolve cfg c dfl (fst kv) = Ok (snd kv)) ps.
Proof.
  induction names as [|n tl IH]; simpl; intros ps H.
  - injection H as <-. split; constructor.
  - destruct (resolve cfg c dfl n) as [v|e] eqn:E; simpl in H; [|discriminate].
    destruct (resolve_all cfg c dfl tl) as [vs|e] eqn:E2; simpl in H; [|discriminate].
    injection H as <-. destruct (IH vs eq_refl) as [H1 H2]. split; simpl; [congruence|].
    constructor; auto.
Qed.

(* the first unresolvable parameter (in signature order) is the one reported *)
Lemma resolve_all_first_failure cfg c dfl : forall names e,
  resolve_all cfg c dfl names = Fail e ->
  exists pre n post, names = (pre ++ n :: post)%list /\ resolve cfg c dfl n = Fail e /\
    Forall (fun m => exists v, resolve cfg c dfl m = Ok v) pre.
Proof.
  induction names as [|n tl IH]; simpl; intros e H; [discriminate|].
  destruct (resolve cfg c dfl n) as [v|e'] eqn:E; simpl in H.
  - destruct (resolve_all cfg c dfl tl) as [vs|e''] eqn:E2; simpl in H; [discriminate|].
    injection H as <-. destruct (IH e'' eq_refl) as (pre & m & post & -> & Hm & Hpre).
    exists (n :: pre), m, post. repeat split; auto. constructor; eauto.
  - injection H as <-. exists [], n, tl. repeat split; auto.
Qed.

(* ---- context effects and frames ------------------------------------------------------------- *)
Lemma apply_op_writes_frame decl : forall ops c c',
  apply_op_writes decl ops c = Ok c' ->
  forall j, smem j decl = false -> lookup j c' = lookup j c.
Proof.
  induction ops as [|[k v|k] tl IH]; simpl; intros c c' H j Hj.
  - injection H as <-. reflexivity.
  - destruct (smem k decl) eqn:E; [|discriminate].
    rewrite (IH _ _ H j Hj). apply lookup_update_other. exact (smem_false_neq j k decl Hj E).
  - discriminate.
Qed.

Lemma apply_op_writes_undeclared decl : forall pre k v post c,
  forallb (fun o => match o with CSet k' _ => smem k' decl | CDel _ => false end) pre = true ->
  smem k decl = false ->
  apply_op_writes decl (pre ++ CSet k v :: post) c = Fail (Err SWrite "KeyError" k).
Proof.
  induction pre as [|[k' v'|k'] tl IH]; simpl; intros k v post c Hpre Hk.
  - rewrite Hk. reflexivity.
  - apply andb_true_iff in Hpre as [H1 H2]. rewrite H1. apply IH; auto.
  - discriminate.
Qed.

Lemma apply_ctx_ops_frame cr su : forall ops c c',
  apply_ctx_ops cr su ops c = Ok c' ->
  forall j, smem j cr = false -> smem j su = false -> lookup j c' = lookup j c.
Proof.
  induction ops as [|[k v|k] tl IH]; simpl; intros c c' H j Hc Hs.
  - injection H as <-. reflexivity.
  - destruct (smem k cr) eqn:E; [|discriminate].
    rewrite (IH _ _ H j Hc Hs). apply lookup_update_other. exact (smem_false_neq j k cr Hc E).
  - destruct (smem k su) eqn:E; [|discriminate].
    destruct (has k c); [|discriminate].
    rewrite (IH _ _ H j Hc Hs). apply lookup_remove_other. exact (smem_false_neq j k su Hs E).
Qed.

Lemma apply_ctx_ops_undeclared_write cr su k v post c :
  smem k cr = false -> apply_ctx_ops cr su (CSet k v :: post) c = Fail (Err SWrite "KeyError" k).
Proof. simpl. intros ->. reflexivity. Qed.

Lemma apply_ctx_ops_undeclared_delete cr su k post c :
  smem k su = false -> apply_ctx_ops cr su (CDel k :: post) c = Fail (Err SDelete "KeyError" k).
Proof. simpl. intros ->. reflexivity. Qed.

(* ---- one node ---------------------------------------------------------------------------------- *)
Definition is_data_kind (k : kind) : bool := match k with KCtx => false | _ => true end.

(* unfolding of exec_node for data nodes *)
Lemma exec_data_node n d c s' :
  is_data_kind (pr_kind (n_proc n)) = true ->
  exec_node n (d, c) = Ok s' ->
  gate (pr_in (n_proc n)) d = true /\
  exists ps d' pv ops c1,
    resolve_all (n_cfg n) c (pr_defaults (n_proc n)) (pr_params (n_proc n)) = Ok ps /\
    pr_run (n_proc n) d ps = Ok (d', pv, ops) /\
    apply_op_writes (pr_created (n_proc n)) ops c = Ok c1 /\
    s' = match pr_kind (n_proc n) with
         | KProbe => match n_ckey n with Some key => (d, update key pv c1) | None => (d, c1) end
         | KSink => (d, c1)
         | _ => (d', c1)
         end.
Proof.
  intros Hk H. unfold exec_node in H.
  destruct (pr_kind (n_proc n)) eqn:K; try discriminate;
  (destruct (gate (pr_in (n_proc n)) d) eqn:G; [|discriminate]; split; auto;
   destruct (resolve_all _ _ _ _) as [ps|e] eqn:R; simpl in H; [|discriminate];
   destruct (pr_run (n_proc n) d ps) as [[[d' pv] ops]|e] eqn:P; simpl in H; [|discriminate];
   destruct (apply_op_writes _ ops c) as [c1|e] eqn:W; simpl in H; [|discriminate];
   exists ps, d', pv, ops, c1; repeat split; auto;
   try (destruct (n_ckey n)); injection H as <-; reflexivity).
Qed.

(* probes leave the data unchanged and store their result under the node's context key;
   every other key outside the declared ones is untouched *)
Theorem probe_passthrough n d c d' c' key :
  pr_kind (n_proc n) = KProbe -> n_ckey n = Some key ->
  exec_node n (d, c) = Ok (d', c') ->
  d' = d /\
  (exists ps dd pv ops, pr_run (n_proc n) d ps = Ok (dd, pv, ops) /\ lookup key c' = Some pv) /\
  (forall j, j <> key -> smem j (pr_created (n_proc n)) = false -> lookup j c' = lookup j c).
Proof.
  intros K CK H. destruct (exec_data_node n d c (d', c')) as (_ & ps & dd & pv & ops & c1 & R & P & W & E); auto.
  { rewrite K. reflexivity. }
  rewrite K, CK in E. injection E as -> ->. split; auto. split.
  - exists ps, dd, pv, ops. split; auto. apply lookup_update_same.
  - intros j Hj Hc. rewrite lookup_update_other by auto. eapply apply_op_writes_frame; eauto.
Qed.

(* operations and sources replace the data by the processor's output; context outside the
   declared keys is untouched *)
Theorem op_replaces_data n d c d' c' :
  (pr_kind (n_proc n) = KOp \/ pr_kind (n_proc n) = KSource) ->
  exec_node n (d, c) = Ok (d', c') ->
  (exists ps pv ops,
      resolve_all (n_cfg n) c (pr_defaults (n_proc n)) (pr_params (n_proc n)) = Ok ps /\
      pr_run (n_proc n) d ps = Ok (d', pv, ops)) /\
  (forall j, smem j (pr_created (n_proc n)) = false -> lookup j c' = lookup j c).
Proof.
  intros K H. destruct (exec_data_node n d c (d', c')) as (_ & ps & dd & pv & ops & c1 & R & P & W & E); auto.
  { destruct K as [K|K]; rewrite K; reflexivity. }
  assert (E' : (d', c') = (dd, c1)) by (destruct K as [K|K]; rewrite K in E; exact E).
  injection E' as -> ->. split.
  - exists ps, pv, ops. auto.
  - intros j Hj. eapply apply_op_writes_frame; eauto.
Qed.

Theorem sink_passthrough n d c d' c' :
  pr_kind (n_proc n) = KSink -> exec_node n (d, c) = Ok (d', c') ->
  d' = d /\ forall j, smem j (pr_created (n_proc n)) = false -> lookup j c' = lookup j c.
Proof.
  intros K H. destruct (exec_data_node n d c (d', c')) as (_ & ps & dd & pv & ops & c1 & R & P & W & E); auto.
  { rewrite K. reflexivity. }
  rewrite K in E. injection E as -> ->. split; auto. intros j Hj. eapply apply_op_writes_frame; eauto.
Qed.

(* a data node whose input type does not match raises the type error, whatever else *)
Theorem type_gate_fails n d c :
  is_data_kind (pr_kind (n_proc n)) = true -> gate (pr_in (n_proc n)) d = false ->
  exec_node n (d, c) = Fail (Err SGate "TypeError" "").
Proof.
  intros K G. unfold exec_node. destruct (pr_kind (n_proc n)); try discriminate; rewrite G; reflexivity.
Qed.

(* an unresolvable parameter raises at this node before the processor runs *)
Theorem unresolved_fails n d c e :
  resolve_all (n_cfg n) c (pr_defaults (n_proc n)) (pr_params (n_proc n)) = Fail e ->
  (is_data_kind (pr_kind (n_proc n)) = true -> gate (pr_in (n_proc n)) d = true) ->
  exec_node n (d, c) = Fail e.
Proof.
  intros R G. unfold exec_node.
  destruct (pr_kind (n_proc n)) eqn:K; try (rewrite (G eq_refl)); rewrite R; reflexivity.
Qed.

(* a write to a key the operation does not declare raises *)
Theorem undeclared_write_fails n d c ps d1 pv pre k v post :
  is_data_kind (pr_kind (n_proc n)) = true -> gate (pr_in (n_proc n)) d = true ->
  resolve_all (n_cfg n) c (pr_defaults (n_proc n)) (pr_params (n_proc n)) = Ok ps ->
  pr_run (n_proc n) d ps = Ok (d1, pv, (pre ++ CSet k v :: post)%list) ->
  forallb (fun o => match o with CSet k' _ => smem k' (pr_created (n_proc n)) | CDel _ => false end) pre = true ->
  smem k (pr_created (n_proc n)) = false ->
  exec_node n (d, c) = Fail (Err SWrite "KeyError" k).
Proof.
  intros K G R P Hpre Hk. unfold exec_node.
  destruct (pr_kind (n_proc n)) eqn:KK; try discriminate; rewrite G, R; simpl; rewrite P; simpl;
    rewrite (apply_op_writes_undeclared _ pre k v post c Hpre Hk); reflexivity.
Qed.

(* context processors: data untouched; only declared keys are created or removed *)
Theorem ctxproc_frame n d c d' c' :
  pr_kind (n_proc n) = KCtx -> exec_node n (d, c) = Ok (d', c') ->
  d' = d /\
  forall j, smem j (pr_created (n_proc n)) = false -> smem j (pr_suppressed (n_proc n)) = false ->
            lookup j c' = lookup j c.
Proof.
  intros K H. unfold exec_node in H. rewrite K in H.
  destruct (resolve_all _ _ _ _) as [ps|e] eqn:R; simpl in H; [|discriminate].
  destruct (pr_run (n_proc n) d ps) as [[[dd pv] ops]|e] eqn:P; simpl in H; [|discriminate].
  destruct (apply_ctx_ops _ _ ops c) as [c1|e] eqn:W; simpl in H; [|discriminate].
  injection H as <- <-. split; auto. intros j H1 H2. eapply apply_ctx_ops_frame; eauto.
Qed.

Theorem ctxproc_undeclared_write_fails n d c ps d1 pv k v post :
  pr_kind (n_proc n) = KCtx ->
  resolve_all (n_cfg n) c (pr_defaults (n_proc n)) (pr_params (n_proc n)) = Ok ps ->
  pr_run (n_proc n) d ps = Ok (d1, pv, CSet k v :: post) ->
  smem k (pr_created (n_proc n)) = false ->
  exec_node n (d, c) = Fail (Err SWrite "KeyError" k).
Proof.
  intros K R P Hk. unfold exec_node. rewrite K, R. simpl. rewrite P. simpl. rewrite Hk. reflexivity.
Qed.

(* ---- pipelines: declaration order, abort at exactly the failing node ------------------------------ *)
Lemma run_from_app : forall p q i s,
  run_from i (p ++ q) s =
  match run_from i p s with
  | Done s' => run_from (i + List.length p) q s'
  | o => o
  end.
Proof.
  induction p as [|n tl IH]; intros q i s; simpl.
  - rewrite Nat.add_0_r. reflexivity.
  - destruct (exec_node n s) as [s'|e]; auto.
    rewrite IH. replace (S i + List.length tl) with (i + S (List.length tl)) by lia. reflexivity.
Qed.

Theorem run_app p q s :
  run (p ++ q) s = match run p s with Done s' => run_from (List.length p) q s' | o => o end.
Proof. unfold run. rewrite run_from_app. reflexivity. Qed.

Lemma run_from_failed_range : forall p i s j e, run_from i p s = Failed j e -> i <= j < i + List.length p.
Proof.
  induction p as [|n tl IH]; simpl; intros i s j e H; [discriminate|].
  destruct (exec_node n s) as [s'|e'].
  - apply IH in H. lia.
  - injection H as <- <-. lia.
Qed.

Lemma run_from_never_cfailed : forall p i s j e, run_from i p s <> CFailed j e.
Proof.
  induction p as [|n tl IH]; simpl; intros i s j e; [discriminate|].
  destruct (exec_node n s); [apply IH|discriminate].
Qed.

(* the failing node is reached through the successful prefix, and nothing after it matters *)
Lemma run_from_failed_prefix : forall p i s j e,
  run_from i p s = Failed j e ->
  exists s', run_from i (firstn (j - i) p) s = Done s' /\
             exists n, nth_error p (j - i) = Some n /\ exec_node n s' = Fail e.
Proof.
  induction p as [|n tl IH]; simpl; intros i s j e H; [discriminate|].
  destruct (exec_node n s) as [s1|e1] eqn:E.
  - pose proof (run_from_failed_range _ _ _ _ _ H) as Hr.
    destruct (IH _ _ _ _ H) as (s' & H1 & m & H2 & H3).
    replace (j - i) with (S (j - S i)) by lia. simpl. rewrite E.
    exists s'. split; auto. exists m. auto.
  - injection H as <- <-. rewrite Nat.sub_diag. simpl. exists s. split; auto. exists n. auto.
Qed.

Theorem abort_exact p s j e :
  run p s = Failed j e ->
  j < List.length p /\
  (exists s' n, run (firstn j p) s = Done s' /\ nth_error p j = Some n /\ exec_node n s' = Fail e) /\
  (forall q, run (firstn (S j) p ++ q) s = Failed j e).
Proof.
  unfold run. intros H.
  pose proof (run_from_failed_range _ _ _ _ _ H) as Hr.
  destruct (run_from_failed_prefix _ _ _ _ _ H) as (s' & H1 & n & H2 & H3).
  rewrite Nat.sub_0_r in *.
  split; [lia|]. split; [eauto|].
  intros q. rewrite run_from_app.
  assert (Hs : firstn (S j) p = (firstn j p ++ [n])%list).
  { clear - H2. revert j H2. induction p as [|a tl IH]; intros [|j] H2; simpl in *; try discriminate.
    - injection H2 as ->. reflexivity.
    - rewrite (IH _ H2). reflexivity. }
  rewrite Hs, run_from_app, H1. simpl. rewrite H3.
  f_equal. rewrite firstn_length. lia.
Qed.

(* executed-node log: exactly 0..j when node j fails, 0..len-1 on success *)
Lemma exec_log_failed : forall p i s j e,
  run_from i p s = Failed j e -> exec_log i p s = seq i (S (j - i)).
Proof.
  induction p as [|n tl IH]; simpl; intros i s j e H; [discriminate|].
  destruct (exec_node n s) as [s1|e1] eqn:E.
  - pose proof (run_from_failed_range _ _ _ _ _ H) as Hr.
    rewrite (IH _ _ _ _ H). replace (j - i) with (S (j - S i)) by lia. reflexivity.
  - injection H as <- <-. rewrite Nat.sub_diag. reflexivity.
Qed.

Lemma exec_log_done : forall p i s s', run_from i p s = Done s' -> exec_log i p s = seq i (List.length p).
Proof.
  induction p as [|n tl IH]; simpl; intros i s s' H; auto.
  destruct (exec_node n s) as [s1|e1] eqn:E; [|discriminate].
  rewrite (IH _ _ _ H). reflexivity.
Qed.

(* ---- construction pre-empts everything ------------------------------------------------------------ *)
Theorem impl_constructible p s : first_unconstructible 0 p = None -> impl_run p s = run p s.
Proof. unfold impl_run. intros ->. reflexivity. Qed.

Theorem impl_unconstructible p s j e :
  first_unconstructible 0 p = Some (j, e) -> impl_run p s = CFailed j e.
Proof. unfold impl_run. intros ->. reflexivity. Qed.

Lemma first_unconstructible_spec : forall p i j e,
  first_unconstructible i p = Some (j, e) ->
  i <= j /\ exists n, nth_error p (j - i) = Some n /\ construct n = Fail e /\
  Forall (fun m => exists u, construct m = Ok u) (firstn (j - i) p).
Proof.
  induction p as [|n tl IH]; simpl; intros i j e H; [discriminate|].
  destruct (construct n) as [u|e'] eqn:C.
  - destruct (IH _ _ _ H) as (Hle & m & H1 & H2 & H3).
    split; [lia|]. replace (j - i) with (S (j - S i)) by lia. simpl.
    exists m. repeat split; auto. constructor; eauto.
  - injection H as <- <-. split; auto. rewrite Nat.sub_diag. simpl. exists n. repeat split; auto.
Qed.

(* ---- slicers map element-wise, in order; the first failing element wins --------------------------- *)
Lemma mapM_ok {A B} (f : A -> res B) : forall l r, mapM f l = Ok r -> Forall2 (fun x y => f x = Ok y) l r.
Proof.
  induction l as [|x tl IH]; simpl; intros r H.
  - injection H as <-. constructor.
  - destruct (f x) as [y|e] eqn:E; simpl in H; [|discriminate].
    destruct (mapM f tl) as [ys|e] eqn:E2; simpl in H; [|discriminate].
    injection H as <-. constructor; auto.
Qed.

Lemma mapM_fail {A B} (f : A -> res B) : forall l e, mapM f l = Fail e ->
  exists pre x post, l = (pre ++ x :: post)%list /\ f x = Fail e /\ Forall (fun a => exists b, f a = Ok b) pre.
Proof.
  induction l as [|x tl IH]; simpl; intros e H; [discriminate|].
  destruct (f x) as [y|e'] eqn:E; simpl in H.
  - destruct (mapM f tl) as [ys|e''] eqn:E2; simpl in H; [discriminate|]. injection H as <-.
    destruct (IH _ eq_refl) as (pre & z & post & -> & Hz & Hpre).
    exists (x :: pre), z, post. repeat split; auto. constructor; eauto.
  - injection H as <-. exists [], x, tl. repeat split; auto.
Qed.

Theorem slicer_is_map p xs ps d' pv ops :
  pr_run (slice_op p) (DC xs) ps = Ok (d', pv, ops) ->
  exists ys, d' = DC ys /\
    Forall2 (fun x y => exists pv' ops', pr_run p (DF x) ps = Ok (DF y, pv', ops')) xs ys.
Proof.
  simpl. intros H.
  destruct (mapM _ xs) as [rs|e] eqn:M; simpl in H; [|discriminate].
  injection H as <- _ _. exists (map fst rs). split; auto.
  apply mapM_ok in M. clear - M. induction M as [|x r xs rs Hx _ IH]; simpl; constructor; auto.
  destruct (pr_run p (DF x) ps) as [[[dd pv'] ops']|e] eqn:P; simpl in Hx; [|discriminate].
  destruct dd as [|z|l]; simpl in Hx; try discriminate. injection Hx as <-. simpl. eauto.
Qed.

Theorem slicer_first_failure p xs ps e :
  pr_run (slice_op p) (DC xs) ps = Fail e ->
  exists pre x post, xs = (pre ++ x :: post)%list /\
    Forall (fun a => exists y pv' ops', pr_run p (DF a) ps = Ok (DF y, pv', ops')) pre /\
    (pr_run p (DF x) ps = Fail e \/
     exists dd pv' ops', pr_run p (DF x) ps = Ok (dd, pv', ops') /\ as_float dd = Fail e).
Proof.
  simpl. intros H.
  destruct (mapM _ xs) as [rs|e'] eqn:M; simpl in H; [discriminate|]. injection H as <-.
  apply mapM_fail in M as (pre & x & post & -> & Hx & Hpre).
  exists pre, x, post. repeat split; auto.
  - eapply Forall_impl; [|exact Hpre]. intros a [b Hb].
    destruct (pr_run p (DF a) ps) as [[[dd pv'] ops']|e0] eqn:P; simpl in Hb; [|discriminate].
    destruct dd as [|z|l]; simpl in Hb; try discriminate. eauto.
  - destruct (pr_run p (DF x) ps) as [[[dd pv'] ops']|e0] eqn:P; simpl in Hx.
    + right. exists dd, pv', ops'. split; auto.
      destruct (as_float dd); simpl in Hx; [discriminate|]. congruence.
    + left. congruence.
Qed.

Theorem slice_probe_is_map p xs ps d' pv ops :
  pr_run (slice_probe p) (DC xs) ps = Ok (d', pv, ops) ->
  d' = DC xs /\ exists rs, pv = VList rs /\
    Forall2 (fun x r => exists dd ops', pr_run p (DF x) ps = Ok (dd, r, ops')) xs rs.
Proof.
  simpl. intros H.
  destruct (mapM _ xs) as [rs|e] eqn:M; simpl in H; [|discriminate].
  injection H as <- <- _. split; auto. exists rs. split; auto.
  apply mapM_ok in M. clear - M. induction M as [|x r xs rs Hx _ IH]; constructor; auto.
  destruct (pr_run p (DF x) ps) as [[[dd pv'] ops']|e] eqn:P; simpl in Hx; [|discriminate].
  injection Hx as <-. eauto.
Qed.

(* ---- a parameter list that names one parameter twice (first_dup, checked by construct) ---- *)
Lemma smem_In x l : smem x l = true <-> In x l.
Proof.
  induction l as [|h t IH]; simpl; [split; [discriminate|tauto]|].
  unfold smem in *; simpl. rewrite orb_true_iff, IH, String.eqb_eq. split; intros [H|H]; auto.
Qed.
Lemma first_dup_none_iff l : first_dup l = None <-> NoDup l.
Proof.
  induction l as [|h t IH]; simpl; [split; [constructor|reflexivity]|].
  destruct (smem h t) eqn:E.
  - split; [discriminate|]. intros N. inversion N as [|? ? Hn _]; subst. exfalso. apply Hn. apply smem_In. exact E.
  - rewrite IH. split.
    + intros N. constructor; [|exact N]. intros Hin. apply smem_In in Hin. congruence.
    + intros N. inversion N; assumption.
Qed.
Theorem duplicate_parameter_rejected n : ~ NoDup (pr_params (n_proc n)) -> exists x, construct n = Fail (Err SConstruct "ValueError" x).
Proof.
  intros H. unfold construct. destruct (first_dup (pr_params (n_proc n))) as [x|] eqn:E; [exists x; reflexivity|].
  exfalso. apply H. apply first_dup_none_iff. exact E.
Qed.
Theorem constructed_has_distinct_parameters n u : construct n = Ok u -> NoDup (pr_params (n_proc n)).
Proof.
  unfold construct. destruct (first_dup (pr_params (n_proc n))) eqn:E; [discriminate|]. intros _. apply first_dup_none_iff. exact E.
Qed.
