(* Proofs/PipelineLib.v — the component library meets the hypotheses of the C02 soundness
   theorems: every library node writes the keys it declares (honest) and operations / sources
   produce their declared output type (thonest). *)
From Coq Require Import List String ZArith Bool.
From SV Require Import Common.Prelude Model.Expr Model.Pipeline Model.Sweep Model.PipelineLib Model.Inspect
  Proofs.Pipeline Proofs.Inspect Proofs.Sweep.
Import ListNotations.
Local Open Scope string_scope.

Lemma honest_no_created n : pr_created (n_proc n) = [] -> honest n.
Proof. intros H d c d' c' _ k Hk. rewrite H in Hk. discriminate. Qed.

Lemma smem_single k j : smem k [j] = true -> k = j.
Proof. unfold smem. simpl. rewrite orb_false_r. apply String.eqb_eq. Qed.

(* declared context write of an operation *)
Lemma honest_ctxwrite key cfg ck : honest (mkNode (lib_ctxwrite key) cfg ck).
Proof.
  intros d c d' c' H k Hk _. simpl in Hk. apply smem_single in Hk. subst k.
  destruct (exec_data_node (mkNode (lib_ctxwrite key) cfg ck) d c (d', c') eq_refl H)
    as (_ & ps & dd & pv & ops & c1 & _ & P & W & E).
  simpl in P, W, E. destruct d as [|x|l]; simpl in P; try discriminate.
  injection P as _ _ <-. simpl in W. unfold smem in W. simpl in W. rewrite String.eqb_refl in W. simpl in W.
  injection W as <-. injection E as _ ->. rewrite has_update, String.eqb_refl. reflexivity.
Qed.

(* template writes its output key *)
Lemma honest_template t out cfg : honest (mkNode (lib_template t out) cfg None).
Proof.
  intros d c d' c' H k Hk _. simpl in Hk. apply smem_single in Hk. subst k.
  unfold exec_node in H. simpl in H.
  destruct (resolve_all cfg c [] (holes t [])) as [ps|e]; simpl in H; [|discriminate].
  destruct (render t ps) as [s|e]; simpl in H; [|discriminate].
  unfold smem in H. simpl in H. rewrite String.eqb_refl in H. simpl in H.
  injection H as _ <-. rewrite has_update, String.eqb_refl. reflexivity.
Qed.

(* rename (with the presence test of the repaired code) writes its destination key *)
Lemma resolve_all_single cfg c dfl a ps :
  resolve_all cfg c dfl [a] = Ok ps -> exists v, ps = [(a, v)].
Proof.
  simpl. destruct (resolve cfg c dfl a) as [v|e]; simpl; [|discriminate]. intros H. injection H as <-. eauto.
Qed.

Lemma honest_rename a b cfg : honest (mkNode (lib_rename false a b) cfg None).
Proof.
  intros d c d' c' H k Hk Hs. simpl in Hk. apply smem_single in Hk. subst k.
  unfold suppressed_of, is_ctx in Hs. simpl in Hs. unfold smem in Hs. simpl in Hs. rewrite orb_false_r in Hs.
  unfold exec_node in H. cbn [n_proc pr_kind lib_rename n_cfg pr_defaults pr_params pr_run pr_created pr_suppressed] in H.
  destruct (resolve_all cfg c [] [a]) as [ps|e] eqn:R; cbn [bind] in H; [|discriminate].
  destruct (resolve_all_single _ _ _ _ _ R) as [v ->].
  cbn [lookup] in H. rewrite String.eqb_refl in H.
  assert (Hops : apply_ctx_ops [b] [a] [CSet b v; CDel a] c = Ok c' /\ d' = d).
  { destruct v; cbn [bind] in H;
      (destruct (apply_ctx_ops [b] [a] _ c) as [c1|e] eqn:W; cbn [bind] in H; [|discriminate]);
      injection H as <- <-; auto. }
  destruct Hops as [W _]. simpl in W. unfold smem in W. simpl in W. rewrite !String.eqb_refl in W. simpl in W.
  destruct (has a (update b v c)); [|discriminate]. injection W as <-.
  rewrite has_remove_other.
  - rewrite has_update, String.eqb_refl. reflexivity.
  - intro E. subst. rewrite String.eqb_refl in Hs. discriminate.
Qed.

(* operations and sources of the library produce their declared output type *)
Lemma thonest_data_unchanged_kinds n o :
  pr_kind (n_proc n) <> KOp -> pr_kind (n_proc n) <> KSource -> thonest (n, o).
Proof. intros H1 H2 [K|K]; simpl in K; contradiction. Qed.

Lemma thonest_from_run n o :
  (forall d ps d' pv ops, pr_run (n_proc n) d ps = Ok (d', pv, ops) -> ty_of d' = o) -> thonest (n, o).
Proof.
  intros Hrun K d c d' c' H. simpl fst in *. simpl snd.
  destruct (op_replaces_data n d c d' c' K H) as [(ps & pv & ops & _ & P) _]. eapply Hrun; eauto.
Qed.

Lemma thonest_mul b cfg : thonest (mkNode (lib_mul b) cfg None, TF).
Proof.
  apply thonest_from_run. intros d ps d' pv ops P. simpl in P. destruct d; simpl in P; try discriminate.
  destruct (numarg "factor" ps); simpl in P; [|discriminate]. injection P as <- _ _. reflexivity.
Qed.
Lemma thonest_add cfg : thonest (mkNode lib_add cfg None, TF).
Proof.
  apply thonest_from_run. intros d ps d' pv ops P. simpl in P. destruct d; simpl in P; try discriminate.
  destruct (numarg "addend" ps); simpl in P; [|discriminate]. injection P as <- _ _. reflexivity.
Qed.
Lemma thonest_square cfg : thonest (mkNode lib_square cfg None, TF).
Proof.
  apply thonest_from_run. intros d ps d' pv ops P. simpl in P. destruct d; simpl in P; try discriminate.
  injection P as <- _ _. reflexivity.
Qed.
Lemma thonest_src b cfg : thonest (mkNode (lib_src b) cfg None, TF).
Proof.
  apply thonest_from_run. intros d ps d' pv ops P. simpl in P.
  destruct (lookup "value" ps) as [[| z | |]|]; try discriminate. injection P as <- _ _. reflexivity.
Qed.
Lemma thonest_csum cfg : thonest (mkNode lib_csum cfg None, TF).
Proof.
  apply thonest_from_run. intros d ps d' pv ops P. simpl in P.
  destruct d as [|x|[|y l]]; simpl in P; try discriminate. injection P as <- _ _. reflexivity.
Qed.
Lemma thonest_slice_op p cfg : thonest (mkNode (slice_op p) cfg None, TC).
Proof.
  apply thonest_from_run. intros d ps d' pv ops P. simpl in P. destruct d; try discriminate.
  destruct (mapM _ l); simpl in P; [|discriminate]. injection P as <- _ _. reflexivity.
Qed.
Lemma thonest_sweep pub elem sw cfg : pr_kind elem <> KProbe -> thonest (mkNode (sweep_proc pub elem sw) cfg None, TC).
Proof.
  intros K. apply thonest_from_run. intros d ps d' pv ops P.
  destruct (Proofs.Sweep.sweep_elements pub elem sw d ps d' pv ops K P) as (seqs & steps & zs & _ & _ & -> & _). reflexivity.
Qed.
