(* Proofs/Placement.v — the run-space flags reach the run space in force exactly under the rule PatchLoaderBlock. *)
From Coq Require Import List String ZArith Bool.
From SV Require Import Model.RunSpace Model.Loader Model.Placement.
Import ListNotations.

Lemma no_flags_no_patch pr fl d : has_flags fl = false -> patch pr fl d = d.
Proof. intros H. unfold patch. rewrite H. reflexivity. Qed.

(* the loader's block, before and after the CLI wrote the flags into the document *)
Theorem patched_block_is_intended lp fl d :
  lp = TopFirst ->
  cli_run_space lp PatchLoaderBlock fl d = intended lp fl d.
Proof.
  intros ->. unfold cli_run_space, intended, patch.
  destruct (has_flags fl) eqn:Hf; cbn [negb]; [|reflexivity].
  destruct (apply_file fl d) as [t n]. cbn [d_top d_nested in_force].
  destruct t as [r|]; cbn [in_force d_top d_nested or_empty]; [reflexivity|].
  destruct n as [r|]; cbn [in_force d_top d_nested or_empty]; reflexivity.
Qed.

(* the flags survive the loader: the cap is the one given, a dry run is requested, nothing else changes *)
Lemma load_set_flags f fl r :
  load f (set_flags fl r) =
  (mkSpec (sp_combine (fst (load f r)))
          (match f_cap fl with Some z => z | None => sp_max_runs (fst (load f r)) end)
          (sp_blocks (fst (load f r))),
   if f_dry fl then true else snd (load f r)).
Proof.
  unfold load, set_flags. cbn [r_combine r_max_runs r_dry r_blocks fst snd sp_combine sp_max_runs sp_blocks].
  destruct (f_cap fl); destruct (f_dry fl); cbn [load_dry truthy]; try reflexivity;
    destruct (d_dry_truthy f); reflexivity.
Qed.

Theorem flags_reach_the_launch f lp fl d r :
  lp = TopFirst -> has_flags fl = true ->
  in_force lp (apply_file fl d) = Some r ->
  exists r', cli_run_space lp PatchLoaderBlock fl d = Some r' /\
    sp_blocks (fst (load f r')) = sp_blocks (fst (load f r)) /\
    sp_combine (fst (load f r')) = sp_combine (fst (load f r)) /\
    (forall z, f_cap fl = Some z -> sp_max_runs (fst (load f r')) = z) /\
    (f_cap fl = None -> sp_max_runs (fst (load f r')) = sp_max_runs (fst (load f r))) /\
    (f_dry fl = true -> snd (load f r') = true) /\
    (f_dry fl = false -> snd (load f r') = snd (load f r)).
Proof.
  intros Hlp Hf Hr. exists (set_flags fl r). split.
  - rewrite (patched_block_is_intended lp fl d Hlp). unfold intended. rewrite Hf, Hr. reflexivity.
  - rewrite load_set_flags. cbn [fst snd sp_blocks sp_combine sp_max_runs].
    repeat split; try reflexivity.
    + intros z Hz. rewrite Hz. reflexivity.
    + intros Hz. rewrite Hz. reflexivity.
    + intros Hd. rewrite Hd. reflexivity.
    + intros Hd. rewrite Hd. reflexivity.
Qed.

(* a file given on the command line wins over both blocks of the document *)
Theorem file_wins fl d r : f_file fl = Some r -> in_force TopFirst (apply_file fl d) = Some r.
Proof. intros H. unfold apply_file. rewrite H. reflexivity. Qed.

(* ---- the two other rules miss the run space in force ---- *)
Definition three_runs : raw_spec :=
  mkRawSpec None None None [mkRawBlock ByPosition (Some [("value"%string, [VInt 1; VInt 2; VInt 3])]) None].
Definition one_run : raw_spec :=
  mkRawSpec None None None [mkRawBlock ByPosition (Some [("value"%string, [VInt 9])]) None].
Definition cap2 : flags := mkFlags None (Some 2%Z) false.

(* setdefault at the top level hides a run space written under `pipeline:` *)
Theorem top_always_refuted :
  cli_run_space TopFirst PatchTopAlways cap2 (mkDoc None (Some three_runs)) <> intended TopFirst cap2 (mkDoc None (Some three_runs))
  /\ r_blocks (or_empty (cli_run_space TopFirst PatchTopAlways cap2 (mkDoc None (Some three_runs)))) = [].
Proof. split; [discriminate|reflexivity]. Qed.

(* patching the nested block misses a top-level block (or a --run-space-file) *)
Theorem nested_if_present_refuted :
  cli_run_space TopFirst PatchNestedIfPresent cap2 (mkDoc (Some three_runs) (Some one_run)) = Some three_runs
  /\ intended TopFirst cap2 (mkDoc (Some three_runs) (Some one_run)) = Some (set_flags cap2 three_runs).
Proof. split; reflexivity. Qed.

(* non-vacuity: a document with both blocks, a file and both flags *)
Example ex_all_at_once :
  cli_run_space TopFirst PatchLoaderBlock (mkFlags (Some three_runs) (Some 2%Z) true) (mkDoc (Some one_run) (Some one_run))
  = Some (mkRawSpec None (Some 2%Z) (Some (YBool true)) (r_blocks three_runs)).
Proof. reflexivity. Qed.
