(* Proofs/Registry.v -- lemmas about Model/Registry.v (C18).
   Closed forms of registry size / live classes / queue length / job channels over N repetitions,
   monotonicity (nothing ever shrinks), and stability when no class is created or registered per run. *)
From Coq Require Import List String Bool Arith Lia.
From SV Require Import Model.Registry.
Import ListNotations.

(* ---- generalities ---------------------------------------------------------------------------- *)
Lemma iter_add {A} (f : A -> A) a b x : iter (a + b) f x = iter a f (iter b f x).
Proof. induction a; simpl; congruence. Qed.

Lemma iter_invariant {A} (P : A -> Prop) (f : A -> A) :
  (forall x, P x -> P (f x)) -> forall n x, P x -> P (iter n f x).
Proof. intros H n. induction n; simpl; auto. Qed.

Lemma flat_map_len {A B} (f : A -> list B) l :
  List.length (flat_map f l) = list_sum (map (fun x => List.length (f x)) l).
Proof. induction l; simpl; auto. rewrite app_length, IHl. reflexivity. Qed.

Lemma list_sum_map_add {A} (f g : A -> nat) l :
  list_sum (map (fun x => f x + g x) l) = list_sum (map f l) + list_sum (map g l).
Proof. induction l; simpl; lia. Qed.

Lemma list_sum_map_zero {A} (l : list A) : list_sum (map (fun _ => 0) l) = 0.
Proof. induction l; simpl; auto. Qed.

Lemma list_sum_map_ext {A} (f g : A -> nat) l :
  (forall x, f x = g x) -> list_sum (map f l) = list_sum (map g l).
Proof. intro H. induction l; simpl; auto. Qed.

Lemma list_sum_map_ge {A} (f : A -> nat) l : (forall x, 1 <= f x) -> List.length l <= list_sum (map f l).
Proof. intro H. induction l; simpl; auto. specialize (H a). lia. Qed.

(* ---- the registry ------------------------------------------------------------------------------ *)
Lemma reg_size_add d r : reg_size (reg_add d r) = S (reg_size r).
Proof.
  induction r as [|[c l] tl IH]; simpl; auto.
  destruct (String.eqb c (fst d)); simpl; [|rewrite IH]; unfold reg_size; simpl; lia.
Qed.

Lemma all_memo_b_spec F : all_memo_b F = true -> all_memo F.
Proof.
  unfold all_memo_b, all_factories. simpl. intros H f.
  repeat (apply andb_prop in H; destruct H as [? H]). destruct f; assumption.
Qed.

Lemma no_memo_b_spec F : no_memo_b F = true -> no_memo F.
Proof.
  unfold no_memo_b, all_factories. simpl. intros H f. apply negb_true_iff in H.
  repeat (apply orb_false_elim in H; destruct H as [? H]). destruct f; assumption.
Qed.

(* ---- what `create`, `apply`, `release` leave alone ------------------------------------------------ *)
Lemma create_queue F s e : queue (create F s e) = queue s.
Proof. unfold create. destruct (_ && _); reflexivity. Qed.
Lemma create_jobchan F s e : jobchan (create F s e) = jobchan s.
Proof. unfold create. destruct (_ && _); reflexivity. Qed.

Lemma apply_queue F evs : forall s, queue (apply F evs s) = queue s.
Proof. unfold apply. induction evs; simpl; intros; auto. rewrite IHevs. apply create_queue. Qed.
Lemma apply_jobchan F evs : forall s, jobchan (apply F evs s) = jobchan s.
Proof. unfold apply. induction evs; simpl; intros; auto. rewrite IHevs. apply create_jobchan. Qed.

Lemma release_registry F s : registry (release F s) = registry s.
Proof. unfold release. destruct (registers F); reflexivity. Qed.
Lemma release_cache F s : cache (release F s) = cache s.
Proof. unfold release. destruct (registers F); reflexivity. Qed.
Lemma release_queue F s : queue (release F s) = queue s.
Proof. unfold release. destruct (registers F); reflexivity. Qed.
Lemma release_jobchan F s : jobchan (release F s) = jobchan s.
Proof. unfold release. destruct (registers F); reflexivity. Qed.

Lemma run_once_registry F w c s :
  registry (run_once F w c s) = registry (apply F (run_events F w c) (release F s)).
Proof. destruct w; reflexivity. Qed.
Lemma run_once_cache F w c s :
  cache (run_once F w c s) = cache (apply F (run_events F w c) (release F s)).
Proof. destruct w; reflexivity. Qed.
Lemma run_once_live F w c s :
  live (run_once F w c s) = live (apply F (run_events F w c) (release F s)).
Proof. destruct w; reflexivity. Qed.

(* ---- k as a function of the node kinds ------------------------------------------------------------- *)
Lemma resolve_events_len n : List.length (resolve_events n) = resolve_count n.
Proof. unfold resolve_events, resolve_count. destruct (n_ref n); reflexivity. Qed.
Lemma sweep_events_len n : List.length (sweep_events n) = sweep_count n.
Proof. unfold sweep_events, sweep_count. destruct (n_ref n); reflexivity. Qed.
Lemma node_events_len F n : List.length (node_events F n) = inst_count F n.
Proof.
  unfold node_events, inst_count. rewrite !app_length, !repeat_length, resolve_events_len. lia.
Qed.

Lemma execute_events_len F c :
  List.length (execute_events F c) = list_sum (map (exec_count F (c_traced c)) (c_nodes c)).
Proof.
  unfold execute_events, exec_count. rewrite app_length, list_sum_map_add. f_equal.
  - destruct (c_traced c && trace_resolves F).
    + rewrite flat_map_len. apply list_sum_map_ext, resolve_events_len.
    + simpl. symmetry. apply list_sum_map_zero.
  - destruct (inst_in_execute F).
    + rewrite flat_map_len. apply list_sum_map_ext, node_events_len.
    + simpl. symmetry. apply list_sum_map_zero.
Qed.

Lemma construct_events_len F c :
  List.length (construct_events F c) = list_sum (map (construct_count F) (c_nodes c)).
Proof.
  unfold construct_events, construct_count. rewrite app_length, list_sum_map_add. f_equal.
  - rewrite flat_map_len. apply list_sum_map_ext, sweep_events_len.
  - destruct (inst_in_execute F).
    + simpl. symmetry. apply list_sum_map_zero.
    + rewrite flat_map_len. apply list_sum_map_ext, node_events_len.
Qed.

(* classes generated per repetition = sum over the nodes of a number that depends on the node kind only *)
Theorem k_sum F w c : k F w c = list_sum (map (k_node F w (c_traced c)) (c_nodes c)).
Proof.
  unfold k, run_events, k_node. destruct w.
  - apply execute_events_len.
  - rewrite app_length, construct_events_len, execute_events_len, <- list_sum_map_add. reflexivity.
  - apply execute_events_len.
  - rewrite app_length, construct_events_len, execute_events_len, <- list_sum_map_add. reflexivity.
Qed.

Lemma k_positive F w c :
  inst_in_execute F = true -> (forall r, 1 <= node_classes F r) -> List.length (c_nodes c) <= k F w c.
Proof.
  intros I H. rewrite k_sum. apply list_sum_map_ge. intro n.
  specialize (H (n_role n)).
  unfold k_node, exec_count, inst_count. rewrite I. destruct w; lia.
Qed.

(* ---- closed forms: nothing memoised, every class registered ---------------------------------------- *)
Section NoMemo.
Variable F : facts.
Hypothesis NM : no_memo F.
Hypothesis REG : registers F = true.

Lemma create_nm s e :
  create F s e = mkState (reg_add (e_desc e) (registry s)) (cache s) (queue s) (jobchan s) (S (live s)).
Proof. unfold create. rewrite NM, REG. reflexivity. Qed.

Lemma apply_nm evs : forall s,
  reg_size (registry (apply F evs s)) = reg_size (registry s) + List.length evs
  /\ live (apply F evs s) = live s + List.length evs
  /\ cache (apply F evs s) = cache s.
Proof.
  unfold apply. induction evs as [|e evs IH]; simpl; intro s; [repeat split; lia|].
  destruct (IH (create F s e)) as [A [B C]]. rewrite A, B, C, create_nm. simpl.
  rewrite reg_size_add. repeat split; lia.
Qed.

Lemma release_nm s : release F s = s.
Proof. unfold release. rewrite REG. reflexivity. Qed.

Lemma run_once_nm w c s :
  reg_size (registry (run_once F w c s)) = reg_size (registry s) + k F w c
  /\ live (run_once F w c s) = live s + k F w c.
Proof.
  rewrite run_once_registry, run_once_live, release_nm.
  destruct (apply_nm (run_events F w c) s) as [A [B _]]. split; assumption.
Qed.

(* |registry (iter N run s)| = |registry s| + N * k cfg, for every configuration, way, state and N *)
Theorem registry_closed_form w c s N :
  reg_size (registry (iter N (run_once F w c) s)) = reg_size (registry s) + N * k F w c.
Proof.
  induction N; simpl; [lia|]. destruct (run_once_nm w c (iter N (run_once F w c) s)) as [A _].
  rewrite A, IHN. lia.
Qed.

Theorem live_closed_form w c s N :
  live (iter N (run_once F w c) s) = live s + N * k F w c.
Proof.
  induction N; simpl; [lia|]. destruct (run_once_nm w c (iter N (run_once F w c) s)) as [_ B].
  rewrite B, IHN. lia.
Qed.

(* the registry after 3N repetitions is strictly larger than after N: the direct oracle of the harness *)
Theorem registry_grows w c s N :
  inst_in_execute F = true -> (forall r, 1 <= node_classes F r) -> c_nodes c <> [] -> 0 < N ->
  reg_size (registry (iter N (run_once F w c) s)) < reg_size (registry (iter (3 * N) (run_once F w c) s)).
Proof.
  intros I H NE P. rewrite !registry_closed_form.
  assert (K : 1 <= k F w c).
  { pose proof (k_positive F w c I H). destruct (c_nodes c); [congruence|simpl in *; lia]. }
  remember (k F w c) as kk.
  assert (M : 1 <= N * kk) by (destruct N; [lia|]; destruct kk; [lia|]; simpl; lia).
  replace (3 * N * kk) with (N * kk + 2 * (N * kk)) by lia. lia.
Qed.
End NoMemo.

(* ---- the queue of the Pipeline object, the job channel table (all facts) ------------------------------- *)
Lemma run_once_queue_reused F w c s :
  w = WReused \/ w = WRunSpace -> queue (run_once F w c s) = published F c + queue s.
Proof.
  intros [-> | ->]; unfold run_once; cbn [queue set_queue]; rewrite apply_queue, release_queue; reflexivity.
Qed.

Lemma run_once_queue_fresh F w c s :
  w = WFresh \/ w = WWorker -> queue (run_once F w c s) = published F c.
Proof. intros [-> | ->]; reflexivity. Qed.

(* |queue| = q0 + N * length cfg for a reused Pipeline object (published = length cfg unless outputs are consumed) *)
Theorem queue_closed_form F w c s N :
  w = WReused \/ w = WRunSpace ->
  queue (iter N (run_once F w c) s) = queue s + N * published F c.
Proof.
  intro W. induction N; simpl; [lia|]. rewrite run_once_queue_reused, IHN by assumption. lia.
Qed.

(* a fresh Pipeline object per repetition: its queue holds one run's messages, whatever N *)
Theorem queue_fresh_bounded F w c s N :
  w = WFresh \/ w = WWorker -> queue (iter (S N) (run_once F w c) s) = published F c.
Proof. intro W. simpl. apply run_once_queue_fresh, W. Qed.

Lemma run_once_jobchan F w c s :
  jobchan (run_once F w c s) =
  (match w with WWorker => (if chan_removed F then 0 else 2) | _ => 0 end) + jobchan s.
Proof.
  destruct w; unfold run_once; cbn [jobchan set_queue add_jobchan]; rewrite apply_jobchan, release_jobchan; reflexivity.
Qed.

Theorem jobchan_closed_form F w c s N :
  jobchan (iter N (run_once F w c) s) =
  jobchan s + N * (match w with WWorker => (if chan_removed F then 0 else 2) | _ => 0 end).
Proof. induction N; simpl; [lia|]. rewrite run_once_jobchan, IHN. lia. Qed.

(* ---- monotonicity: nothing ever shrinks (all facts) --------------------------------------------------- *)
Lemma create_reg_mono F s e : reg_size (registry s) <= reg_size (registry (create F s e)).
Proof.
  unfold create. destruct (_ && _); [lia|]. cbn [registry].
  destruct (registers F); [rewrite reg_size_add|]; lia.
Qed.

Lemma apply_reg_mono F evs : forall s, reg_size (registry s) <= reg_size (registry (apply F evs s)).
Proof.
  unfold apply. induction evs as [|e evs IH]; simpl; intro s; [lia|].
  specialize (IH (create F s e)). pose proof (create_reg_mono F s e). lia.
Qed.

Theorem registry_never_shrinks F w c s N :
  reg_size (registry s) <= reg_size (registry (iter N (run_once F w c) s)).
Proof.
  induction N; simpl; [lia|]. rewrite run_once_registry.
  pose proof (apply_reg_mono F (run_events F w c) (release F (iter N (run_once F w c) s))).
  rewrite release_registry in H. lia.
Qed.

Theorem queue_never_shrinks F w c s N :
  w = WReused \/ w = WRunSpace -> queue s <= queue (iter N (run_once F w c) s).
Proof. intro W. rewrite queue_closed_form by assumption. lia. Qed.

Theorem jobchan_never_shrinks F w c s N : jobchan s <= jobchan (iter N (run_once F w c) s).
Proof. rewrite jobchan_closed_form. lia. Qed.

(* ---- stability (1): the metaclass does not register per-run classes ------------------------------------- *)
Lemma create_unreg F s e : registers F = false -> registry (create F s e) = registry s.
Proof. intro R. unfold create. destruct (_ && _); [reflexivity|]. cbn [registry]. rewrite R. reflexivity. Qed.

Lemma apply_unreg F evs : registers F = false -> forall s, registry (apply F evs s) = registry s.
Proof.
  intro R. unfold apply. induction evs as [|e evs IH]; simpl; intro s; auto.
  rewrite IH. apply create_unreg, R.
Qed.

Theorem registry_stable_unregistered F w c s N :
  registers F = false -> registry (iter N (run_once F w c) s) = registry s.
Proof.
  intro R. induction N; simpl; auto.
  rewrite run_once_registry, apply_unreg, release_registry by assumption. exact IHN.
Qed.

(* ---- stability (2): every factory is memoised ------------------------------------------------------------ *)
Definition covered (evs : list event) (s : state) : Prop :=
  forall e, In e evs -> mem (e_key e) (cache s) = true.

Lemma mem_cons k x l : mem k (x :: l) = String.eqb k x || mem k l.
Proof. reflexivity. Qed.

Lemma create_cache_mono F s e k0 : mem k0 (cache s) = true -> mem k0 (cache (create F s e)) = true.
Proof.
  intro H. unfold create. destruct (_ && _); auto. cbn [cache].
  destruct (memo F (e_fac e)); auto. rewrite mem_cons, H. apply orb_true_r.
Qed.

Lemma apply_cache_mono F evs k0 : forall s, mem k0 (cache s) = true -> mem k0 (cache (apply F evs s)) = true.
Proof.
  unfold apply. induction evs as [|e evs IH]; simpl; intros s H; auto.
  apply IH, create_cache_mono, H.
Qed.

Lemma create_adds F s e : memo F (e_fac e) = true -> mem (e_key e) (cache (create F s e)) = true.
Proof.
  intro M. unfold create. rewrite M. cbn [andb].
  destruct (mem (e_key e) (cache s)) eqn:E; auto.
  cbn [cache]. rewrite mem_cons, String.eqb_refl. reflexivity.
Qed.

Lemma apply_covers F evs : all_memo F -> forall s, covered evs (apply F evs s).
Proof.
  intro AM. induction evs as [|e evs IH]; intros s e' I; [destruct I|].
  change (apply F (e :: evs) s) with (apply F evs (create F s e)).
  destruct I as [<- | I].
  - apply apply_cache_mono, create_adds, AM.
  - apply IH, I.
Qed.

Lemma create_covered_id F s e :
  memo F (e_fac e) = true -> mem (e_key e) (cache s) = true -> create F s e = s.
Proof. intros M H. unfold create. rewrite M, H. reflexivity. Qed.

Lemma apply_covered_id F evs : all_memo F -> forall s, covered evs s -> apply F evs s = s.
Proof.
  intro AM. induction evs as [|e evs IH]; intros s C; [reflexivity|].
  change (apply F (e :: evs) s) with (apply F evs (create F s e)).
  rewrite create_covered_id; [|apply AM|apply C; left; reflexivity].
  apply IH. intros e' I. apply C. right. exact I.
Qed.

Lemma covered_release F evs s : covered evs s -> covered evs (release F s).
Proof. intros C e I. rewrite release_cache. apply C, I. Qed.

Lemma run_once_covered F w c s :
  all_memo F -> covered (run_events F w c) s ->
  registry (run_once F w c s) = registry s /\ cache (run_once F w c s) = cache s.
Proof.
  intros AM C. rewrite run_once_registry, run_once_cache.
  rewrite apply_covered_id; auto using covered_release.
  split; [apply release_registry|apply release_cache].
Qed.

Lemma run_once_covers F w c s : all_memo F -> covered (run_events F w c) (run_once F w c s).
Proof.
  intros AM e I. rewrite run_once_cache. apply apply_covers; assumption.
Qed.

(* after one warm-up repetition, no later repetition changes the registry *)
Theorem registry_stable_memoised F w c s N :
  all_memo F ->
  let s1 := run_once F w c s in
  registry (iter N (run_once F w c) s1) = registry s1.
Proof.
  intros AM s1.
  assert (H : registry (iter N (run_once F w c) s1) = registry s1 /\ cache (iter N (run_once F w c) s1) = cache s1).
  { induction N; simpl; [split; reflexivity|]. destruct IHN as [A B].
    destruct (run_once_covered F w c (iter N (run_once F w c) s1) AM) as [A' B'].
    - intros e I. rewrite B. apply (run_once_covers F w c s AM e I).
    - split; congruence. }
  apply H.
Qed.

Definition classes_stable (F : facts) : bool := negb (registers F) || all_memo_b F.

Theorem registry_stable F w c s N :
  classes_stable F = true ->
  let s1 := run_once F w c s in
  registry (iter N (run_once F w c) s1) = registry s1.
Proof.
  intros H s1. unfold classes_stable in H. apply orb_prop in H. destruct H as [H | H].
  - apply registry_stable_unregistered. apply negb_true_iff, H.
  - apply registry_stable_memoised, all_memo_b_spec, H.
Qed.

(* live generated classes: with registration and memoisation nothing new stays alive after the warm-up *)
Theorem live_stable_memoised F w c s N :
  all_memo F -> registers F = true ->
  let s1 := run_once F w c s in
  live (iter N (run_once F w c) s1) = live s1.
Proof.
  intros AM R s1.
  assert (H : live (iter N (run_once F w c) s1) = live s1 /\ cache (iter N (run_once F w c) s1) = cache s1).
  { induction N; simpl; [split; reflexivity|]. destruct IHN as [A B]. split.
    - rewrite run_once_live, apply_covered_id; auto.
      + unfold release. rewrite R. exact A.
      + apply covered_release. intros e I. rewrite B. apply (run_once_covers F w c s AM e I).
    - destruct (run_once_covered F w c (iter N (run_once F w c) s1) AM) as [_ B'].
      + intros e I. rewrite B. apply (run_once_covers F w c s AM e I).
      + congruence. }
  apply H.
Qed.

(* ---- stability of the queue and of the job channel table -------------------------------------------------- *)
Theorem queue_stable F w c s N :
  consumed F = true ->
  let s1 := run_once F w c s in
  queue (iter N (run_once F w c) s1) = queue s1.
Proof.
  intros C s1. assert (P : published F c = 0) by (unfold published; rewrite C; reflexivity).
  destruct w.
  - rewrite queue_closed_form by auto. rewrite P. lia.
  - destruct N; [reflexivity|]. rewrite queue_fresh_bounded by auto. reflexivity.
  - rewrite queue_closed_form by auto. rewrite P. lia.
  - destruct N; [reflexivity|]. rewrite queue_fresh_bounded by auto. reflexivity.
Qed.

(* a fresh Pipeline object per repetition never accumulates messages, whatever the facts *)
Theorem queue_stable_fresh F w c s N :
  w = WFresh \/ w = WWorker ->
  let s1 := run_once F w c s in
  queue (iter N (run_once F w c) s1) = queue s1.
Proof.
  intros W s1. destruct N; [reflexivity|]. rewrite queue_fresh_bounded by assumption.
  unfold s1. rewrite run_once_queue_fresh by assumption. reflexivity.
Qed.

Theorem jobchan_stable F w c s N :
  chan_removed F = true \/ w <> WWorker ->
  jobchan (iter N (run_once F w c) s) = jobchan s.
Proof.
  intro H. rewrite jobchan_closed_form. destruct w; try lia.
  destruct H as [H | H]; [rewrite H; lia|congruence].
Qed.

(* the empty configuration leaves no residue under any facts *)
Theorem empty_config_stable F w tr s N :
  registry (iter N (run_once F w (mkConfig [] tr)) s) = registry s.
Proof.
  induction N; simpl; auto. rewrite run_once_registry.
  assert (E : run_events F w (mkConfig [] tr) = []).
  { unfold run_events, construct_events, execute_events. simpl.
    destruct w, (inst_in_execute F), (tr && trace_resolves F); reflexivity. }
  rewrite E. cbn [apply fold_left]. rewrite release_registry. exact IHN.
Qed.
