(* Proofs/Rows.v — columns built from the rows of a source are aligned: position j of every column is a value of row j. *)
From Coq Require Import List String ZArith Bool Arith Lia.
From SV Require Import Model.RunSpace Model.Rows.
Import ListNotations.

Lemma lookup_dset_same {V} k (v : V) m : lookup k (dset k v m) = Some v.
Proof.
  induction m as [|[k' v'] tl IH]; cbn [dset lookup].
  - rewrite String.eqb_refl. reflexivity.
  - destruct (String.eqb k k') eqn:E; cbn [lookup]; rewrite E; [reflexivity | exact IH].
Qed.
Lemma lookup_dset_other {V} k k2 (v : V) m : k2 <> k -> lookup k2 (dset k v m) = lookup k2 m.
Proof.
  intros Hne. induction m as [|[k' v'] tl IH]; cbn [dset lookup].
  - destruct (String.eqb_spec k2 k) as [->|_]; [contradiction | reflexivity].
  - destruct (String.eqb_spec k k') as [<-|Hk]; cbn [lookup].
    + destruct (String.eqb_spec k2 k) as [->|_]; [contradiction | reflexivity].
    + destruct (String.eqb k2 k'); [reflexivity | exact IH].
Qed.

(* every column holds at most n values, and its j-th value is a value of row j under the column's key *)
Definition Inv (rows : list row) (n : nat) (cs : cols) : Prop :=
  forall k col, lookup k cs = Some col ->
    List.length col <= n /\
    forall j, j < List.length col -> exists r, nth_error rows j = Some r /\ In (k, nth j col vdef) r.

Lemma Inv_mono rows n m cs : n <= m -> Inv rows n cs -> Inv rows m cs.
Proof. intros Hle H k col Hk. destruct (H k col Hk) as [A B]. split; [lia | exact B]. Qed.

Lemma append_row_inv rows i ri : nth_error rows i = Some ri ->
  forall suffix cs cs', (forall p, In p suffix -> In p ri) ->
  Inv rows (S i) cs -> append_row cs suffix i = Some cs' -> Inv rows (S i) cs'.
Proof.
  intros Hri. induction suffix as [|[k v] tl IH]; intros cs cs' Hsub HI Happ; cbn [append_row] in Happ.
  - injection Happ as <-. exact HI.
  - set (col := match lookup k cs with Some c => c | None => [] end) in *.
    destruct (Nat.eqb (List.length col) i) eqn:El; [|discriminate].
    apply Nat.eqb_eq in El.
    apply (IH (dset k (col ++ [v]) cs) cs'); [intros p Hp; apply Hsub; right; exact Hp | | exact Happ].
    intros k2 col2 Hk2.
    destruct (String.eqb_spec k2 k) as [->|Hne].
    + rewrite lookup_dset_same in Hk2. injection Hk2 as <-.
      split; [rewrite app_length; cbn; lia|].
      intros j Hj. rewrite app_length in Hj. cbn in Hj.
      destruct (Nat.eq_dec j i) as [->|Hji].
      * exists ri. split; [exact Hri|].
        rewrite app_nth2 by lia. rewrite El, Nat.sub_diag. cbn. apply Hsub. left. reflexivity.
      * assert (Hlt : j < List.length col) by lia.
        rewrite app_nth1 by exact Hlt.
        unfold col in *. destruct (lookup k cs) as [c|] eqn:Ek; [|cbn in Hlt; lia].
        destruct (HI k c Ek) as [_ B]. exact (B j Hlt).
    + rewrite (lookup_dset_other k k2 _ cs Hne) in Hk2. exact (HI k2 col2 Hk2).
Qed.

Lemma load_rows_from_inv rows : forall rest pre cs cs',
  rows = pre ++ rest -> Inv rows (List.length pre) cs ->
  load_rows_from rest cs (List.length pre) = Some cs' -> Inv rows (List.length rows) cs'.
Proof.
  induction rest as [|r tl IH]; intros pre cs cs' Hrows HI Hl; cbn [load_rows_from] in Hl.
  - injection Hl as <-. assert (Hlen : List.length rows = List.length pre) by (rewrite Hrows, app_nil_r; reflexivity).
    rewrite Hlen. exact HI.
  - destruct (append_row cs r (List.length pre)) as [cs1|] eqn:Ea; [|discriminate].
    assert (Hn : nth_error rows (List.length pre) = Some r).
    { rewrite Hrows, nth_error_app2 by lia. rewrite Nat.sub_diag. reflexivity. }
    apply (IH (pre ++ [r]) cs1 cs').
    + rewrite Hrows, <- app_assoc. reflexivity.
    + rewrite app_length. cbn [List.length]. rewrite Nat.add_1_r.
      apply (append_row_inv rows (List.length pre) r Hn r cs cs1); [intros p Hp; exact Hp | | exact Ea].
      apply (Inv_mono rows (List.length pre)); [lia | exact HI].
    + rewrite app_length. cbn [List.length]. rewrite Nat.add_1_r. exact Hl.
Qed.

(* the property: whatever the rows hold, accepted columns are aligned with the rows *)
Theorem rows_aligned rows cs : load_rows rows = Some cs ->
  forall k col, lookup k cs = Some col ->
    List.length col <= List.length rows /\
    forall j, j < List.length col -> exists r, nth_error rows j = Some r /\ In (k, nth j col vdef) r.
Proof.
  intros Hl. apply (load_rows_from_inv rows rows [] [] cs eq_refl); [|exact Hl].
  intros k col Hk. cbn in Hk. discriminate.
Qed.

(* rectangular rows (every row the same keys, no key twice) are never rejected: shown on the shape files normally have *)
Example ex_rectangular :
  load_rows [[("a"%string, VInt 1); ("b"%string, VInt 10)]; [("a"%string, VInt 2); ("b"%string, VInt 20)]]
  = Some [("a"%string, [VInt 1; VInt 2]); ("b"%string, [VInt 10; VInt 20])].
Proof. reflexivity. Qed.
(* columns may end early (a key that stops appearing): accepted, lengths then differ *)
Example ex_tail_ragged :
  load_rows [[("a"%string, VInt 1); ("b"%string, VInt 10)]; [("a"%string, VInt 2)]]
  = Some [("a"%string, [VInt 1; VInt 2]); ("b"%string, [VInt 10])].
Proof. reflexivity. Qed.
(* a key that comes back after a row without it, and a key written twice in one row, are rejected *)
Example ex_gap_rejected :
  load_rows [[("a"%string, VInt 1); ("b"%string, VInt 1)]; [("a"%string, VInt 2)]; [("b"%string, VInt 3)]] = None.
Proof. reflexivity. Qed.
Example ex_twice_rejected : load_rows [[("a"%string, VInt 1); ("a"%string, VInt 2)]] = None.
Proof. reflexivity. Qed.

(* the loader without the length test pairs values of different rows *)
Theorem unchecked_misaligns :
  exists rows k col j, lookup k (load_rows_unchecked rows) = Some col /\ j < List.length col /\
    forall r, nth_error rows j = Some r -> ~ In (k, nth j col vdef) r.
Proof.
  exists [[("a"%string, VInt 1); ("b"%string, VInt 1)]; [("a"%string, VInt 2)]; [("b"%string, VInt 3)]], "b"%string, [VInt 1; VInt 3], 1.
  split; [reflexivity|]. split; [cbn; lia|].
  intros r Hr. cbn in Hr. injection Hr as <-. cbn. intros [H|[]]. discriminate H.
Qed.
