(* Proofs/RunSpace.v — lemmas about Model/RunSpace.v *)
From Coq Require Import List String ZArith NArith Bool Arith Lia Permutation.
From SV Require Import Common.Prelude Model.RunSpace.
Import ListNotations.

(* ------------------------------------------------------------------ *)
(* Dicts as association lists                                          *)

Lemma NoDup_snoc {A} (l : list A) x : NoDup l -> ~ In x l -> NoDup (l ++ [x]).
Proof.
  intros H Hx. eapply Permutation_NoDup; [apply Permutation_cons_append|]. constructor; assumption.
Qed.

Section DictLemmas.
Context {V : Type}.
Implicit Types m a b : list (string * V).

Lemma has_In k m : has k m = true <-> In k (keys m).
Proof.
  unfold has, keys. rewrite existsb_exists. split.
  - intros [p [Hp E]]. apply String.eqb_eq in E. subst. apply in_map. exact Hp.
  - intros H. apply in_map_iff in H as [p [E Hp]]. exists p. split; auto. subst. apply String.eqb_refl.
Qed.

Lemma has_false k m : has k m = false <-> ~ In k (keys m).
Proof. rewrite <- has_In. destruct (has k m); split; congruence. Qed.

Lemma mem_In k l : mem k l = true <-> In k l.
Proof.
  unfold mem. rewrite existsb_exists. split.
  - intros [x [Hx E]]. apply String.eqb_eq in E. subst. exact Hx.
  - intros H. exists k. split; auto. apply String.eqb_refl.
Qed.

Lemma nodupb_NoDup l : nodupb l = true <-> NoDup l.
Proof.
  induction l as [|x l IH]; simpl.
  - split; auto. constructor.
  - rewrite andb_true_iff, negb_true_iff, IH. split.
    + intros [H1 H2]. constructor; auto. rewrite <- mem_In. congruence.
    + intros H. inversion H; subst. split; auto.
      destruct (mem x l) eqn:E; auto. apply mem_In in E. contradiction.
Qed.

Lemma dset_notin k v m : ~ In k (keys m) -> dset k v m = m ++ [(k, v)].
Proof.
  induction m as [|[k' v'] m IH]; simpl; intros H; auto.
  destruct (String.eqb k k') eqn:E.
  - apply String.eqb_eq in E. subst. exfalso. apply H. left. reflexivity.
  - f_equal. apply IH. intro. apply H. right. assumption.
Qed.

Lemma dset_keys_in k v m : In k (keys m) -> keys (dset k v m) = keys m.
Proof.
  induction m as [|[k' v'] m IH]; simpl; intros H; [contradiction|].
  destruct (String.eqb k k') eqn:E; simpl; auto.
  f_equal. apply IH. destruct H as [H|H]; auto. subst. rewrite String.eqb_refl in E. discriminate.
Qed.

Lemma dset_keys_nodup k v m : NoDup (keys m) -> NoDup (keys (dset k v m)).
Proof.
  intros H. destruct (has k m) eqn:E.
  - apply has_In in E. rewrite dset_keys_in; auto.
  - apply has_false in E. rewrite dset_notin by auto. unfold keys. rewrite map_app. simpl.
    apply NoDup_snoc; auto.
Qed.

Lemma update_app a b :
  NoDup (keys b) -> (forall k, In k (keys b) -> ~ In k (keys a)) -> update a b = a ++ b.
Proof.
  unfold update. revert a. induction b as [|[k v] b IH]; intros a ND D; simpl.
  - rewrite app_nil_r. reflexivity.
  - inversion ND as [|? ? Hk ND']; subst.
    rewrite dset_notin by (apply D; left; reflexivity).
    rewrite IH; auto.
    + rewrite <- app_assoc. reflexivity.
    + intros k' Hk' Hin. unfold keys in Hin. rewrite map_app in Hin. apply in_app_or in Hin.
      destruct Hin as [Hin|[Hin|[]]].
      * apply (D k'); [right; exact Hk'|exact Hin].
      * simpl in Hin. subst. contradiction.
Qed.

Lemma update_nil_l a : NoDup (keys a) -> update [] a = a.
Proof. intros H. rewrite update_app; auto. Qed.
End DictLemmas.

(* ------------------------------------------------------------------ *)
(* itertools.product: length and mixed-radix characterisation          *)

Lemma cart_length {A} (ls : list (list A)) : List.length (cart ls) = prodl (map (@List.length A) ls).
Proof.
  induction ls as [|l tl IH]; simpl; auto.
  induction l as [|x l IHl]; simpl; auto.
  rewrite app_length, map_length, IHl, IH. reflexivity.
Qed.

Lemma cart_In_length {A} (ls : list (list A)) c : In c (cart ls) -> List.length c = List.length ls.
Proof.
  revert c. induction ls as [|l tl IH]; simpl; intros c H.
  - destruct H as [<-|[]]. reflexivity.
  - apply in_flat_map in H as [x [_ H]]. apply in_map_iff in H as [c' [<- H]]. simpl. f_equal. auto.
Qed.

(* i-th element of a concatenation of equally long chunks *)
Lemma nth_flat_map_chunks {A B} (f : A -> list B) (m : nat) (l : list A) (a b : nat) (dA : A) (dB : B) :
  (forall x, List.length (f x) = m) -> a < List.length l -> b < m ->
  nth (a * m + b) (flat_map f l) dB = nth b (f (nth a l dA)) dB.
Proof.
  intros Hm. revert a. induction l as [|x l IH]; intros a Ha Hb; simpl in *; [lia|].
  destruct a as [|a].
  - simpl. rewrite app_nth1; auto. rewrite Hm. exact Hb.
  - rewrite app_nth2 by (rewrite Hm; simpl; lia).
    rewrite Hm. replace (S a * m + b - m) with (a * m + b) by (simpl; lia).
    apply IH; auto. lia.
Qed.

(* element picked by a vector of digits *)
Definition pick {A} (d : A) (ls : list (list A)) (ds : list nat) : list A :=
  map (fun p => nth (snd p) (fst p) d) (combine ls ds).

Lemma digits_length rs i : List.length (digits rs i) = List.length rs.
Proof. revert i. induction rs as [|r rs IH]; intros i; simpl; auto. Qed.

Theorem cart_nth {A} (d : A) (ls : list (list A)) (i : nat) :
  i < prodl (map (@List.length A) ls) ->
  nth i (cart ls) [] = pick d ls (digits (map (@List.length A) ls) i).
Proof.
  revert i. induction ls as [|l tl IH]; intros i Hi.
  - simpl in *. assert (i = 0) by lia. subst. reflexivity.
  - cbn [cart map digits prodl] in *.
    set (m := prodl (map (@List.length A) tl)) in *.
    assert (Hm : m <> 0) by (intro E; rewrite E in Hi; lia).
    assert (Hq : i / m < List.length l).
    { apply Nat.div_lt_upper_bound; auto. lia. }
    assert (Hr : i mod m < m) by (apply Nat.mod_upper_bound; auto).
    rewrite (Nat.div_mod i m Hm) at 1. rewrite (Nat.mul_comm m).
    rewrite (nth_flat_map_chunks _ m l (i / m) (i mod m) d []); auto.
    + unfold pick. cbn [combine map fst snd].
      rewrite (nth_indep _ [] (nth (i / m) l d :: [])) by (rewrite map_length, cart_length; exact Hr).
      rewrite map_nth. f_equal. apply IH. exact Hr.
    + intros x. rewrite map_length, cart_length. reflexivity.
Qed.

Lemma digits_bound rs i : i < prodl rs -> Forall2 lt (digits rs i) rs.
Proof.
  revert i. induction rs as [|r rs IH]; intros i Hi; cbn [digits prodl] in *; constructor.
  - assert (prodl rs <> 0) by (intro E; rewrite E in Hi; lia).
    apply Nat.div_lt_upper_bound; auto. lia.
  - apply IH. apply Nat.mod_upper_bound. intro E; rewrite E in Hi; lia.
Qed.

(* the digits are those of i: i = sum_j digit_j * prod_{l>j} radix_l *)
Fixpoint undigits (rs ds : list nat) : nat :=
  match rs, ds with
  | _ :: rs', d :: ds' => d * prodl rs' + undigits rs' ds'
  | _, _ => 0
  end.
Lemma undigits_digits rs i : i < prodl rs -> undigits rs (digits rs i) = i.
Proof.
  revert i. induction rs as [|r rs IH]; intros i Hi; cbn [digits prodl undigits] in *; [lia|].
  assert (Hm : prodl rs <> 0) by (intro E; rewrite E in Hi; lia).
  rewrite IH by (apply Nat.mod_upper_bound; auto).
  rewrite (Nat.div_mod i (prodl rs) Hm) at 3. lia.
Qed.

(* ------------------------------------------------------------------ *)
(* _expand_entries                                                     *)

Definition lens (o : cols) : list nat := map (fun c => List.length (snd c)) o.
(* the run that takes, for the j-th column of o, its value at position ds_j *)
Definition digit_row (o : cols) (ds : list nat) : run :=
  map (fun p => (fst (fst p), nth (snd p) (snd (fst p)) vdef)) (combine o ds).

Lemma lens_map_snd o : map (@List.length val) (map snd o) = lens o.
Proof. unfold lens. rewrite map_map. reflexivity. Qed.

Lemma combine_pick o ds : combine (keys o) (pick vdef (map snd o) ds) = digit_row o ds.
Proof.
  unfold pick, digit_row, keys. revert ds.
  induction o as [|c o IH]; intros [|d ds]; simpl; auto. f_equal. apply IH.
Qed.

Lemma keys_combine {V} (ks : list string) (vs : list V) :
  List.length ks = List.length vs -> keys (combine ks vs) = ks.
Proof.
  unfold keys. revert vs. induction ks as [|k ks IH]; intros [|x vs] H; simpl in *; try discriminate; auto.
  f_equal. apply IH. lia.
Qed.

Lemma keys_row_at o i : keys (row_at o i) = keys o.
Proof. unfold keys, row_at. rewrite map_map. reflexivity. Qed.

Lemma order_keys_perm v e : Permutation e (order_keys v e).
Proof. unfold order_keys. destruct (v_sorted v); [apply ksort_perm|apply Permutation_refl]. Qed.

Lemma order_keys_nil v : order_keys v [] = [].
Proof. unfold order_keys. destruct (v_sorted v); reflexivity. Qed.

Lemma order_keys_sorted v e : v_sorted v = true -> Sorted.StronglySorted (kle fst) (order_keys v e).
Proof. unfold order_keys. intros ->. apply ksort_sorted. Qed.

Lemma order_keys_keys_perm v e : Permutation (keys e) (keys (order_keys v e)).
Proof. unfold keys. apply Permutation_map. apply order_keys_perm. Qed.

Lemma order_keys_length v e : List.length (order_keys v e) = List.length e.
Proof. symmetry. apply Permutation_length. apply order_keys_perm. Qed.

Lemma nth_map_in {A B} (f : A -> B) (l : list A) i (dB : B) (dA : A) :
  i < List.length l -> nth i (map f l) dB = f (nth i l dA).
Proof.
  intros H. rewrite (nth_indep _ dB (f dA)) by (rewrite map_length; exact H). apply map_nth.
Qed.

Theorem entries_comb_nth v e :
  e <> [] ->
  exists rs, expand_entries v e Combinatorial = Ok rs /\
    List.length rs = prodl (lens (order_keys v e)) /\
    forall i, i < prodl (lens (order_keys v e)) ->
      nth i rs [] = digit_row (order_keys v e) (digits (lens (order_keys v e)) i).
Proof.
  intros Hne. destruct e as [|c e]; [congruence|].
  unfold expand_entries. set (o := order_keys v (c :: e)).
  eexists. split; [reflexivity|]. split.
  - rewrite map_length, cart_length, lens_map_snd. reflexivity.
  - intros i Hi. rewrite (nth_map_in _ _ _ _ []) by (rewrite cart_length, lens_map_snd; exact Hi).
    rewrite (cart_nth vdef) by (rewrite lens_map_snd; exact Hi).
    rewrite lens_map_snd. apply combine_pick.
Qed.

Theorem entries_pos_nth v e :
  e <> [] -> same_lengths (order_keys v e) = true ->
  exists rs, expand_entries v e ByPosition = Ok rs /\
    List.length rs = first_len (order_keys v e) /\
    forall i, i < first_len (order_keys v e) -> nth i rs [] = row_at (order_keys v e) i.
Proof.
  intros Hne Hs. destruct e as [|c e]; [congruence|].
  unfold expand_entries. rewrite Hs. eexists. split; [reflexivity|]. split.
  - rewrite map_length, seq_length. reflexivity.
  - intros i Hi. rewrite (nth_map_in _ _ _ _ 0) by (rewrite seq_length; exact Hi).
    rewrite seq_nth by exact Hi. reflexivity.
Qed.

Lemma same_lengths_all o c : same_lengths o = true -> In c o -> List.length (snd c) = first_len o.
Proof.
  unfold same_lengths. rewrite forallb_forall. intros H Hc. apply Nat.eqb_eq. apply H. exact Hc.
Qed.

(* rejection: two lists of different lengths under by_position *)
Theorem entries_mismatch_rejected v e c1 c2 :
  In c1 e -> In c2 e -> List.length (snd c1) <> List.length (snd c2) ->
  expand_entries v e ByPosition = Err ELen.
Proof.
  intros H1 H2 Hd. destruct e as [|c e]; [contradiction|].
  unfold expand_entries. destruct (same_lengths (order_keys v (c :: e))) eqn:Hs; auto.
  exfalso. apply Hd.
  rewrite (same_lengths_all _ c1 Hs), (same_lengths_all _ c2 Hs); auto;
    eapply Permutation_in; try apply order_keys_perm; assumption.
Qed.

Lemma expand_entries_keys v e m rs r :
  expand_entries v e m = Ok rs -> In r rs -> keys r = keys (order_keys v e).
Proof.
  destruct e as [|c e]; simpl; intros H Hr.
  - inversion H; subst. contradiction.
  - destruct m.
    + destruct (same_lengths _); inversion H; subst.
      apply in_map_iff in Hr as [i [<- _]]. apply keys_row_at.
    + inversion H; subst. apply in_map_iff in Hr as [combo [<- Hc]].
      apply keys_combine. apply cart_In_length in Hc. rewrite Hc. unfold keys. rewrite !map_length. reflexivity.
Qed.

Lemma some_expand_keys v e m rs r :
  some_expand v e m = Ok rs -> In r rs -> keys r = keys (order_keys v e).
Proof.
  destruct e as [|c e]; [|apply expand_entries_keys].
  simpl. intros H Hr. inversion H; subst. destruct Hr as [<-|[]]. rewrite order_keys_nil. reflexivity.
Qed.

Lemma opt_expand_keys v e m rs r :
  opt_expand v e m = Ok (Some rs) -> In r rs -> keys r = keys (order_keys v e).
Proof.
  destruct e as [|c e]; [discriminate|].
  unfold opt_expand, bind. destruct (expand_entries v (c :: e) m) eqn:E; [|discriminate].
  intros H. inversion H; subst. eapply expand_entries_keys; eauto.
Qed.

Lemma opt_expand_none v e m : opt_expand v e m = Ok None -> e = [].
Proof.
  destruct e as [|c e]; auto. unfold opt_expand, bind. destruct (expand_entries _ _ _); discriminate.
Qed.

(* ------------------------------------------------------------------ *)
(* select / rename                                                     *)

Lemma select_fold_nodup (columns : cols) sel acc :
  NoDup (keys acc) ->
  NoDup (keys (fold_left (fun s k => match lookup k columns with Some vs => dset k vs s | None => s end) sel acc)).
Proof.
  revert acc. induction sel as [|k sel IH]; intros acc H; simpl; auto.
  apply IH. destruct (lookup k columns); auto. apply dset_keys_nodup. exact H.
Qed.

Lemma select_cols_nodup columns sel c : select_cols columns sel = Ok c -> NoDup (keys c).
Proof.
  unfold select_cols. destruct (forallb _ sel); [|discriminate].
  intros H. inversion H; subst. apply select_fold_nodup. constructor.
Qed.

(* rejection: select names a column the file does not have *)
Theorem select_missing_rejected columns sel k :
  In k sel -> ~ In k (keys columns) -> select_cols columns sel = Err ESelect.
Proof.
  intros Hk Hn. unfold select_cols.
  destruct (forallb (fun k0 => has k0 columns) sel) eqn:E; auto.
  rewrite forallb_forall in E. specialize (E k Hk). apply has_In in E. contradiction.
Qed.

Definition target (ren : list (string * string)) (k : string) : string :=
  match lookup k ren with Some t => t | None => k end.

Lemma rename_cols_spec ren columns acc :
  NoDup (keys acc) ->
  match rename_cols ren columns acc with
  | Ok c => NoDup (keys c) /\ keys c = keys acc ++ map (target ren) (keys columns)
  | Err e => e = ERename /\ ~ NoDup (keys acc ++ map (target ren) (keys columns))
  end.
Proof.
  revert acc. induction columns as [|[k vs] tl IH]; intros acc Hacc; simpl.
  - rewrite app_nil_r. auto.
  - fold (target ren k). destruct (has (target ren k) acc) eqn:E.
    + split; auto. apply has_In in E. intro ND.
      apply NoDup_remove_2 in ND. apply ND. apply in_or_app. left. exact E.
    + apply has_false in E.
      specialize (IH (acc ++ [(target ren k, vs)])).
      assert (Hk : keys (acc ++ [(target ren k, vs)]) = keys acc ++ [target ren k])
        by (unfold keys; rewrite map_app; reflexivity).
      rewrite Hk, <- app_assoc in IH. simpl in IH. apply IH. apply NoDup_snoc; auto.
Qed.

(* rejection: two columns end up with one name after rename *)
Theorem rename_collision_rejected ren columns :
  ~ NoDup (map (target ren) (keys columns)) -> rename_cols ren columns [] = Err ERename.
Proof.
  intros H. pose proof (rename_cols_spec ren columns [] (NoDup_nil _)) as S.
  destruct (rename_cols ren columns []); simpl in S.
  - destruct S as [ND E]. rewrite E in ND. contradiction.
  - destruct S as [-> _]. reflexivity.
Qed.

Lemma process_source_nodup s c :
  NoDup (keys (s_cols s)) -> process_source s = Ok c -> NoDup (keys c).
Proof.
  intros Hn. unfold process_source, bind.
  destruct (s_select s) as [sel|].
  - destruct (select_cols (s_cols s) sel) as [c1|] eqn:E; [|discriminate].
    apply select_cols_nodup in E.
    destruct (s_rename s) as [|p ren]; [intros H; inversion H; subst; exact E|].
    intros H. pose proof (rename_cols_spec (p :: ren) c1 [] (NoDup_nil _)) as S. rewrite H in S. apply S.
  - destruct (s_rename s) as [|p ren]; [intros H; inversion H; subst; exact Hn|].
    intros H. pose proof (rename_cols_spec (p :: ren) (s_cols s) [] (NoDup_nil _)) as S. rewrite H in S. apply S.
Qed.

Lemma inter_keys_false {V W} (a : list (string * V)) (b : list (string * W)) :
  inter_keys a b = false -> forall k, In k (keys a) -> ~ In k (keys b).
Proof.
  unfold inter_keys. intros H k Ha Hb.
  apply in_map_iff in Ha as [p [<- Hp]].
  assert (existsb (fun p0 => has (fst p0) b) a = true); [|congruence].
  apply existsb_exists. exists p. split; auto. apply has_In. exact Hb.
Qed.

Lemma NoDup_app_intro {A} (l1 l2 : list A) :
  NoDup l1 -> NoDup l2 -> (forall x, In x l1 -> ~ In x l2) -> NoDup (l1 ++ l2).
Proof.
  induction l1 as [|x l1 IH]; simpl; intros H1 H2 D; auto.
  inversion H1; subst. constructor.
  - intro H. apply in_app_or in H as [H|H]; [contradiction|]. apply (D x); auto.
  - apply IH; auto.
Qed.

Lemma NoDup_app_elim {A} (l1 l2 : list A) :
  NoDup (l1 ++ l2) -> NoDup l1 /\ NoDup l2 /\ (forall x, In x l1 -> ~ In x l2).
Proof.
  induction l1 as [|x l1 IH]; simpl; intros H.
  - repeat split; auto. constructor.
  - inversion H as [|? ? Hx H']; subst. destruct (IH H') as [A1 [A2 A3]]. repeat split; auto.
    + constructor; auto. intro. apply Hx. apply in_or_app. left. assumption.
    + intros y [<-|Hy]; [intro; apply Hx; apply in_or_app; right; assumption|apply A3; assumption].
Qed.

(* rejection: a key both in the context and in the (processed) source of one block *)
Theorem dup_in_block_rejected b s sc k :
  b_src b = Some s -> process_source s = Ok sc -> In k (keys (b_ctx b)) -> In k (keys sc) ->
  block_entries b = Err EDupBlock.
Proof.
  intros Hs Hp Hc Hk. unfold block_entries, bind. rewrite Hs, Hp.
  destruct (inter_keys (b_ctx b) sc) eqn:E; auto.
  exfalso. eapply inter_keys_false; eauto.
Qed.

Lemma block_entries_nodup b cs :
  wf_block b = true -> block_entries b = Ok cs -> NoDup (keys (fst cs) ++ keys (snd cs)).
Proof.
  unfold wf_block, block_entries, bind. rewrite andb_true_iff. intros [Hc Hs].
  apply nodupb_NoDup in Hc. destruct (b_src b) as [s|].
  - apply andb_true_iff in Hs as [Hs _]. apply nodupb_NoDup in Hs.
    destruct (process_source s) as [sc|] eqn:E; [|discriminate].
    destruct (inter_keys (b_ctx b) sc) eqn:I; [discriminate|].
    intros H. inversion H; subst. simpl.
    apply NoDup_app_intro; auto.
    + eapply process_source_nodup; eauto.
    + apply inter_keys_false. exact I.
  - intros H. inversion H; subst. simpl. rewrite app_nil_r. exact Hc.
Qed.

(* ------------------------------------------------------------------ *)
(* one block: context part outer, source part inner                    *)

Lemma flat_map_length_chunks {A B} (f : A -> list B) (m : nat) (l : list A) :
  (forall x, List.length (f x) = m) -> List.length (flat_map f l) = List.length l * m.
Proof.
  intros H. induction l as [|x l IH]; simpl; auto. rewrite app_length, H, IH. reflexivity.
Qed.

Lemma parts_nodup v ctx src :
  NoDup (keys ctx ++ keys src) -> NoDup (keys (order_keys v ctx) ++ keys (order_keys v src)).
Proof.
  intros H. eapply Permutation_NoDup; [|exact H].
  apply Permutation_app; apply order_keys_keys_perm.
Qed.

Lemma merge_two (c s : run) :
  NoDup (keys c ++ keys s) ->
  update c s = c ++ s /\ update (update [] c) s = c ++ s /\ update [] c = c /\ update [] s = s.
Proof.
  intros H. apply NoDup_app_elim in H as [Hc [Hs D]].
  assert (E : update [] c = c) by (apply update_nil_l; exact Hc).
  assert (F : update c s = c ++ s).
  { apply update_app; auto. intros k Hk Hk'. apply (D k); assumption. }
  rewrite E. repeat split; auto. apply update_nil_l; exact Hs.
Qed.

Theorem block_comb_nth v ctx src sm runs :
  NoDup (keys ctx ++ keys src) ->
  expand_block v ctx src Combinatorial sm = Ok runs ->
  exists cr sr, some_expand v ctx Combinatorial = Ok cr /\ some_expand v src sm = Ok sr /\
    List.length runs = List.length cr * List.length sr /\
    forall i j, i < List.length cr -> j < List.length sr ->
      nth (i * List.length sr + j) runs [] = nth i cr [] ++ nth j sr [].
Proof.
  intros ND. unfold expand_block, bind.
  destruct (some_expand v ctx Combinatorial) as [cr|] eqn:Ec; [|discriminate].
  destruct (some_expand v src sm) as [sr|] eqn:Es; [|discriminate].
  intros H. inversion H; subst. exists cr, sr. repeat split; auto.
  - apply flat_map_length_chunks. intros x. apply map_length.
  - intros i j Hi Hj.
    etransitivity;
      [apply (nth_flat_map_chunks (fun c : run => map (fun s : run => update c s) sr) (List.length sr) cr i j [] []);
       auto; intros x; apply map_length|].
    etransitivity; [apply (nth_map_in (fun s : run => update (nth i cr []) s) sr j [] []); exact Hj|].
    apply merge_two.
    rewrite (some_expand_keys _ _ _ _ _ Ec (nth_In _ _ Hi)), (some_expand_keys _ _ _ _ _ Es (nth_In _ _ Hj)).
    apply parts_nodup. exact ND.
Qed.

Definition opt_list {A} (o : option (list A)) : list A := match o with Some l => l | None => [] end.

Theorem block_pos_nth v ctx src sm runs :
  NoDup (keys ctx ++ keys src) ->
  expand_block v ctx src ByPosition sm = Ok runs ->
  exists cr sr, opt_expand v ctx ByPosition = Ok cr /\ opt_expand v src sm = Ok sr /\
    (forall c, cr = Some c -> List.length c = List.length runs) /\
    (forall s, sr = Some s -> List.length s = List.length runs) /\
    (cr = None -> sr = None -> runs = []) /\
    forall i, i < List.length runs -> nth i runs [] = nth i (opt_list cr) [] ++ nth i (opt_list sr) [].
Proof.
  intros ND. unfold expand_block, bind.
  destruct (opt_expand v ctx ByPosition) as [cr|] eqn:Ec; [|discriminate].
  destruct (opt_expand v src sm) as [sr|] eqn:Es; [|discriminate].
  pose proof (parts_nodup v _ _ ND) as ND'.
  intros H. exists cr, sr. split; auto. split; auto.
  destruct cr as [c|], sr as [s|].
  - destruct (List.length c =? List.length s) eqn:El; [|discriminate].
    apply Nat.eqb_eq in El. inversion H; subst. rewrite map_length, seq_length.
    split; [intros c0 E; inversion E; subst; reflexivity|].
    split; [intros s0 E; inversion E; subst; symmetry; exact El|].
    split; [discriminate|].
    intros i Hi. etransitivity; [apply (nth_map_in _ (seq 0 (List.length c)) i [] 0); rewrite seq_length; exact Hi|].
    rewrite seq_nth by exact Hi. simpl. apply merge_two.
    rewrite (opt_expand_keys _ _ _ _ _ Ec (nth_In _ _ Hi)).
    rewrite El in Hi. rewrite (opt_expand_keys _ _ _ _ _ Es (nth_In _ _ Hi)). exact ND'.
  - inversion H; subst. rewrite map_length, seq_length.
    split; [intros c0 E; inversion E; subst; reflexivity|].
    split; [discriminate|].
    split; [discriminate|].
    intros i Hi. etransitivity; [apply (nth_map_in _ (seq 0 (List.length c)) i [] 0); rewrite seq_length; exact Hi|].
    rewrite seq_nth by exact Hi. simpl.
    assert (Z0 : forall A (x : list A), x ++ match i with 0 | _ => [] end = x) by (intros; destruct i; apply app_nil_r).
    rewrite Z0. apply update_nil_l.
    rewrite (opt_expand_keys _ _ _ _ _ Ec (nth_In _ _ Hi)). apply NoDup_app_elim in ND'. apply ND'.
  - inversion H; subst. rewrite map_length, seq_length.
    split; [discriminate|].
    split; [intros s0 E; inversion E; subst; reflexivity|].
    split; [discriminate|].
    intros i Hi. etransitivity; [apply (nth_map_in _ (seq 0 (List.length s)) i [] 0); rewrite seq_length; exact Hi|].
    rewrite seq_nth by exact Hi. simpl.
    assert (Z0 : forall A (x : list A), match i with 0 | _ => [] end ++ x = x) by (intros; destruct i; reflexivity).
    rewrite Z0. apply update_nil_l.
    rewrite (opt_expand_keys _ _ _ _ _ Es (nth_In _ _ Hi)). apply NoDup_app_elim in ND'. apply ND'.
  - inversion H; subst.
    split; [discriminate|]. split; [discriminate|]. split; [reflexivity|].
    simpl. intros i Hi. lia.
Qed.

(* rejection: by_position block whose context and source give different run counts *)
Theorem block_size_mismatch_rejected v ctx src sm c s :
  opt_expand v ctx ByPosition = Ok (Some c) -> opt_expand v src sm = Ok (Some s) ->
  List.length c <> List.length s -> expand_block v ctx src ByPosition sm = Err EBlockSize.
Proof.
  intros Ec Es Hd. unfold expand_block, bind. rewrite Ec, Es.
  destruct (List.length c =? List.length s) eqn:E; auto. apply Nat.eqb_eq in E. contradiction.
Qed.

Lemma expand_block_keys v ctx src bm sm runs r :
  NoDup (keys ctx ++ keys src) ->
  expand_block v ctx src bm sm = Ok runs -> In r runs -> keys r = block_keys v (ctx, src).
Proof.
  intros ND H Hr. unfold block_keys. simpl.
  apply (In_nth _ _ []) in Hr as [n [Hn <-]].
  destruct bm.
  - destruct (block_pos_nth v ctx src sm runs ND H) as [cr [sr [Ec [Es [Lc [Ls [Hnil Hnth]]]]]]].
    transitivity (keys (nth n (opt_list cr) [] ++ nth n (opt_list sr) [])); [f_equal; exact (Hnth n Hn)|].
    unfold keys. rewrite map_app. fold (keys (nth n (opt_list cr) [])) (keys (nth n (opt_list sr) [])).
    f_equal.
    + destruct cr as [c|]; simpl.
      * eapply opt_expand_keys; eauto. apply nth_In. rewrite (Lc c eq_refl). exact Hn.
      * apply opt_expand_none in Ec. subst. rewrite order_keys_nil. destruct n; reflexivity.
    + destruct sr as [s|]; simpl.
      * eapply opt_expand_keys; eauto. apply nth_In. rewrite (Ls s eq_refl). exact Hn.
      * apply opt_expand_none in Es. subst. rewrite order_keys_nil. destruct n; reflexivity.
  - destruct (block_comb_nth v ctx src sm runs ND H) as [cr [sr [Ec [Es [L Hnth]]]]].
    unfold run in *.
    assert (Hs : List.length sr <> 0) by (intro E; rewrite E in L; lia).
    assert (Hq : n / List.length sr < List.length cr).
    { apply Nat.div_lt_upper_bound; auto. lia. }
    assert (Hm : n mod List.length sr < List.length sr) by (apply Nat.mod_upper_bound; auto).
    transitivity (keys (nth (n / List.length sr) cr [] ++ nth (n mod List.length sr) sr [])).
    { f_equal. rewrite <- (Hnth _ _ Hq Hm). f_equal.
      rewrite (Nat.mul_comm (n / List.length sr)). apply Nat.div_mod. exact Hs. }
    unfold keys. rewrite map_app. f_equal.
    + eapply some_expand_keys; eauto. apply nth_In. exact Hq.
    + eapply some_expand_keys; eauto. apply nth_In. exact Hm.
Qed.

(* ------------------------------------------------------------------ *)
(* combination of blocks                                               *)

Definition keyed (rs : list run) (k : list string) : Prop := forall r, In r rs -> keys r = k.

Lemma fold_update_concat (parts : list run) (ks : list (list string)) (acc : run) :
  Forall2 (fun r k => keys r = k) parts ks -> NoDup (keys acc ++ List.concat ks) ->
  fold_left update parts acc = acc ++ List.concat parts.
Proof.
  intros F. revert acc. induction F as [|r k parts ks Hk F IH]; intros acc ND; simpl.
  - rewrite app_nil_r. reflexivity.
  - simpl in ND. subst k.
    assert (E : update acc r = acc ++ r).
    { rewrite app_assoc in ND. apply NoDup_app_elim in ND as [ND _].
      apply NoDup_app_elim in ND as [_ [Hr D]]. apply update_app; auto.
      intros x Hx Hx'. apply (D x); assumption. }
    rewrite E, IH.
    + rewrite <- app_assoc. reflexivity.
    + unfold keys in *. rewrite map_app, <- app_assoc. exact ND.
Qed.

Lemma merge_all_concat parts ks :
  Forall2 (fun r k => keys r = k) parts ks -> NoDup (List.concat ks) -> merge_all parts = List.concat parts.
Proof. intros F ND. unfold merge_all. rewrite (fold_update_concat parts ks []); auto. Qed.

Lemma keys_concat (parts : list run) ks :
  Forall2 (fun r k => keys r = k) parts ks -> keys (List.concat parts) = List.concat ks.
Proof.
  induction 1 as [|r k parts ks Hk F IH]; simpl; auto.
  unfold keys in *. rewrite map_app, IH, Hk. reflexivity.
Qed.

Lemma pick_keyed (bs : list (list run)) kss ds :
  Forall2 keyed bs kss -> Forall2 lt ds (map (@List.length run) bs) ->
  Forall2 (fun r k => keys r = k) (pick [] bs ds) kss.
Proof.
  intros F. revert ds. induction F as [|b k bs kss Hk F IH]; intros ds HD.
  - inversion HD; subst. constructor.
  - inversion HD as [|d n ds' ns Hd HD']; subst. unfold pick. simpl. constructor.
    + apply Hk. apply nth_In. exact Hd.
    + apply IH. exact HD'.
Qed.

Lemma exists_nil_prodl {A} (bs : list (list A)) :
  existsb is_nil bs = true -> prodl (map (@List.length A) bs) = 0.
Proof.
  induction bs as [|b bs IH]; simpl; [discriminate|].
  destruct b; simpl; auto. intros H. rewrite IH by exact H. lia.
Qed.

Lemma combine_runs_comb_eq v maxr (b0 : list run) bs' :
  combine_runs v Combinatorial maxr (b0 :: bs') =
  if existsb is_nil (b0 :: bs') then Ok []
  else if (total_comb (b0 :: bs') >? maxr)%Z then Err EMaxRuns
  else Ok (map merge_all (cart (b0 :: bs'))).
Proof. reflexivity. Qed.

Lemma combine_runs_pos_eq v maxr (b0 : list run) bs' :
  combine_runs v ByPosition maxr (b0 :: bs') =
  if forallb (fun r => List.length r =? List.length b0) (b0 :: bs')
  then if (Z.of_nat (List.length b0) >? maxr)%Z then Err EMaxRuns
       else Ok (map (fun i => merge_all (map (fun r => nth i r []) (b0 :: bs'))) (seq 0 (List.length b0)))
  else Err ECombineSize.
Proof. reflexivity. Qed.

(* blocks in declaration order, last block fastest *)
Theorem combine_comb_nth v maxr (bs : list (list run)) kss runs :
  Forall2 keyed bs kss -> NoDup (List.concat kss) -> bs <> [] ->
  combine_runs v Combinatorial maxr bs = Ok runs ->
  List.length runs = prodl (map (@List.length run) bs) /\
  forall i, i < prodl (map (@List.length run) bs) ->
    nth i runs [] = List.concat (pick [] bs (digits (map (@List.length run) bs) i)).
Proof.
  intros F ND Hne. destruct bs as [|b0 bs']; [congruence|]. rewrite combine_runs_comb_eq.
  remember (b0 :: bs') as bs eqn:Ebs. clear Ebs Hne.
  destruct (existsb is_nil bs) eqn:En.
  - intros H. inversion H; subst. rewrite (exists_nil_prodl bs En). split; auto. intros; lia.
  - destruct (total_comb bs >? maxr)%Z; [discriminate|].
    intros H. injection H as <-. split.
    + rewrite map_length. apply cart_length.
    + intros i Hi.
      etransitivity; [apply (nth_map_in merge_all (cart bs) i [] []); rewrite cart_length; exact Hi|].
      transitivity (merge_all (pick [] bs (digits (map (@List.length run) bs) i)));
        [f_equal; exact (cart_nth [] bs i Hi)|].
      apply (merge_all_concat _ kss); auto. apply pick_keyed; auto. apply digits_bound. exact Hi.
Qed.

Lemma forallb_lengths (bs : list (list run)) n b :
  forallb (fun r => List.length r =? n) bs = true -> In b bs -> List.length b = n.
Proof. rewrite forallb_forall. intros H Hb. apply Nat.eqb_eq. apply H. exact Hb. Qed.

Lemma nth_keyed (bs : list (list run)) kss i :
  Forall2 keyed bs kss -> (forall b, In b bs -> i < List.length b) ->
  Forall2 (fun r k => keys r = k) (map (fun r => nth i r []) bs) kss.
Proof.
  induction 1 as [|b k bs kss Hk F IH]; intros L; simpl; constructor.
  - apply Hk. apply nth_In. apply L. left. reflexivity.
  - apply IH. intros b' Hb'. apply L. right. exact Hb'.
Qed.

(* blocks aligned by position *)
Theorem combine_pos_nth v maxr (bs : list (list run)) kss runs :
  Forall2 keyed bs kss -> NoDup (List.concat kss) -> bs <> [] ->
  combine_runs v ByPosition maxr bs = Ok runs ->
  (forall b, In b bs -> List.length b = List.length runs) /\
  forall i, i < List.length runs -> nth i runs [] = List.concat (map (fun b => nth i b []) bs).
Proof.
  intros F ND Hne. destruct bs as [|b0 bs']; [congruence|]. rewrite combine_runs_pos_eq.
  remember (b0 :: bs') as bs eqn:Ebs. clear Ebs Hne.
  destruct (forallb (fun r => List.length r =? List.length b0) bs) eqn:Ef; [|discriminate].
  destruct (Z.of_nat (List.length b0) >? maxr)%Z; [discriminate|].
  intros H. injection H as <-. rewrite map_length, seq_length. split.
  - intros b Hb. eapply forallb_lengths; eauto.
  - intros i Hi.
    etransitivity; [apply (nth_map_in _ (seq 0 (List.length b0)) i [] 0); rewrite seq_length; exact Hi|].
    rewrite seq_nth by exact Hi. simpl plus.
    apply (merge_all_concat _ kss); auto. apply nth_keyed; auto.
    intros b Hb. rewrite (forallb_lengths bs _ b Ef Hb). exact Hi.
Qed.

(* rejection: combine=by_position with blocks of different sizes *)
Theorem combine_size_mismatch_rejected v maxr (bs : list (list run)) b1 b2 :
  In b1 bs -> In b2 bs -> List.length b1 <> List.length b2 ->
  combine_runs v ByPosition maxr bs = Err ECombineSize.
Proof.
  intros H1 H2 Hd. unfold combine_runs. destruct bs as [|b0 bs']; [contradiction|].
  destruct (forallb _ (b0 :: bs')) eqn:Ef; auto.
  exfalso. apply Hd. rewrite (forallb_lengths _ _ b1 Ef H1), (forallb_lengths _ _ b2 Ef H2). reflexivity.
Qed.

(* ------------------------------------------------------------------ *)
(* the block loop: what a successful pass guarantees                   *)

Lemma block_keys_perm v cs : Permutation (keys (fst cs) ++ keys (snd cs)) (block_keys v cs).
Proof. unfold block_keys. apply Permutation_app; apply order_keys_keys_perm. Qed.

Lemma existsb_mem_false seen cur :
  existsb (fun k => mem k seen) cur = false -> forall k, In k cur -> ~ In k seen.
Proof.
  intros H k Hk Hs. assert (existsb (fun k0 => mem k0 seen) cur = true); [|congruence].
  apply existsb_exists. exists k. split; auto. apply mem_In. exact Hs.
Qed.

(* rejection: a key already used by an earlier block *)
Theorem dup_across_rejected v b tl seen cs runs k :
  block_entries b = Ok cs ->
  expand_block v (fst cs) (snd cs) (b_mode b) (src_mode b) = Ok runs ->
  In k seen -> In k (keys (fst cs) ++ keys (snd cs)) ->
  expand_blocks v (b :: tl) seen = Err EDupAcross.
Proof.
  intros Eb Ex Hs Hk. simpl. unfold bind. rewrite Eb, Ex.
  destruct (existsb _ _) eqn:E; auto. exfalso. eapply existsb_mem_false; eauto.
Qed.

Lemma expand_blocks_inv v bs : forall seen rs,
  forallb wf_block bs = true -> expand_blocks v bs seen = Ok rs ->
  exists kss, Forall2 keyed rs kss /\ List.concat kss = spec_keys v bs /\ NoDup (List.concat kss) /\
              (forall k, In k (List.concat kss) -> ~ In k seen).
Proof.
  induction bs as [|b tl IH]; intros seen rs W H; simpl in *.
  - inversion H; subst. exists []. simpl. split; [constructor|]. split; [reflexivity|]. split; [constructor|]. intros k [].
  - apply andb_true_iff in W as [Wb Wtl]. unfold bind in H.
    destruct (block_entries b) as [cs|] eqn:Eb; [|discriminate].
    destruct (expand_block v (fst cs) (snd cs) (b_mode b) (src_mode b)) as [runs|] eqn:Ex; [|discriminate].
    destruct (existsb (fun k => mem k seen) (keys (fst cs) ++ keys (snd cs))) eqn:Ed; [discriminate|].
    destruct (expand_blocks v tl (seen ++ keys (fst cs) ++ keys (snd cs))) as [rest|] eqn:Er; [|discriminate].
    inversion H; subst.
    destruct (IH _ _ Wtl Er) as [kss [F [Ek [ND D]]]].
    pose proof (block_entries_nodup b cs Wb Eb) as NDb.
    pose proof (block_keys_perm v cs) as P.
    exists (block_keys v cs :: kss). simpl. repeat split.
    + constructor; auto. intros r Hr. destruct cs as [ctx src]. eapply expand_block_keys; eauto.
    + rewrite Ek. reflexivity.
    + apply NoDup_app_intro; auto.
      * eapply Permutation_NoDup; eauto.
      * intros k Hk Hk'. apply (D k Hk'). apply in_or_app. right.
        eapply Permutation_in; [apply Permutation_sym; exact P|exact Hk].
    + intros k Hk. apply in_app_or in Hk as [Hk|Hk].
      * eapply existsb_mem_false; eauto. eapply Permutation_in; [apply Permutation_sym; exact P|exact Hk].
      * intro Hs. apply (D k Hk). apply in_or_app. left. exact Hs.
Qed.

(* every run carries exactly the keys of all blocks, in block order, without repetition *)
Theorem keys_exact v s runs r :
  wf_spec s = true -> expand v s = Ok runs -> In r runs ->
  keys r = spec_keys v (sp_blocks s) /\ NoDup (spec_keys v (sp_blocks s)).
Proof.
  unfold wf_spec, expand, bind. intros W H Hr.
  destruct (expand_blocks v (sp_blocks s) []) as [bs|] eqn:Eb; [|discriminate].
  destruct (expand_blocks_inv v _ _ _ W Eb) as [kss [F [Ek [ND _]]]].
  rewrite <- Ek. split; auto.
  destruct bs as [|b0 bs'].
  - inversion F; subst. simpl in H. destruct (v_empty_cap v && _); [discriminate|].
    inversion H; subst. destruct Hr as [<-|[]]. reflexivity.
  - apply (In_nth _ _ []) in Hr as [n [Hn <-]].
    destruct (sp_combine s).
    + destruct (combine_pos_nth v _ _ kss runs F ND ltac:(discriminate) H) as [L Hnth].
      transitivity (keys (List.concat (map (fun b => nth n b []) (b0 :: bs')))); [f_equal; apply Hnth; exact Hn|].
      apply keys_concat. apply nth_keyed; auto. intros b Hb. rewrite (L b Hb). exact Hn.
    + destruct (combine_comb_nth v _ _ kss runs F ND ltac:(discriminate) H) as [L Hnth].
      unfold run in *. rewrite L in Hn.
      transitivity (keys (List.concat (pick [] (b0 :: bs') (digits (map (@List.length (list (string * val))) (b0 :: bs')) n))));
        [f_equal; apply Hnth; exact Hn|].
      apply keys_concat. apply pick_keyed; auto. apply digits_bound. exact Hn.
Qed.

(* the ordered list of runs of a whole specification *)
Theorem expand_nth v s runs :
  wf_spec s = true -> sp_blocks s <> [] -> expand v s = Ok runs ->
  exists bs, expand_blocks v (sp_blocks s) [] = Ok bs /\ List.length bs = List.length (sp_blocks s) /\
    match sp_combine s with
    | Combinatorial =>
        List.length runs = prodl (map (@List.length run) bs) /\
        forall i, i < prodl (map (@List.length run) bs) ->
          nth i runs [] = List.concat (pick [] bs (digits (map (@List.length run) bs) i))
    | ByPosition =>
        (forall b, In b bs -> List.length b = List.length runs) /\
        forall i, i < List.length runs -> nth i runs [] = List.concat (map (fun b => nth i b []) bs)
    end.
Proof.
  unfold wf_spec, expand, bind. intros W Hne H.
  destruct (expand_blocks v (sp_blocks s) []) as [bs|] eqn:Eb; [|discriminate].
  destruct (expand_blocks_inv v _ _ _ W Eb) as [kss [F [Ek [ND _]]]].
  assert (Hl : List.length bs = List.length (sp_blocks s)).
  { clear -Eb. revert Eb. generalize (@nil string). revert bs.
    induction (sp_blocks s) as [|b tl IH]; intros bs seen H; simpl in H.
    - inversion H; reflexivity.
    - unfold bind in H. destruct (block_entries b); [|discriminate].
      destruct (expand_block _ _ _ _ _); [|discriminate].
      destruct (existsb _ _); [discriminate|].
      destruct (expand_blocks v tl _) eqn:E; [|discriminate].
      inversion H; subst. simpl. f_equal. eapply IH; eauto. }
  exists bs. split; auto. split; auto.
  assert (bs <> []) by (intro; subst; destruct (sp_blocks s); [congruence|discriminate]).
  destruct (sp_combine s).
  - eapply combine_pos_nth; eauto.
  - eapply combine_comb_nth; eauto.
Qed.

(* ------------------------------------------------------------------ *)
(* arithmetic plan = what expansion does: sizes, rejections, cap, cost  *)

Lemma flat_map_length_const {A B} (f : A -> list B) n (l : list A) :
  (forall x, List.length (f x) = n) -> List.length (flat_map f l) = List.length l * n.
Proof.
  intros H. induction l as [|a l IH]; cbn [flat_map List.length]; auto.
  rewrite app_length, H, IH. rewrite Nat.mul_succ_l. apply Nat.add_comm.
Qed.


Lemma prodl_prodZ (l : list nat) : Z.of_nat (prodl l) = prodZ (map Z.of_nat l).
Proof.
  induction l as [|a l IH]; cbn [prodl prodZ map]; [reflexivity|].
  rewrite Nat2Z.inj_mul, IH. reflexivity.
Qed.

Lemma expand_entries_plan v e m :
  match plan_entries v e m with
  | Ok n => exists rs, expand_entries v e m = Ok rs /\ zlen rs = n
  | Err x => expand_entries v e m = Err x
  end.
Proof.
  unfold plan_entries, expand_entries. destruct e as [|c e].
  - exists []. split; reflexivity.
  - cbv zeta. set (o := order_keys v (c :: e)). destruct m.
    + destruct (same_lengths o); auto. eexists. split; [reflexivity|].
      unfold zlen. rewrite map_length, seq_length. reflexivity.
    + eexists. split; [reflexivity|]. unfold zlen.
      rewrite map_length, cart_length, prodl_prodZ, !map_map. reflexivity.
Qed.

Lemma opt_expand_plan v e m :
  match opt_plan v e m with
  | Ok None => opt_expand v e m = Ok None
  | Ok (Some n) => exists rs, opt_expand v e m = Ok (Some rs) /\ zlen rs = n
  | Err x => opt_expand v e m = Err x
  end.
Proof.
  unfold opt_plan, opt_expand. destruct e as [|c e]; auto.
  pose proof (expand_entries_plan v (c :: e) m) as H.
  destruct (plan_entries v (c :: e) m); cbn [bind].
  - destruct H as [rs [H1 H2]]. exists rs. rewrite H1. auto.
  - rewrite H. reflexivity.
Qed.

Lemma some_expand_plan v e m :
  match some_plan v e m with
  | Ok n => exists rs, some_expand v e m = Ok rs /\ zlen rs = n
  | Err x => some_expand v e m = Err x
  end.
Proof.
  unfold some_plan, some_expand. destruct e.
  - exists [[]]. auto.
  - apply expand_entries_plan.
Qed.

Lemma expand_block_plan v ctx src bm sm :
  match plan_block v ctx src bm sm with
  | Ok n => exists rs, expand_block v ctx src bm sm = Ok rs /\ zlen rs = n
  | Err x => expand_block v ctx src bm sm = Err x
  end.
Proof.
  unfold plan_block, expand_block. destruct bm.
  - pose proof (opt_expand_plan v ctx ByPosition) as Hc.
    pose proof (opt_expand_plan v src sm) as Hs.
    destruct (opt_plan v ctx ByPosition) as [[c|]|x]; cbn [bind].
    + destruct Hc as [cr [Hc1 Hc2]]. rewrite Hc1. cbn [bind].
      destruct (opt_plan v src sm) as [[n|]|y]; cbn [bind].
      * destruct Hs as [sr [Hs1 Hs2]]. rewrite Hs1. cbn [bind].
        subst c n. unfold zlen.
        destruct (Nat.eqb_spec (List.length cr) (List.length sr)) as [E|E].
        -- rewrite E, Z.eqb_refl. eexists; split; [reflexivity|].
           rewrite map_length, seq_length. congruence.
        -- destruct (Z.eqb_spec (Z.of_nat (List.length cr)) (Z.of_nat (List.length sr))); [lia|reflexivity].
      * rewrite Hs. cbn [bind]. eexists; split; [reflexivity|].
        unfold zlen in *. rewrite map_length, seq_length. exact Hc2.
      * rewrite Hs. reflexivity.
    + rewrite Hc. cbn [bind].
      destruct (opt_plan v src sm) as [[n|]|y]; cbn [bind].
      * destruct Hs as [sr [Hs1 Hs2]]. rewrite Hs1. cbn [bind].
        eexists; split; [reflexivity|].
        unfold zlen in *. rewrite map_length, seq_length. exact Hs2.
      * rewrite Hs. cbn [bind]. exists []. auto.
      * rewrite Hs. reflexivity.
    + rewrite Hc. reflexivity.
  - pose proof (some_expand_plan v ctx Combinatorial) as Hc.
    pose proof (some_expand_plan v src sm) as Hs.
    destruct (some_plan v ctx Combinatorial) as [c|x]; cbn [bind].
    + destruct Hc as [cr [Hc1 Hc2]]. rewrite Hc1. cbn [bind].
      destruct (some_plan v src sm) as [n|y]; cbn [bind].
      * destruct Hs as [sr [Hs1 Hs2]]. rewrite Hs1. cbn [bind].
        eexists; split; [reflexivity|]. subst c n. unfold zlen.
        rewrite (flat_map_length_const _ (List.length sr)).
        -- apply Nat2Z.inj_mul.
        -- intros x. apply map_length.
      * rewrite Hs. reflexivity.
    + rewrite Hc. reflexivity.
Qed.

Lemma expand_blocks_plan v bs seen :
  match plan_blocks v bs seen with
  | Ok ns => exists rs, expand_blocks v bs seen = Ok rs /\ map zlen rs = ns
  | Err x => expand_blocks v bs seen = Err x
  end.
Proof.
  revert seen. induction bs as [|b tl IH]; intros seen; cbn [plan_blocks expand_blocks].
  - exists []. auto.
  - destruct (block_entries b) as [cs|x]; cbn [bind]; [|reflexivity].
    pose proof (expand_block_plan v (fst cs) (snd cs) (b_mode b) (src_mode b)) as Hb.
    destruct (plan_block v (fst cs) (snd cs) (b_mode b) (src_mode b)) as [n|x]; cbn [bind].
    + destruct Hb as [runs [Hb1 Hb2]]. rewrite Hb1. cbn [bind].
      destruct (existsb (fun k => mem k seen) (keys (fst cs) ++ keys (snd cs))); [reflexivity|].
      specialize (IH (seen ++ keys (fst cs) ++ keys (snd cs))%list).
      destruct (plan_blocks v tl (seen ++ keys (fst cs) ++ keys (snd cs))) as [ns|x]; cbn [bind].
      * destruct IH as [rs [H1 H2]]. rewrite H1. cbn [bind].
        exists (runs :: rs). split; [reflexivity|]. cbn [map]. congruence.
      * rewrite IH. reflexivity.
    + rewrite Hb. reflexivity.
Qed.

Lemma rename_cols_not_cap ren c acc : rename_cols ren c acc <> Err EMaxRuns.
Proof.
  revert acc. induction c as [|[k vs] tl IH]; intros acc; cbn [rename_cols]; [discriminate|].
  cbv zeta. destruct (has _ acc); [discriminate|apply IH].
Qed.

Lemma select_cols_not_cap c sel : select_cols c sel <> Err EMaxRuns.
Proof. unfold select_cols. destruct (forallb _ sel); discriminate. Qed.

Lemma process_source_not_cap s : process_source s <> Err EMaxRuns.
Proof.
  unfold process_source.
  assert (H : match s_select s with None => Ok (s_cols s) | Some sel => select_cols (s_cols s) sel end <> Err EMaxRuns).
  { destruct (s_select s); [apply select_cols_not_cap|discriminate]. }
  destruct (match s_select s with None => Ok (s_cols s) | Some sel => select_cols (s_cols s) sel end) as [c|x];
    cbn [bind]; [|congruence].
  destruct (s_rename s); [discriminate|apply rename_cols_not_cap].
Qed.

Lemma block_entries_not_cap b : block_entries b <> Err EMaxRuns.
Proof.
  unfold block_entries. destruct (b_src b) as [s|]; [|discriminate].
  pose proof (process_source_not_cap s) as H.
  destruct (process_source s); cbn [bind]; [|congruence].
  destruct (inter_keys _ _); discriminate.
Qed.

Lemma plan_entries_not_cap v e m : plan_entries v e m <> Err EMaxRuns.
Proof.
  unfold plan_entries. destruct e; [discriminate|]. cbv zeta.
  destruct m; [|discriminate]. destruct (same_lengths _); discriminate.
Qed.

Lemma opt_plan_not_cap v e m : opt_plan v e m <> Err EMaxRuns.
Proof.
  unfold opt_plan. destruct e; [discriminate|].
  pose proof (plan_entries_not_cap v (p :: e) m) as H.
  destruct (plan_entries v (p :: e) m); cbn [bind]; [discriminate|congruence].
Qed.

Lemma some_plan_not_cap v e m : some_plan v e m <> Err EMaxRuns.
Proof.
  unfold some_plan. destruct e; [discriminate|apply plan_entries_not_cap].
Qed.

Lemma plan_block_not_cap v ctx src bm sm : plan_block v ctx src bm sm <> Err EMaxRuns.
Proof.
  unfold plan_block. destruct bm.
  - pose proof (opt_plan_not_cap v ctx ByPosition) as Hc.
    pose proof (opt_plan_not_cap v src sm) as Hs.
    destruct (opt_plan v ctx ByPosition) as [[c|]|x]; cbn [bind]; [| |congruence];
      destruct (opt_plan v src sm) as [[n|]|y]; cbn [bind]; try discriminate; try congruence.
    destruct (c =? n)%Z; discriminate.
  - pose proof (some_plan_not_cap v ctx Combinatorial) as Hc.
    pose proof (some_plan_not_cap v src sm) as Hs.
    destruct (some_plan v ctx Combinatorial) as [c|x]; cbn [bind]; [|congruence].
    destruct (some_plan v src sm) as [n|y]; cbn [bind]; [discriminate|congruence].
Qed.

Lemma plan_blocks_not_cap v bs seen : plan_blocks v bs seen <> Err EMaxRuns.
Proof.
  revert seen. induction bs as [|b tl IH]; intros seen; cbn [plan_blocks]; [discriminate|].
  pose proof (block_entries_not_cap b) as Hb.
  destruct (block_entries b) as [cs|x]; cbn [bind]; [|congruence].
  pose proof (plan_block_not_cap v (fst cs) (snd cs) (b_mode b) (src_mode b)) as Hp.
  destruct (plan_block v (fst cs) (snd cs) (b_mode b) (src_mode b)) as [n|x]; cbn [bind]; [|congruence].
  destruct (existsb _ _); [discriminate|].
  specialize (IH (seen ++ keys (fst cs) ++ keys (snd cs))%list).
  destruct (plan_blocks v tl (seen ++ keys (fst cs) ++ keys (snd cs))); cbn [bind]; [discriminate|exact IH].
Qed.

Lemma total_comb_prodZ bs : total_comb bs = prodZ (map zlen bs).
Proof.
  unfold total_comb. induction bs as [|b tl IH]; cbn [fold_right map prodZ]; [reflexivity|].
  rewrite IH. reflexivity.
Qed.

Lemma exists_nil_prodZ (bs : list (list run)) :
  existsb is_nil bs = true -> prodZ (map zlen bs) = 0%Z.
Proof.
  induction bs as [|b tl IH]; cbn [existsb map prodZ]; [discriminate|].
  intros H. apply orb_true_iff in H. destruct H as [H|H].
  - destruct b; [|discriminate]. apply Z.mul_0_l.
  - rewrite IH by congruence. apply Z.mul_0_r.
Qed.

Lemma forallb_len_zlen (b0 : list run) (bs : list (list run)) :
  forallb (fun r => List.length r =? List.length b0) bs =
  forallb (fun n => (n =? zlen b0)%Z) (map zlen bs).
Proof.
  induction bs as [|b tl IH]; cbn [forallb map]; [reflexivity|].
  rewrite IH. f_equal. unfold zlen.
  destruct (Nat.eqb_spec (List.length b) (List.length b0)),
           (Z.eqb_spec (Z.of_nat (List.length b)) (Z.of_nat (List.length b0))); auto; lia.
Qed.

Lemma combine_runs_plan v cmb maxr bs :
  (0 <= maxr)%Z -> (bs <> [] \/ v_empty_cap v = true) ->
  match plan_total cmb (map zlen bs) with
  | Err x => x <> EMaxRuns /\ combine_runs v cmb maxr bs = Err x
  | Ok t => if (t >? maxr)%Z then combine_runs v cmb maxr bs = Err EMaxRuns
            else exists runs, combine_runs v cmb maxr bs = Ok runs /\ zlen runs = t
  end.
Proof.
  intros Hm Hne. destruct bs as [|b0 tl].
  - destruct Hne as [Hne|Hne]; [congruence|].
    cbn [map plan_total combine_runs]. rewrite Hne. cbn [andb].
    destruct (1 >? maxr)%Z; auto. exists [[]]; auto.
  - unfold plan_total, combine_runs. cbn [map]. destruct cmb.
    + change (zlen b0 :: map zlen tl) with (map zlen (b0 :: tl)).
      rewrite <- forallb_len_zlen.
      destruct (forallb (fun r => List.length r =? List.length b0) (b0 :: tl)).
      * fold (zlen b0). destruct (zlen b0 >? maxr)%Z; auto.
        eexists; split; [reflexivity|]. unfold zlen. rewrite map_length, seq_length. reflexivity.
      * split; [discriminate|reflexivity].
    + change (zlen b0 :: map zlen tl) with (map zlen (b0 :: tl)).
      destruct (existsb is_nil (b0 :: tl)) eqn:En.
      * rewrite (exists_nil_prodZ _ En).
        destruct (Z.gtb_spec 0 maxr); [lia|]. exists []. auto.
      * rewrite total_comb_prodZ.
        destruct (prodZ (map zlen (b0 :: tl)) >? maxr)%Z; auto.
        eexists; split; [reflexivity|]. unfold zlen at 1.
        rewrite map_length, cart_length, prodl_prodZ, map_map. reflexivity.
Qed.

Lemma expand_blocks_nil v bs seen : expand_blocks v bs seen = Ok [] -> bs = [].
Proof.
  destruct bs as [|b tl]; auto. cbn [expand_blocks].
  destruct (block_entries b) as [cs|x]; cbn [bind]; [|discriminate].
  destruct (expand_block _ _ _ _ _); cbn [bind]; [|discriminate].
  destruct (existsb _ _); [discriminate|].
  destruct (expand_blocks _ _ _); cbn [bind]; discriminate.
Qed.

Theorem expand_total v s :
  (0 <= sp_max_runs s)%Z -> (sp_blocks s <> [] \/ v_empty_cap v = true) ->
  match total v s with
  | Err x => x <> EMaxRuns /\ expand v s = Err x
  | Ok t => if (t >? sp_max_runs s)%Z then expand v s = Err EMaxRuns
            else exists runs, expand v s = Ok runs /\ zlen runs = t
  end.
Proof.
  intros Hm Hne. unfold total, expand.
  pose proof (expand_blocks_plan v (sp_blocks s) []) as Hb.
  pose proof (plan_blocks_not_cap v (sp_blocks s) []) as Hn.
  destruct (plan_blocks v (sp_blocks s) []) as [ns|x]; cbn [bind].
  - destruct Hb as [rs [H1 H2]]. rewrite H1. cbn [bind]. subst ns.
    apply combine_runs_plan; auto.
    destruct Hne as [Hne|Hne]; auto. left. intros ->.
    apply Hne. eapply expand_blocks_nil; eauto.
  - rewrite Hb. cbn [bind]. split; auto. congruence.
Qed.

Theorem cap_rejects v s t :
  (0 <= sp_max_runs s)%Z -> (sp_blocks s <> [] \/ v_empty_cap v = true) ->
  total v s = Ok t -> (t > sp_max_runs s)%Z -> expand v s = Err EMaxRuns.
Proof.
  intros Hm Hne Ht Hgt. pose proof (expand_total v s Hm Hne) as H.
  rewrite Ht in H. destruct (Z.gtb_spec t (sp_max_runs s)); [exact H|lia].
Qed.

Theorem length_exact v s runs :
  (0 <= sp_max_runs s)%Z -> (sp_blocks s <> [] \/ v_empty_cap v = true) ->
  expand v s = Ok runs -> total v s = Ok (zlen runs) /\ (zlen runs <= sp_max_runs s)%Z.
Proof.
  intros Hm Hne He. pose proof (expand_total v s Hm Hne) as H.
  destruct (total v s) as [t|x].
  - destruct (Z.gtb_spec t (sp_max_runs s)).
    + congruence.
    + destruct H as [r [H1 H2]]. rewrite He in H1. injection H1 as <-. subst t. split; [reflexivity|lia].
  - destruct H as [_ H]. congruence.
Qed.

Theorem cap_error_only_from_cap v s :
  (0 <= sp_max_runs s)%Z -> (sp_blocks s <> [] \/ v_empty_cap v = true) ->
  expand v s = Err EMaxRuns -> exists t, total v s = Ok t /\ (t > sp_max_runs s)%Z.
Proof.
  intros Hm Hne He. pose proof (expand_total v s Hm Hne) as H.
  destruct (total v s) as [t|x].
  - exists t. split; [reflexivity|].
    destruct (Z.gtb_spec t (sp_max_runs s)); [lia|].
    destruct H as [r [H1 _]]. congruence.
  - destruct H as [Hx H]. rewrite He in H. congruence.
Qed.

Theorem cap_rejects_refuted_when v :
  v_empty_cap v = false ->
  exists s, (0 <= sp_max_runs s)%Z /\ total v s = Ok 1%Z /\ (1 > sp_max_runs s)%Z /\ expand v s = Ok [[]].
Proof.
  intros H. exists (mkSpec Combinatorial 0 []).
  destruct v as [a b c]. cbn in H. subst b.
  repeat split; try reflexivity; cbn; try lia.
Qed.

Lemma snd_cbind {A B} (r : cres A) (f : A -> cres B) :
  snd (cbind r f) = match snd r with Ok a => snd (f a) | Err e => Err e end.
Proof. unfold cbind. destruct (snd r); reflexivity. Qed.

Lemma snd_counted {A} (r : res (list A)) : snd (counted r) = r.
Proof. destruct r; reflexivity. Qed.

Lemma snd_counted_opt {A} (r : res (option (list A))) : snd (counted_opt r) = r.
Proof. destruct r as [[l|]|x]; reflexivity. Qed.

Lemma snd_cbind_some {B} v e m (f : list run -> cres B) :
  snd (cbind (match e with [] => free (Ok [[]]) | _ :: _ => counted (expand_entries v e m) end) f)
  = match some_expand v e m with Ok a => snd (f a) | Err x => Err x end.
Proof.
  rewrite snd_cbind. unfold some_expand. destruct e; [reflexivity|]. rewrite snd_counted. reflexivity.
Qed.

Lemma expand_block_c_result v ctx src bm sm :
  snd (expand_block_c v ctx src bm sm) = expand_block v ctx src bm sm.
Proof.
  unfold expand_block_c, expand_block. destruct bm.
  - rewrite snd_cbind, snd_counted_opt.
    destruct (opt_expand v ctx ByPosition) as [cr|x]; cbn [bind]; [|reflexivity].
    rewrite snd_cbind, snd_counted_opt.
    destruct (opt_expand v src sm) as [sr|y]; cbn [bind]; [|reflexivity].
    apply snd_counted.
  - etransitivity; [apply snd_cbind_some|].
    destruct (some_expand v ctx Combinatorial) as [cr|x]; cbn [bind]; [|reflexivity].
    etransitivity; [apply snd_cbind_some|].
    destruct (some_expand v src sm) as [sr|y]; cbn [bind]; reflexivity.
Qed.

Lemma expand_blocks_c_result v bs seen :
  snd (expand_blocks_c v bs seen) = expand_blocks v bs seen.
Proof.
  revert seen. induction bs as [|b tl IH]; intros seen; cbn [expand_blocks_c expand_blocks]; [reflexivity|].
  rewrite snd_cbind. unfold free at 1. cbn [snd].
  destruct (block_entries b) as [cs|x]; cbn [bind]; [|reflexivity].
  rewrite snd_cbind, expand_block_c_result.
  destruct (expand_block v (fst cs) (snd cs) (b_mode b) (src_mode b)) as [runs|x]; cbn [bind]; [|reflexivity].
  destruct (existsb _ _); [reflexivity|].
  rewrite snd_cbind, IH.
  destruct (expand_blocks v tl _); cbn [bind]; reflexivity.
Qed.

Lemma eager_result v s : snd (expand_eager_c v s) = expand v s.
Proof.
  unfold expand_eager_c, expand. rewrite snd_cbind, expand_blocks_c_result.
  destruct (expand_blocks v (sp_blocks s) []); cbn [bind]; [apply snd_counted|reflexivity].
Qed.

Lemma combine_cap_inv v cmb maxr (bs : list (list run)) t :
  combine_runs v cmb maxr bs = Err EMaxRuns ->
  plan_total cmb (map zlen bs) = Ok t -> (t >? maxr)%Z = true.
Proof.
  destruct bs as [|b0 tl].
  - cbn [map plan_total combine_runs]. intros H1 H2. injection H2 as <-.
    destruct (v_empty_cap v); cbn [andb] in H1; [|discriminate].
    destruct (1 >? maxr)%Z; [reflexivity|discriminate].
  - unfold plan_total, combine_runs. cbn [map].
    change (zlen b0 :: map zlen tl) with (map zlen (b0 :: tl)). destruct cmb.
    + rewrite <- forallb_len_zlen.
      destruct (forallb (fun r => List.length r =? List.length b0) (b0 :: tl)); [|discriminate].
      fold (zlen b0). intros H1 H2. injection H2 as <-.
      destruct (zlen b0 >? maxr)%Z; [reflexivity|discriminate].
    + destruct (existsb is_nil (b0 :: tl)); [discriminate|].
      rewrite total_comb_prodZ. intros H1 H2.
      destruct (prodZ (map zlen (b0 :: tl)) >? maxr)%Z eqn:E; [|discriminate].
      injection H2 as <-. exact E.
Qed.

Lemma expand_cap_inv v s t :
  expand v s = Err EMaxRuns -> total v s = Ok t -> (t >? sp_max_runs s)%Z = true.
Proof.
  unfold expand, total.
  pose proof (expand_blocks_plan v (sp_blocks s) []) as Hb.
  destruct (plan_blocks v (sp_blocks s) []) as [ns|x]; cbn [bind]; [|discriminate].
  destruct Hb as [rs [H1 H2]]. rewrite H1. cbn [bind]. subst ns.
  apply combine_cap_inv.
Qed.

Theorem cap_before_expansion v s :
  v_cap_first v = true -> expand v s = Err EMaxRuns -> (expand_cost v s <= spec_size s)%N.
Proof.
  intros Hv He. unfold expand_cost. rewrite Hv.
  destruct (total v s) as [t|x] eqn:Ht.
  - rewrite (expand_cap_inv v s t He Ht). cbn [orb]. apply N.le_0_l.
  - apply N.le_0_l.
Qed.

Theorem cap_before_expansion_refuted_when v :
  v_cap_first v = false ->
  exists s, wf_spec s = true /\ expand v s = Err EMaxRuns /\ (spec_size s < expand_cost v s)%N.
Proof.
  intros H.
  exists (mkSpec Combinatorial 1
            [mkBlock Combinatorial
               [("a"%string, [VInt 1; VInt 2; VInt 3]); ("b"%string, [VInt 1; VInt 2; VInt 3])]
               None]).
  destruct v as [a b c]. cbn in H. subst c.
  destruct a, b; repeat split; vm_compute; reflexivity.
Qed.

Theorem cost_zero_when_rejected v s e :
  v_cap_first v = true -> (0 <= sp_max_runs s)%Z -> (sp_blocks s <> [] \/ v_empty_cap v = true) ->
  expand v s = Err e -> expand_cost v s = 0%N.
Proof.
  intros Hv Hm Hne He. unfold expand_cost. rewrite Hv.
  pose proof (expand_total v s Hm Hne) as H.
  destruct (total v s) as [t|x]; [|reflexivity].
  destruct (t >? sp_max_runs s)%Z; [reflexivity|].
  destruct H as [r [H1 _]]. congruence.
Qed.

Lemma eager_cap_cost v s :
  expand v s = Err EMaxRuns ->
  fst (expand_eager_c v s) = fst (expand_blocks_c v (sp_blocks s) []).
Proof.
  unfold expand, expand_eager_c, cbind.
  rewrite <- (expand_blocks_c_result v (sp_blocks s) []).
  destruct (snd (expand_blocks_c v (sp_blocks s) [])) as [bs|e]; cbn [bind]; [|reflexivity].
  intros H. rewrite H. cbn [counted fst]. apply N.add_0_r.
Qed.

Lemma cap_before_combination v s :
  expand v s = Err EMaxRuns ->
  (expand_cost v s <= fst (expand_blocks_c v (sp_blocks s) []))%N.
Proof.
  intros H. unfold expand_cost.
  destruct (v_cap_first v).
  - destruct (total v s) as [t|x]; [|apply N.le_0_l].
    destruct ((t >? sp_max_runs s)%Z || (t =? 0)%Z); [apply N.le_0_l|].
    rewrite (eager_cap_cost v s H). apply N.le_refl.
  - rewrite (eager_cap_cost v s H). apply N.le_refl.
Qed.
