(* Proofs/SafeEval.v — when the tables satisfy policy_sound, an accepted tree has
   only whitelisted node kinds at every position, only direct calls of whitelisted
   functions, and only declared names; evaluation never resolves a builtin. *)
From Coq Require Import List String Bool.
From SV Require Import Model.SafeEval.
Import ListNotations.
Open Scope string_scope.

Section TreeInd.
Variable P : tree -> Prop.
Hypothesis H : forall k a fs, Forall (fun p => Forall P (snd p)) fs -> P (T k a fs).
Fixpoint tree_ind' (t : tree) : P t :=
  match t with
  | T k a fs =>
      H k a fs
        ((fix go (fs : list (string * list tree)) : Forall (fun p => Forall P (snd p)) fs :=
            match fs with
            | [] => Forall_nil _
            | p :: tl =>
                Forall_cons p
                  ((fix go2 (l : list tree) : Forall P l :=
                      match l with [] => Forall_nil _ | x :: r => Forall_cons x (tree_ind' x) (go2 r) end) (snd p))
                  (go tl)
            end) fs)
  end.
End TreeInd.

Section Sound.
Variable tb : Tables.
Variable names : list string.
Hypothesis pol : policy_sound tb = true.

Definition good (s : tree) : bool :=
  mem (kind_of s) (allowed_nodes tb)
  && (if String.eqb (kind_of s) "Call" then call_target_ok tb (fields_of s) else true)
  && (if String.eqb (kind_of s) "Name" then mem (atom_of s) names || mem (atom_of s) (allowed_funcs tb) else true).

Lemma pol_facts :
  mem "Name" (allowed_nodes tb) = true /\ mem "Call" (allowed_nodes tb) = true /\
  mem "Load" (allowed_nodes tb) = true /\ name_checked tb = true /\ call_guarded tb = true /\
  generic_checked tb = true /\ mem "args" (call_visited tb) = true /\
  mem "NamedExpr" (allowed_nodes tb) = false /\ mem "comprehension" (allowed_nodes tb) = false /\
  (kw_policy tb = KwRejected \/ kw_policy tb = KwVisited).
Proof.
  unfold policy_sound in pol. repeat (apply andb_true_iff in pol as [pol ?]).
  repeat match goal with H : negb _ = true |- _ => apply negb_true_iff in H end.
  repeat split; auto. destruct (kw_policy tb); try discriminate; auto.
Qed.

Definition Acc (t : tree) : Prop :=
  wfb false t = true -> visit tb names t = true -> Forall (fun s => good s = true) (subtrees t).

Lemma children_good (l : list tree) :
  Forall Acc l -> forallb (wfb false) l = true -> forallb (visit tb names) l = true ->
  Forall (fun s => good s = true) (flat_map subtrees l).
Proof.
  induction 1 as [|x r Hx _ IH]; simpl; intros W V; [constructor|].
  apply andb_true_iff in W as [W1 W2]. apply andb_true_iff in V as [V1 V2].
  apply Forall_app. split; auto.
Qed.

Ltac bsplit := repeat match goal with | [ H : andb ?a ?b = true |- _ ] => apply andb_true_iff in H; destruct H end.
Ltac seqb := repeat match goal with | [ H : String.eqb ?a ?b = true |- _ ] => apply String.eqb_eq in H; subst end.

Lemma wfb_name a fs : wfb false (T "Name" a fs) = true -> exists a', fs = [("ctx", [T "Load" a' []])].
Proof.
  simpl. intros W.
  destruct fs as [|[f [|[k a0 [|? ?]] [|? ?]]] [|? ?]]; try discriminate.
  bsplit. rewrite orb_false_r in *. seqb. eauto.
Qed.

Lemma wfb_call a fs : wfb false (T "Call" a fs) = true ->
  exists fn args kws, fs = [("func", [fn]); ("args", args); ("keywords", kws)] /\
    wfb false fn = true /\ forallb (wfb false) args = true /\ forallb (wfb false) kws = true.
Proof.
  simpl. intros W.
  destruct fs as [|[f1 [|fn [|? ?]]] [|[f2 args] [|[f3 kws] [|? ?]]]]; try discriminate.
  simpl in W. bsplit. seqb. exists fn, args, kws. auto.
Qed.

Lemma child_st_false kind f :
  String.eqb kind "NamedExpr" = false -> String.eqb kind "comprehension" = false ->
  child_st kind f false = false.
Proof. intros H1 H2. unfold child_st. rewrite H1, H2. reflexivity. Qed.

Theorem visit_good : forall t, Acc t.
Proof.
  destruct pol_facts as (PName & PCall & PLoad & Pn & Pc & Pg & Pargs & PNE & PCo & Pkw).
  induction t as [kind atom fs IH] using tree_ind'. intros W V.
  destruct (String.eqb_spec kind "Name") as [EN|NN].
  - (* Name *)
    subst kind. destruct (wfb_name _ _ W) as [a' ->].
    simpl in V. rewrite Pn in V.
    simpl. constructor.
    + unfold good. simpl. rewrite PName, V. reflexivity.
    + constructor; [|constructor]. unfold good. simpl. rewrite PLoad. reflexivity.
  - destruct (String.eqb_spec kind "Call") as [EC|NC].
    + (* Call *)
      subst kind. destruct (wfb_call _ _ W) as (fn & args & kws & -> & Wfn & Wargs & Wkws).
      simpl in V. rewrite Pc, Pargs in V.
      inversion IH as [|? ? IHfn IH']; subst. inversion IH' as [|? ? IHargs IH'']; subst.
      inversion IH'' as [|? ? IHkws _]; subst. simpl in IHfn, IHargs, IHkws.
      bsplit.
      (* the call target *)
      match goal with Ht : call_target_ok _ _ = true |- _ => unfold call_target_ok in Ht; simpl in Ht end.
      destruct fn as [fk fa ffs]. bsplit. seqb.
      destruct (wfb_name _ _ Wfn) as [a' ->].
      simpl. constructor.
      { unfold good. simpl. rewrite PCall. unfold call_target_ok. simpl.
        match goal with Hf : mem fa _ = true |- _ => rewrite Hf end. reflexivity. }
      constructor.
      { unfold good. simpl. rewrite PName.
        match goal with Hf : mem fa _ = true |- _ => rewrite Hf end. rewrite orb_true_r. reflexivity. }
      constructor.
      { unfold good. simpl. rewrite PLoad. reflexivity. }
      rewrite !app_nil_r. apply Forall_app. split.
      * apply children_good; auto.
      * destruct Pkw as [Pk|Pk]; rewrite Pk in *; simpl in *.
        -- destruct kws; [constructor|]. bsplit. discriminate.
        -- bsplit. apply children_good; auto.
    + (* generic *)
      assert (E1 : String.eqb kind "Name" = false) by (apply String.eqb_neq; auto).
      assert (E2 : String.eqb kind "Call" = false) by (apply String.eqb_neq; auto).
      simpl in W, V. rewrite E1, E2 in *. simpl in W. rewrite Pg in V. apply andb_true_iff in V as [Vk Vch].
      assert (E3 : String.eqb kind "NamedExpr" = false).
      { apply String.eqb_neq. intro E; subst. rewrite PNE in Vk. discriminate. }
      assert (E4 : String.eqb kind "comprehension" = false).
      { apply String.eqb_neq. intro E; subst. rewrite PCo in Vk. discriminate. }
      simpl. constructor.
      * unfold good. simpl. rewrite Vk, E1, E2. reflexivity.
      * clear - IH W Vch E3 E4. induction IH as [|p r Hp _ IHr]; simpl in *; [constructor|].
        apply andb_true_iff in W as [W1 W2]. apply andb_true_iff in Vch as [V1 V2].
        rewrite child_st_false in W1 by auto.
        apply Forall_app. split; auto. apply children_good; auto.
Qed.

Lemma mem_in s l : mem s l = true <-> In s l.
Proof.
  unfold mem. rewrite existsb_exists. split.
  - intros [x [Hx E]]. apply String.eqb_eq in E. subst; auto.
  - intros Hin. exists s. split; auto. apply String.eqb_refl.
Qed.

(* every syntactic element, at any depth and in any field position, is whitelisted *)
Theorem accept_whitelisted t :
  wfb false t = true -> visit tb names t = true ->
  Forall (fun s => In (kind_of s) (allowed_nodes tb)) (subtrees t).
Proof.
  intros W V. eapply Forall_impl; [|apply (visit_good t W V)].
  intros s Hs. unfold good in Hs. apply andb_true_iff in Hs as [Hs _]. apply andb_true_iff in Hs as [Hs _].
  apply mem_in; auto.
Qed.

(* every call is a direct call of a whitelisted function *)
Theorem accept_calls t :
  wfb false t = true -> visit tb names t = true ->
  Forall (fun s => kind_of s = "Call" -> call_target_ok tb (fields_of s) = true) (subtrees t).
Proof.
  intros W V. eapply Forall_impl; [|apply (visit_good t W V)].
  intros s Hs E. unfold good in Hs. rewrite E in Hs. simpl in Hs.
  apply andb_true_iff in Hs as [Hs _]. apply andb_true_iff in Hs as [_ Hs]. exact Hs.
Qed.

(* every name is a declared variable or a whitelisted function *)
Theorem accept_names t :
  wfb false t = true -> visit tb names t = true ->
  Forall (fun n => In n names \/ In n (allowed_funcs tb)) (lookups t).
Proof.
  intros W V. unfold lookups. apply Forall_flat_map.
  eapply Forall_impl; [|apply (visit_good t W V)].
  intros s Hs. unfold good in Hs. apply andb_true_iff in Hs as [_ Hs].
  destruct (String.eqb (kind_of s) "Name"); [|constructor].
  constructor; [|constructor]. apply orb_true_iff in Hs as [Hs|Hs]; [left|right]; apply mem_in; auto.
Qed.

(* name resolution of the compiled code never falls through to builtins *)
Theorem eval_confined t locals :
  incl names locals -> incl (allowed_funcs tb) (env_keys tb) ->
  wfb false t = true -> visit tb names t = true ->
  Forall (fun n => resolve locals (env_keys tb) n <> Builtin) (lookups t).
Proof.
  intros Hl He W V. eapply Forall_impl; [|apply (accept_names t W V)].
  intros n [Hn|Hn]; unfold resolve.
  - apply Hl, mem_in in Hn. rewrite Hn. discriminate.
  - apply He, mem_in in Hn. destruct (mem n locals); [discriminate|]. rewrite Hn. discriminate.
Qed.
End Sound.

(* With the keyword-ignoring visitor, arbitrary syntax is accepted in keyword position. *)
Definition kw_escape : tree :=
  T "Call" "" [("func", [T "Name" "abs" [("ctx", [T "Load" "" []])]]);
               ("args", []);
               ("keywords", [T "keyword" "x" [("value",
                   [T "Call" "" [("func", [T "Name" "__import__" [("ctx", [T "Load" "" []])]]);
                                 ("args", [T "Constant" "" []]); ("keywords", [])]])]])].
