(* Proofs/Stateful.v — m_runs of one object with per-run instances are independent m_standalone m_runs. *)
From Coq Require Import List ZArith Bool.
From SV Require Import Model.Stateful.
Import ListNotations.

Section P.
Variables S D : Type.
Implicit Types ns : list (mnode S D).

(* with m_fresh instances per run, the instance states left by earlier m_runs are irrelevant *)
Lemma runs_from_fresh_irrelevant ns : forall ds ss ss',
  m_runs_from true ns ss ds = m_runs_from true ns ss' ds.
Proof.
  induction ds as [|d tl IH]; intros ss ss'; simpl.
  - reflexivity.
  - destruct (run_with ns (m_fresh ns) d) as [s1 out]. reflexivity.
Qed.

Theorem fresh_runs_are_standalone ns : forall ds, m_runs true ns ds = map (m_standalone ns) ds.
Proof.
  unfold m_runs. intros ds. generalize (m_fresh ns) at 1. induction ds as [|d tl IH]; intros ss; simpl.
  - reflexivity.
  - unfold m_standalone at 1. destruct (run_with ns (m_fresh ns) d) as [s1 out]. simpl. f_equal. apply IH.
Qed.

(* run i depends on input i only: same input at positions i and j of two launches, same output *)
Theorem fresh_runs_no_leak ns ds ds' i j :
  nth_error ds i = nth_error ds' j -> nth_error (m_runs true ns ds) i = nth_error (m_runs true ns ds') j.
Proof.
  rewrite !fresh_runs_are_standalone. intros H.
  rewrite !nth_error_map, H. reflexivity.
Qed.

(* stateless nodes (the step never changes the state) are insensitive to instance reuse *)
Definition stateless (n : mnode S D) : Prop := forall s d s' d', m_step n s d = Some (s', d') -> s' = s.

Lemma run_with_stateless ns : Forall stateless ns -> forall ss d, length ss = length ns -> fst (run_with ns ss d) = ss.
Proof.
  intros Hs. induction Hs as [|n ns' Hn _ IH]; intros ss d Hl; simpl.
  - destruct ss; reflexivity.
  - destruct ss as [|s ss']; [discriminate|]. simpl in Hl.
    destruct (m_step n s d) as [[s' d']|] eqn:E; [|reflexivity].
    rewrite (Hn _ _ _ _ E). specialize (IH ss' d' (eq_add_S _ _ Hl)).
    destruct (run_with ns' ss' d') as [rest out]. simpl in *. rewrite IH. reflexivity.
Qed.

Theorem stateless_reuse_is_harmless ns : Forall stateless ns -> forall ds, m_runs false ns ds = map (m_standalone ns) ds.
Proof.
  intros Hs ds. unfold m_runs. assert (Hl : length (m_fresh ns) = length ns) by (unfold m_fresh; apply map_length).
  induction ds as [|d tl IH]; simpl.
  - reflexivity.
  - pose proof (run_with_stateless ns Hs (m_fresh ns) d Hl) as F.
    unfold m_standalone at 1. destruct (run_with ns (m_fresh ns) d) as [s1 out]. simpl in *. subst s1. f_equal. exact IH.
Qed.
End P.

(* reusing instances across m_runs is observable as soon as one node keeps state *)
Theorem reused_instances_leak :
  exists (ns : list (mnode Z Z)) ds, m_runs false ns ds <> map (m_standalone ns) ds.
Proof. exists [accumulate], [10; 20; 40]%Z. vm_compute. discriminate. Qed.

Example ex_accumulate_fresh : m_runs true [times 2; accumulate] [10; 20; 40]%Z = [Some 20; Some 40; Some 80]%Z.
Proof. reflexivity. Qed.
Example ex_accumulate_reused : m_runs false [times 2; accumulate] [10; 20; 40]%Z = [Some 20; Some 60; Some 140]%Z.
Proof. reflexivity. Qed.
Example ex_failing_run_then_next : m_runs true [accumulate; fail_on 20] [10; 20; 40]%Z = [Some 10; None; Some 40]%Z.
Proof. reflexivity. Qed.
