(* Proofs/Subscription.v -- one consumer, any sequence of publish / open / next / close / drain operations:
   every message is delivered at most once and is otherwise still queued; a closed subscription consumes nothing. *)
From Coq Require Import List String Bool Arith Permutation Lia.
From SV Require Import Model.Glob Model.Subscription.
Import ListNotations.

Lemma queued_tpublish c m : forall t, Permutation (queued (tpublish c m t)) (queued t ++ [m]).
Proof.
  induction t as [|[c' q] tl IH]; simpl.
  - reflexivity.
  - destruct (String.eqb c c'); unfold queued in *; simpl.
    + rewrite <- !app_assoc. apply Permutation_app_head. apply Permutation_app_comm.
    + rewrite <- app_assoc. apply Permutation_app_head. exact IH.
Qed.

Lemma queued_tpop p : forall t m t', tpop p t = Some (m, t') -> Permutation (queued t) (m :: queued t').
Proof.
  induction t as [|[c q] tl IH]; intros m t' H; simpl in H; [discriminate|].
  unfold queued in *. simpl.
  destruct (glob p c).
  - destruct q as [|x q'].
    + destruct (tpop p tl) as [[m1 tl1]|] eqn:E; [|discriminate]. injection H as <- <-. simpl. apply (IH _ _ eq_refl).
    + injection H as <- <-. simpl. reflexivity.
  - destruct (tpop p tl) as [[m1 tl1]|] eqn:E; [|discriminate]. injection H as <- <-. simpl.
    apply Permutation_trans with (q ++ m1 :: flat_map snd tl1).
    + apply Permutation_app_head. apply (IH _ _ eq_refl).
    + apply Permutation_sym. apply Permutation_middle.
Qed.

Lemma queued_drain p : forall fuel t ms t', drain p fuel t = (ms, t') -> Permutation (queued t) (ms ++ queued t').
Proof.
  induction fuel as [|f IH]; intros t ms t' H; simpl in H.
  - injection H as <- <-. reflexivity.
  - destruct (tpop p t) as [[m t1]|] eqn:E.
    + destruct (drain p f t1) as [ms1 t2] eqn:D. injection H as <- <-.
      apply Permutation_trans with (m :: queued t1); [apply queued_tpop with (p := p); exact E|].
      simpl. apply perm_skip. apply IH. exact D.
    + injection H as <- <-. reflexivity.
Qed.

(* a closed subscription consumes nothing *)
Theorem closed_consumes_nothing sb t : s_closed sb = true ->
  fst (fst (sub_next true sb t)) = None /\ snd (fst (sub_next true sb t)) = t.
Proof.
  intros H. unfold sub_next. destruct (s_finished sb); simpl; [auto|]. rewrite H. simpl. auto.
Qed.

Lemma sub_next_perm sb t mo t' sb' : sub_next true sb t = (mo, t', sb') ->
  Permutation (queued t) (match mo with Some m => m :: queued t' | None => queued t' end).
Proof.
  unfold sub_next. destruct (s_finished sb); [intros H; injection H as <- <- _; reflexivity|].
  destruct (s_closed sb) eqn:C; simpl.
  - intros H. injection H as <- <- _. reflexivity.
  - destruct (tpop (s_pat sb) t) as [[m t1]|] eqn:E; intros H; injection H as <- <- _.
    + apply queued_tpop with (p := s_pat sb). exact E.
    + reflexivity.
Qed.

Definition accounted (s : st) : Prop := Permutation (delivered s ++ queued (tbl s)) (seq 0 (next_id s)).

Lemma step_accounted s o : accounted s -> accounted (step true s o).
Proof.
  unfold accounted. intros H. destruct o as [c|p|i|i|p fuel]; cbn [step tbl subs next_id delivered].
  - rewrite seq_S. cbn [plus].
    apply Permutation_trans with (delivered s ++ queued (tbl s) ++ [next_id s]).
    + apply Permutation_app_head. apply queued_tpublish.
    + rewrite app_assoc. apply Permutation_app_tail. exact H.
  - exact H.
  - destruct (nth_error (subs s) i) as [sb|]; [|exact H].
    destruct (sub_next true sb (tbl s)) as [[mo t'] sb'] eqn:E. cbn [tbl subs next_id delivered].
    pose proof (sub_next_perm _ _ _ _ _ E) as P.
    destruct mo as [m|].
    + rewrite <- app_assoc. simpl.
      apply Permutation_trans with (delivered s ++ queued (tbl s)); [|exact H].
      apply Permutation_app_head. apply Permutation_sym. exact P.
    + apply Permutation_trans with (delivered s ++ queued (tbl s)); [|exact H].
      apply Permutation_app_head. apply Permutation_sym. exact P.
  - destruct (nth_error (subs s) i); exact H.
  - destruct (drain p fuel (tbl s)) as [ms t'] eqn:D. cbn [tbl subs next_id delivered].
    rewrite <- app_assoc.
    apply Permutation_trans with (delivered s ++ queued (tbl s)); [|exact H].
    apply Permutation_app_head. apply Permutation_sym. apply queued_drain with (p := p) (fuel := fuel). exact D.
Qed.

(* every published message is delivered at most once, and is still queued otherwise: nothing lost, nothing duplicated *)
Theorem exactly_once : forall ops,
  let s := run_ops true ops in
  Permutation (delivered s ++ queued (tbl s)) (seq 0 (next_id s)) /\ NoDup (delivered s ++ queued (tbl s)).
Proof.
  intros ops. cbn zeta.
  assert (A : accounted (run_ops true ops)).
  { unfold run_ops. generalize st0 (Permutation_refl (@nil nat) : accounted st0).
    induction ops as [|o tl IH]; intros s Hs; simpl; [exact Hs|]. apply IH. apply step_accounted. exact Hs. }
  split; [exact A|]. apply Permutation_NoDup with (l := seq 0 (next_id (run_ops true ops))); [apply Permutation_sym; exact A|apply seq_NoDup].
Qed.

(* with the flag tested after the pop, a message is lost: closed, advanced once more *)
Theorem lost_when_flag_tested_after_pop :
  exists ops, let s := run_ops false ops in ~ In 1 (delivered s ++ queued (tbl s)) /\ 1 < next_id s.
Proof.
  exists [OPub "c"; OPub "c"; OPub "c"; OOpen "c"; ONext 0; OClose 0; ONext 0; ODrain "c" 10]%string.
  vm_compute. split; [intros [H|[H|H]]; try discriminate; contradiction|lia].
Qed.

(* a drain with enough fuel leaves no matching message behind *)
Lemma tpop_none_iff p : forall t, tpop p t = None -> forall c q, In (c, q) t -> glob p c = true -> q = [].
Proof.
  induction t as [|[c0 q0] tl IH]; intros H c q Hin Hg; [contradiction|].
  simpl in H. destruct Hin as [E|Hin].
  - injection E as -> ->. rewrite Hg in H. destruct q; [reflexivity|discriminate].
  - destruct (glob p c0).
    + destruct q0; [|discriminate]. destruct (tpop p tl) as [[m t1]|] eqn:E; [discriminate|]. eapply IH; eauto.
    + destruct (tpop p tl) as [[m t1]|] eqn:E; [discriminate|]. eapply IH; eauto.
Qed.

Lemma tpop_length p : forall t m t', tpop p t = Some (m, t') -> List.length (queued t) = S (List.length (queued t')).
Proof.
  intros t m t' H. apply queued_tpop in H. apply Permutation_length in H. exact H.
Qed.

Theorem drain_complete p : forall fuel t ms t', List.length (queued t) < fuel -> drain p fuel t = (ms, t') ->
  forall c q, In (c, q) t' -> glob p c = true -> q = [].
Proof.
  induction fuel as [|f IH]; intros t ms t' Hf H c q Hin Hg; [lia|].
  simpl in H. destruct (tpop p t) as [[m t1]|] eqn:E.
  - destruct (drain p f t1) as [ms1 t2] eqn:D. injection H as _ <-.
    eapply (IH t1 ms1 t2); eauto. rewrite (tpop_length _ _ _ _ E) in Hf. lia.
  - injection H as _ <-. eapply tpop_none_iff; eauto.
Qed.
