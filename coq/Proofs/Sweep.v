(* Proofs/Sweep.v — order of sweep steps, one element per step, merge precedence,
   publication of the materialised sequences. *)
From Coq Require Import List String Ascii ZArith Bool Lia Arith Permutation Sorted.
From SV Require Import Common.Prelude Model.Expr Model.Pipeline Model.Sweep Proofs.Pipeline.
Import ListNotations.
Local Open Scope string_scope.
Local Open Scope list_scope.

(* ---- Cartesian product: length and recursive mixed-radix indexing ------------------------- *)
Definition prod_len (seqs : list (string * list val)) : nat :=
  fold_right (fun p acc => List.length (snd p) * acc) 1 seqs.

Lemma flat_map_cons_length (v : string) (l : list step) : forall xs,
  List.length (flat_map (fun x => map (cons (v, x)) l) xs) = List.length xs * List.length l.
Proof.
  induction xs as [|x xs IH]; simpl; auto. rewrite app_length, map_length, IH. reflexivity.
Qed.

Lemma product_length seqs : List.length (product seqs) = prod_len seqs.
Proof.
  induction seqs as [|[v xs] tl IH]; simpl; auto.
  rewrite flat_map_cons_length, IH. reflexivity.
Qed.

Lemma nth_flat_map_chunks {A B} (f : A -> list B) (m : nat) (d : B) (dx : A) :
  (forall x, List.length (f x) = m) ->
  forall xs i j, i < List.length xs -> j < m ->
  nth (i * m + j) (flat_map f xs) d = nth j (f (nth i xs dx)) d.
Proof.
  intros Hm. induction xs as [|x xs IH]; intros i j Hi Hj; simpl in Hi; [lia|].
  cbn [flat_map]. destruct i as [|i].
  - cbn [Nat.mul Nat.add nth]. apply app_nth1. rewrite Hm. exact Hj.
  - rewrite app_nth2 by (rewrite Hm; cbn [Nat.mul]; lia).
    rewrite Hm. replace (S i * m + j - m) with (i * m + j) by (cbn [Nat.mul]; lia).
    cbn [nth]. apply IH; lia.
Qed.

(* index i*m + j of the product over (v,xs)::tl is (v, xs[i]) :: (product tl)[j]:
   the first variable is the slowest digit, the last the fastest *)
Theorem product_nth v xs tl : forall i j,
  i < List.length xs -> j < List.length (product tl) ->
  nth (i * List.length (product tl) + j) (product ((v, xs) :: tl)) [] =
  (v, nth i xs VNone) :: nth j (product tl) [].
Proof.
  intros i j Hi Hj. cbn [product].
  rewrite (nth_flat_map_chunks (fun x => map (cons (v, x)) (product tl)) (List.length (product tl)) [] VNone);
    auto; [|intros x; apply map_length].
  rewrite (nth_indep _ [] (cons (v, nth i xs VNone) [])) by (rewrite map_length; exact Hj).
  rewrite (map_nth (cons (v, nth i xs VNone))). reflexivity.
Qed.

Lemma product_keys seqs : Forall (fun st => map fst st = map fst seqs) (product seqs).
Proof.
  induction seqs as [|[v xs] tl IH]; simpl.
  - constructor; auto.
  - apply Forall_flat_map. apply Forall_forall. intros x _.
    apply Forall_forall. intros st Hst. apply in_map_iff in Hst as [st' [<- Hst']].
    rewrite Forall_forall in IH. simpl. f_equal. apply IH; auto.
Qed.

(* combinatorial mode iterates the product over the variables in sorted-name order *)
Theorem iterate_comb_sorted b seqs : seqs <> [] ->
  exists sorted, iterate Comb b seqs = Ok (product sorted) /\
    Permutation seqs sorted /\ StronglySorted (fun p q => String.leb (fst p) (fst q) = true) sorted.
Proof.
  intros H. exists (ksort fst seqs). split; [|split].
  - destruct seqs; [contradiction|reflexivity].
  - apply ksort_perm.
  - apply ksort_sorted.
Qed.

(* ---- by_position -------------------------------------------------------------------------------- *)
Theorem iterate_pos_broadcast seqs steps : seqs <> [] ->
  iterate ByPos true seqs = Ok steps ->
  List.length steps = max_len seqs /\
  forall i, i < max_len seqs -> nth i steps [] = pos_step seqs i.
Proof.
  intros Hne H. destruct seqs as [|f tl]; [contradiction|]. simpl in H. injection H as <-.
  split; [rewrite map_length, seq_length; reflexivity|].
  intros i Hi.
  rewrite (nth_indep _ [] (pos_step (f :: tl) 0)) by (rewrite map_length, seq_length; exact Hi).
  rewrite map_nth, seq_nth by exact Hi. reflexivity.
Qed.

Theorem iterate_pos_aligned f tl steps :
  iterate ByPos false (f :: tl) = Ok steps ->
  all_len (List.length (snd f)) (f :: tl) = true /\
  List.length steps = List.length (snd f) /\
  forall i, i < List.length (snd f) ->
    nth i steps [] = map (fun p => (fst p, nth i (snd p) VNone)) (f :: tl).
Proof.
  intros H. unfold iterate in H.
  destruct (all_len (List.length (snd f)) (f :: tl)) eqn:A; [|discriminate].
  injection H as <-. split; auto. split; [rewrite map_length, seq_length; reflexivity|].
  intros i Hi.
  rewrite (nth_indep _ [] (pos_step (f :: tl) 0)) by (rewrite map_length, seq_length; exact Hi).
  rewrite map_nth, seq_nth by exact Hi. simpl plus.
  unfold pos_step. apply map_ext_in. intros p Hp.
  unfold all_len in A. rewrite forallb_forall in A. specialize (A p Hp). apply Nat.eqb_eq in A.
  rewrite A, Nat.mod_small by exact Hi. reflexivity.
Qed.

(* unequal lengths without broadcast are rejected, never truncated *)
Theorem iterate_pos_unequal_rejected f tl :
  all_len (List.length (snd f)) (f :: tl) = false ->
  iterate ByPos false (f :: tl) = Fail (Err SProcessor "ValueError" "by_position lengths").
Proof. intros H. unfold iterate. rewrite H. reflexivity. Qed.

(* ---- merge precedence: computed by expression > provided -------------------------------------------- *)
Lemma lookup_flat_single (f : string -> list (string * val)) n : forall params,
  (forall m, f m = [] \/ exists v, f m = [(m, v)]) ->
  NoDup params -> In n params ->
  lookup n (flat_map f params) = lookup n (f n).
Proof.
  induction params as [|m tl IH]; intros Hf Hnd Hin; [contradiction|].
  inversion Hnd as [|? ? Hnot Hnd']; subst. simpl.
  destruct Hin as [->|Hin].
  - destruct (Hf n) as [E|[v E]]; rewrite E; simpl.
    + clear - Hnot Hf. induction tl as [|a tl IH]; simpl; auto.
      assert (a <> n) by (intro; subst; apply Hnot; left; auto).
      destruct (Hf a) as [E|[v E]]; rewrite E; simpl.
      * apply IH. intro; apply Hnot; right; auto.
      * destruct (String.eqb n a) eqn:E2; [apply String.eqb_eq in E2; congruence|].
        apply IH. intro; apply Hnot; right; auto.
    + rewrite String.eqb_refl. reflexivity.
  - assert (m <> n) by (intro; subst; contradiction).
    destruct (Hf m) as [E|[v E]]; rewrite E; simpl; [apply IH; auto|].
    destruct (String.eqb n m) eqn:E2; [apply String.eqb_eq in E2; congruence|]. apply IH; auto.
Qed.

Theorem merge_precedence params computed base n :
  NoDup params -> In n params ->
  lookup n (merge_call params computed base) =
  match lookup n computed with Some v => Some v | None => lookup n base end.
Proof.
  intros Hnd Hin. unfold merge_call.
  rewrite lookup_flat_single; auto.
  - destruct (lookup n computed); simpl; [rewrite String.eqb_refl; reflexivity|].
    destruct (lookup n base); simpl; [rewrite String.eqb_refl|]; reflexivity.
  - intros m. destruct (lookup m computed); [right; eauto|]. destruct (lookup m base); [right; eauto|left; auto].
Qed.

(* ---- one element per step, element i = wrapped processor on the merged parameters ------------------- *)
Theorem sweep_elements pub elem sw d ps d' pv ops :
  pr_kind elem <> KProbe ->
  pr_run (sweep_proc pub elem sw) d ps = Ok (d', pv, ops) ->
  exists seqs steps zs,
    materialize_all ps (sw_vars sw) = Ok seqs /\
    iterate (sw_mode sw) (sw_broadcast sw) seqs = Ok steps /\
    d' = DC zs /\
    Forall2 (fun st z => exists computed pv' ops',
               eval_params st (sw_exprs sw) = Ok computed /\
               pr_run elem d (merge_call (pr_params elem) computed
                                (filter (fun kv => smem (fst kv) (required_ext elem sw ++ optional_ext elem sw)) ps))
               = Ok (DF z, pv', ops')) steps zs.
Proof.
  intros K H. simpl in H.
  destruct (materialize_all ps (sw_vars sw)) as [seqs|e] eqn:M; simpl in H; [|discriminate].
  destruct (iterate (sw_mode sw) (sw_broadcast sw) seqs) as [steps|e] eqn:I; simpl in H; [|discriminate].
  destruct (mapM _ steps) as [rs|e] eqn:MM; simpl in H; [|discriminate].
  assert (H' : bind (mapM (fun r : data * val * list cop => as_float (fst (fst r))) rs)
                 (fun zs => Ok (DC zs, VNone, (flat_map (fun r => snd r) rs ++ published seqs))) = Ok (d', pv, ops)).
  { destruct (pr_kind elem); try exact H. contradiction. }
  clear H. destruct (mapM (fun r => as_float (fst (fst r))) rs) as [zs|e] eqn:MZ; simpl in H'; [|discriminate].
  injection H' as <- _ _. exists seqs, steps, zs. repeat split; auto.
  apply mapM_ok in MM. apply mapM_ok in MZ.
  clear - MM MZ. revert zs MZ. induction MM as [|st r steps rs Hst _ IH]; intros zs MZ; inversion MZ; subst; constructor; auto.
  destruct (eval_params st (sw_exprs sw)) as [computed|e] eqn:E; simpl in Hst; [|discriminate].
  destruct r as [[dd pv'] ops']. simpl in *.
  match goal with Hz : as_float dd = Ok _ |- _ => destruct dd; simpl in Hz; try discriminate; injection Hz as <- end.
  exists computed, pv', ops'. auto.
Qed.

Theorem sweep_probe_passthrough pub elem sw d ps d' pv ops :
  pr_kind elem = KProbe ->
  pr_run (sweep_proc pub elem sw) d ps = Ok (d', pv, ops) ->
  d' = d /\ exists seqs steps rs,
    materialize_all ps (sw_vars sw) = Ok seqs /\
    iterate (sw_mode sw) (sw_broadcast sw) seqs = Ok steps /\
    pv = VList rs /\ List.length rs = List.length steps.
Proof.
  intros K H. simpl in H.
  destruct (materialize_all ps (sw_vars sw)) as [seqs|e] eqn:M; simpl in H; [|discriminate].
  destruct (iterate (sw_mode sw) (sw_broadcast sw) seqs) as [steps|e] eqn:I; simpl in H; [|discriminate].
  destruct (mapM _ steps) as [rs|e] eqn:MM; simpl in H; [|discriminate].
  rewrite K in H. injection H as <- <- _. split; auto.
  exists seqs, steps, (map (fun r => snd (fst r)) rs). repeat split; auto.
  rewrite map_length. apply mapM_ok in MM. clear - MM.
  induction MM; simpl; auto.
Qed.

(* ---- publication of <var>_values ---------------------------------------------------------------------- *)
Lemma append_inj_r (a b s : string) : (a ++ s = b ++ s)%string -> a = b.
Proof.
  intros H.
  assert (L : forall x y : string, list_ascii_of_string (x ++ y)%string = list_ascii_of_string x ++ list_ascii_of_string y).
  { induction x; simpl; intros; congruence. }
  apply (f_equal list_ascii_of_string) in H. rewrite !L in H. apply app_inv_tail in H.
  rewrite <- (string_of_list_ascii_of_string a), <- (string_of_list_ascii_of_string b). congruence.
Qed.

Lemma values_key_inj a b : values_key a = values_key b -> a = b.
Proof. unfold values_key. apply append_inj_r. Qed.

Lemma apply_published decl : forall seqs c c',
  apply_op_writes decl (published seqs) c = Ok c' -> NoDup (map fst seqs) ->
  forall v s, In (v, s) seqs -> lookup (values_key v) c' = Some (VList s).
Proof.
  induction seqs as [|[v0 s0] tl IH]; simpl; intros c c' H Hnd v s Hin; [contradiction|].
  destruct (smem (values_key v0) decl) eqn:D; [|discriminate].
  inversion Hnd as [|? ? Hnot Hnd']; subst.
  destruct Hin as [E|Hin].
  - injection E as -> ->.
    assert (F : lookup (values_key v) c' = lookup (values_key v) (update (values_key v) (VList s) c)).
    { clear - H Hnot. revert H. generalize (update (values_key v) (VList s) c) as c0.
      induction tl as [|[v1 s1] tl IH]; simpl; intros c0 H; [injection H as <-; reflexivity|].
      destruct (smem (values_key v1) decl); [|discriminate].
      rewrite (IH (fun Hx => Hnot (or_intror Hx)) _ H).
      apply lookup_update_other. intro E. apply values_key_inj in E. apply Hnot. left. simpl. auto. }
    rewrite F. apply lookup_update_same.
  - eapply IH; eauto.
Qed.

Lemma apply_op_writes_app decl : forall a b c c',
  apply_op_writes decl (a ++ b) c = Ok c' ->
  exists c1, apply_op_writes decl a c = Ok c1 /\ apply_op_writes decl b c1 = Ok c'.
Proof.
  induction a as [|[k v|k] tl IH]; simpl; intros b c c' H.
  - exists c. auto.
  - destruct (smem k decl); [|discriminate]. apply IH; auto.
  - discriminate.
Qed.

(* every sweep variable's materialised sequence is published as <var>_values
   (sources and operations always; probes when the probe node hands its context to the processor) *)
Theorem published_values pub elem sw cfg d c d' c' :
  (pr_kind elem = KOp \/ pr_kind elem = KSource) ->
  NoDup (map fst (sw_vars sw)) ->
  exec_node (mkNode (sweep_proc pub elem sw) cfg None) (d, c) = Ok (d', c') ->
  exists ps seqs,
    materialize_all ps (sw_vars sw) = Ok seqs /\ map fst seqs = map fst (sw_vars sw) /\
    forall v s, In (v, s) seqs -> lookup (values_key v) c' = Some (VList s).
Proof.
  intros K Hnd H.
  assert (Kd : is_data_kind (pr_kind (sweep_proc pub elem sw)) = true) by (simpl; destruct K as [-> | ->]; reflexivity).
  destruct (exec_data_node (mkNode (sweep_proc pub elem sw) cfg None) d c (d', c') Kd H) as (_ & ps & dd & pv & ops & c1 & R & P & W & E).
  simpl n_proc in *. simpl pr_kind in E. simpl n_ckey in E.
  assert (E' : (d', c') = (dd, c1)) by (destruct K as [K|K]; rewrite K in E; exact E).
  injection E' as -> ->.
  simpl in P.
  destruct (materialize_all ps (sw_vars sw)) as [seqs|e] eqn:M; simpl in P; [|discriminate].
  destruct (iterate (sw_mode sw) (sw_broadcast sw) seqs) as [steps|e] eqn:I; simpl in P; [|discriminate].
  destruct (mapM _ steps) as [rs|e] eqn:MM; simpl in P; [|discriminate].
  assert (P' : bind (mapM (fun r : data * val * list cop => as_float (fst (fst r))) rs)
                 (fun zs => Ok (DC zs, VNone, (flat_map (fun r => snd r) rs ++ published seqs))) = Ok (dd, pv, ops)).
  { destruct K as [K|K]; rewrite K in P; exact P. }
  destruct (mapM (fun r => as_float (fst (fst r))) rs) as [zs|e]; simpl in P'; [|discriminate].
  injection P' as _ _ <-.
  assert (Hk : map fst seqs = map fst (sw_vars sw)).
  { clear - M. revert seqs M. induction (sw_vars sw) as [|[v s] tl IH]; simpl; intros seqs M.
    - injection M as <-. reflexivity.
    - destruct (materialize ps v s); simpl in M; [|discriminate].
      destruct (materialize_all ps tl) as [rest|]; simpl in M; [|discriminate].
      injection M as <-. simpl. f_equal. apply IH. reflexivity. }
  exists ps, seqs. repeat split; auto.
  intros v s Hin. apply apply_op_writes_app in W as (c2 & _ & W2).
  eapply apply_published; eauto. rewrite Hk. exact Hnd.
Qed.

Theorem published_values_probe elem sw cfg key d c d' c' :
  pr_kind elem = KProbe -> NoDup (map fst (sw_vars sw)) ->
  (forall v, In v (map fst (sw_vars sw)) -> values_key v <> key) ->
  exec_node (mkNode (sweep_proc true elem sw) cfg (Some key)) (d, c) = Ok (d', c') ->
  exists ps seqs,
    materialize_all ps (sw_vars sw) = Ok seqs /\ map fst seqs = map fst (sw_vars sw) /\
    forall v s, In (v, s) seqs -> lookup (values_key v) c' = Some (VList s).
Proof.
  intros K Hnd Hkey H.
  assert (Kd : is_data_kind (pr_kind (sweep_proc true elem sw)) = true) by (simpl; rewrite K; reflexivity).
  destruct (exec_data_node (mkNode (sweep_proc true elem sw) cfg (Some key)) d c (d', c') Kd H) as (_ & ps & dd & pv & ops & c1 & R & P & W & E).
  simpl n_proc in *. simpl pr_kind in E. simpl n_ckey in E. rewrite K in E. injection E as -> ->.
  simpl in P.
  destruct (materialize_all ps (sw_vars sw)) as [seqs|e] eqn:M; simpl in P; [|discriminate].
  destruct (iterate (sw_mode sw) (sw_broadcast sw) seqs) as [steps|e] eqn:I; simpl in P; [|discriminate].
  destruct (mapM _ steps) as [rs|e] eqn:MM; simpl in P; [|discriminate].
  rewrite K in P. injection P as _ _ <-.
  assert (Hk : map fst seqs = map fst (sw_vars sw)).
  { clear - M. revert seqs M. induction (sw_vars sw) as [|[v s] tl IH]; simpl; intros seqs M.
    - injection M as <-. reflexivity.
    - destruct (materialize ps v s); simpl in M; [|discriminate].
      destruct (materialize_all ps tl) as [rest|]; simpl in M; [|discriminate].
      injection M as <-. simpl. f_equal. apply IH. reflexivity. }
  exists ps, seqs. repeat split; auto.
  intros v s Hin. apply apply_op_writes_app in W as (c2 & _ & W2).
  rewrite lookup_update_other.
  - eapply apply_published; eauto. rewrite Hk. exact Hnd.
  - apply Hkey. rewrite <- Hk. apply in_map_iff. exists (v, s). auto.
Qed.
