(* Proofs/Trace.v -- laws of the traced executor (Model/Trace.v), for every pipeline, processor, payload,
   clock, digest function and variant of the protected region. *)
From Coq Require Import List String ZArith NArith Bool Arith Lia Permutation Sorting.Sorted.
From SV Require Import Common.Prelude Model.Expr Model.Pipeline Model.Sweep Model.PipelineLib Model.Trace Proofs.Pipeline.
Import ListNotations.
Local Open Scope string_scope.

(* ---- driver ------------------------------------------------------------------------------------------------ *)
Lemma d_emit_all_open {D} (rs : list (record D)) : forall b f, d_emit_all (Open b f) rs = Open (b ++ rs) f.
Proof.
  induction rs as [|r tl IH]; intros b f; simpl.
  - rewrite app_nil_r. reflexivity.
  - unfold d_emit_all in *. simpl. rewrite IH. rewrite <- app_assoc. reflexivity.
Qed.

Lemma close_flush_open {D} (b f : list (record D)) : d_close (d_flush (Open b f)) = Closed (f ++ b).
Proof. simpl. rewrite app_nil_r. reflexivity. Qed.

(* construction errors are ordinary exceptions *)
Lemma construct_not_base n e : construct n = Fail e -> base_only e = false.
Proof.
  unfold construct. intros H.
  destruct (first_dup (pr_params (n_proc n))); [injection H as <-; reflexivity|].
  destruct (pr_kind (n_proc n)), (n_ckey n); try (injection H as <-; reflexivity);
  destruct (pr_dynamic (n_proc n)); try discriminate;
  destruct (filter _ _); try discriminate; injection H as <-; reflexivity.
Qed.

Lemma first_unconstructible_not_base : forall p i j e,
  first_unconstructible i p = Some (j, e) -> base_only e = false.
Proof.
  induction p as [|n tl IH]; simpl; intros i j e H; [discriminate|].
  destruct (construct n) eqn:C.
  - eapply IH; eauto.
  - injection H as <- <-. eapply construct_not_base; eauto.
Qed.

Section Laws.
Variables B D : Type.
Variable sd : data -> B.
Variable sc : ctx -> B.
Variable H : B -> D.
Variable F : facts.

Notation loop E := (loop B D sd sc H F E).
Notation ser_of E := (ser_of B D sd sc H F E).
Notation execute_traced E := (execute_traced B D sd sc H F E).
Notation protected E := (protected D F E).

Definition no_raise (p : list tnode) : Prop := forall tn, In tn p -> ser_raises F tn = false.

Lemma any_opaque_no_raise p : any_opaque F p = false -> no_raise p.
Proof.
  unfold any_opaque, no_raise, ser_raises. intros A tn I.
  destruct (is_opaque (meta_eff F tn)) eqn:O; auto.
  assert (existsb (fun tn => is_opaque (meta_eff F tn)) p = true) by (apply existsb_exists; eauto). congruence.
Qed.

Lemma meta_safe_no_opaque p : f_meta_safe F = true -> any_opaque F p = false.
Proof.
  intros M. unfold any_opaque. induction p as [|tn tl IH]; simpl; auto.
  rewrite IH. unfold meta_eff. rewrite M. destruct (t_meta tn); reflexivity.
Qed.

Lemma no_meta_no_opaque p : (forall tn, In tn p -> t_meta tn <> MOpaque) -> any_opaque F p = false.
Proof.
  intros M. unfold any_opaque. induction p as [|tn tl IH]; simpl; auto.
  rewrite IH by (intros; apply M; right; auto).
  unfold meta_eff. specialize (M tn (or_introl eq_refl)). destruct (t_meta tn); try reflexivity. congruence.
Qed.

(* ---- the node loop against the untraced executor ---------------------------------------------------------------- *)
(* outcome: whatever the handlers catch, the loop ends the way run_from does *)
Lemma loop_out E pd : forall p i s k, no_raise p ->
  snd (loop E pd i p s k) =
  match run_from i (nodes_of p) s with
  | Done s' => LDone s'
  | Failed j e => LRaise (TPlain (Failed j e)) (base_only e)
  | CFailed j e => LRaise (TPlain (CFailed j e)) (base_only e)
  end.
Proof.
  induction p as [|tn tl IH]; intros i s k NR; simpl; auto.
  assert (R : ser_raises F tn = false) by (apply NR; left; auto).
  destruct (exec_node (t_node tn) s) as [s'|e] eqn:X.
  - rewrite R. simpl. apply IH. intros t I. apply NR. right; auto.
  - destruct (caught (f_node_base F) e); [rewrite R|]; reflexivity.
Qed.

(* every SER carries the run's ids and the canonical upstream of its node *)
Definition ser_ids (E : env) (pd : pid) (x : ser D) : Prop :=
  s_pid x = pd /\ s_rid x = e_rid E /\ s_up x = upstream (s_node x).

Lemma loop_ids E pd : forall p i s k, Forall (ser_ids E pd) (fst (loop E pd i p s k)).
Proof.
  induction p as [|tn tl IH]; intros i s k; simpl; [constructor|].
  destruct (exec_node (t_node tn) s) as [s'|e].
  - destruct (ser_raises F tn); simpl; [constructor|]. constructor; [repeat split|apply IH].
  - destruct (caught (f_node_base F) e); [|constructor].
    destruct (ser_raises F tn); simpl; [constructor|]. constructor; [repeat split|constructor].
Qed.

(* which SERs: one per started node, in order, succeeded ... then error for the failing node when the
   per-node handler catches its exception *)
Lemma loop_sers E pd : forall p i s k, no_raise p ->
  let sers := fst (loop E pd i p s k) in
  match run_from i (nodes_of p) s with
  | Done _ => map s_node sers = seq i (List.length p) /\ map s_ok sers = repeat true (List.length p)
  | Failed j e =>
      if caught (f_node_base F) e
      then map s_node sers = seq i (S (j - i)) /\ map s_ok sers = (repeat true (j - i) ++ [false])%list
      else map s_node sers = seq i (j - i) /\ map s_ok sers = repeat true (j - i)
  | CFailed _ _ => False
  end.
Proof.
  induction p as [|tn tl IH]; intros i s k NR; simpl; auto.
  assert (R : ser_raises F tn = false) by (apply NR; left; auto).
  assert (NR' : no_raise tl) by (intros t I; apply NR; right; auto).
  destruct (exec_node (t_node tn) s) as [s'|e] eqn:X.
  - rewrite R. simpl. specialize (IH (S i) s' (k + 4) NR'). simpl in IH.
    destruct (run_from (S i) (nodes_of tl) s') as [s2|j e|j e] eqn:RF; auto.
    + destruct IH as [A Bq]. rewrite A, Bq. split; reflexivity.
    + pose proof (run_from_failed_range _ _ _ _ _ RF) as Rg.
      destruct (caught (f_node_base F) e); destruct IH as [A Bq]; rewrite A, Bq.
      * replace (j - i) with (S (j - S i)) by lia. split; reflexivity.
      * replace (j - i) with (S (j - S i)) by lia. split; reflexivity.
  - rewrite Nat.sub_diag. destruct (caught (f_node_base F) e); [rewrite R|]; simpl; split; reflexivity.
Qed.

(* ---- the whole call --------------------------------------------------------------------------------------------------- *)
Definition start_rec (E : env) (p : list tnode) : record D :=
  RStart (PId (e_prior E && negb (f_pid_stable F) && any_meta p)) (e_rid E) (e_seq E + 1)
         (stamp (f_drv_utc F) (e_off E) (e_clk E 0)) (negb (any_opaque F p)).

Definition the_pid (E : env) (p : list tnode) : pid := PId (e_prior E && negb (f_pid_stable F) && any_meta p).

(* exception_unchanged / trace_transparent: the traced call ends exactly like the untraced one *)
Theorem traced_outcome E p s :
  any_opaque F p = false ->
  r_out (execute_traced E p s) = TPlain (impl_run (nodes_of p) s).
Proof.
  intros A. pose proof (any_opaque_no_raise p A) as NR.
  unfold execute_traced, impl_run, body. rewrite A, andb_false_r.
  destruct (f_inst_in_try F);
  destruct (first_unconstructible 0 (nodes_of p)) as [[j e]|] eqn:U; unfold protected; simpl; auto.
  - destruct ((f_outer_base F || negb (base_only e)) && f_end_both F); reflexivity.
  - rewrite (loop_out E _ p 0 s 1 NR). unfold run.
    destruct (run_from 0 (nodes_of p) s) as [s'|j e|j e]; auto;
    destruct ((f_outer_base F || negb (base_only e)) && f_end_both F); reflexivity.
  - rewrite (loop_out E _ p 0 s 1 NR). unfold run.
    destruct (run_from 0 (nodes_of p) s) as [s'|j e|j e]; auto;
    destruct ((f_outer_base F || negb (base_only e)) && f_end_both F); reflexivity.
Qed.

(* driver_closed_after *)
Theorem driver_closed E p s :
  f_finally F = true ->
  (f_inst_in_try F = true \/ first_unconstructible 0 (nodes_of p) = None) ->
  r_drv (execute_traced E p s) = Closed (r_emitted (execute_traced E p s)).
Proof.
  intros Fin Hc. unfold execute_traced.
  assert (P : forall b, r_drv (protected E (d_emit (d_open (Closed [])) (start_rec E p)) [start_rec E p] b p) =
                        Closed (r_emitted (protected E (d_emit (d_open (Closed [])) (start_rec E p)) [start_rec E p] b p))).
  { intros [rs r]. unfold protected. simpl. rewrite Fin.
    destruct r as [s'|o base]; [|destruct ((f_outer_base F || negb base) && f_end_both F)]; simpl;
    rewrite d_emit_all_open, close_flush_open; reflexivity. }
  fold (start_rec E p).
  destruct (f_prestart F && any_opaque F p); [reflexivity|].
  destruct (f_inst_in_try F); [apply P|].
  destruct Hc as [Hc|Hc]; [discriminate|]. rewrite Hc. apply P.
Qed.

(* the bracket *)
Definition status_grammar (oks : list bool) (o : toutcome) : Prop :=
  match o with
  | TPlain (Done _) => Forall (fun b => b = true) oks
  | TPlain (Failed j _) => oks = (repeat true j ++ [false])%list
  | TPlain (CFailed _ _) => oks = []
  | TTrace _ _ => False
  end.

Definition well_formed (E : env) (p : list tnode) (s : state) (r : result D) : Prop :=
  exists sers q0 t0 q1 t1 ok,
    r_emitted r = (RStart (the_pid E p) (e_rid E) q0 t0 true :: map RSer sers ++ [REnd (e_rid E) q1 t1 ok])%list /\
    map s_node sers = started p s /\
    Forall (ser_ids E (the_pid E p)) sers /\
    status_grammar (map s_ok sers) (r_out r) /\
    (ok = true <-> exists s', r_out r = TPlain (Done s')).

Lemma repeat_true_all n : Forall (fun b : bool => b = true) (repeat true n).
Proof. induction n; simpl; constructor; auto. Qed.

Theorem traced_well_formed E p s :
  (f_inst_in_try F = true \/ first_unconstructible 0 (nodes_of p) = None) ->
  (f_node_base F = true /\ f_outer_base F = true \/
   forall j e, run (nodes_of p) s = Failed j e -> base_only e = false) ->
  f_end_both F = true ->
  any_opaque F p = false ->
  well_formed E p s (execute_traced E p s).
Proof.
  intros Hc Hb He A. pose proof (any_opaque_no_raise p A) as NR.
  unfold well_formed, execute_traced, started, body. rewrite A, andb_false_r. simpl negb.
  fold (the_pid E p).
  destruct (first_unconstructible 0 (nodes_of p)) as [[j e]|] eqn:U.
  - (* construction fails: only possible inside the try here *)
    destruct Hc as [Hc|Hc]; [|discriminate]. rewrite Hc.
    unfold protected; simpl. rewrite (first_unconstructible_not_base _ _ _ _ U). rewrite He, orb_true_r. simpl.
    exists [], (e_seq E + 1)%N, (stamp (f_drv_utc F) (e_off E) (e_clk E 0)), (e_seq E + 2)%N,
      (stamp (f_drv_utc F) (e_off E) (e_clk E (end_ts p))), false.
    repeat split; auto; try constructor.
    + discriminate.
    + intros [s' X]. discriminate.
  - assert (G : well_formed E p s (protected E (d_emit (d_open (Closed [])) (start_rec E p)) [start_rec E p] (loop E (the_pid E p) 0 p s 1) p)).
    { unfold well_formed, protected, started. rewrite U.
      pose proof (loop_out E (the_pid E p) p 0 s 1 NR) as LO.
      pose proof (loop_sers E (the_pid E p) p 0 s 1 NR) as LS. simpl in LS.
      pose proof (loop_ids E (the_pid E p) p 0 s 1) as LI.
      rewrite LO. unfold start_rec. rewrite A. simpl negb. fold (the_pid E p).
      destruct (run_from 0 (nodes_of p) s) as [s'|j e|j e] eqn:RF; [| |contradiction].
      - destruct LS as [L1 L2]. simpl.
        eexists _, _, _, _, _, true. split; [reflexivity|].
        repeat split; auto.
        + rewrite L1. rewrite (exec_log_done _ _ _ _ RF). unfold nodes_of. rewrite map_length. reflexivity.
        + rewrite L2. apply repeat_true_all.
        + eauto.
      - assert (Cg : caught (f_node_base F) e = true /\ (f_outer_base F || negb (base_only e)) = true).
        { unfold caught. destruct Hb as [[-> ->]|Hb]; [auto|].
          rewrite (Hb j e RF). simpl. rewrite !orb_true_r. auto. }
        destruct Cg as [C1 C2]. rewrite C1 in LS. destruct LS as [L1 L2]. rewrite C2, He. simpl.
        eexists _, _, _, _, _, false. split; [reflexivity|].
        rewrite Nat.sub_0_r in *.
        repeat split; auto.
        + rewrite L1. rewrite (exec_log_failed _ _ _ _ _ RF). rewrite Nat.sub_0_r. reflexivity.
        + discriminate.
        + intros [s' X]. discriminate. }
    unfold well_formed, started in G. rewrite U in G. unfold start_rec in G. rewrite A in G. simpl negb in G.
    destruct (f_inst_in_try F); exact G.
Qed.
End Laws.

(* ---- schema --------------------------------------------------------------------------------------------------------- *)
Section SchemaLaws.
Variable D : Type.
Variable L : layout.
Variable Sc : schema.

Lemma fields_ok_mono rt a b : fields_ok Sc rt a = true -> fields_ok Sc rt (a ++ b) = true.
Proof.
  unfold fields_ok. destruct (alookup rt (sc_required Sc)) as [req|]; auto.
  destruct (alookup rt (sc_const Sc)) as [c|]; auto.
  intros Hf. apply andb_true_iff in Hf as [H1 H2]. rewrite H1. simpl.
  rewrite forallb_forall in *. intros f I. specialize (H2 f I).
  unfold smem in *. rewrite existsb_app, H2. reflexivity.
Qed.

Definition spec_kept (r : record D) : Prop :=
  match r with RStart _ _ _ _ hs => hs = true | _ => True end.

Theorem schema_ok_all : tables_ok L Sc = true -> forall r : record D, spec_kept r -> schema_ok L Sc r = true.
Proof.
  unfold tables_ok. intros T r K.
  apply andb_true_iff in T as [T En]. apply andb_true_iff in T as [T Tser]. apply andb_true_iff in T as [Tst Ten].
  unfold enums_ok in En. repeat (apply andb_true_iff in En as [En ?]).
  destruct r as [p rid q ts hs|s|rid q ts ok]; unfold schema_ok; simpl.
  - simpl in K. subst hs. rewrite Tst. reflexivity.
  - rewrite (fields_ok_mono _ _ _ Tser). simpl. unfold ser_enums_ok.
    repeat (apply andb_true_iff; split); auto.
    + destruct (s_ok s); assumption.
    + apply forallb_forall. intros [k c] _. destruct c; simpl; assumption.
  - rewrite Ten. reflexivity.
Qed.

(* a pipeline_start whose spec was dropped does not validate when the schema requires the field *)
Lemma schema_rejects_dropped_spec p rid q ts :
  l_start_droppable L = ["pipeline_spec_canonical"] ->
  (exists req, alookup "pipeline_start" (sc_required Sc) = Some req /\ smem "pipeline_spec_canonical" req = true) ->
  schema_ok L Sc (RStart (D := D) p rid q ts false) = false.
Proof.
  intros Hd (req & Hr & Hm). unfold schema_ok, fields_ok. simpl. rewrite Hr, Hd.
  destruct (alookup "pipeline_start" (sc_const Sc)); auto.
  apply andb_false_iff. left. apply andb_false_iff. right.
  apply not_true_is_false. intros Hf. rewrite forallb_forall in Hf.
  unfold smem in Hm. apply existsb_exists in Hm as (f & I & Ef). apply String.eqb_eq in Ef. subst f.
  specialize (Hf _ I). unfold smem in Hf. apply existsb_exists in Hf as (g & Ig & Eg).
  apply String.eqb_eq in Eg. subst g. apply filter_In in Ig as [_ Ig]. simpl in Ig. discriminate.
Qed.
End SchemaLaws.

(* ---- witnesses of the defects (for every value of the other facts) ------------------------------------------------------ *)
Definition src_node (z : Z) : tnode := mkT (mkNode (lib_src false) [("value", VNum z)] None) MNone TF.
Definition wit_unknown_param : list tnode :=
  [src_node 1; mkT (mkNode (lib_mul false) [("factor", VNum 2); ("bogus", VNum 1)] None) MNone TF].
Definition wit_probe_nokey : list tnode := [src_node 1; mkT (mkNode lib_probe [] None) MNone TAny].
Definition wit_interrupt : list tnode := [src_node 1; mkT (mkNode lib_interrupt [] None) MNone TF].
Definition wit_opaque : list tnode := [mkT (mkNode (lib_src false) [("value", VNum 1)] None) MOpaque TF].
Definition wit_sweep : list tnode := [mkT (mkNode (lib_src false) [("value", VNum 1)] None) MJson TF].
Definition s0 : state := (DNone, []).

Definition sers_in {D} (t : list (record D)) : list (ser D) :=
  flat_map (fun r => match r with RSer s => [s] | _ => [] end) t.
Definition ends_in {D} (t : list (record D)) : nat :=
  List.length (filter (fun r => match r with REnd _ _ _ _ => true | _ => false end) t).

Section Witnesses.
Variables B D : Type.
Variable sd : data -> B.
Variable sc : ctx -> B.
Variable H : B -> D.
Variable F : facts.
Variable E : env.
Notation execute_traced := (execute_traced B D sd sc H F E).

(* F-C06-a: construction fails after pipeline_start and before the protected region *)
Lemma construction_outside_try p :
  f_inst_in_try F = false ->
  p = wit_unknown_param \/ p = wit_probe_nokey ->
  let r := execute_traced p s0 in
  (exists st, r_emitted r = [st] /\ r_drv r = Open [st] []) /\ exists j e, r_out r = TPlain (CFailed j e).
Proof.
  intros Hi [-> | ->]; unfold Trace.execute_traced; rewrite Hi; simpl; rewrite andb_false_r; simpl; split; eauto.
Qed.

(* F-C06-b: a BaseException-class abort of node 1: node 1 started, no SER for it; no pipeline_end *)
Lemma interrupt_not_recorded :
  f_node_base F = false ->
  let r := execute_traced wit_interrupt s0 in
  started wit_interrupt s0 = [0; 1] /\ map s_node (sers_in (r_emitted r)) = [0] /\
  (f_outer_base F = false -> ends_in (r_emitted r) = 0).
Proof.
  intros Hn. unfold Trace.execute_traced, started. simpl. rewrite andb_false_r.
  split; [reflexivity|].
  destruct (f_inst_in_try F); unfold body, protected; simpl; unfold caught; rewrite Hn; simpl;
  (split; [destruct (f_outer_base F), (f_end_both F); reflexivity| intros ->; reflexivity]).
Qed.

(* F-C06-c / F-C10-a: metadata that is not JSON: the call raises TypeError although the untraced run returns;
   either nothing is emitted at all (ids hashed before pipeline_start) or the spec is dropped from
   pipeline_start and the node gets no SER *)
Lemma opaque_changes_outcome :
  f_meta_safe F = false ->
  let r := execute_traced wit_opaque s0 in
  r_out r = TTrace 0 "TypeError" /\
  (exists s', impl_run (nodes_of wit_opaque) s0 = Done s') /\
  (r_emitted r = [] \/ exists p rid q ts, hd_error (r_emitted r) = Some (RStart p rid q ts false)) /\
  sers_in (r_emitted r) = [] /\ started wit_opaque s0 = [0].
Proof.
  intros Hm. unfold Trace.execute_traced, started, any_opaque, meta_eff. simpl. rewrite Hm. simpl.
  assert (R : forall n o, ser_raises F (mkT n MOpaque o) = true)
    by (intros; unfold ser_raises, meta_eff; simpl; rewrite Hm; reflexivity).
  assert (I : exists s', impl_run [mkNode (lib_src false) [("value", VNum 1)] None] s0 = Done s')
    by (eexists; vm_compute; reflexivity).
  destruct (f_prestart F); simpl; [repeat split; auto|].
  destruct (f_inst_in_try F); unfold body, protected; simpl; rewrite R; simpl.
  all: destruct (f_outer_base F), (f_end_both F); simpl; repeat split; eauto 8.
Qed.
End Witnesses.

(* ==== C07: what a SER says is true ========================================================================================= *)
(* ---- value equality is decided by val_eqb ----------------------------------------------------------------------------------- *)
Fixpoint val_ind' (P : val -> Prop) (hN : P VNone) (hZ : forall z, P (VNum z)) (hS : forall s, P (VStr s))
  (hL : forall l, Forall P l -> P (VList l)) (v : val) : P v :=
  match v with
  | VNone => hN | VNum z => hZ z | VStr s => hS s
  | VList l => hL l ((fix go (l : list val) : Forall P l :=
                        match l with
                        | [] => Forall_nil _
                        | x :: tl => Forall_cons _ (val_ind' P hN hZ hS hL x) (go tl)
                        end) l)
  end.

Lemma val_eqb_eq : forall a b, val_eqb a b = true <-> a = b.
Proof.
  induction a as [|z|s|l IH] using val_ind'; intros b; destruct b as [|z'|s'|l']; simpl;
    try (split; [discriminate|discriminate]); try (split; reflexivity).
  - rewrite Z.eqb_eq. split; congruence.
  - rewrite String.eqb_eq. split; congruence.
  - revert l'. induction IH as [|x tl Hx Htl IHl]; intros [|y l']; simpl; try (split; [discriminate|discriminate]).
    + split; reflexivity.
    + rewrite andb_true_iff, Hx. specialize (IHl l'). simpl in IHl. rewrite IHl.
      split; [intros [-> E]; injection E as ->; reflexivity| intros E; injection E as -> ->; auto].
Qed.

Lemma val_eqb_neq a b : val_eqb a b = false <-> a <> b.
Proof.
  split; intros Hn.
  - intros E. apply val_eqb_eq in E. congruence.
  - destruct (val_eqb a b) eqn:X; auto. apply val_eqb_eq in X. contradiction.
Qed.

(* ---- context delta ---------------------------------------------------------------------------------------------------------- *)
Lemma has_in_keys k : forall c, has k c = true <-> In k (ctx_keys c).
Proof.
  unfold has, ctx_keys. induction c as [|[k' v] tl IH]; simpl.
  - split; [discriminate|tauto].
  - destruct (String.eqb k k') eqn:X.
    + apply String.eqb_eq in X. subst. split; auto.
    + rewrite IH. split; auto. intros [->|]; auto. rewrite String.eqb_refl in X. discriminate.
Qed.

Lemma in_ksort (l : list string) k : In k (ksort sid l) <-> In k l.
Proof.
  split; intros I.
  - eapply Permutation_in; [apply Permutation_sym, ksort_perm|exact I].
  - eapply Permutation_in; [apply ksort_perm|exact I].
Qed.

Theorem created_exact pre post k :
  In k (created_keys pre post) <-> has k post = true /\ has k pre = false.
Proof.
  unfold created_keys. rewrite in_ksort, filter_In, <- has_in_keys, negb_true_iff. tauto.
Qed.

Theorem updated_exact pre post k :
  In k (updated_keys pre post) <->
  exists a b, lookup k pre = Some a /\ lookup k post = Some b /\ a <> b.
Proof.
  unfold updated_keys. rewrite in_ksort, filter_In, <- has_in_keys. unfold changed, has.
  split.
  - intros [_ C]. destruct (lookup k pre) as [a|]; [|discriminate]. destruct (lookup k post) as [b|]; [|discriminate].
    exists a, b. repeat split; auto. apply val_eqb_neq. apply negb_true_iff. exact C.
  - intros (a & b & -> & -> & N). split; auto. apply negb_true_iff. apply val_eqb_neq. exact N.
Qed.

(* ---- checks -------------------------------------------------------------------------------------------------------------------- *)
Theorem chk_required_iff n c :
  chk_required n c = true <-> forall k, In k (required_keys n) -> has k c = true.
Proof. unfold chk_required. apply forallb_forall. Qed.

Theorem chk_writes_iff cr up post :
  chk_writes cr up post = true <-> forall k, In k (cr ++ up) -> has k post = true.
Proof. unfold chk_writes. apply forallb_forall. Qed.

Theorem chk_writes_delta pre post :
  chk_writes (created_keys pre post) (updated_keys pre post) post = true.
Proof.
  apply chk_writes_iff. intros k I. apply in_app_or in I as [I|I].
  - apply created_exact in I. tauto.
  - apply updated_exact in I as (a & b & _ & Hb & _). unfold has. rewrite Hb. reflexivity.
Qed.

(* required_keys: a processing parameter that is neither configured nor defaulted *)
Lemma required_keys_spec n k :
  In k (required_keys n) <->
  In k (pr_params (n_proc n)) /\ has k (n_cfg n) = false /\ has k (pr_defaults (n_proc n)) = false.
Proof. unfold required_keys. rewrite filter_In, andb_true_iff, !negb_true_iff. tauto. Qed.

(* ---- parameters and their channels --------------------------------------------------------------------------------------------- *)
Lemma find_app {A} (f : A -> bool) a b : find f (a ++ b) = match find f a with Some x => Some x | None => find f b end.
Proof. induction a as [|x tl IH]; simpl; auto. destruct (f x); auto. Qed.

Definition keyis (k : string) (e : string * val * chan) : bool := String.eqb k (fst (fst e)).

Lemma find_cfg k : forall cfg,
  find (keyis k) (map (fun kv : string * val => (fst kv, snd kv, ChNode)) cfg) =
  match lookup k cfg with Some v => Some (k, v, ChNode) | None => None end.
Proof.
  induction cfg as [|[k' v] tl IH]; simpl; auto. unfold keyis at 1. simpl.
  destruct (String.eqb k k') eqn:X; auto. apply String.eqb_eq in X. subst. reflexivity.
Qed.

Lemma find_ctx_part k c : forall keys,
  find (keyis k) (flat_map (fun k' => match lookup k' c with Some v => [(k', v, ChContext)] | None => [] end) keys) =
  if smem k keys then match lookup k c with Some v => Some (k, v, ChContext) | None => None end else None.
Proof.
  unfold smem. induction keys as [|k' tl IH]; simpl; auto.
  destruct (String.eqb k k') eqn:X.
  - apply String.eqb_eq in X. subst k'. simpl. destruct (lookup k c) as [v|] eqn:L; simpl.
    + unfold keyis. simpl. rewrite String.eqb_refl. reflexivity.
    + rewrite IH. destruct (existsb (String.eqb k) tl); reflexivity.
  - simpl. destruct (lookup k' c) as [v|]; simpl; auto. unfold keyis at 1. simpl. rewrite X. exact IH.
Qed.

Lemma find_default_part k n c : forall names,
  find (keyis k) (flat_map (fun k' =>
       if has k' (n_cfg n) then [] else
       match lookup k' (pr_defaults (n_proc n)) with
       | None => []
       | Some dv => match lookup k' c with Some v => [(k', v, ChContext)] | None => [(k', dv, ChDefault)] end
       end) names) =
  if smem k names && negb (has k (n_cfg n)) then
    match lookup k (pr_defaults (n_proc n)) with
    | None => None
    | Some dv => match lookup k c with Some v => Some (k, v, ChContext) | None => Some (k, dv, ChDefault) end
    end
  else None.
Proof.
  unfold smem. induction names as [|k' tl IH]; simpl; auto.
  destruct (String.eqb k k') eqn:X.
  - apply String.eqb_eq in X. subst k'. simpl.
    destruct (has k (n_cfg n)) eqn:Hc; simpl.
    + rewrite IH. rewrite andb_false_r. reflexivity.
    + destruct (lookup k (pr_defaults (n_proc n))) as [dv|] eqn:Ld; simpl.
      * destruct (lookup k c) as [v|]; simpl; unfold keyis; simpl; rewrite String.eqb_refl; reflexivity.
      * rewrite IH. destruct (existsb (String.eqb k) tl); reflexivity.
  - simpl. destruct (has k' (n_cfg n)); simpl; auto.
    destruct (lookup k' (pr_defaults (n_proc n))) as [dv|]; simpl; auto.
    destruct (lookup k' c) as [v|]; simpl; unfold keyis at 1; simpl; rewrite X; exact IH.
Qed.

Lemma smem_in k l : smem k l = true <-> In k l.
Proof.
  unfold smem. rewrite existsb_exists. split.
  - intros (x & I & Ex). apply String.eqb_eq in Ex. subst. exact I.
  - intros I. exists k. split; auto. apply String.eqb_refl.
Qed.

Lemma has_false_lookup k c : has k c = false <-> lookup k c = None.
Proof. unfold has. destruct (lookup k c); split; congruence. Qed.

Lemma report_lookup_eq F n c k :
  report_lookup k (report F n c) =
  match find (keyis k) (report F n c) with Some e => Some (snd (fst e), snd e) | None => None end.
Proof. reflexivity. Qed.

(* sources_truthful: with defaulted parameters reported, every processing parameter that resolves is reported
   with the value and the channel it actually comes from *)
Theorem sources_truthful F n c k v ch :
  f_defaults F = true ->
  In k (pr_params (n_proc n)) ->
  actual n c k = Some (v, ch) ->
  report_lookup k (report F n c) = Some (v, ch).
Proof.
  intros Fd Ik A. rewrite report_lookup_eq. unfold report. rewrite Fd.
  rewrite !find_app, find_cfg. unfold actual in A.
  destruct (lookup k (n_cfg n)) as [v0|] eqn:Lc; [injection A as <- <-; reflexivity|].
  unfold report_ctx, report_defaults. rewrite find_ctx_part, find_default_part.
  apply smem_in in Ik. rewrite Ik. simpl.
  assert (Hc : has k (n_cfg n) = false) by (apply has_false_lookup; exact Lc). rewrite Hc. simpl.
  destruct (smem k (required_keys n)) eqn:Rk.
  - apply smem_in, required_keys_spec in Rk as (_ & _ & Hd). apply has_false_lookup in Hd. rewrite Hd in *.
    destruct (lookup k c) as [v1|]; [injection A as <- <-; reflexivity|discriminate].
  - destruct (lookup k (pr_defaults (n_proc n))) as [dv|] eqn:Ld.
    + destruct (lookup k c) as [v1|]; injection A as <- <-; reflexivity.
    + exfalso. assert (smem k (required_keys n) = true); [|congruence].
      apply smem_in, required_keys_spec. apply smem_in in Ik. repeat split; auto. apply has_false_lookup. exact Ld.
Qed.

(* without that: truthful for every parameter that is configured or has no default (the partial class) *)
Theorem sources_truthful_partial F n c k v ch :
  In k (pr_params (n_proc n)) ->
  has k (n_cfg n) = true \/ has k (pr_defaults (n_proc n)) = false ->
  actual n c k = Some (v, ch) ->
  report_lookup k (report F n c) = Some (v, ch).
Proof.
  intros Ik Hcls A. rewrite report_lookup_eq. unfold report.
  rewrite !find_app, find_cfg. unfold actual in A.
  destruct (lookup k (n_cfg n)) as [v0|] eqn:Lc; [injection A as <- <-; reflexivity|].
  destruct Hcls as [Hcls|Hd]; [unfold has in Hcls; rewrite Lc in Hcls; discriminate|].
  unfold report_ctx. rewrite find_ctx_part.
  assert (Rk : smem k (required_keys n) = true).
  { apply smem_in, required_keys_spec. repeat split; auto. apply has_false_lookup. exact Lc. }
  rewrite Rk. apply has_false_lookup in Hd. rewrite Hd in A.
  destruct (lookup k c) as [v1|]; [injection A as <- <-; reflexivity|discriminate].
Qed.

(* the defect: a defaulted parameter overridden by the context is not reported at all *)
Lemma default_not_reported F :
  f_defaults F = false ->
  let n := mkNode (lib_mul true) [] None in
  let c := [("factor", VNum 10)] in
  actual n c "factor" = Some (VNum 10, ChContext) /\ report_lookup "factor" (report F n c) = None /\
  actual n [] "factor" = Some (VNum 2, ChDefault) /\ report_lookup "factor" (report F n []) = None.
Proof. intros Fd. unfold report. rewrite Fd. vm_compute. auto. Qed.

(* ---- every SER of a trace is built from the states its node really saw ------------------------------------------------------ *)
Section Truth.
Variables B D : Type.
Variable sd : data -> B.
Variable sc : ctx -> B.
Variable H : B -> D.
Variable F : facts.
Variable E : env.
Notation loop := (loop B D sd sc H F E).
Notation ser_of := (ser_of B D sd sc H F E).
Notation execute_traced := (execute_traced B D sd sc H F E).

(* x describes node (i + d) of p, run from s: pre = state the untraced executor reaches before that node,
   post = what the node returned (unchanged on failure) *)
Definition describes (pd : pid) (i : nat) (p : list tnode) (s : state) (x : ser D) : Prop :=
  exists d tn pre post q,
    nth_error p d = Some tn /\ s_node x = i + d /\
    run_from i (nodes_of (firstn d p)) s = Done pre /\
    (if s_ok x then exec_node (t_node tn) pre = Ok post
     else post = pre /\ exists e, exec_node (t_node tn) pre = Fail e /\ s_err x = err_cls e) /\
    x = ser_of pd (i + d) tn pre post (s_ok x) (s_err x) q.

Lemma loop_describes pd : forall p i s k, Forall (describes pd i p s) (fst (loop pd i p s k)).
Proof.
  induction p as [|tn tl IH]; intros i s k; simpl; [constructor|].
  destruct (exec_node (t_node tn) s) as [s'|e] eqn:X.
  - destruct (ser_raises F tn); simpl; [constructor|]. constructor.
    + exists 0, tn, s, s', k. simpl. rewrite Nat.add_0_r. repeat split; auto.
    + specialize (IH (S i) s' (k + 4)). eapply Forall_impl; [|exact IH].
      intros x (d & tn' & pre & post & q & N & Sn & R & Ok' & Ex).
      exists (S d), tn', pre, post, q. simpl. rewrite X.
      replace (i + S d) with (S i + d) by lia. repeat split; auto.
  - destruct (caught (f_node_base F) e); [|constructor].
    destruct (ser_raises F tn); simpl; [constructor|]. constructor; [|constructor].
    exists 0, tn, s, s, k. simpl. rewrite Nat.add_0_r. repeat split; eauto.
Qed.

Lemma in_sers_in (t : list (record D)) x : In (RSer x) t <-> In x (sers_in t).
Proof.
  unfold sers_in. rewrite in_flat_map. split.
  - intros I. exists (RSer x). split; simpl; auto.
  - intros (r & I & Ix). destruct r; simpl in Ix; try contradiction. destruct Ix as [->|[]]. exact I.
Qed.

Lemma protected_sers d0 pre b p :
  sers_in (r_emitted (protected D F E d0 pre b p)) = (sers_in pre ++ fst b)%list.
Proof.
  assert (M : forall l : list (ser D), sers_in (map RSer l) = l).
  { induction l; simpl; auto. unfold sers_in in *. simpl. rewrite IHl. reflexivity. }
  assert (A : forall a b : list (record D), sers_in (a ++ b) = (sers_in a ++ sers_in b)%list)
    by (intros; unfold sers_in; apply flat_map_app).
  unfold protected. destruct b as [rs r]. simpl.
  destruct r as [s'|o base]; [|destruct ((f_outer_base F || negb base) && f_end_both F)]; simpl;
  rewrite ?A, M; simpl; rewrite ?app_nil_r; reflexivity.
Qed.

Theorem trace_sers_describe p s x :
  In (RSer x) (r_emitted (execute_traced p s)) ->
  describes (the_pid F E p) 0 p s x.
Proof.
  rewrite in_sers_in. unfold Trace.execute_traced. fold (the_pid F E p).
  destruct (f_prestart F && any_opaque F p); [simpl; tauto|].
  destruct (f_inst_in_try F).
  - rewrite protected_sers. simpl. unfold body.
    destruct (first_unconstructible 0 (nodes_of p)) as [[j e]|]; simpl; [tauto|].
    intros I. exact (proj1 (Forall_forall _ _) (loop_describes _ p 0 s 1) x I).
  - destruct (first_unconstructible 0 (nodes_of p)) as [[j e]|]; simpl; [tauto|].
    rewrite protected_sers. simpl.
    intros I. exact (proj1 (Forall_forall _ _) (loop_describes _ p 0 s 1) x I).
Qed.

(* ---- digests: functions of content, chained along the stream -------------------------------------------------------------------- *)
Fixpoint chained (l : list (ser D)) : Prop :=
  match l with
  | x :: tl => match tl with
               | y :: _ => s_dout x = s_din y /\ s_cpost x = s_cpre y /\ chained tl
               | [] => True
               end
  | [] => True
  end.

Lemma loop_head pd p i s k x rest :
  fst (loop pd i p s k) = x :: rest -> s_din x = H (sd (fst s)) /\ s_cpre x = H (sc (snd s)).
Proof.
  destruct p as [|tn tl]; simpl; [discriminate|].
  destruct (exec_node (t_node tn) s) as [s'|e].
  - destruct (ser_raises F tn); simpl; [discriminate|]. intros Eq. injection Eq as <- _. auto.
  - destruct (caught (f_node_base F) e); [|discriminate].
    destruct (ser_raises F tn); simpl; [discriminate|]. intros Eq. injection Eq as <- _. auto.
Qed.

Lemma loop_chained pd : forall p i s k, chained (fst (loop pd i p s k)).
Proof.
  induction p as [|tn tl IH]; intros i s k; simpl; auto.
  destruct (exec_node (t_node tn) s) as [s'|e].
  - destruct (ser_raises F tn); simpl; auto.
    specialize (IH (S i) s' (k + 4)).
    destruct (fst (loop pd (S i) tl s' (k + 4))) as [|y rest] eqn:L; auto.
    destruct (loop_head _ _ _ _ _ _ _ L) as [A C]. simpl. rewrite A, C. auto.
  - destruct (caught (f_node_base F) e); simpl; auto. destruct (ser_raises F tn); simpl; auto.
Qed.

Theorem trace_chained p s : chained (sers_in (r_emitted (execute_traced p s))).
Proof.
  unfold Trace.execute_traced. destruct (f_prestart F && any_opaque F p); [simpl; auto|].
  destruct (f_inst_in_try F).
  - rewrite protected_sers. simpl. unfold body.
    destruct (first_unconstructible 0 (nodes_of p)) as [[j e]|]; simpl; auto. apply loop_chained.
  - destruct (first_unconstructible 0 (nodes_of p)) as [[j e]|]; simpl; auto.
    rewrite protected_sers. simpl. apply loop_chained.
Qed.

(* ---- time -------------------------------------------------------------------------------------------------------------------------- *)
Definition mono (clk : nat -> Z) : Prop := forall a b, a <= b -> (clk a <= clk b)%Z.

Lemma loop_wall pd : mono (e_clk E) -> forall p i s k, Forall (fun x => (0 <= s_wall x)%Z) (fst (loop pd i p s k)).
Proof.
  intros M. induction p as [|tn tl IH]; intros i s k; simpl; [constructor|].
  assert (W : (0 <= e_clk E (S (S (S k))) - e_clk E k)%Z) by (specialize (M k (S (S (S k)))); lia).
  destruct (exec_node (t_node tn) s) as [s'|e].
  - destruct (ser_raises F tn); simpl; [constructor|]. constructor; [exact W|apply IH].
  - destruct (caught (f_node_base F) e); [|constructor].
    destruct (ser_raises F tn); simpl; [constructor|]. constructor; [exact W|constructor].
Qed.

Definition ser_stamps (l : list (ser D)) : list Z := flat_map (fun x => [s_t0 x; s_t1 x]) l.

Lemma loop_stamps pd : mono (e_clk E) -> f_iso_utc F = true -> forall p i s k,
  StronglySorted Z.le (ser_stamps (fst (loop pd i p s k))) /\
  Forall (fun t => (e_clk E k <= t <= e_clk E (k + 4 * List.length p))%Z) (ser_stamps (fst (loop pd i p s k))).
Proof.
  intros M U. induction p as [|tn tl IH]; intros i s k; [simpl; split; constructor|].
  replace (k + 4 * List.length (tn :: tl)) with (k + S (S (S (S (4 * List.length tl))))) by (cbn [List.length]; lia).
  cbn [Trace.loop].
  assert (St : forall j, stamp (f_iso_utc F) (e_off E) (e_clk E j) = e_clk E j) by (intros; unfold stamp; rewrite U; reflexivity).
  assert (One : forall pre post ok ec,
     StronglySorted Z.le (ser_stamps [ser_of pd i tn pre post ok ec k]) /\
     Forall (fun t => (e_clk E k <= t <= e_clk E (k + S (S (S (S (4 * List.length tl))))))%Z)
            (ser_stamps [ser_of pd i tn pre post ok ec k])).
  { intros. unfold ser_stamps, Trace.ser_of. cbn [flat_map app s_t0 s_t1]. rewrite !St.
    pose proof (M k (S k)). pose proof (M (S k) (S (S k))). pose proof (M (S (S k)) (k + S (S (S (S (4 * List.length tl)))))).
    split.
    - apply SSorted_cons; [apply SSorted_cons; [apply SSorted_nil|constructor]|constructor; [lia|constructor]].
    - constructor; [lia|constructor; [lia|constructor]]. }
  assert (Cons : forall x l, ser_stamps (x :: l) = s_t0 x :: s_t1 x :: ser_stamps l) by reflexivity.
  destruct (exec_node (t_node tn) s) as [s'|e].
  - destruct (ser_raises F tn); cbn [fst]; [split; constructor|].
    rewrite Cons. unfold Trace.ser_of at 1 2 3 4. cbn [s_t0 s_t1]. rewrite !St.
    destruct (IH (S i) s' (k + 4)) as [So Bd].
    set (L := ser_stamps (fst (loop pd (S i) tl s' (k + 4)))) in *.
    assert (Bd' : Forall (fun t => (e_clk E (S (S k)) <= t <= e_clk E (k + S (S (S (S (4 * List.length tl))))))%Z) L).
    { eapply Forall_impl; [|exact Bd]. cbv beta. intros t [Lo Up].
      replace (k + S (S (S (S (4 * List.length tl))))) with (k + 4 + 4 * List.length tl) by lia.
      pose proof (M (S (S k)) (k + 4)). lia. }
    pose proof (M k (S k)). pose proof (M (S k) (S (S k))). pose proof (M (S (S k)) (k + S (S (S (S (4 * List.length tl)))))).
    split.
    + apply SSorted_cons; [apply SSorted_cons; [exact So|]|].
      * eapply Forall_impl; [|exact Bd']. cbv beta. intros; lia.
      * constructor; [lia|]. eapply Forall_impl; [|exact Bd']. cbv beta. intros; lia.
    + constructor; [lia|]. constructor; [lia|]. eapply Forall_impl; [|exact Bd']. cbv beta. intros; lia.
  - destruct (caught (f_node_base F) e); [|split; constructor].
    destruct (ser_raises F tn); [split; constructor|]. apply One.
Qed.
End Truth.

(* the emitted trace does not depend on the host zone when both time sources take UTC *)
Definition set_off (E : env) (off : Z) : env := mkEnv (e_rid E) (e_seq E) (e_prior E) (e_clk E) off (e_hash E).

Section Zone.
Variables B D : Type.
Variable sd : data -> B.
Variable sc : ctx -> B.
Variable H : B -> D.
Variable F : facts.

Lemma loop_zone E off pd : f_iso_utc F = true -> forall p i s k,
  loop B D sd sc H F (set_off E off) pd i p s k = loop B D sd sc H F E pd i p s k.
Proof.
  intros U. induction p as [|tn tl IH]; intros i s k; simpl; auto.
  assert (S1 : forall pre post ok ec, ser_of B D sd sc H F (set_off E off) pd i tn pre post ok ec k =
                                      ser_of B D sd sc H F E pd i tn pre post ok ec k).
  { intros. unfold ser_of, stamp. rewrite U. reflexivity. }
  destruct (exec_node (t_node tn) s) as [s'|e].
  - destruct (ser_raises F tn); auto. rewrite IH, S1. reflexivity.
  - destruct (caught (f_node_base F) e); auto. destruct (ser_raises F tn); auto. rewrite S1. reflexivity.
Qed.

Theorem trace_zone_independent E off p s :
  f_iso_utc F = true -> f_drv_utc F = true ->
  r_emitted (execute_traced B D sd sc H F (set_off E off) p s) = r_emitted (execute_traced B D sd sc H F E p s) /\
  r_out (execute_traced B D sd sc H F (set_off E off) p s) = r_out (execute_traced B D sd sc H F E p s).
Proof.
  intros U1 U2. unfold execute_traced, protected, body, stamp. rewrite U2. simpl.
  destruct (f_prestart F && any_opaque F p); [split; reflexivity|].
  destruct (f_inst_in_try F); destruct (first_unconstructible 0 (nodes_of p)) as [[j e]|]; simpl;
    rewrite ?(loop_zone E off _ U1); split; try reflexivity.
  all: repeat match goal with |- context [match ?x with _ => _ end] => destruct x end; reflexivity.
Qed.
End Zone.

(* stamps: with UTC time the stamp is the clock reading for every offset; with local time it is off by the offset *)
Theorem stamp_utc off t : stamp true off t = t.
Proof. reflexivity. Qed.
Theorem stamp_local off t : off <> 0%Z -> stamp false off t <> t.
Proof. unfold stamp. intros. lia. Qed.

(* ==== C10: reproducibility ================================================================================================= *)
Section Repro.
Variables B D : Type.
Variable sd : data -> B.
Variable sc : ctx -> B.
Variable H : B -> D.
Variable F : facts.
Notation loop E := (loop B D sd sc H F E).
Notation ser_of E := (ser_of B D sd sc H F E).
Notation execute_traced E := (execute_traced B D sd sc H F E).

Lemma norm_ser_of E1 E2 pd i tn pre post ok ec k1 k2 :
  e_hash E1 = e_hash E2 ->
  norm_ser (ser_of E1 pd i tn pre post ok ec k1) = norm_ser (ser_of E2 pd i tn pre post ok ec k2).
Proof. intros Hh. unfold norm_ser, Trace.ser_of. simpl. rewrite Hh. reflexivity. Qed.

Lemma loop_repro E1 E2 pd : e_hash E1 = e_hash E2 -> forall p i s k1 k2,
  map norm_ser (fst (loop E1 pd i p s k1)) = map norm_ser (fst (loop E2 pd i p s k2)) /\
  snd (loop E1 pd i p s k1) = snd (loop E2 pd i p s k2).
Proof.
  intros Hh. induction p as [|tn tl IH]; intros i s k1 k2; simpl; auto.
  destruct (exec_node (t_node tn) s) as [s'|e].
  - destruct (ser_raises F tn); simpl; auto.
    destruct (IH (S i) s' (k1 + 4) (k2 + 4)) as [A C]. rewrite A, C.
    rewrite (norm_ser_of E1 E2 pd i tn s s' true "" k1 k2 Hh). auto.
  - destruct (caught (f_node_base F) e); simpl; auto. destruct (ser_raises F tn); simpl; auto.
    rewrite (norm_ser_of E1 E2 pd i tn s s false (err_cls e) k1 k2 Hh). auto.
Qed.

Lemma norm_map_ser (l : list (ser D)) : normalise (map RSer l) = map RSer (map norm_ser l).
Proof. unfold normalise. rewrite !map_map. reflexivity. Qed.

Lemma protected_repro E1 E2 d1 d2 pre1 pre2 b1 b2 p :
  normalise pre1 = normalise pre2 ->
  map norm_ser (fst b1) = map norm_ser (fst b2) -> snd b1 = snd b2 ->
  normalise (r_emitted (protected D F E1 d1 pre1 b1 p)) = normalise (r_emitted (protected D F E2 d2 pre2 b2 p)) /\
  r_out (protected D F E1 d1 pre1 b1 p) = r_out (protected D F E2 d2 pre2 b2 p).
Proof.
  intros Hp Hf Hs. unfold protected. rewrite Hs.
  destruct (snd b2) as [s'|o base]; [|destruct ((f_outer_base F || negb base) && f_end_both F)]; simpl;
  unfold normalise in *; rewrite ?map_app, Hp; fold (normalise (map RSer (fst b1))); fold (normalise (map RSer (fst b2)));
  rewrite !norm_map_ser, Hf; auto.
Qed.

Theorem trace_reproducible E1 E2 p s :
  e_hash E1 = e_hash E2 ->
  (f_pid_stable F = true \/ any_meta p = false \/ e_prior E1 = e_prior E2) ->
  normalise (r_emitted (execute_traced E1 p s)) = normalise (r_emitted (execute_traced E2 p s)) /\
  r_out (execute_traced E1 p s) = r_out (execute_traced E2 p s).
Proof.
  intros Hh Hc.
  assert (Pd : the_pid F E1 p = the_pid F E2 p).
  { unfold the_pid. destruct Hc as [ -> | [ -> | -> ] ]; simpl; rewrite ?andb_false_r; reflexivity. }
  unfold Trace.execute_traced. fold (the_pid F E1 p). fold (the_pid F E2 p). rewrite Pd.
  destruct (f_prestart F && any_opaque F p); [split; reflexivity|].
  destruct (f_inst_in_try F).
  - apply protected_repro; [reflexivity| |]; unfold body;
    destruct (first_unconstructible 0 (nodes_of p)) as [[j e]|]; auto; apply (loop_repro E1 E2 _ Hh).
  - destruct (first_unconstructible 0 (nodes_of p)) as [[j e]|]; simpl; auto.
    apply protected_repro; [reflexivity| |]; apply (loop_repro E1 E2 _ Hh).
Qed.

(* the defect: a Pipeline object with a sweep node that already made a traced run hashes an enriched spec *)
Lemma reused_pipeline_differs rid q clk off h :
  f_pid_stable F = false ->
  normalise (r_emitted (execute_traced (mkEnv rid q false clk off h) wit_sweep s0)) <>
  normalise (r_emitted (execute_traced (mkEnv rid q true clk off h) wit_sweep s0)).
Proof.
  intros Hs Heq. apply (f_equal (@hd_error _)) in Heq. unfold Trace.execute_traced in Heq. rewrite Hs in Heq.
  simpl in Heq. rewrite andb_false_r in Heq.
  destruct (f_inst_in_try F); unfold protected, body in Heq; simpl in Heq; discriminate.
Qed.
End Repro.
