(* Proofs/Transport.v -- invariants of the transport model over all schedules. *)
From Coq Require Import List String Bool Arith Lia Permutation.
From SV Require Import Model.Transport.
Import ListNotations.

(* ---------------------------------------------------------------------------------- *)
(* set_nth / nth_error                                                                 *)

Lemma set_nth_split {A} : forall (l : list A) n y,
  nth_error l n = Some y ->
  exists l1 l2, l = l1 ++ y :: l2 /\ List.length l1 = n /\ forall x, set_nth n x l = l1 ++ x :: l2.
Proof.
  induction l as [|h tl IH]; intros [|n] y H; simpl in H; try discriminate.
  - inversion H; subst. exists [], tl. repeat split; auto.
  - destruct (IH _ _ H) as [l1 [l2 [E [L S]]]]. exists (h :: l1), l2. subst tl. simpl.
    repeat split; auto. intro x. rewrite S. reflexivity.
Qed.

Lemma set_nth_length {A} : forall (l : list A) n x, List.length (set_nth n x l) = List.length l.
Proof. induction l; intros [|n] x; simpl; auto. Qed.

Lemma nth_error_set_nth_eq {A} : forall (l : list A) n x y,
  nth_error l n = Some y -> nth_error (set_nth n x l) n = Some x.
Proof. induction l; intros [|n] x y H; simpl in *; try discriminate; eauto. Qed.

Lemma nth_error_set_nth_neq {A} : forall (l : list A) n k x,
  n <> k -> nth_error (set_nth n x l) k = nth_error l k.
Proof.
  induction l; intros [|n] [|k] x H; simpl; auto; try congruence.
Qed.

Lemma nth_error_set_nth_inv {A} (l : list A) n k x y z :
  nth_error l n = Some z -> nth_error (set_nth n x l) k = Some y ->
  (k = n /\ y = x) \/ (k <> n /\ nth_error l k = Some y).
Proof.
  intros Hz H. destruct (Nat.eq_dec n k) as [->|N].
  - rewrite (nth_error_set_nth_eq _ _ _ _ Hz) in H. inversion H; auto.
  - rewrite nth_error_set_nth_neq in H by auto. right; split; auto.
Qed.

Lemma Forall_set_nth {A} (P : A -> Prop) : forall l n x, Forall P l -> P x -> Forall P (set_nth n x l).
Proof.
  induction l; intros [|n] x H Hx; simpl; auto; inversion H; subst; constructor; auto.
Qed.

Lemma flat_map_set_nth_same {A B} (f : A -> list B) l n x y :
  nth_error l n = Some y -> f x = f y -> flat_map f (set_nth n x l) = flat_map f l.
Proof.
  intros H E. destruct (set_nth_split _ _ _ H) as [l1 [l2 [-> [_ S]]]]. rewrite S.
  rewrite !flat_map_app. simpl. rewrite E. reflexivity.
Qed.

Lemma flat_map_set_nth_add {A B} (f : A -> list B) l n x y m :
  nth_error l n = Some y -> Permutation (f x) (m :: f y) ->
  Permutation (flat_map f (set_nth n x l)) (m :: flat_map f l).
Proof.
  intros H E. destruct (set_nth_split _ _ _ H) as [l1 [l2 [-> [_ S]]]]. rewrite S.
  rewrite !flat_map_app. simpl. rewrite E. simpl.
  symmetry. apply Permutation_middle.
Qed.

Lemma flat_map_set_nth_rm {A B} (f : A -> list B) l n x y m :
  nth_error l n = Some y -> Permutation (f y) (m :: f x) ->
  Permutation (flat_map f l) (m :: flat_map f (set_nth n x l)).
Proof.
  intros H E. destruct (set_nth_split _ _ _ H) as [l1 [l2 [-> [_ S]]]]. rewrite S.
  rewrite !flat_map_app. simpl. rewrite E. simpl.
  symmetry. apply Permutation_middle.
Qed.

(* ---------------------------------------------------------------------------------- *)
(* steps                                                                               *)

Lemma step_inv cfg s t e s' :
  step cfg s t e = Some s' ->
  exists th h d a th',
    nth_error (thr s) t = Some th /\
    step_thread cfg t (heap s) (dict s) (appended s) th e = Some (h, d, a, th') /\
    s' = mkState h d (set_nth t th' (thr s)) a.
Proof.
  unfold step. destruct (nth_error (thr s) t) as [th|]; [|discriminate].
  destruct (step_thread cfg t (heap s) (dict s) (appended s) th e) as [[[[h d] a] th']|] eqn:E; [|discriminate].
  intro H; inversion H; subst. exists th, h, d, a, th'. auto.
Qed.

Lemma sched_step_is_step cfg s t s' :
  sched_step cfg s t = Some s' -> exists e, step cfg s t e = Some s'.
Proof.
  unfold sched_step. destruct (nth_error (thr s) t); [|discriminate].
  destruct (next_event t0); [|discriminate]. eauto.
Qed.

Lemma run_invariant cfg (I : state -> Prop) :
  (forall s t e s', I s -> step cfg s t e = Some s' -> I s') ->
  forall sch s, I s -> I (run cfg sch s).
Proof.
  intros HI. unfold run. induction sch as [|t sch IH]; intros s Hs; simpl; auto.
  apply IH. destruct (sched_step cfg s t) eqn:E; auto.
  destruct (sched_step_is_step _ _ _ _ E) as [e He]. eauto.
Qed.

Lemma replay_invariant cfg (I : state -> Prop) :
  (forall s t e s', I s -> step cfg s t e = Some s' -> I s') ->
  forall tr s s', I s -> replay cfg tr s = Some s' -> I s'.
Proof.
  intros HI. induction tr as [|[t e] tr IH]; intros s s' Hs H; simpl in H.
  - inversion H; subst; auto.
  - destruct (step cfg s t e) eqn:E; [|discriminate]. eauto.
Qed.

(* case analysis of one thread step *)
Ltac inv_step H :=
  unfold step_thread in H;
  repeat match type of H with
  | context [match ?x with _ => _ end] => destruct x eqn:?; try discriminate
  end;
  inversion H; subst; clear H.

(* ---------------------------------------------------------------------------------- *)
(* 1. conservation (any variant): appended = held by consumers + queued in the heap     *)

Definition cons (s : state) : Prop := Permutation (appended s) (held s ++ all_queued s).

Lemma heap_alloc_queued (h : list (chan * list msg)) c : flat_map snd (h ++ [(c, [])]) = flat_map snd h.
Proof. rewrite flat_map_app. simpl. apply app_nil_r. Qed.

Lemma heap_append_queued (h : list (chan * list msg)) q c l m :
  nth_error h q = Some (c, l) ->
  Permutation (flat_map snd (set_nth q (c, l ++ [m]) h)) (m :: flat_map snd h).
Proof.
  intro H. eapply flat_map_set_nth_add; eauto. simpl.
  rewrite Permutation_app_comm. reflexivity.
Qed.

Lemma heap_pop_queued (h : list (chan * list msg)) q c l m :
  nth_error h q = Some (c, m :: l) ->
  Permutation (flat_map snd h) (m :: flat_map snd (set_nth q (c, l) h)).
Proof. intro H. eapply flat_map_set_nth_rm; eauto. Qed.

Lemma cons_same s t th th' h a :
  nth_error (thr s) t = Some th -> held_of th' = held_of th ->
  flat_map snd h = all_queued s -> a = appended s -> cons s ->
  forall d, cons (mkState h d (set_nth t th' (thr s)) a).
Proof.
  unfold cons, held, all_queued. intros Ht Eh Eq -> C d. simpl.
  rewrite (flat_map_set_nth_same held_of _ _ _ _ Ht Eh), Eq. exact C.
Qed.

Lemma cons_pop s t th th' q c l m :
  nth_error (thr s) t = Some th -> Permutation (held_of th') (m :: held_of th) ->
  nth_error (heap s) q = Some (c, m :: l) -> cons s ->
  forall d, cons (mkState (set_nth q (c, l) (heap s)) d (set_nth t th' (thr s)) (appended s)).
Proof.
  unfold cons, held, all_queued. intros Ht Eh Hq C d. simpl.
  rewrite C. rewrite (heap_pop_queued _ _ _ _ _ Hq).
  rewrite (flat_map_set_nth_add held_of _ _ _ _ _ Ht Eh).
  symmetry. simpl. apply Permutation_middle.
Qed.

Theorem cons_step cfg s t e s' : cons s -> step cfg s t e = Some s' -> cons s'.
Proof.
  intros C H. destruct (step_inv _ _ _ _ _ H) as [th [h [d [a [th' [Ht [St ->]]]]]]].
  inv_step St;
    try (apply (cons_same s t _ _ _ _ Ht); auto;
         try (simpl; rewrite ?app_nil_r; reflexivity);
         try (unfold scan_next;
              repeat match goal with |- context [match ?x with _ => _ end] => destruct x end;
              simpl; rewrite ?app_nil_r; reflexivity);
         try apply heap_alloc_queued; fail).
  - (* append *)
    unfold cons, held, all_queued in *. simpl.
    rewrite (flat_map_set_nth_same held_of _ _ _ _ Ht) by reflexivity.
    rewrite (heap_append_queued _ _ _ _ _ Heqo).
    rewrite Permutation_app_comm. simpl. rewrite C. apply Permutation_middle.
  - (* locked pop *)
    eapply cons_pop; eauto. unfold held_of; simpl. rewrite app_nil_r. rewrite Permutation_app_comm. reflexivity.
  - (* unlocked pop *)
    eapply cons_pop; eauto. unfold held_of; simpl. rewrite app_nil_r. rewrite Permutation_app_comm. reflexivity.
  - (* yield *)
    apply (cons_same s t _ _ _ _ Ht); auto. unfold held_of; simpl. apply app_nil_r.
Qed.

(* ---------------------------------------------------------------------------------- *)
(* 2. well-formedness (any variant): queue tags, channel of queued messages, no_foreign *)

Definition tag (h : list (chan * list msg)) (q : qid) : option chan := option_map fst (nth_error h q).
Definition pairs_ok (h : list (chan * list msg)) (l : list (chan * qid)) : Prop :=
  Forall (fun cq => tag h (snd cq) = Some (fst cq)) l.
Definition matched (p : pat) (l : list msg) : Prop := Forall (fun m => fnmatchb (m_chan m) p = true) l.

Definition thread_ok (h : list (chan * list msg)) (th : thread) : Prop :=
  match th with
  | TPub todo n pc =>
      match pc with
      | PLookup | PFactory => True
      | PStore q | PMk q => exists c rest, todo = c :: rest /\ tag h q = Some c
      | PAppend q m => exists c rest, todo = c :: rest /\ tag h q = Some c /\ m_chan m = c
      end
  | TSub p pc got =>
      matched p got /\
      match pc with
      | SStart | SDone | SCrashed => True
      | SScan rest => pairs_ok h rest
      | SMatch c q rest => tag h q = Some c /\ pairs_ok h rest
      | SWith q rest | SPopDo _ q rest => (exists c, tag h q = Some c /\ fnmatchb c p = true) /\ pairs_ok h rest
      | SCheck mo rest => (forall m, mo = Some m -> fnmatchb (m_chan m) p = true) /\ pairs_ok h rest
      | SYield m => fnmatchb (m_chan m) p = true
      end
  end.

Definition heap_ok (h : list (chan * list msg)) : Prop :=
  forall q c l, nth_error h q = Some (c, l) -> Forall (fun m => m_chan m = c) l.

Record wf (s : state) : Prop := mkWf {
  wf_dict : pairs_ok (heap s) (dict s);
  wf_heap : heap_ok (heap s);
  wf_thr : Forall (thread_ok (heap s)) (thr s)
}.

Definition tag_mono (h h' : list (chan * list msg)) : Prop := forall q c, tag h q = Some c -> tag h' q = Some c.

Lemma tag_mono_refl h : tag_mono h h.
Proof. intros q c H; exact H. Qed.

Lemma tag_mono_app h x : tag_mono h (h ++ [x]).
Proof.
  intros q c H. unfold tag in *. destruct (nth_error h q) eqn:E; [|discriminate].
  rewrite nth_error_app1; [rewrite E; auto|]. apply nth_error_Some. congruence.
Qed.

Lemma tag_app_new h c l : tag (h ++ [(c, l)]) (List.length h) = Some c.
Proof. unfold tag. rewrite nth_error_app2 by lia. rewrite Nat.sub_diag. reflexivity. Qed.

Lemma tag_mono_set h q c l l' : nth_error h q = Some (c, l) -> tag_mono h (set_nth q (c, l') h).
Proof.
  intros H k c0 Hk. unfold tag in *. destruct (Nat.eq_dec q k) as [->|N].
  - rewrite (nth_error_set_nth_eq _ _ _ _ H). rewrite H in Hk. exact Hk.
  - rewrite nth_error_set_nth_neq by auto. exact Hk.
Qed.

Lemma pairs_ok_mono h h' l : tag_mono h h' -> pairs_ok h l -> pairs_ok h' l.
Proof. intros M. apply Forall_impl. intros a; apply M. Qed.

Lemma thread_ok_mono h h' th : tag_mono h h' -> thread_ok h th -> thread_ok h' th.
Proof.
  intros M. destruct th as [todo n pc|p pc got]; simpl.
  - destruct pc; auto.
    + intros [c [r [E T]]]. exists c, r. auto.
    + intros [c [r [E T]]]. exists c, r. auto.
    + intros [c [r [E [T C]]]]. exists c, r. auto.
  - intros [G H]. split; auto. destruct pc; auto.
    + eapply pairs_ok_mono; eauto.
    + destruct H; split; auto. eapply pairs_ok_mono; eauto.
    + destruct H as [[c [T F]] R]. split; [exists c; auto|eapply pairs_ok_mono; eauto].
    + destruct H as [[c [T F]] R]. split; [exists c; auto|eapply pairs_ok_mono; eauto].
    + destruct H; split; auto. eapply pairs_ok_mono; eauto.
Qed.

Lemma dlookup_in c d q : dlookup c d = Some q -> In (c, q) d.
Proof.
  induction d as [|[c' q'] tl IH]; simpl; [discriminate|].
  destruct (String.eqb c c') eqn:E.
  - intro H; inversion H; subst. apply String.eqb_eq in E. subst. auto.
  - auto.
Qed.

Lemma pairs_ok_dstore h c q d : tag h q = Some c -> pairs_ok h d -> pairs_ok h (dstore c q d).
Proof.
  intros T. induction d as [|[c' q'] tl IH]; simpl; intro H.
  - constructor; [exact T|constructor].
  - inversion H; subst. destruct (String.eqb c c') eqn:E.
    + apply String.eqb_eq in E. subst. constructor; [exact T|assumption].
    + constructor; [assumption|apply IH; assumption].
Qed.

Lemma heap_ok_app h c : heap_ok h -> heap_ok (h ++ [(c, [])]).
Proof.
  intros H q c0 l E. destruct (Nat.lt_ge_cases q (List.length h)) as [L|L].
  - rewrite nth_error_app1 in E by auto. eauto.
  - rewrite nth_error_app2 in E by auto. destruct (q - List.length h) as [|k]; simpl in E.
    + inversion E; subst. constructor.
    + destruct k; discriminate.
Qed.

Lemma heap_ok_set h q c l l' :
  heap_ok h -> nth_error h q = Some (c, l) -> Forall (fun m => m_chan m = c) l' -> heap_ok (set_nth q (c, l') h).
Proof.
  intros H E F k c0 l0 Ek.
  destruct (nth_error_set_nth_inv _ _ _ _ _ _ E Ek) as [[-> X]|[N X]].
  - inversion X; subst. auto.
  - eauto.
Qed.

Lemma wf_update s t th th' h d a :
  nth_error (thr s) t = Some th -> wf s -> tag_mono (heap s) h ->
  pairs_ok h d -> heap_ok h -> thread_ok h th' ->
  wf (mkState h d (set_nth t th' (thr s)) a).
Proof.
  intros Ht W M D Hp T. constructor; simpl; auto.
  apply Forall_set_nth; auto.
  eapply Forall_impl; [|exact (wf_thr _ W)]. intros x; apply thread_ok_mono; auto.
Qed.

Lemma scan_next_ok h p got l : matched p got -> pairs_ok h l -> thread_ok h (TSub p (scan_next l) got).
Proof.
  intros G H. destruct l as [|[c q] r]; simpl; auto.
  inversion H; subst. simpl in *. auto.
Qed.

Lemma tag_nth h q c c' l : tag h q = Some c -> nth_error h q = Some (c', l) -> c' = c.
Proof. unfold tag. intros T E. rewrite E in T. simpl in T. congruence. Qed.

Theorem wf_step cfg s t e s' : wf s -> step cfg s t e = Some s' -> wf s'.
Proof.
  intros W H. destruct (step_inv _ _ _ _ _ H) as [th [h [d [a [th' [Ht [St ->]]]]]]].
  pose proof (wf_dict _ W) as WD. pose proof (wf_heap _ W) as WH.
  assert (WT : thread_ok (heap s) th).
  { pose proof (wf_thr _ W) as F. rewrite Forall_forall in F. apply F. eapply nth_error_In; eauto. }
  inv_step St; simpl in WT.
  - (* lookup hit *)
    apply (wf_update s t _ _ _ _ _ Ht W (tag_mono_refl _)); auto. simpl.
    apply dlookup_in in Heqo. unfold pairs_ok in WD. rewrite Forall_forall in WD.
    specialize (WD _ Heqo). simpl in WD. eauto.
  - (* lookup miss, atomic creation *)
    apply (wf_update s t _ _ _ _ _ Ht W (tag_mono_app _ _)).
    + apply Forall_app; split.
      * eapply pairs_ok_mono; [apply tag_mono_app|]; auto.
      * constructor; [|constructor]. simpl. apply tag_app_new.
    + apply heap_ok_app; auto.
    + simpl. do 2 eexists; split; eauto. apply tag_app_new.
  - (* lookup miss, enters the factory *)
    apply (wf_update s t _ _ _ _ _ Ht W (tag_mono_refl _)); simpl; auto.
  - (* factory call *)
    apply (wf_update s t _ _ _ _ _ Ht W (tag_mono_app _ _)).
    + eapply pairs_ok_mono; [apply tag_mono_app|]; auto.
    + apply heap_ok_app; auto.
    + simpl. do 2 eexists; split; eauto. apply tag_app_new.
  - (* store *)
    destruct WT as [cx [rx [E T]]]. inversion E; subst.
    apply (wf_update s t _ _ _ _ _ Ht W (tag_mono_refl _)); auto.
    + apply pairs_ok_dstore; auto.
    + simpl. eauto.
  - (* mkmsg *)
    destruct WT as [cx [rx [E T]]]. inversion E; subst.
    apply (wf_update s t _ _ _ _ _ Ht W (tag_mono_refl _)); auto. simpl. eauto.
  - (* append *)
    destruct WT as [cx [rx [E [T C]]]]. inversion E; subst.
    pose proof (tag_nth _ _ _ _ _ T Heqo) as ->.
    apply (wf_update s t _ _ _ _ _ Ht W (tag_mono_set _ _ _ _ _ Heqo)); simpl; auto.
    + eapply pairs_ok_mono; [eapply tag_mono_set; eauto|]; auto.
    + eapply heap_ok_set; eauto. apply Forall_app; split; eauto.
  - (* for, from start *)
    apply (wf_update s t _ _ _ _ _ Ht W (tag_mono_refl _)); auto. apply scan_next_ok; tauto.
  - (* for, continuing *)
    apply (wf_update s t _ _ _ _ _ Ht W (tag_mono_refl _)); auto. apply scan_next_ok; tauto.
  - (* match: yes *)
    apply (wf_update s t _ _ _ _ _ Ht W (tag_mono_refl _)); auto.
    destruct WT as [G [T R]]. simpl. repeat split; eauto.
  - (* match: no *)
    apply (wf_update s t _ _ _ _ _ Ht W (tag_mono_refl _)); auto.
    destruct WT as [G [T R]]. simpl. repeat split; eauto.
  - (* locked pop, empty *)
    apply (wf_update s t _ _ _ _ _ Ht W (tag_mono_refl _)); auto.
    destruct WT as [G [_ R]]. simpl. repeat split; auto. discriminate.
  - (* locked pop *)
    destruct WT as [G [[cx [T F]] R]]. pose proof (tag_nth _ _ _ _ _ T Heqo) as ->.
    pose proof (WH _ _ _ Heqo) as Fq. apply Forall_cons_iff in Fq as [Fm Fl].
    apply (wf_update s t _ _ _ _ _ Ht W (tag_mono_set _ _ _ _ _ Heqo)); simpl; auto.
    + eapply pairs_ok_mono; [eapply tag_mono_set; eauto|]; auto.
    + eapply heap_ok_set; eauto.
    + repeat split; auto.
      * intros m0 E0. injection E0 as <-. rewrite Fm. exact F.
      * eapply pairs_ok_mono; [eapply tag_mono_set; eauto|]; auto.
  - (* unlocked check, empty *)
    apply (wf_update s t _ _ _ _ _ Ht W (tag_mono_refl _)); auto.
  - (* unlocked check, non-empty *)
    apply (wf_update s t _ _ _ _ _ Ht W (tag_mono_refl _)); auto.
  - (* unlocked pop: crash *)
    apply (wf_update s t _ _ _ _ _ Ht W (tag_mono_refl _)); auto. simpl; tauto.
  - (* unlocked pop *)
    destruct WT as [G [[cx [T F]] R]]. pose proof (tag_nth _ _ _ _ _ T Heqo) as ->.
    pose proof (WH _ _ _ Heqo) as Fq. apply Forall_cons_iff in Fq as [Fm Fl].
    apply (wf_update s t _ _ _ _ _ Ht W (tag_mono_set _ _ _ _ _ Heqo)); simpl; auto.
    + eapply pairs_ok_mono; [eapply tag_mono_set; eauto|]; auto.
    + eapply heap_ok_set; eauto.
    + repeat split; auto.
      * intros m0 E0. injection E0 as <-. rewrite Fm. exact F.
      * eapply pairs_ok_mono; [eapply tag_mono_set; eauto|]; auto.
  - (* unlocked: `if q` was false *)
    apply (wf_update s t _ _ _ _ _ Ht W (tag_mono_refl _)); auto.
    destruct WT as [G [_ R]]. simpl. repeat split; auto. discriminate.
  - (* check: some *)
    apply (wf_update s t _ _ _ _ _ Ht W (tag_mono_refl _)); auto.
    destruct WT as [G [M R]]. simpl. split; auto.
  - (* check: none *)
    apply (wf_update s t _ _ _ _ _ Ht W (tag_mono_refl _)); auto.
    destruct WT as [G [M R]]. simpl. split; auto.
  - (* yield *)
    apply (wf_update s t _ _ _ _ _ Ht W (tag_mono_refl _)); auto.
    destruct WT as [G M]. simpl. split; auto. apply Forall_app; split; auto.
Qed.

(* ---------------------------------------------------------------------------------- *)
(* 3. atomic creation: the table and the heap stay in one-to-one correspondence          *)

Definition no_factory_th (th : thread) : Prop :=
  match th with TPub _ _ PFactory | TPub _ _ (PStore _) => False | _ => True end.

Record atomic_inv (s : state) : Prop := mkAtomic {
  ai_keys : map fst (dict s) = map fst (heap s);
  ai_ids : map snd (dict s) = seq 0 (List.length (heap s));
  ai_thr : Forall no_factory_th (thr s)
}.

Lemma map_fst_set_nth {A B} (h : list (A * B)) q c l l' :
  nth_error h q = Some (c, l) -> map fst (set_nth q (c, l') h) = map fst h.
Proof.
  intro H. destruct (set_nth_split _ _ _ H) as [l1 [l2 [-> [_ S]]]]. rewrite S.
  rewrite !map_app. reflexivity.
Qed.

Theorem atomic_step cfg s t e s' :
  atomic_create cfg = true -> atomic_inv s -> step cfg s t e = Some s' -> atomic_inv s'.
Proof.
  intros HA A H. destruct (step_inv _ _ _ _ _ H) as [th [h [d [a [th' [Ht [St ->]]]]]]].
  destruct A as [K I T].
  assert (NT : no_factory_th th).
  { rewrite Forall_forall in T. apply T. eapply nth_error_In; eauto. }
  inv_step St; simpl in NT; try contradiction; try congruence;
    (constructor; simpl;
     [ try assumption; try (rewrite !map_app, K; reflexivity);
       try (erewrite map_fst_set_nth by eauto; assumption)
     | try assumption;
       try (rewrite map_app, app_length, I; simpl; rewrite Nat.add_1_r, seq_S; reflexivity);
       try (rewrite set_nth_length; assumption)
     | apply Forall_set_nth; simpl; auto ]).
Qed.

Lemma flat_map_ext_in {A B} (f g : A -> list B) l :
  (forall x, In x l -> f x = g x) -> flat_map f l = flat_map g l.
Proof.
  induction l as [|a l IH]; simpl; intro H; auto.
  rewrite H by auto. rewrite IH; auto.
Qed.

Lemma flat_map_map {A B C} (g : A -> B) (f : B -> list C) l :
  flat_map (fun x => f (g x)) l = flat_map f (map g l).
Proof. induction l; simpl; congruence. Qed.

Lemma queue_seq (h : list (chan * list msg)) :
  flat_map (queue_of h) (seq 0 (List.length h)) = flat_map snd h.
Proof.
  induction h as [|x h IH] using rev_ind; auto.
  rewrite app_length. simpl. rewrite Nat.add_1_r, seq_S. rewrite !flat_map_app. simpl.
  rewrite <- IH. f_equal.
  - apply flat_map_ext_in. intros q Hq. apply in_seq in Hq. unfold queue_of.
    rewrite nth_error_app1 by lia. reflexivity.
  - unfold queue_of. rewrite nth_error_app2 by lia. rewrite Nat.sub_diag. simpl. destruct x; reflexivity.
Qed.

Lemma reachable_all s : atomic_inv s -> reachable_queued s = all_queued s.
Proof.
  intros [K I T]. unfold reachable_queued, all_queued.
  rewrite (flat_map_map snd (queue_of (heap s))). rewrite I. apply queue_seq.
Qed.

(* ---------------------------------------------------------------------------------- *)
(* 4. message identities are unique (any variant)                                       *)

Definition pseq (th : thread) : option nat := match th with TPub _ n _ => Some n | _ => None end.
Definition pappend_ok (t : tid) (th : thread) : Prop :=
  match th with TPub _ n (PAppend _ m) => m_pub m = t /\ m_seq m = n | _ => True end.

Record uniq_inv (s : state) : Prop := mkUniq {
  u_nodup : NoDup (appended s);
  u_seq : forall m, In m (appended s) ->
          exists n, option_map pseq (nth_error (thr s) (m_pub m)) = Some (Some n) /\ m_seq m < n;
  u_app : forall t th, nth_error (thr s) t = Some th -> pappend_ok t th
}.

Lemma step_thread_seq cfg t h d a th e h' d' a' th' :
  step_thread cfg t h d a th e = Some (h', d', a', th') -> pappend_ok t th ->
  pappend_ok t th' /\
  ((a' = a /\ pseq th' = pseq th) \/
   (exists n m, pseq th = Some n /\ pseq th' = Some (S n) /\ a' = a ++ [m] /\ m_pub m = t /\ m_seq m = n)).
Proof.
  intros St PA. inv_step St; simpl in *; split; auto;
    try (left; split; reflexivity).
  right. destruct PA. eauto 8.
Qed.

Lemma pseq_set_nth (l : list thread) t th th' k :
  nth_error l t = Some th -> pseq th' = pseq th ->
  option_map pseq (nth_error (set_nth t th' l) k) = option_map pseq (nth_error l k).
Proof.
  intros H E. destruct (Nat.eq_dec t k) as [->|N].
  - rewrite (nth_error_set_nth_eq _ _ _ _ H), H. simpl. congruence.
  - rewrite nth_error_set_nth_neq by auto. reflexivity.
Qed.

Theorem uniq_step cfg s t e s' : uniq_inv s -> step cfg s t e = Some s' -> uniq_inv s'.
Proof.
  intros [ND SQ AP] H. destruct (step_inv _ _ _ _ _ H) as [th [h [d [a [th' [Ht [St ->]]]]]]].
  destruct (step_thread_seq _ _ _ _ _ _ _ _ _ _ _ St (AP _ _ Ht)) as [PA' [[-> Ep]|[n [m [E1 [E2 [-> [Em Es]]]]]]]].
  - constructor; simpl; auto.
    + intros m Hm. destruct (SQ m Hm) as [n [E L]]. exists n. split; auto.
      rewrite (pseq_set_nth _ _ _ _ _ Ht Ep). exact E.
    + intros t0 th0 H0. destruct (nth_error_set_nth_inv _ _ _ _ _ _ Ht H0) as [[-> ->]|[N X]]; auto.
  - assert (NI : ~ In m (appended s)).
    { intro Hm. destruct (SQ m Hm) as [n0 [E L]]. rewrite Em, Ht in E. simpl in E. rewrite E1 in E.
      inversion E; subst. lia. }
    constructor; simpl.
    + eapply Permutation_NoDup; [apply Permutation_cons_append|]. constructor; auto.
    + intros m0 Hm0. apply in_app_or in Hm0 as [Hm0|[<-|[]]].
      * destruct (SQ m0 Hm0) as [n0 [E L]]. destruct (Nat.eq_dec (m_pub m0) t) as [Et|Nt].
        -- rewrite Et in *. rewrite Ht in E. simpl in E. rewrite E1 in E. inversion E; subst n0.
           exists (S n). rewrite (nth_error_set_nth_eq _ _ _ _ Ht). simpl. rewrite E2. split; auto.
        -- exists n0. rewrite nth_error_set_nth_neq by auto. auto.
      * exists (S n). rewrite Em. rewrite (nth_error_set_nth_eq _ _ _ _ Ht). simpl. rewrite E2. split; auto. lia.
    + intros t0 th0 H0. destruct (nth_error_set_nth_inv _ _ _ _ _ _ Ht H0) as [[-> ->]|[N X]]; auto.
Qed.

(* ---------------------------------------------------------------------------------- *)
(* initial states                                                                      *)

Lemma init_fold (P : list (chan * list msg) * list (chan * qid) -> Prop) :
  (forall hd c, P hd -> P (add_chan hd c)) -> forall pre hd, P hd -> P (fold_left add_chan pre hd).
Proof. intros S. induction pre; simpl; auto. Qed.

Lemma initial_held ths : Forall initial_th ths -> flat_map held_of ths = [].
Proof.
  induction 1 as [|th l H _ IH]; simpl; auto. rewrite IH.
  destruct th as [todo [|n] pc|p pc got]; simpl in H; try contradiction.
  - destruct pc; try contradiction. reflexivity.
  - destruct pc; try contradiction. destruct got; try contradiction. reflexivity.
Qed.

Lemma init_cons pre ths : Forall initial_th ths -> cons (init pre ths).
Proof.
  intro F. unfold cons, held, all_queued, init. simpl. rewrite (initial_held _ F). simpl.
  apply (init_fold (fun hd => Permutation [] (flat_map snd (fst hd)))).
  - intros hd c H. simpl. rewrite heap_alloc_queued. exact H.
  - simpl. constructor.
Qed.

Lemma initial_thread_ok h th : initial_th th -> thread_ok h th.
Proof.
  destruct th as [todo [|n] pc|p pc got]; simpl; try contradiction.
  - destruct pc; try contradiction; auto.
  - destruct pc; try contradiction. destruct got; try contradiction. intros _. split; [constructor|auto].
Qed.

Lemma init_wf pre ths : Forall initial_th ths -> wf (init pre ths).
Proof.
  intro F. unfold init.
  assert (X : pairs_ok (fst (fold_left add_chan pre ([], []))) (snd (fold_left add_chan pre ([], []))) /\
              heap_ok (fst (fold_left add_chan pre ([], [])))).
  { apply (init_fold (fun hd => pairs_ok (fst hd) (snd hd) /\ heap_ok (fst hd))).
    - intros [h d] c [A B]. simpl in *. split.
      + apply Forall_app; split.
        * eapply pairs_ok_mono; [apply tag_mono_app|]; auto.
        * constructor; [|constructor]. simpl. apply tag_app_new.
      + apply heap_ok_app; auto.
    - simpl. split; [constructor|]. intros q c l E. destruct q; discriminate. }
  destruct X as [A B]. constructor; simpl; auto.
  eapply Forall_impl; [|exact F]. intros th; apply initial_thread_ok.
Qed.

Lemma init_atomic pre ths : Forall initial_th ths -> atomic_inv (init pre ths).
Proof.
  intro F. unfold init.
  assert (X : map fst (snd (fold_left add_chan pre ([], []))) = map fst (fst (fold_left add_chan pre ([], []))) /\
              map snd (snd (fold_left add_chan pre ([], []))) = seq 0 (List.length (fst (fold_left add_chan pre ([], []))))).
  { apply (init_fold (fun hd => map fst (snd hd) = map fst (fst hd) /\ map snd (snd hd) = seq 0 (List.length (fst hd)))).
    - intros [h d] c [A B]. simpl in *. rewrite !map_app, app_length, A, B. simpl.
      rewrite Nat.add_1_r, seq_S. auto.
    - simpl. auto. }
  destruct X as [A B]. constructor; simpl; auto.
  eapply Forall_impl; [|exact F]. intros th. destruct th as [todo n pc|]; simpl; auto.
  destruct n; try contradiction. destruct pc; simpl; auto.
Qed.

Lemma init_uniq pre ths : Forall initial_th ths -> uniq_inv (init pre ths).
Proof.
  intro F. constructor; simpl.
  - constructor.
  - intros m [].
  - intros t th H. apply nth_error_In in H. rewrite Forall_forall in F. specialize (F _ H).
    destruct th as [todo [|n] pc|]; simpl in *; auto; try contradiction. destruct pc; auto; contradiction.
Qed.

(* ---------------------------------------------------------------------------------- *)
(* conservation, for every schedule                                                    *)

Lemma all_done_held s : all_done s = true -> held s = delivered s.
Proof.
  unfold all_done, held, delivered. induction (thr s) as [|th l IH]; simpl; auto.
  intro H. apply andb_prop in H as [H1 H2]. rewrite IH by auto. f_equal.
  destruct th as [todo n pc|p pc got]; simpl in *.
  - reflexivity.
  - destruct pc; try discriminate. unfold held_of. simpl. apply app_nil_r.
Qed.

Definition safe (s : state) : Prop := cons s /\ wf s /\ atomic_inv s /\ uniq_inv s.

Lemma safe_step cfg s t e s' : atomic_create cfg = true -> safe s -> step cfg s t e = Some s' -> safe s'.
Proof.
  intros HA [C [W [A U]]] H. split; [|split; [|split]].
  - eapply cons_step; eauto.
  - eapply wf_step; eauto.
  - eapply atomic_step; eauto.
  - eapply uniq_step; eauto.
Qed.

Lemma safe_init pre ths : Forall initial_th ths -> safe (init pre ths).
Proof.
  intro F. split; [|split; [|split]].
  - apply init_cons; auto.
  - apply init_wf; auto.
  - apply init_atomic; auto.
  - apply init_uniq; auto.
Qed.

Lemma safe_conservation s :
  safe s ->
  Permutation (appended s) (held s ++ reachable_queued s) /\ NoDup (held s ++ reachable_queued s).
Proof.
  intros [C [W [A U]]]. rewrite (reachable_all _ A). split; [exact C|].
  eapply Permutation_NoDup; [exact C|]. apply (u_nodup _ U).
Qed.

Theorem conservation_run cfg pre ths sch :
  atomic_create cfg = true -> Forall initial_th ths ->
  let s := run cfg sch (init pre ths) in
  Permutation (appended s) (held s ++ reachable_queued s) /\ NoDup (held s ++ reachable_queued s).
Proof.
  intros HA F s. apply safe_conservation. unfold s.
  apply (run_invariant cfg safe); [intros; eapply safe_step; eauto|]. apply safe_init; auto.
Qed.

Lemma NoDup_app_l {A} (l l' : list A) : NoDup (l ++ l') -> NoDup l.
Proof.
  induction l as [|a l IH]; simpl; intro H; [constructor|].
  inversion H; subst. constructor; auto. intro X. apply H2. apply in_or_app; auto.
Qed.

Lemma msg_eqb_refl m : msg_eqb m m = true.
Proof. unfold msg_eqb. rewrite !Nat.eqb_refl, String.eqb_refl. reflexivity. Qed.

Lemma mem_msg_in m l : In m l -> mem_msg m l = true.
Proof. intro H. unfold mem_msg. apply existsb_exists. exists m. split; auto. apply msg_eqb_refl. Qed.

Lemma filter_none {A} (f : A -> bool) l : (forall x, In x l -> f x = false) -> filter f l = [].
Proof.
  induction l as [|a l IH]; simpl; auto. intro H. rewrite (H a) by auto. apply IH. auto.
Qed.

Lemma conserved_not_lost s :
  Permutation (appended s) (held s ++ reachable_queued s) -> lost s = [].
Proof.
  intro P. unfold lost. apply filter_none. intros m Hm.
  apply (Permutation_in _ P) in Hm. apply in_app_or in Hm as [Hm|Hm].
  - rewrite (mem_msg_in _ _ Hm). reflexivity.
  - rewrite (mem_msg_in _ _ Hm). apply andb_false_r.
Qed.

Theorem exactly_once_at_end cfg pre ths sch :
  atomic_create cfg = true -> Forall initial_th ths ->
  let s := run cfg sch (init pre ths) in
  all_done s = true ->
  Permutation (appended s) (delivered s ++ reachable_queued s) /\ NoDup (delivered s) /\ lost s = [].
Proof.
  intros HA F s D. destruct (conservation_run cfg pre ths sch HA F) as [P N]. fold s in P, N.
  split; [|split].
  - rewrite <- (all_done_held _ D). exact P.
  - rewrite <- (all_done_held _ D). eapply NoDup_app_l; eauto.
  - apply conserved_not_lost; auto.
Qed.

Theorem no_foreign_run cfg pre ths sch :
  Forall initial_th ths ->
  let s := run cfg sch (init pre ths) in
  forall t p pc got, nth_error (thr s) t = Some (TSub p pc got) -> matched p got.
Proof.
  intros F s t p pc got H.
  assert (W : wf s).
  { unfold s. apply (run_invariant cfg wf); [intros; eapply wf_step; eauto|]. apply init_wf; auto. }
  pose proof (wf_thr _ W) as T. rewrite Forall_forall in T.
  specialize (T _ (nth_error_In _ _ H)). simpl in T. tauto.
Qed.

(* ---------------------------------------------------------------------------------- *)
(* 5. FIFO per (publishing thread, channel), with atomic creation                       *)

Definition before (m m' : msg) : Prop :=
  m_pub m = m_pub m' -> m_chan m = m_chan m' -> m_seq m < m_seq m'.
Fixpoint ordered (l : list msg) : Prop :=
  match l with [] => True | m :: tl => Forall (before m) tl /\ ordered tl end.

Lemma ordered_app_one l m : ordered l -> Forall (fun x => before x m) l -> ordered (l ++ [m]).
Proof.
  induction l as [|a l IH]; simpl; intros O F.
  - split; [constructor|exact I].
  - destruct O as [Fa O]. apply Forall_cons_iff in F as [Ha F]. split.
    + apply Forall_app; split; auto.
    + apply IH; auto.
Qed.

Record fifo_inv (s : state) : Prop := mkFifo {
  f_queue : forall q c l, nth_error (heap s) q = Some (c, l) -> ordered l;
  f_held : forall th, In th (thr s) -> ordered (held_of th);
  f_cross : forall th q c l m m', In th (thr s) -> nth_error (heap s) q = Some (c, l) ->
            In m (held_of th) -> In m' l -> before m m';
  f_keys : NoDup (map fst (heap s))
}.

Lemma In_set_nth {A} : forall (l : list A) n y x, In x (set_nth n y l) -> x = y \/ In x l.
Proof.
  induction l as [|h tl IH]; intros [|n] y x H; simpl in *; auto.
  - destruct H; auto.
  - destruct H as [H|H]; auto. destruct (IH _ _ _ H); auto.
Qed.

Lemma fifo_same s t th th' d a :
  nth_error (thr s) t = Some th -> held_of th' = held_of th -> fifo_inv s ->
  fifo_inv (mkState (heap s) d (set_nth t th' (thr s)) a).
Proof.
  intros Ht E [Q Hd X K]. pose proof (nth_error_In _ _ Ht) as It. constructor; simpl; auto.
  - intros th0 H0. apply In_set_nth in H0 as [->|H0]; auto. rewrite E; auto.
  - intros th0 q c l m m' H0. apply In_set_nth in H0 as [->|H0]; eauto. rewrite E; eauto.
Qed.

Lemma dlookup_none c d : dlookup c d = None -> ~ In c (map fst d).
Proof.
  induction d as [|[c' q] tl IH]; simpl; auto.
  destruct (String.eqb c c') eqn:E; [discriminate|]. intros H [X|X]; [|apply IH; auto].
  subst. rewrite String.eqb_refl in E. discriminate.
Qed.

Lemma fifo_alloc s t th th' d a c :
  nth_error (thr s) t = Some th -> held_of th' = held_of th -> ~ In c (map fst (heap s)) -> fifo_inv s ->
  fifo_inv (mkState (heap s ++ [(c, [])]) d (set_nth t th' (thr s)) a).
Proof.
  intros Ht E NI [Q Hd X K]. pose proof (nth_error_In _ _ Ht) as It.
  assert (G : forall q c0 l, nth_error (heap s ++ [(c, [])]) q = Some (c0, l) ->
                             nth_error (heap s) q = Some (c0, l) \/ l = []).
  { intros q c0 l H. destruct (Nat.lt_ge_cases q (List.length (heap s))) as [L|L].
    - rewrite nth_error_app1 in H by auto. auto.
    - rewrite nth_error_app2 in H by auto. destruct (q - List.length (heap s)) as [|[|k]]; simpl in H; try discriminate.
      inversion H; auto. }
  constructor; simpl.
  - intros q c0 l H. destruct (G _ _ _ H) as [H'| ->]; [eauto|exact I].
  - intros th0 H0. apply In_set_nth in H0 as [->|H0]; auto. rewrite E; auto.
  - intros th0 q c0 l m m' H0 H. destruct (G _ _ _ H) as [H'| ->]; [|intros _ []].
    apply In_set_nth in H0 as [->|H0]; eauto. rewrite E; eauto.
  - rewrite map_app. simpl. eapply Permutation_NoDup; [apply Permutation_cons_append|]. constructor; auto.
Qed.

Lemma keys_inj (h : list (chan * list msg)) q q' c l l' :
  NoDup (map fst h) -> nth_error h q = Some (c, l) -> nth_error h q' = Some (c, l') -> q = q'.
Proof.
  intros N H H'. eapply (proj1 (NoDup_nth_error (map fst h))); eauto.
  - rewrite map_length. apply nth_error_Some. congruence.
  - rewrite !nth_error_map, H, H'. reflexivity.
Qed.

Lemma in_held s th m : In th (thr s) -> In m (held_of th) -> In m (held s).
Proof. intros A B. unfold held. apply in_flat_map. eauto. Qed.

Lemma in_queued s q c l m : nth_error (heap s) q = Some (c, l) -> In m l -> In m (all_queued s).
Proof. intros A B. unfold all_queued. apply in_flat_map. exists (c, l). split; auto. eapply nth_error_In; eauto. Qed.

Lemma below s t th n x :
  cons s -> uniq_inv s -> nth_error (thr s) t = Some th -> pseq th = Some n ->
  In x (held s) \/ In x (all_queued s) -> m_pub x = t -> m_seq x < n.
Proof.
  intros C U Ht Ep Hx Et.
  assert (Ha : In x (appended s)).
  { eapply Permutation_in; [symmetry; exact C|]. apply in_or_app. exact Hx. }
  destruct (u_seq _ U _ Ha) as [n0 [E L]]. rewrite Et, Ht in E. simpl in E. congruence.
Qed.

Lemma fifo_pop s t p got rest' pc q c l m :
  nth_error (thr s) t = Some (TSub p pc got) -> inflight_of (TSub p pc got) = [] ->
  nth_error (heap s) q = Some (c, m :: l) -> wf s -> fifo_inv s ->
  forall d a, fifo_inv (mkState (set_nth q (c, l) (heap s)) d
                                (set_nth t (TSub p (SCheck (Some m) rest') got) (thr s)) a).
Proof.
  intros Ht Ei Hq W [Q Hd X K] d a. pose proof (nth_error_In _ _ Ht) as It.
  assert (Eh : held_of (TSub p pc got) = got) by (unfold held_of; rewrite Ei; apply app_nil_r).
  assert (Eh' : held_of (TSub p (SCheck (Some m) rest') got) = got ++ [m]) by reflexivity.
  pose proof (Q _ _ _ Hq) as [Fm Ol].
  (* queue contents only shrink *)
  assert (G : forall q0 c0 l0, nth_error (set_nth q (c, l) (heap s)) q0 = Some (c0, l0) ->
              exists l1, nth_error (heap s) q0 = Some (c0, l1) /\ (forall x, In x l0 -> In x l1) /\
                         ((q0 = q /\ l0 = l) \/ (q0 <> q /\ l0 = l1))).
  { intros q0 c0 l0 H. destruct (nth_error_set_nth_inv _ _ _ _ _ _ Hq H) as [[-> E]|[N E]].
    - inversion E; subst. exists (m :: l). repeat split; auto. intros; right; auto.
    - exists l0. repeat split; auto. }
  constructor; simpl.
  - intros q0 c0 l0 H. destruct (G _ _ _ H) as [l1 [H1 [_ [[-> ->]|[N ->]]]]]; eauto.
  - intros th0 H0. apply In_set_nth in H0 as [->|H0]; auto.
    rewrite Eh'. apply ordered_app_one.
    + rewrite <- Eh. auto.
    + rewrite Forall_forall. intros x Hx. eapply (X _ _ _ _ x m It Hq); [rewrite Eh; auto|left; auto].
  - intros th0 q0 c0 l0 m0 m' H0 H Hm0 Hm'.
    destruct (G _ _ _ H) as [l1 [H1 [Sub Cs]]].
    apply In_set_nth in H0 as [->|H0]; [|eauto].
    rewrite Eh' in Hm0. apply in_app_or in Hm0 as [Hm0|[<-|[]]].
    + eapply (X _ _ _ _ m0 m' It H1); [rewrite Eh; auto|auto].
    + destruct Cs as [[-> ->]|[N ->]].
      * rewrite Forall_forall in Fm. auto.
      * intros _ Ec. exfalso. apply N.
        pose proof (wf_heap _ W _ _ _ Hq) as F1. pose proof (wf_heap _ W _ _ _ H1) as F2.
        rewrite Forall_forall in F1, F2. pose proof (F1 m (or_introl eq_refl)) as E1. pose proof (F2 _ Hm') as E2.
        assert (E3 : c0 = c) by congruence. rewrite E3 in H1. exact (keys_inj _ _ _ _ _ _ K H1 Hq).
  - erewrite map_fst_set_nth by eauto. auto.
Qed.

Lemma held_scan p l got pc :
  inflight_of (TSub p pc got) = [] -> held_of (TSub p (scan_next l) got) = held_of (TSub p pc got).
Proof. intro E. unfold held_of. rewrite E. destruct l as [|[c q] r]; reflexivity. Qed.

Theorem fifo_step cfg s t e s' :
  atomic_create cfg = true -> safe s -> fifo_inv s -> step cfg s t e = Some s' -> fifo_inv s'.
Proof.
  intros HA [C [W [A U]]] FI H.
  destruct (step_inv _ _ _ _ _ H) as [th [h [d [a [th' [Ht [St ->]]]]]]].
  assert (NT : no_factory_th th).
  { pose proof (ai_thr _ A) as T. rewrite Forall_forall in T. apply T. eapply nth_error_In; eauto. }
  pose proof (u_app _ U _ _ Ht) as PA.
  inv_step St; simpl in NT; try contradiction; try congruence;
    try (apply (fifo_same s t _ _ _ _ Ht); auto;
         first [ apply held_scan; reflexivity
               | unfold held_of; simpl; rewrite ?app_nil_r; reflexivity ]).
  - (* atomic creation *)
    apply (fifo_alloc s t _ _ _ _ _ Ht); auto.
    rewrite <- (ai_keys _ A). apply dlookup_none; auto.
  - (* append *)
    simpl in PA. destruct PA as [Ep Es].
    destruct FI as [Q Hd X K]. pose proof (nth_error_In _ _ Ht) as It.
    assert (B : forall x, In x (held s) \/ In x (all_queued s) -> before x m).
    { intros x Hx Ex _. rewrite Es. eapply (below s t _ seq x C U Ht); eauto. congruence. }
    constructor; simpl.
    + intros q1 c1 l1 H0. destruct (nth_error_set_nth_inv _ _ _ _ _ _ Heqo H0) as [[-> E]|[N E]]; eauto.
      inversion E; subst. apply ordered_app_one; eauto.
      rewrite Forall_forall. intros x Hx. apply B. right. eapply in_queued; eauto.
    + intros th0 H0. apply In_set_nth in H0 as [->|H0]; auto; exact I.
    + intros th0 q1 c1 l1 m0 m' H0 H1 Hm0 Hm'. apply In_set_nth in H0 as [->|H0]; [destruct Hm0|].
      destruct (nth_error_set_nth_inv _ _ _ _ _ _ Heqo H1) as [[-> E]|[N E]]; eauto.
      inversion E; subst. apply in_app_or in Hm' as [Hm'|[<-|[]]]; eauto.
      apply B. left. eapply in_held; eauto.
    + erewrite map_fst_set_nth by eauto. auto.
  - (* locked pop *)
    eapply fifo_pop; eauto.
  - (* unlocked pop *)
    eapply fifo_pop; eauto.
Qed.

Lemma init_heap_shape : forall pre hd l0,
  (forall q c l, nth_error (fst hd) q = Some (c, l) -> l = []) /\ map fst (fst hd) = l0 ->
  (forall q c l, nth_error (fst (fold_left add_chan pre hd)) q = Some (c, l) -> l = []) /\
  map fst (fst (fold_left add_chan pre hd)) = l0 ++ pre.
Proof.
  induction pre as [|c pre IH]; intros hd l0 [A B]; simpl.
  - rewrite app_nil_r. auto.
  - replace (l0 ++ c :: pre) with ((l0 ++ [c]) ++ pre) by (rewrite <- app_assoc; reflexivity).
    apply IH. simpl. split.
    + intros q c0 l H. destruct (Nat.lt_ge_cases q (List.length (fst hd))) as [L|L].
      * rewrite nth_error_app1 in H by auto. eauto.
      * rewrite nth_error_app2 in H by auto.
        destruct (q - List.length (fst hd)) as [|[|k]]; simpl in H; try discriminate.
        inversion H; auto.
    + rewrite map_app, B. reflexivity.
Qed.

Lemma init_fifo pre ths : NoDup pre -> Forall initial_th ths -> fifo_inv (init pre ths).
Proof.
  intros N F. unfold init.
  assert (X : (forall q c l, nth_error (fst (fold_left add_chan pre ([], []))) q = Some (c, l) -> l = []) /\
              map fst (fst (fold_left add_chan pre ([], []))) = [] ++ pre).
  { apply init_heap_shape. simpl. split; [intros [|q] c l H; discriminate|reflexivity]. }
  destruct X as [E K].
  pose proof (initial_held _ F) as Hh.
  assert (He : forall th, In th ths -> held_of th = []).
  { intros th Hin. rewrite Forall_forall in F. specialize (F _ Hin).
    destruct th as [todo [|n] pc|p pc got]; simpl in F; try contradiction.
    - destruct pc; try contradiction; reflexivity.
    - destruct pc; try contradiction. destruct got; try contradiction. reflexivity. }
  constructor; simpl.
  - intros q c l H. rewrite (E _ _ _ H). exact I.
  - intros th Hin. rewrite (He _ Hin). exact I.
  - intros th q c l m m' Hin _ Hm. rewrite (He _ Hin) in Hm. destruct Hm.
  - rewrite K. exact N.
Qed.

Theorem fifo_run cfg pre ths sch :
  atomic_create cfg = true -> NoDup pre -> Forall initial_th ths ->
  fifo_inv (run cfg sch (init pre ths)).
Proof.
  intros HA N F.
  assert (X : safe (run cfg sch (init pre ths)) /\ fifo_inv (run cfg sch (init pre ths))).
  { apply (run_invariant cfg (fun s => safe s /\ fifo_inv s)).
    - intros s t e s' [S FI] H. split; [eapply safe_step; eauto|eapply fifo_step; eauto].
    - split; [apply safe_init; auto|apply init_fifo; auto]. }
  tauto.
Qed.

Lemma ordered_app_l l l' : ordered (l ++ l') -> ordered l.
Proof.
  induction l as [|a l IH]; simpl; auto. intros [F O]. apply Forall_app in F as [F _]. auto.
Qed.

Theorem fifo_observable cfg pre ths sch :
  atomic_create cfg = true -> NoDup pre -> Forall initial_th ths ->
  let s := run cfg sch (init pre ths) in
  (forall t p pc got, nth_error (thr s) t = Some (TSub p pc got) -> ordered got) /\
  (forall q c l, nth_error (heap s) q = Some (c, l) -> ordered l) /\
  (forall t p pc got q c l m m', nth_error (thr s) t = Some (TSub p pc got) ->
     nth_error (heap s) q = Some (c, l) -> In m got -> In m' l -> before m m').
Proof.
  intros HA N F s. destruct (fifo_run cfg pre ths sch HA N F) as [Q Hd X K]. fold s in Q, Hd, X, K.
  split; [|split].
  - intros t p pc got H. apply nth_error_In in H. specialize (Hd _ H). unfold held_of in Hd. simpl in Hd.
    eapply ordered_app_l; eauto.
  - exact Q.
  - intros t p pc got q c l m m' H Hq Hm Hm'. apply nth_error_In in H.
    eapply (X _ _ _ _ m m' H Hq); auto. unfold held_of. simpl. apply in_or_app; auto.
Qed.

(* ---------------------------------------------------------------------------------- *)
(* 6. drain: once all publishers have finished, a subscription that terminates has      *)
(*    emptied every matching channel (other subscribers may keep running)               *)

Definition quiescent (s : state) : Prop := Forall (fun th => pub_finished th = true) (thr s).

Definition emptied (s : state) (p : pat) (R : list qid) : Prop :=
  forall c q, In (c, q) (dict s) -> ~ In q R -> fnmatchb c p = true -> queue_of (heap s) q = [].

Definition pc_inv (s : state) (p : pat) (pc : spc) : Prop :=
  match pc with
  | SStart | SYield _ | SCheck (Some _) _ | SCrashed => True
  | SScan rest | SCheck None rest => emptied s p (map snd rest)
  | SMatch _ q rest | SWith q rest => emptied s p (q :: map snd rest)
  | SDone => emptied s p []
  | SPopDo _ _ _ => False
  end.

Lemma emptied_mono s s' p R :
  dict s' = dict s -> (forall q, queue_of (heap s) q = [] -> queue_of (heap s') q = []) ->
  emptied s p R -> emptied s' p R.
Proof. intros D M E c q H. rewrite D in H. intros. apply M. eapply E; eauto. Qed.

Lemma pc_inv_mono s s' p pc :
  dict s' = dict s -> (forall q, queue_of (heap s) q = [] -> queue_of (heap s') q = []) ->
  pc_inv s p pc -> pc_inv s' p pc.
Proof.
  intros D M. destruct pc as [| | | | | [m|] | | |]; simpl; auto; apply emptied_mono; auto.
Qed.

Lemma scan_next_inv s p l : emptied s p (map snd l) -> pc_inv s p (scan_next l).
Proof. destruct l as [|[c q] r]; simpl; auto. Qed.

Lemma queue_of_pop (h : list (chan * list msg)) q c m l q' :
  nth_error h q = Some (c, m :: l) -> queue_of h q' = [] -> queue_of (set_nth q (c, l) h) q' = [].
Proof.
  intros H E. unfold queue_of in *. destruct (Nat.eq_dec q q') as [->|N].
  - rewrite H in E. discriminate.
  - rewrite nth_error_set_nth_neq by auto. exact E.
Qed.

(* any step in a quiescent state: the table is unchanged, empty queues stay empty *)
Lemma quiet_step cfg s t e s' :
  quiescent s -> step cfg s t e = Some s' ->
  quiescent s' /\ dict s' = dict s /\ (forall q, queue_of (heap s) q = [] -> queue_of (heap s') q = []).
Proof.
  intros Qs H. destruct (step_inv _ _ _ _ _ H) as [th [h [d [a [th' [Ht [St ->]]]]]]].
  assert (Pf : pub_finished th = true).
  { unfold quiescent in Qs. rewrite Forall_forall in Qs. apply Qs. eapply nth_error_In; eauto. }
  inv_step St; simpl in Pf; try discriminate; simpl;
    (split; [apply Forall_set_nth; auto|split; [reflexivity|]]); auto;
    intros q'; eapply queue_of_pop; eauto.
Qed.

Record drain_inv (t : tid) (p : pat) (s : state) : Prop := mkDrain {
  dr_wf : wf s;
  dr_quiet : quiescent s;
  dr_pc : exists pc got, nth_error (thr s) t = Some (TSub p pc got) /\ pc_inv s p pc
}.

Theorem drain_step cfg t p s t' e s' :
  locked_ops cfg = true -> drain_inv t p s -> step cfg s t' e = Some s' -> drain_inv t p s'.
Proof.
  intros HL [W Qs [pc [got [Ht I]]]] H.
  destruct (quiet_step _ _ _ _ _ Qs H) as [Qs' [D M]].
  pose proof (wf_step _ _ _ _ _ W H) as W'.
  constructor; auto.
  destruct (Nat.eq_dec t' t) as [->|N].
  2:{ exists pc, got. split; [|eapply pc_inv_mono; eauto].
      destruct (step_inv _ _ _ _ _ H) as [th [h [d [a [th' [Ht' [St ->]]]]]]]. simpl.
      rewrite nth_error_set_nth_neq by auto. exact Ht. }
  (* the draining subscription itself moves *)
  pose proof (wf_dict _ W) as WD.
  assert (WT : thread_ok (heap s) (TSub p pc got)).
  { pose proof (wf_thr _ W) as F. rewrite Forall_forall in F. apply F. eapply nth_error_In; eauto. }
  destruct (step_inv _ _ _ _ _ H) as [th [h [d [a [th' [Ht' [St E]]]]]]].
  rewrite Ht in Ht'. inversion Ht'; subst th. clear Ht'.
  assert (Hn : forall pc' got', th' = TSub p pc' got' -> pc_inv s' p pc' ->
               exists pc got, nth_error (thr s') t = Some (TSub p pc got) /\ pc_inv s' p pc).
  { intros pc' got' -> X. exists pc', got'. split; auto. rewrite E. simpl. eapply nth_error_set_nth_eq; eauto. }
  assert (Same : forall R, emptied s p R -> emptied s' p R) by (intros; eapply emptied_mono; eauto).
  inv_step St; simpl in I; try contradiction; try congruence;
    try (eapply Hn; [reflexivity|]; simpl; auto; fail).
  - (* for, from start *)
    eapply Hn; [reflexivity|]. apply scan_next_inv. intros c q Hin Hn'. exfalso. apply Hn'.
    simpl in Hin. apply (in_map snd) in Hin. exact Hin.
  - (* for, continuing *)
    eapply Hn; [reflexivity|]. apply scan_next_inv. apply Same. exact I.
  - (* no match *)
    eapply Hn; [reflexivity|]. simpl. apply Same.
    intros c' q' Hin Hn' Hm. apply (I c' q' Hin); auto. intros [<-|X]; [|auto].
    destruct WT as [_ [T _]]. unfold pairs_ok in WD. rewrite Forall_forall in WD. specialize (WD _ Hin). simpl in WD.
    rewrite T in WD. inversion WD; subst. congruence.
  - (* pop of an empty queue *)
    eapply Hn; [reflexivity|]. simpl. apply Same.
    intros c' q' Hin Hn' Hm. destruct (Nat.eq_dec q q') as [<-|Nq].
    + unfold queue_of. rewrite Heqo. reflexivity.
    + apply (I c' q' Hin); auto. intros [X|X]; auto.
Qed.

Theorem drain_complete_run cfg s t p got0 sch :
  locked_ops cfg = true -> wf s -> quiescent s -> nth_error (thr s) t = Some (TSub p SStart got0) ->
  let s' := run cfg sch s in
  forall got, nth_error (thr s') t = Some (TSub p SDone got) ->
  forall c q, In (c, q) (dict s') -> fnmatchb c p = true -> queue_of (heap s') q = [].
Proof.
  intros HL W Qs Ht s' got H c q Hin Hm.
  assert (D : drain_inv t p s').
  { apply (run_invariant cfg (drain_inv t p)); [intros; eapply drain_step; eauto|].
    constructor; auto. exists SStart, got0. simpl. auto. }
  destruct D as [_ _ [pc [got' [Ht' I]]]]. fold s' in Ht'. rewrite H in Ht'. inversion Ht'; subst.
  simpl in I. apply (I c q); auto.
Qed.

Lemma run_app cfg a b s : run cfg (a ++ b) s = run cfg b (run cfg a s).
Proof. unfold run. apply fold_left_app. Qed.

Lemma flat_map_nil {A B} (f : A -> list B) l : (forall x, In x l -> f x = []) -> flat_map f l = [].
Proof. induction l as [|a l IH]; simpl; auto. intro H. rewrite H by auto. apply IH; auto. Qed.

(* after all publishers finished, a `*` subscription that (re)starts its scan and runs to the end --
   under any interleaving with the other subscriptions -- leaves nothing behind: everything that was
   ever appended has been delivered, exactly once *)
Theorem drain_everything cfg pre ths sch1 sch2 t got0 :
  atomic_create cfg = true -> locked_ops cfg = true -> Forall initial_th ths ->
  let s1 := run cfg sch1 (init pre ths) in
  quiescent s1 -> nth_error (thr s1) t = Some (TSub (PPrefix "") SStart got0) ->
  let s2 := run cfg sch2 s1 in
  all_done s2 = true ->
  reachable_queued s2 = [] /\ Permutation (appended s2) (delivered s2) /\ NoDup (delivered s2).
Proof.
  intros HA HL F s1 Qs Ht s2 D.
  assert (W1 : wf s1).
  { apply (run_invariant cfg wf); [intros; eapply wf_step; eauto|]. apply init_wf; auto. }
  assert (DI : drain_inv t (PPrefix "") s2).
  { apply (run_invariant cfg (drain_inv t (PPrefix ""))); [intros; eapply drain_step; eauto|].
    constructor; auto. exists SStart, got0. simpl. auto. }
  destruct DI as [_ _ [pc [got [Ht2 I]]]].
  assert (pc = SDone).
  { unfold all_done in D. rewrite forallb_forall in D. specialize (D _ (nth_error_In _ _ Ht2)).
    destruct pc; simpl in D; try discriminate. reflexivity. }
  subst pc. simpl in I.
  assert (R : reachable_queued s2 = []).
  { unfold reachable_queued. apply flat_map_nil. intros [c q] Hin. simpl. apply (I c q); [exact Hin|intros []|destruct c; reflexivity]. }
  assert (E : s2 = run cfg (sch1 ++ sch2) (init pre ths)) by (unfold s2, s1; rewrite run_app; reflexivity).
  pose proof (exactly_once_at_end cfg pre ths (sch1 ++ sch2) HA F) as X. cbv zeta in X. rewrite <- E in X.
  destruct (X D) as [P [N _]]. rewrite R, app_nil_r in P. auto.
Qed.

(* ---------------------------------------------------------------------------------- *)
(* the concrete losing schedule of the non-atomic variant                              *)

Definition race_threads : list thread := [pub ["c"%string]; pub ["c"%string]].
(* T0: Lookup (miss), FactoryCall | T1: a complete publish | T0: Store, MkMsg, Append *)
Definition race_sched : list tid := [0; 0; 1; 1; 1; 1; 1; 0; 0; 0].

Lemma race_loses l :
  let s := run (mkConfig false l) race_sched (init [] race_threads) in
  all_done s = true /\ lost s = [mkMsg 1 0 "c"%string] /\ delivered s = [].
Proof. destruct l; vm_compute; auto. Qed.
