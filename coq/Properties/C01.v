(* Properties/C01.v — Pipeline execution matches the documented dual-channel node semantics. *)
From Coq Require Import List String ZArith Bool.
From SV Require Import Common.Prelude Model.Expr Model.Pipeline Model.Sweep Model.PipelineLib
  Gen.PipelineGen Proofs.Pipeline.
Import ListNotations.
Local Open Scope string_scope.

(* Facts read from _param_resolution.py / nodes.py on this run. *)
Lemma gen_translated : translation_failed = false.
Proof. reflexivity. Qed.
Lemma gen_resolution_order : resolution_order = [RCfg; RCtx; RDflt].
Proof. reflexivity. Qed.
Lemma gen_gate_before_resolve : gate_before_resolve = true.
Proof. reflexivity. Qed.

(* (1) parameters resolve with precedence node configuration > context > processor default *)
Theorem C01_resolve_config : forall cfg c dfl name v,
  lookup name cfg = Some v -> resolve cfg c dfl name = Ok v.
Proof. exact resolve_config. Qed.
Theorem C01_resolve_context : forall cfg c dfl name v,
  lookup name cfg = None -> lookup name c = Some v -> resolve cfg c dfl name = Ok v.
Proof. exact resolve_context. Qed.
Theorem C01_resolve_default : forall cfg c dfl name v,
  lookup name cfg = None -> lookup name c = None -> lookup name dfl = Some v -> resolve cfg c dfl name = Ok v.
Proof. exact resolve_default. Qed.
Theorem C01_resolve_missing : forall cfg c dfl name,
  lookup name cfg = None -> lookup name c = None -> lookup name dfl = None ->
  resolve cfg c dfl name = Fail (Err SResolve "KeyError" name).
Proof. exact resolve_missing. Qed.

(* (2) operations/sources replace the data; probes leave it and store their result under the
   context key; sinks pass data through; context outside declared keys is untouched *)
Theorem C01_op_replaces_data : forall n d c d' c',
  (pr_kind (n_proc n) = KOp \/ pr_kind (n_proc n) = KSource) ->
  exec_node n (d, c) = Ok (d', c') ->
  (exists ps pv ops,
      resolve_all (n_cfg n) c (pr_defaults (n_proc n)) (pr_params (n_proc n)) = Ok ps /\
      pr_run (n_proc n) d ps = Ok (d', pv, ops)) /\
  (forall j, smem j (pr_created (n_proc n)) = false -> lookup j c' = lookup j c).
Proof. exact op_replaces_data. Qed.

Theorem C01_probe_passthrough : forall n d c d' c' key,
  pr_kind (n_proc n) = KProbe -> n_ckey n = Some key ->
  exec_node n (d, c) = Ok (d', c') ->
  d' = d /\
  (exists ps dd pv ops, pr_run (n_proc n) d ps = Ok (dd, pv, ops) /\ lookup key c' = Some pv) /\
  (forall j, j <> key -> smem j (pr_created (n_proc n)) = false -> lookup j c' = lookup j c).
Proof. exact probe_passthrough. Qed.

Theorem C01_sink_passthrough : forall n d c d' c',
  pr_kind (n_proc n) = KSink -> exec_node n (d, c) = Ok (d', c') ->
  d' = d /\ forall j, smem j (pr_created (n_proc n)) = false -> lookup j c' = lookup j c.
Proof. exact sink_passthrough. Qed.

(* (3) context processors create and remove only the keys they declare *)
Theorem C01_ctxproc_frame : forall n d c d' c',
  pr_kind (n_proc n) = KCtx -> exec_node n (d, c) = Ok (d', c') ->
  d' = d /\
  forall j, smem j (pr_created (n_proc n)) = false -> smem j (pr_suppressed (n_proc n)) = false ->
            lookup j c' = lookup j c.
Proof. exact ctxproc_frame. Qed.

(* (4) slicers map element-wise in order; first failing element wins *)
Theorem C01_slicer_is_map : forall p xs ps d' pv ops,
  pr_run (slice_op p) (DC xs) ps = Ok (d', pv, ops) ->
  exists ys, d' = DC ys /\
    Forall2 (fun x y => exists pv' ops', pr_run p (DF x) ps = Ok (DF y, pv', ops')) xs ys.
Proof. exact slicer_is_map. Qed.
Theorem C01_slicer_first_failure : forall p xs ps e,
  pr_run (slice_op p) (DC xs) ps = Fail e ->
  exists pre x post, xs = (pre ++ x :: post)%list /\
    Forall (fun a => exists y pv' ops', pr_run p (DF a) ps = Ok (DF y, pv', ops')) pre /\
    (pr_run p (DF x) ps = Fail e \/
     exists dd pv' ops', pr_run p (DF x) ps = Ok (dd, pv', ops') /\ as_float dd = Fail e).
Proof. exact slicer_first_failure. Qed.
Theorem C01_slice_probe_is_map : forall p xs ps d' pv ops,
  pr_run (slice_probe p) (DC xs) ps = Ok (d', pv, ops) ->
  d' = DC xs /\ exists rs, pv = VList rs /\
    Forall2 (fun x r => exists dd ops', pr_run p (DF x) ps = Ok (dd, r, ops')) xs rs.
Proof. exact slice_probe_is_map. Qed.

(* (5) prescribed failures: type gate, unresolvable parameter, undeclared context write *)
Theorem C01_type_gate_fails : forall n d c,
  is_data_kind (pr_kind (n_proc n)) = true -> gate (pr_in (n_proc n)) d = false ->
  exec_node n (d, c) = Fail (Err SGate "TypeError" "").
Proof. exact type_gate_fails. Qed.
Theorem C01_unresolved_fails : forall n d c e,
  resolve_all (n_cfg n) c (pr_defaults (n_proc n)) (pr_params (n_proc n)) = Fail e ->
  (is_data_kind (pr_kind (n_proc n)) = true -> gate (pr_in (n_proc n)) d = true) ->
  exec_node n (d, c) = Fail e.
Proof. exact unresolved_fails. Qed.
Theorem C01_undeclared_write_fails : forall n d c ps d1 pv pre k v post,
  is_data_kind (pr_kind (n_proc n)) = true -> gate (pr_in (n_proc n)) d = true ->
  resolve_all (n_cfg n) c (pr_defaults (n_proc n)) (pr_params (n_proc n)) = Ok ps ->
  pr_run (n_proc n) d ps = Ok (d1, pv, (pre ++ CSet k v :: post)%list) ->
  forallb (fun o => match o with CSet k' _ => smem k' (pr_created (n_proc n)) | CDel _ => false end) pre = true ->
  smem k (pr_created (n_proc n)) = false ->
  exec_node n (d, c) = Fail (Err SWrite "KeyError" k).
Proof. exact undeclared_write_fails. Qed.
Theorem C01_ctxproc_undeclared_write_fails : forall n d c ps d1 pv k v post,
  pr_kind (n_proc n) = KCtx ->
  resolve_all (n_cfg n) c (pr_defaults (n_proc n)) (pr_params (n_proc n)) = Ok ps ->
  pr_run (n_proc n) d ps = Ok (d1, pv, CSet k v :: post) ->
  smem k (pr_created (n_proc n)) = false ->
  exec_node n (d, c) = Fail (Err SWrite "KeyError" k).
Proof. exact ctxproc_undeclared_write_fails. Qed.

(* (6) declaration order; the run raises at exactly the failing node and no later node runs *)
Theorem C01_run_app : forall p q s,
  run (p ++ q) s = match run p s with Done s' => run_from (List.length p) q s' | o => o end.
Proof. exact run_app. Qed.
Theorem C01_abort_exact : forall p s j e,
  run p s = Failed j e ->
  j < List.length p /\
  (exists s' n, run (firstn j p) s = Done s' /\ nth_error p j = Some n /\ exec_node n s' = Fail e) /\
  (forall q, run (firstn (S j) p ++ q) s = Failed j e).
Proof. exact abort_exact. Qed.
Theorem C01_exec_log_failed : forall p s j e,
  run p s = Failed j e -> exec_log 0 p s = seq 0 (S j).
Proof. intros p s j e H. rewrite (exec_log_failed p 0 s j e H). rewrite Nat.sub_0_r. reflexivity. Qed.

(* (7) the implementation constructs all nodes first: it equals the Spec on constructible pipelines *)
Theorem C01_impl_refines_spec : forall p s, first_unconstructible 0 p = None -> impl_run p s = run p s.
Proof. exact impl_constructible. Qed.
Theorem C01_construction_preempts : forall p s j e,
  first_unconstructible 0 p = Some (j, e) -> impl_run p s = CFailed j e.
Proof. exact impl_unconstructible. Qed.

(* Non-vacuity: concrete pipelines over the library exercising every node kind and failure class. *)
Definition nd (p : proc) (cfg : list (string * val)) (k : option string) := mkNode p cfg k.
Definition ex_pipeline : list node :=
  [ nd (lib_src false) [("value", VNum 3)] None;
    nd (lib_mul false) [] None;                       (* factor from the initial context *)
    nd lib_probe [] (Some "k");
    nd (lib_rename none_value_is_noop "k" "j") [] None;
    nd (lib_template [Lit "t_"; Hole "j"] "path") [] None;
    nd (lib_mul true) [] None;                        (* context factor 5 beats the default 2 *)
    nd (lib_ctxwrite "seq") [] None;
    nd lib_sink [] None ].                            (* path produced by the template node *)
Example ex_runs :
  run ex_pipeline (DNone, [("factor", VNum 5)]) =
  Done (DF 76, [("factor", VNum 5); ("j", VNum 15); ("path", VStr "t_15.0"); ("seq", VNum 75)]).
Proof. vm_compute. reflexivity. Qed.
Example ex_config_beats_context :
  run [nd (lib_src false) [("value", VNum 1)] None; nd (lib_mul true) [("factor", VNum 7)] None]
      (DNone, [("factor", VNum 5)]) = Done (DF 7, [("factor", VNum 5)]).
Proof. vm_compute. reflexivity. Qed.
Example ex_context_beats_default :
  run [nd (lib_src false) [("value", VNum 1)] None; nd (lib_mul true) [] None]
      (DNone, [("factor", VNum 5)]) = Done (DF 5, [("factor", VNum 5)]).
Proof. vm_compute. reflexivity. Qed.
Example ex_fails_at_exact_node :
  run [nd (lib_src true) [] None; nd lib_add [] None; nd lib_failing [] None] (DNone, []) =
  Failed 1 (Err SResolve "KeyError" "addend").
Proof. vm_compute. reflexivity. Qed.
Example ex_undeclared_write :
  run [nd (lib_src true) [] None; nd (lib_badwrite "k") [] None] (DNone, []) =
  Failed 1 (Err SWrite "KeyError" "k").
Proof. vm_compute. reflexivity. Qed.
Example ex_slicer :
  run [nd (slice_op (lib_mul false)) [("factor", VNum 2)] None] (DC [1; 2; 3]%Z, []) = Done (DC [2; 4; 6]%Z, []).
Proof. vm_compute. reflexivity. Qed.
Example ex_construction_preempts :
  impl_run [nd (lib_src true) [] None; nd lib_probe [] None] (DNone, []) =
  CFailed 1 (Err SConstruct "PipelineConfigurationError" "context_key").
Proof. vm_compute. reflexivity. Qed.

Print Assumptions C01_resolve_config.
Print Assumptions C01_resolve_missing.
Print Assumptions C01_op_replaces_data.
Print Assumptions C01_probe_passthrough.
Print Assumptions C01_sink_passthrough.
Print Assumptions C01_ctxproc_frame.
Print Assumptions C01_slicer_is_map.
Print Assumptions C01_slicer_first_failure.
Print Assumptions C01_slice_probe_is_map.
Print Assumptions C01_type_gate_fails.
Print Assumptions C01_unresolved_fails.
Print Assumptions C01_undeclared_write_fails.
Print Assumptions C01_ctxproc_undeclared_write_fails.
Print Assumptions C01_run_app.
Print Assumptions C01_abort_exact.
Print Assumptions C01_exec_log_failed.
Print Assumptions C01_impl_refines_spec.
Print Assumptions C01_construction_preempts.
