(* Properties/C02.v — Static inspection is sound: accepted configs do not fail on flow at run time. *)
From Coq Require Import List String ZArith Bool.
From SV Require Import Common.Prelude Model.Expr Model.Pipeline Model.Sweep Model.PipelineLib Model.Inspect
  Gen.PipelineGen Gen.InspectGen Proofs.Pipeline Proofs.Inspect.
Import ListNotations.
Local Open Scope string_scope.

(* Facts read from inspection/builder.py and validator.py on this run (all five defects were repaired
   by fix commits: these are hard obligations, a regression breaks them by name). *)
Lemma gen_translated : translation_failed = false.
Proof. reflexivity. Qed.
Lemma gen_order_sensitive : order_sensitive impl = true.
Proof. reflexivity. Qed.
Lemma gen_deleted_at_entry : deleted_at_entry impl = true.
Proof. reflexivity. Qed.
Lemma gen_track_last_data : track_last_data impl = true.
Proof. reflexivity. Qed.
Lemma gen_origin_last : origin_last impl = true.
Proof. reflexivity. Qed.
Lemma gen_default_second_pass : default_second_pass impl = true.
Proof. reflexivity. Qed.

Lemma smem_In k l : smem k l = true -> In k l.
Proof.
  unfold smem. intros H. apply existsb_exists in H as [x [Hx E]]. apply String.eqb_eq in E. subst. exact Hx.
Qed.

(* (1) If inspection reports no node error and the initial context supplies every required key, every node
   that is reached can resolve all of its parameters: the run never fails because a parameter is
   unresolvable or a required key is missing or was deleted.  For every pipeline, payload and context;
   processors must write the keys they declare (honest). *)
Theorem C02_no_unresolvable_parameter :
  forall (p : list inode) rs required c0 d0,
  inspect impl p = (rs, required) ->
  forallb node_ok rs = true ->
  Forall (fun x => honest (fst x)) p ->
  (forall k, In k required -> has k c0 = true) ->
  forall k d' c' n o,
  run (firstn k (map fst p)) (d0, c0) = Done (d', c') ->
  nth_error p k = Some (n, o) ->
  exists ps, resolve_all (n_cfg n) c' (pr_defaults (n_proc n)) (pr_params (n_proc n)) = Ok ps.
Proof.
  intros p rs required c0 d0 HI Hok Hh Hreq k d' c' n o Hrun Hnth.
  unfold inspect in HI. destruct (inspect_from impl 1 p init_state) as [rs0 st] eqn:E.
  rewrite gen_order_sensitive in HI. injection HI as -> <-.
  eapply (keys_sound impl gen_order_sensitive gen_deleted_at_entry p 1 init_state rs st c0 E Hok Hh); eauto.
  - intros key Hk. apply Hreq. apply smem_In. exact Hk.
  - apply inv_init.
Qed.

(* (1b) ... and no data node that is reached ever fails the type gate: the data-flow check (against the
   last data-carrying node) is sound.  Processors must produce their declared output type (thonest) and
   the initial payload must suit the first data node (the validator cannot see the payload). *)
Theorem C02_no_type_gate_failure :
  forall (p : list inode) rs required d0 c0,
  inspect impl p = (rs, required) ->
  forallb node_ok rs = true -> valid impl rs = true ->
  Forall thonest p ->
  match first_data_in p with Some t => gate t d0 = true | None => True end ->
  forall k d' c' n o,
  run (firstn k (map fst p)) (d0, c0) = Done (d', c') ->
  nth_error p k = Some (n, o) -> is_ctx n = false ->
  gate (pr_in (n_proc n)) d' = true.
Proof.
  intros p rs required d0 c0 HI Hok Hv Hh H0 k d' c' n o Hrun Hnth Hd.
  unfold inspect in HI. destruct (inspect_from impl 1 p init_state) as [rs0 st] eqn:E. injection HI as -> _.
  unfold valid in Hv. apply andb_true_iff in Hv as [_ Hflow].
  unfold typeflow in Hflow. rewrite gen_track_last_data in Hflow.
  eapply (types_sound impl p 1 init_state rs st E Hok Hh None Hflow k 0 d0 c0 d' c' n o); eauto.
Qed.

(* the same statement for any variant that accumulates required keys in node order *)
Theorem C02_keys_sound_variant : forall v, order_sensitive v = true -> deleted_at_entry v = true ->
  forall p idx st rs stf c0,
  inspect_from v idx p st = (rs, stf) -> forallb node_ok rs = true ->
  Forall (fun x => honest (fst x)) p ->
  (forall k, smem k (all_required stf) = true -> has k c0 = true) ->
  forall k i d c d' c' n o, Inv c0 c st ->
  run_from i (firstn k (map fst p)) (d, c) = Done (d', c') -> nth_error p k = Some (n, o) ->
  exists ps, resolve_all (n_cfg n) c' (pr_defaults (n_proc n)) (pr_params (n_proc n)) = Ok ps.
Proof. exact keys_sound. Qed.

(* (2) the variants the code used to implement are unsound: concrete accepted pipelines that fail on flow *)
Definition nd (p : proc) (cfg : list (string * val)) (k : option string) := mkNode p cfg k.
Definition use_before_create : list inode :=
  [ (nd (lib_src false) [("value", VNum 1)] None, TF); (nd (lib_mul false) [] None, TF); (nd lib_probe [] (Some "factor"), TF) ].
Theorem C02_global_difference_refuted :
  let v := mkVariant false true true true true in
  let '(rs, required) := inspect v use_before_create in
  valid v rs = true /\ required = [] /\
  run (map fst use_before_create) (DNone, []) = Failed 1 (Err SResolve "KeyError" "factor").
Proof. vm_compute. repeat split. Qed.

Definition type_across_ctx_node : list inode :=
  [ (nd (lib_src false) [("value", VNum 1)] None, TF); (nd lib_probe [] (Some "k"), TF);
    (nd (lib_rename false "k" "j") [] None, TAny); (nd lib_csum [] None, TF) ].
Theorem C02_adjacent_typeflow_refuted :
  let v := mkVariant true false true true true in
  let '(rs, required) := inspect v type_across_ctx_node in
  valid v rs = true /\ required = [] /\
  run (map fst type_across_ctx_node) (DNone, []) = Failed 3 (Err SGate "TypeError" "").
Proof. vm_compute. repeat split. Qed.
(* ... and the repaired variants reject both *)
Example ex_repaired_rejects :
  (let '(rs, required) := inspect impl use_before_create in required) = ["factor"] /\
  (let '(rs, _) := inspect impl type_across_ctx_node in valid impl rs) = false.
Proof. vm_compute. split; reflexivity. Qed.

Definition delete_then_rename : list inode :=
  [ (nd (lib_src false) [("value", VNum 1)] None, TF); (nd (lib_delete false "k") [] None, TAny);
    (nd (lib_rename false "k" "j") [] None, TAny) ].
Theorem C02_deleted_after_own_suppression_refuted :
  let v := mkVariant true true true false true in
  let '(rs, required) := inspect v delete_then_rename in
  valid v rs = true /\ required = ["k"] /\
  run (map fst delete_then_rename) (DNone, [("k", VNum 1)]) = Failed 2 (Err SResolve "KeyError" "k").
Proof. vm_compute. repeat split. Qed.

(* (3) per-node facts: created / suppressed keys are the node's declared ones, unknown parameters are
   rejected by the same function at inspection and at construction, origins follow the classification *)
Theorem C02_reported_keys_are_declared : forall v idx n o st r st',
  inspect_node v idx (n, o) st = (r, st') -> r_invalid r = false ->
  r_created r = created_of n /\ r_suppressed r = suppressed_of n.
Proof.
  intros v idx n o st r st' H Hr. unfold inspect_node in H.
  destruct (construct n) as [u|[s cls w]]; injection H as <- _; simpl in *; [auto|discriminate].
Qed.

Theorem C02_invalid_iff_unconstructible : forall v idx n o st r st',
  inspect_node v idx (n, o) st = (r, st') ->
  (r_invalid r = true <-> exists e, construct n = Fail e).
Proof.
  intros v idx n o st r st' H. unfold inspect_node in H.
  destruct (construct n) as [u|[s cls w]] eqn:C; injection H as <- _; simpl; split; intros X;
    try discriminate; eauto. destruct X as [e X]. discriminate.
Qed.

Theorem C02_origin_last_writer : forall idx k m, nlookup k (nupdate k idx m) = Some idx.
Proof.
  intros idx k m. induction m as [|[k' v'] tl IH]; simpl.
  - rewrite String.eqb_refl. reflexivity.
  - destruct (String.eqb k k') eqn:E; simpl; rewrite ?String.eqb_refl, ?E; auto.
Qed.

(* the context a parameter is reported to come from is where resolve finds it *)
Theorem C02_config_origin_is_config : forall n st name v c,
  classify n st name = OConfig -> lookup name (n_cfg n) = Some v ->
  resolve (n_cfg n) c (pr_defaults (n_proc n)) name = Ok v.
Proof. intros n st name v c _ H. apply resolve_config. exact H. Qed.

(* (4) reported origins versus the channel actually used, for the run whose initial context holds just the
   required keys.  After the second pass of the inspector (fix c0a8174; before it, a default shadowed by a
   key another node requires was reported as 'default': C02_origin_default_refuted_when):
   - a parameter finally reported 'default' resolves to its default: its key is absent from the context
     at that node (needs nodes that really delete what they declare to suppress);
   - a parameter finally reported 'context' (earlier node, initial context, or shadowed default) resolves
     to the context value (needs nodes that really write what they declare to create). *)
Theorem C02_origin_default_truthful :
  forall (p : list inode) rs required c0 d0,
  inspect impl p = (rs, required) ->
  forallb node_ok rs = true ->
  Forall (fun x => honest_del (fst x)) p ->
  (forall k, has k c0 = true -> In k required) ->          (* the initial context holds just the required keys *)
  forall k d' c' n o r name,
  run (firstn k (map fst p)) (d0, c0) = Done (d', c') ->
  nth_error p k = Some (n, o) -> nth_error rs k = Some r ->
  In (name, ODefault) (r_origins r) ->
  exists v, lookup name (pr_defaults (n_proc n)) = Some v /\
            resolve (n_cfg n) c' (pr_defaults (n_proc n)) name = Ok v.
Proof.
  intros p rs required c0 d0 HI Hok Hh Hjust k d' c' n o r name Hrun Hnth Hr Hin.
  unfold inspect in HI. destruct (inspect_from impl 1 p init_state) as [rs0 st] eqn:E.
  rewrite gen_order_sensitive in HI. injection HI as -> <-.
  destruct (default_truthful_full impl p 1 init_state rs st c0 E Hok gen_default_second_pass Hh) with
    (k := k) (i := 0) (d := d0) (c := c0) (d' := d') (c' := c') (n := n) (o := o) (r := r) (name := name)
    as (Hc & Hcfg & Hd); auto.
  - intros key Hk. unfold smem. apply existsb_exists. exists key. split; [apply Hjust; exact Hk|apply String.eqb_refl].
  - apply uinv_init.
  - destruct (has_lookup _ _ Hd) as [v Hv]. exists v. split; auto.
    apply resolve_default; auto; apply has_false_lookup; auto.
Qed.

Theorem C02_origin_context_truthful :
  forall (p : list inode) rs required c0 d0,
  inspect impl p = (rs, required) ->
  forallb node_ok rs = true ->
  Forall (fun x => honest (fst x)) p ->
  (forall k, In k required -> has k c0 = true) ->
  forall k d' c' n o r name j,
  run (firstn k (map fst p)) (d0, c0) = Done (d', c') ->
  nth_error p k = Some (n, o) -> nth_error rs k = Some r ->
  In (name, OContext j) (r_origins r) ->
  exists v, lookup name c' = Some v /\ resolve (n_cfg n) c' (pr_defaults (n_proc n)) name = Ok v.
Proof.
  intros p rs required c0 d0 HI Hok Hh Hreq k d' c' n o r name j Hrun Hnth Hr Hin.
  unfold inspect in HI. destruct (inspect_from impl 1 p init_state) as [rs0 st] eqn:E.
  rewrite gen_order_sensitive in HI. injection HI as -> <-.
  eapply (context_truthful_full impl gen_order_sensitive gen_deleted_at_entry p 1 init_state rs st c0 E Hok Hh); eauto.
  - intros key Hk. apply Hreq. apply smem_In. exact Hk.
  - apply inv_init.
Qed.

(* "context produced by node j" (j counted from 1): node j declares the key, no node between j and the reader declares or
   suppresses it, and the value the reader resolves is the one the context holds right after node j ran *)
Theorem C02_origin_names_last_writer :
  forall (p : list inode) rs required c0 d0,
  inspect impl p = (rs, required) ->
  forallb node_ok rs = true ->
  forall k n o r name j d' c',
  nth_error p k = Some (n, o) -> nth_error rs k = Some r ->
  In (name, OContext (Some j)) (r_origins r) ->
  run (firstn k (map fst p)) (d0, c0) = Done (d', c') ->
  1 <= j <= k /\
  (exists nj oj, nth_error p (j - 1) = Some (nj, oj) /\ smem name (created_of nj) = true) /\
  exists dj cj, run (firstn j (map fst p)) (d0, c0) = Done (dj, cj) /\ lookup name c' = lookup name cj.
Proof.
  intros p rs required c0 d0 HI Hok k n o r name j d' c' Hnth Hr Hin Hrun.
  unfold inspect in HI. destruct (inspect_from impl 1 p init_state) as [rs0 st] eqn:E. injection HI as -> _.
  exact (value_from_last_creator impl gen_origin_last p rs st E Hok k n o r name j d0 c0 d' c' Hnth Hr Hin Hrun).
Qed.
(* a key created twice: the reader's origin is the second creator (the first-creator variant is refuted above by F-C02-e) *)
Definition created_twice : list inode :=
  [ (nd (lib_src false) [("value", VNum 1)] None, TF); (nd lib_probe [] (Some "factor"), TF); (nd (lib_mul false) [] None, TF);
    (nd lib_probe [] (Some "factor"), TF); (nd (lib_mul false) [] None, TF) ].
Example ex_created_twice :
  (let '(rs, _) := inspect impl created_twice in map (fun r => r_origins r) rs) =
    [[]; []; [("factor", OContext (Some 2))]; []; [("factor", OContext (Some 4))]] /\
  run (map fst created_twice) (DNone, []) = Done (DF 1, [("factor", VNum 1)]).
Proof. vm_compute. split; reflexivity. Qed.

(* the per-classification statements (any inspector state) *)
Theorem C02_classified_context_truthful : forall n st name j c,
  classify n st name = OContext j -> has name c = true ->
  exists v, lookup name c = Some v /\ resolve (n_cfg n) c (pr_defaults (n_proc n)) name = Ok v.
Proof. exact origin_context_truthful. Qed.
Theorem C02_classified_default_truthful : forall n st name c,
  classify n st name = ODefault -> has name c = false ->
  exists v, lookup name (pr_defaults (n_proc n)) = Some v /\
            resolve (n_cfg n) c (pr_defaults (n_proc n)) name = Ok v.
Proof. exact origin_default_truthful. Qed.

Definition shadowed : list inode :=
  [ (nd (lib_src false) [("value", VNum 1)] None, TF); (nd (lib_mul true) [] None, TF); (nd (lib_mul false) [] None, TF) ].
(* without the second pass: node 2 reports factor = default, the required keys are exactly ["factor"], and
   with exactly that key supplied node 2 multiplies by the context value 5, not by its default 2 *)
Theorem C02_origin_default_refuted_when :
  let v := mkVariant true true true true false in
  (let '(rs, required) := inspect v shadowed in
   (required, map (fun r => r_origins r) rs)) = (["factor"], [[]; [("factor", ODefault)]; [("factor", OContext None)]]) /\
  run (map fst shadowed) (DNone, [("factor", VNum 5)]) = Done (DF 25, [("factor", VNum 5)]).
Proof. vm_compute. split; reflexivity. Qed.
(* with it (the current code): node 2 reports the initial context *)
Example ex_shadowed_now :
  (let '(rs, required) := inspect impl shadowed in
   (required, map (fun r => r_origins r) rs)) = (["factor"], [[]; [("factor", OContext None)]; [("factor", OContext None)]]).
Proof. vm_compute. reflexivity. Qed.
(* a default that really is used stays 'default': the key is deleted before the node *)
Definition deleted_then_default : list inode :=
  [ (nd (lib_src false) [("value", VNum 1)] None, TF); (nd (lib_mul false) [] None, TF);
    (nd (lib_delete false "factor") [] None, TAny); (nd (lib_mul true) [] None, TF) ].
Example ex_deleted_then_default :
  (let '(rs, required) := inspect impl deleted_then_default in
   (required, map (fun r => r_origins r) rs)) =
    (["factor"], [[]; [("factor", OContext None)]; [("factor", OContext None)]; [("factor", ODefault)]]) /\
  run (map fst deleted_then_default) (DNone, [("factor", VNum 5)]) = Done (DF 10, []).
Proof. vm_compute. split; reflexivity. Qed.
Lemma honest_del_no_suppressed n : suppressed_of n = [] -> honest_del n.
Proof. intros H d c d' c' _ k Hk. rewrite H in Hk. discriminate. Qed.

(* Non-vacuity: an accepted pipeline meeting every hypothesis of (1), with honest nodes *)
Definition good : list inode :=
  [ (nd (lib_src false) [("value", VNum 3)] None, TF); (nd lib_probe [] (Some "factor"), TF); (nd (lib_mul false) [] None, TF);
    (nd lib_add [] None, TF) ].
Example ex_good_accepted :
  (let '(rs, required) := inspect impl good in (forallb node_ok rs, valid impl rs, required)) = (true, true, ["addend"]) /\
  run (map fst good) (DNone, [("addend", VNum 1)]) = Done (DF 10, [("addend", VNum 1); ("factor", VNum 3)]).
Proof. vm_compute. split; reflexivity. Qed.
Lemma honest_no_created n : pr_created (n_proc n) = [] -> honest n.
Proof. intros H d c d' c' _ k Hk. rewrite H in Hk. discriminate. Qed.
Example ex_good_honest : Forall (fun x => honest (fst x)) good.
Proof. repeat constructor; apply honest_no_created; reflexivity. Qed.
Example ex_good_payload : match first_data_in good with Some t => gate t DNone = true | None => True end.
Proof. reflexivity. Qed.
(* library operations produce their declared output type *)
Example ex_mul_thonest : thonest (nd (lib_mul false) [] None, TF).
Proof.
  intros _ d c d' c' H. simpl fst in H.
  destruct (exec_data_node (nd (lib_mul false) [] None) d c (d', c') eq_refl H) as (_ & ps & dd & pv & ops & c1 & _ & P & _ & E).
  simpl in E. injection E as -> _. simpl in P. destruct d; simpl in P; try discriminate.
  destruct (numarg "factor" ps); simpl in P; [|discriminate]. injection P as <- _ _. reflexivity.
Qed.

(* ---- one name in two roles: a sweep that reads a variable from a context key spelled like a parameter of the swept element it
        does not bind (or two variables reading one key) cannot get a signature; construction fails, inspection reports the node
        invalid and the configuration is rejected -- it never reaches a run in which the element is called without that parameter ---- *)
Theorem C02_name_collision_rejected : forall pub elem sw cfg ck k,
  In k (from_ctx_keys (sw_vars sw)) -> In k (required_ext elem sw ++ optional_ext elem sw) ->
  exists x, construct (mkNode (sweep_proc pub elem sw) cfg ck) = Fail (Err SConstruct "ValueError" x).
Proof.
  intros pub elem sw cfg ck k H1 H2. apply duplicate_parameter_rejected. simpl.
  intros N.
  assert (D : forall a b : list string, NoDup (a ++ b) -> In k a -> In k b -> False).
  { clear. induction a as [|h t IH]; simpl; intros b N Ha Hb; [contradiction|].
    inversion N as [|? ? Hn N']; subst. destruct Ha as [->|Ha]; [apply Hn, in_or_app; right; exact Hb|eapply IH; eauto]. }
  exact (D _ _ N H1 H2).
Qed.
Theorem C02_accepted_nodes_have_distinct_parameters : forall n u, construct n = Ok u -> NoDup (pr_params (n_proc n)).
Proof. exact constructed_has_distinct_parameters. Qed.
Example ex_name_collision :
  exists x, construct (mkNode (sweep_proc probe_sweep_publishes (lib_src false) (mkSweep [("v", VFromCtx "value")] [] Comb false)) [] None)
            = Fail (Err SConstruct "ValueError" x).
Proof. eexists. vm_compute. reflexivity. Qed.

Print Assumptions C02_name_collision_rejected.
Print Assumptions C02_no_unresolvable_parameter.
Print Assumptions C02_no_type_gate_failure.
Print Assumptions C02_keys_sound_variant.
Print Assumptions C02_global_difference_refuted.
Print Assumptions C02_adjacent_typeflow_refuted.
Print Assumptions C02_deleted_after_own_suppression_refuted.
Print Assumptions C02_reported_keys_are_declared.
Print Assumptions C02_invalid_iff_unconstructible.
Print Assumptions C02_origin_last_writer.
Print Assumptions C02_config_origin_is_config.
Print Assumptions C02_origin_default_truthful.
Print Assumptions C02_origin_context_truthful.
Print Assumptions C02_origin_names_last_writer.
Print Assumptions C02_classified_context_truthful.
Print Assumptions C02_classified_default_truthful.
Print Assumptions C02_origin_default_refuted_when.
