(* Properties/C03.v — Parameter sweeps expand to exactly the documented element sequence. *)
From Coq Require Import List String ZArith Bool Permutation Sorted.
From SV Require Import Common.Prelude Model.Expr Model.Pipeline Model.Sweep Model.PipelineLib
  Gen.PipelineGen Proofs.Pipeline Proofs.Sweep.
From SV Require Model.Linspace Proofs.Linspace.
Import ListNotations.
Local Open Scope string_scope.
Local Open Scope list_scope.

(* Facts read from parametric_sweep_factory.py / nodes.py / node_preprocess.py on this run. *)
Lemma gen_translated : translation_failed = false.
Proof. reflexivity. Qed.
Lemma gen_combinatorial_sorts_names : combinatorial_sorts_names = true.
Proof. reflexivity. Qed.

(* repaired defects: hard obligations (a regression breaks these lemmas by name) *)
Lemma gen_probe_sweep_publishes : probe_sweep_publishes = true.
Proof. reflexivity. Qed.
Lemma gen_list_is_sequence : two_element_list_is_range = false.
Proof. reflexivity. Qed.

(* (1) combinatorial: Cartesian product over the variables in sorted-name order, last fastest *)
Theorem C03_comb_sorted : forall b seqs, seqs <> [] ->
  exists sorted, iterate Comb b seqs = Ok (product sorted) /\
    Permutation seqs sorted /\ StronglySorted (fun p q => String.leb (fst p) (fst q) = true) sorted.
Proof. exact iterate_comb_sorted. Qed.
Theorem C03_product_length : forall seqs, List.length (product seqs) = prod_len seqs.
Proof. exact product_length. Qed.
Theorem C03_product_nth : forall v xs tl i j,
  i < List.length xs -> j < List.length (product tl) ->
  nth (i * List.length (product tl) + j) (product ((v, xs) :: tl)) [] =
  (v, nth i xs VNone) :: nth j (product tl) [].
Proof. exact product_nth. Qed.

(* (2) by_position: aligned positions; broadcast cycles shorter sequences; unequal lengths rejected *)
Theorem C03_pos_aligned : forall f tl steps,
  iterate ByPos false (f :: tl) = Ok steps ->
  all_len (List.length (snd f)) (f :: tl) = true /\
  List.length steps = List.length (snd f) /\
  forall i, i < List.length (snd f) ->
    nth i steps [] = map (fun p => (fst p, nth i (snd p) VNone)) (f :: tl).
Proof. exact iterate_pos_aligned. Qed.
Theorem C03_pos_broadcast : forall seqs steps, seqs <> [] ->
  iterate ByPos true seqs = Ok steps ->
  List.length steps = max_len seqs /\
  forall i, i < max_len seqs -> nth i steps [] = pos_step seqs i.
Proof. exact iterate_pos_broadcast. Qed.
Theorem C03_pos_unequal_rejected : forall f tl,
  all_len (List.length (snd f)) (f :: tl) = false ->
  iterate ByPos false (f :: tl) = Fail (Err SProcessor "ValueError" "by_position lengths").
Proof. exact iterate_pos_unequal_rejected. Qed.

(* (3) one element per step; element i = wrapped processor on parameters merged as
   computed-by-expression > node parameters / context / defaults *)
Theorem C03_elements : forall pub elem sw d ps d' pv ops,
  pr_kind elem <> KProbe ->
  pr_run (sweep_proc pub elem sw) d ps = Ok (d', pv, ops) ->
  exists seqs steps zs,
    materialize_all ps (sw_vars sw) = Ok seqs /\
    iterate (sw_mode sw) (sw_broadcast sw) seqs = Ok steps /\
    d' = DC zs /\
    Forall2 (fun st z => exists computed pv' ops',
               eval_params st (sw_exprs sw) = Ok computed /\
               pr_run elem d (merge_call (pr_params elem) computed
                                (filter (fun kv => smem (fst kv) (required_ext elem sw ++ optional_ext elem sw)) ps))
               = Ok (DF z, pv', ops')) steps zs.
Proof. exact sweep_elements. Qed.
Theorem C03_merge_precedence : forall params computed base n,
  NoDup params -> In n params ->
  lookup n (merge_call params computed base) =
  match lookup n computed with Some v => Some v | None => lookup n base end.
Proof. exact merge_precedence. Qed.

(* (4) probes return the list of results (one per step) and pass data through *)
Theorem C03_probe_passthrough : forall pub elem sw d ps d' pv ops,
  pr_kind elem = KProbe ->
  pr_run (sweep_proc pub elem sw) d ps = Ok (d', pv, ops) ->
  d' = d /\ exists seqs steps rs,
    materialize_all ps (sw_vars sw) = Ok seqs /\
    iterate (sw_mode sw) (sw_broadcast sw) seqs = Ok steps /\
    pv = VList rs /\ List.length rs = List.length steps.
Proof. exact sweep_probe_passthrough. Qed.

(* (5) every variable's materialised sequence is published as <var>_values *)
Theorem C03_published_values : forall pub elem sw cfg d c d' c',
  (pr_kind elem = KOp \/ pr_kind elem = KSource) ->
  NoDup (map fst (sw_vars sw)) ->
  exec_node (mkNode (sweep_proc pub elem sw) cfg None) (d, c) = Ok (d', c') ->
  exists ps seqs,
    materialize_all ps (sw_vars sw) = Ok seqs /\ map fst seqs = map fst (sw_vars sw) /\
    forall v s, In (v, s) seqs -> lookup (values_key v) c' = Some (VList s).
Proof. exact published_values. Qed.

(* ... for swept probes too, when the probe node hands its context to the processor *)
Theorem C03_published_values_probe : probe_sweep_publishes = true ->
  forall elem sw cfg key d c d' c',
  pr_kind elem = KProbe -> NoDup (map fst (sw_vars sw)) ->
  (forall v, In v (map fst (sw_vars sw)) -> values_key v <> key) ->
  exec_node (mkNode (sweep_proc probe_sweep_publishes elem sw) cfg (Some key)) (d, c) = Ok (d', c') ->
  exists ps seqs,
    materialize_all ps (sw_vars sw) = Ok seqs /\ map fst seqs = map fst (sw_vars sw) /\
    forall v s, In (v, s) seqs -> lookup (values_key v) c' = Some (VList s).
Proof. intros G. rewrite G. exact published_values_probe. Qed.

Theorem C03_published_values_probe_now :
  forall elem sw cfg key d c d' c',
  pr_kind elem = KProbe -> NoDup (map fst (sw_vars sw)) ->
  (forall v, In v (map fst (sw_vars sw)) -> values_key v <> key) ->
  exec_node (mkNode (sweep_proc probe_sweep_publishes elem sw) cfg (Some key)) (d, c) = Ok (d', c') ->
  exists ps seqs,
    materialize_all ps (sw_vars sw) = Ok seqs /\ map fst seqs = map fst (sw_vars sw) /\
    forall v s, In (v, s) seqs -> lookup (values_key v) c' = Some (VList s).
Proof. exact (C03_published_values_probe gen_probe_sweep_publishes). Qed.

Definition probe_witness : node :=
  mkNode (sweep_proc probe_sweep_publishes lib_probe
            (mkSweep [("n", VSeq [VNum 1; VNum 2])] [] Comb false)) [] (Some "k").
Theorem C03_published_values_probe_refuted_when : probe_sweep_publishes = false ->
  exists d c d' c', exec_node probe_witness (d, c) = Ok (d', c') /\ lookup (values_key "n") c' = None.
Proof.
  intros G. exists (DF 5), [], (DF 5), [("k", VList [VNum 5; VNum 5])].
  unfold probe_witness. rewrite G. split; reflexivity.
Qed.

(* (6) YAML forms: an explicit list is the sequence of its elements *)
Theorem C03_list_is_sequence : two_element_list_is_range = false ->
  forall l, convert_var two_element_list_is_range (RawList l) = VSeq l.
Proof.
  intros G l. rewrite G. destruct l as [|[| a | |] [|[| b | |] [|? ?]]]; reflexivity.
Qed.
Theorem C03_list_is_sequence_now : forall l, convert_var two_element_list_is_range (RawList l) = VSeq l.
Proof. exact (C03_list_is_sequence gen_list_is_sequence). Qed.
Theorem C03_list_is_sequence_refuted_when : two_element_list_is_range = true ->
  exists l, convert_var two_element_list_is_range (RawList l) <> VSeq l.
Proof. intros G. exists [VNum 1; VNum 2]. rewrite G. discriminate. Qed.
Theorem C03_forms_partial : forall b,
  (forall l, convert_var b (RawValues l) = VSeq l) /\
  (forall lo hi n e, convert_var b (RawRange lo hi n e) = VRange lo hi n e) /\
  (forall k, convert_var b (RawFromCtx k) = VFromCtx k) /\
  (forall l, List.length l <> 2 -> convert_var b (RawList l) = VSeq l).
Proof.
  intros b. repeat split; auto. intros l H.
  destruct l as [|[] [|[] [|? ?]]]; try reflexivity; simpl in H; congruence.
Qed.

(* Linear ranges over binary64 (Model/Linspace.v = numpy.linspace as _materialize_sequences calls it; PrimFloat, bit-exact
   correspondence on every run): one value per step; with the endpoint the last value is hi itself; every other value is
   lo + i * ((hi - lo) / div) in IEEE arithmetic with numpy's association (div = steps - 1 with the endpoint, steps without) *)
Theorem C03_range_length : forall lo hi num e, List.length (Linspace.linspace lo hi num e) = num.
Proof. exact Proofs.Linspace.linspace_length. Qed.
Theorem C03_range_endpoint : forall lo hi num d, 1 < num -> last (Linspace.linspace lo hi num true) d = hi.
Proof. exact Proofs.Linspace.linspace_endpoint. Qed.
Theorem C03_range_element : forall lo hi num e i d,
  i < num -> (e = true -> S i < num \/ num = 1) ->
  nth i (Linspace.linspace lo hi num e) d = Linspace.linspace_elem lo hi (if e then num - 1 else num) i.
Proof. exact Proofs.Linspace.linspace_nth. Qed.
Definition ex_range_descending := Proofs.Linspace.ex_descending.   (* 2, 1, 0, -1 and 0, 0.25, 0.5, 0.75 *)

(* Non-vacuity *)
Example ex_comb_order :
  iterate Comb false [("t", [VNum 1; VNum 2]); ("a", [VNum 7; VNum 8; VNum 9])] =
  Ok [ [("a", VNum 7); ("t", VNum 1)]; [("a", VNum 7); ("t", VNum 2)];
       [("a", VNum 8); ("t", VNum 1)]; [("a", VNum 8); ("t", VNum 2)];
       [("a", VNum 9); ("t", VNum 1)]; [("a", VNum 9); ("t", VNum 2)] ].
Proof. vm_compute. reflexivity. Qed.
Example ex_broadcast :
  iterate ByPos true [("t", [VNum 1; VNum 2; VNum 3]); ("a", [VNum 7; VNum 8])] =
  Ok [ [("t", VNum 1); ("a", VNum 7)]; [("t", VNum 2); ("a", VNum 8)]; [("t", VNum 3); ("a", VNum 7)] ].
Proof. vm_compute. reflexivity. Qed.
Example ex_source_sweep :
  run [mkNode (sweep_proc probe_sweep_publishes (lib_src false)
                 (mkSweep [("t", VRange (-1) 2 4 true)] [("value", Bin Mult (Const 2) (Var "t"))] Comb false)) [] None]
      (DNone, []) = Done (DC [-2; 0; 2; 4]%Z, [("t_values", VList [VNum (-1); VNum 0; VNum 1; VNum 2])]).
Proof. vm_compute. reflexivity. Qed.
Example ex_computed_beats_provided :
  run [mkNode (lib_src true) [] None;
       mkNode (sweep_proc probe_sweep_publishes (lib_mul true)
                 (mkSweep [("f", VSeq [VNum 1; VNum 3])] [("factor", Var "f")] Comb false)) [("factor", VNum 100)] None]
      (DNone, []) = Done (DC [42; 126]%Z, [("f_values", VList [VNum 1; VNum 3])]).
Proof. vm_compute. reflexivity. Qed.

Print Assumptions C03_range_length.
Print Assumptions C03_range_endpoint.
Print Assumptions C03_range_element.
Print Assumptions C03_published_values_probe_now.
Print Assumptions C03_list_is_sequence_now.
Print Assumptions C03_comb_sorted.
Print Assumptions C03_product_length.
Print Assumptions C03_product_nth.
Print Assumptions C03_pos_aligned.
Print Assumptions C03_pos_broadcast.
Print Assumptions C03_pos_unequal_rejected.
Print Assumptions C03_elements.
Print Assumptions C03_merge_precedence.
Print Assumptions C03_probe_passthrough.
Print Assumptions C03_published_values.
Print Assumptions C03_published_values_probe.
Print Assumptions C03_published_values_probe_refuted_when.
Print Assumptions C03_list_is_sequence.
Print Assumptions C03_list_is_sequence_refuted_when.
Print Assumptions C03_forms_partial.
