(* Properties/C04.v — Configuration identities are pure functions of configuration meaning.
   Statements only; generated/probed facts select the code's variant. *)
From Coq Require Import List String Bool NArith Permutation.
From SV Require Import Common.Prelude Model.Json Model.Expr Gen.SemanticIdGen Gen.IdentityGen Model.Identity
  Proofs.NormAC Proofs.Json Proofs.Identity.
Import ListNotations.
Local Open Scope string_scope.

(* ---- facts read from the source on this run (hard obligations: they hold on every variant) *)
Lemma gen_translated : identity_translation_failed = false /\ translation_failed = false.
Proof. split; reflexivity. Qed.
Lemma gen_canon_fields :
  canon_fields = ["role"; "processor_ref"; "params"; "ports"; "declaration_index"; "declaration_subindex"].
Proof. reflexivity. Qed.
Lemma gen_fields_nodup : nodupb (canon_fields ++ ["node_uuid"; "preprocessor_metadata"]) = true.
Proof. reflexivity. Qed.
Lemma gen_sweep_meta_keys :
  sweep_meta_keys = ["type"; "version"; "element_ref"; "param_expressions"; "variables"; "mode"; "broadcast";
                     "collection"; "dependencies"] /\
  sweep_dep_keys = ["required_external_parameters"; "context_keys"].
Proof. split; reflexivity. Qed.
Lemma gen_prefixes : pipeline_id_prefix = "plid-" /\ node_sem_prefix = "semantiva:node-sem-v1:" /\
  pipeline_sem_prefix = "semantiva:pipeline-sem-v1:" /\ ui_only_keys = ["preprocessor_view"] /\
  node_sem_dropped_key = "expr".
Proof. repeat split; reflexivity. Qed.

(* ---- (1) sorted-key JSON text does not depend on the order of mapping members, at any depth *)
Theorem C04_dumps_perm_invariant : forall a b, knd a = true -> jeq a b -> dumps_sorted a = dumps_sorted b.
Proof. exact dumps_perm_invariant. Qed.

(* ---- (2) all identities and the sorted required-key list are invariant under cosmetic rewrites
   (member order of every mapping incl. sweep variables/parameters, AC-rearranged sweep expressions),
   for every pair of hash functions *)
Theorem C04_ids_invariant_full : context_keys_sorted = true ->
  forall U5 H c c', cfg_wf false c = true -> cfg_equiv c c' -> spec_ids U5 H c = spec_ids U5 H c'.
Proof. intros Hs U5 H. exact (ids_invariant U5 H false (or_introl Hs) gen_fields_nodup). Qed.

(* unconditional, for sweeps with at most one from_context variable *)
Theorem C04_ids_invariant_partial :
  forall U5 H c c', cfg_wf true c = true -> cfg_equiv c c' -> spec_ids U5 H c = spec_ids U5 H c'.
Proof. intros U5 H. exact (ids_invariant U5 H true (or_intror eq_refl) gen_fields_nodup). Qed.

Definition idh (s : string) : string := s.     (* a collision-free "hash" *)
Definition fvds : procinfo :=
  {| pi_fqcn := "semantiva.examples.test_utils.FloatValueDataSource"; pi_kind := KSource;
     pi_required := ["value"]; pi_created := []; pi_suppressed := [] |}.
Definition wit_vars1 := [("t", VCtx "tk"); ("s", VCtx "sk")].
Definition wit_vars2 := [("s", VCtx "sk"); ("t", VCtx "tk")].
Definition wit_a (vars : list (string * vspec)) : config :=
  [{| n_proc := "FloatValueDataSource"; n_params := []; n_info := fvds; n_ctxkey := None;
      n_sweep := Some {| sw_exprs := [("value", Bin Add (Var "t") (Var "s"))]; sw_vars := vars;
                         sw_mode := "combinatorial"; sw_broadcast := false;
                         sw_collection := Some "semantiva.examples.test_utils.FloatDataCollection" |} |}].

Example wit_a_equiv : cfg_wf false (wit_a wit_vars1) = true /\ cfg_equiv (wit_a wit_vars1) (wit_a wit_vars2).
Proof.
  split; [reflexivity|]. constructor; [|constructor].
  repeat split; try reflexivity.
  - apply jeq_refl.
  - exists [("value", Bin Add (Var "t") (Var "s"))]. split; [apply Permutation_refl|].
    constructor; [|constructor]. split; [reflexivity|apply ac_refl].
  - apply perm_swap.
Qed.

Theorem C04_ids_invariant_refuted_when : context_keys_sorted = false ->
  exists c c', cfg_wf false c = true /\ cfg_equiv c c' /\
    i_nodesem (spec_ids idh idh c) <> i_nodesem (spec_ids idh idh c') /\
    i_cfgid (spec_ids idh idh c) <> i_cfgid (spec_ids idh idh c').
Proof.
  intros Hf. exists (wit_a wit_vars1), (wit_a wit_vars2).
  destruct wit_a_equiv as [W E]. repeat split; auto.
  - intro X. cbv delta [spec_ids i_nodesem node_sems node_sem_id node_sem_pre sweep_meta ctx_keys wit_a] in X.
    rewrite Hf in X. vm_compute in X. discriminate X.
  - intro X. cbv delta [spec_ids i_cfgid config_id config_pre config_struct pairs node_sems node_sem_id node_sem_pre
                        sweep_meta ctx_keys wit_a] in X.
    rewrite Hf in X. vm_compute in X. discriminate X.
Qed.

(* ---- (3) purity: whatever was built, inspected or run before (hist), the identities on the next
   pipeline_start of any Pipeline object, and those printed by inspect, are Spec.ids of its configuration *)
Theorem C04_ids_pure_full : enrich_on_copy = true ->
  forall U5 H hist i c enr, nth_error (run_hist hist) i = Some (c, enr) ->
  impl_run_ids U5 H hist i = Some (spec_ids U5 H c) /\ impl_inspect_ids U5 H hist c = spec_ids U5 H c.
Proof. intros Hc U5 H hist i c enr Hn. split; [exact (ids_pure U5 H Hc hist i c enr Hn)|reflexivity]. Qed.

Theorem C04_ids_pure_partial :
  forall U5 H hist i c enr, has_sweep c = false -> nth_error (run_hist hist) i = Some (c, enr) ->
  impl_run_ids U5 H hist i = Some (spec_ids U5 H c) /\ impl_inspect_ids U5 H hist c = spec_ids U5 H c.
Proof. intros U5 H hist i c enr Hs Hn. split; [exact (ids_pure_partial U5 H hist i c enr Hs Hn)|reflexivity]. Qed.

Definition wit_b : config :=
  [{| n_proc := "FloatValueDataSource"; n_params := []; n_info := fvds; n_ctxkey := None;
      n_sweep := Some {| sw_exprs := [("value", Var "t")];
                         sw_vars := [("t", VSeq [JNum "1.0"; JNum "2.0"; JNum "3.0"])];
                         sw_mode := "combinatorial"; sw_broadcast := false;
                         sw_collection := Some "semantiva.examples.test_utils.FloatDataCollection" |} |}].

Theorem C04_ids_pure_refuted_when : enrich_on_copy = false ->
  exists hist i c, nth_error (run_hist hist) i = Some (c, true) /\
    impl_run_ids idh idh hist i <> Some (spec_ids idh idh c).
Proof.
  intros Hf. exists [EBuild wit_b; ERun 0 true], 0%nat, wit_b. split.
  - cbv delta [run_hist step]. rewrite Hf. reflexivity.
  - intro X. cbv delta [impl_run_ids run_hist step] in X. rewrite Hf in X. vm_compute in X. discriminate X.
Qed.

(* ---- non-vacuity *)
Example ex_equiv_nontrivial :
  let c := wit_a wit_vars1 in let c' := wit_a wit_vars2 in c <> c' /\ cfg_equiv c c'.
Proof. split; [discriminate|apply wit_a_equiv]. Qed.
Example ex_strict_inhabited : cfg_wf true wit_b = true /\ has_sweep wit_b = true.
Proof. split; reflexivity. Qed.
Example ex_history : exists c enr, nth_error (run_hist [EInspect wit_b; EBuild wit_b; ERun 0 true; EBuild (wit_a wit_vars1)]) 1 = Some (c, enr).
Proof. eexists; eexists; reflexivity. Qed.
Example ex_jeq_nested :
  jeq (JObj [("a", JObj [("x", JNum "1"); ("y", JNull)]); ("b", JArr [JObj [("p", JStr "s"); ("q", JBool true)]])])
      (JObj [("b", JArr [JObj [("q", JBool true); ("p", JStr "s")]]); ("a", JObj [("y", JNull); ("x", JNum "1")])]).
Proof.
  eapply jeq_obj; [apply perm_swap|]. constructor.
  - constructor. constructor; [|constructor]. eapply jeq_obj; [apply perm_swap|]. repeat constructor.
  - constructor; [|constructor]. eapply jeq_obj; [apply perm_swap|]. repeat constructor.
Qed.

(* both defects are repaired on the current tree: hard obligations + unconditional corollaries *)
Lemma gen_context_keys_sorted : context_keys_sorted = true.
Proof. reflexivity. Qed.
Lemma gen_enrich_on_copy : enrich_on_copy = true.
Proof. reflexivity. Qed.
Theorem C04_ids_invariant :
  forall U5 H c c', cfg_wf false c = true -> cfg_equiv c c' -> spec_ids U5 H c = spec_ids U5 H c'.
Proof. exact (C04_ids_invariant_full gen_context_keys_sorted). Qed.
Theorem C04_ids_pure :
  forall U5 H hist i c enr, nth_error (run_hist hist) i = Some (c, enr) ->
  impl_run_ids U5 H hist i = Some (spec_ids U5 H c) /\ impl_inspect_ids U5 H hist c = spec_ids U5 H c.
Proof. exact (C04_ids_pure_full gen_enrich_on_copy). Qed.
Print Assumptions C04_ids_invariant.
Print Assumptions C04_ids_pure.
Print Assumptions C04_dumps_perm_invariant.
Print Assumptions C04_ids_invariant_full.
Print Assumptions C04_ids_invariant_partial.
Print Assumptions C04_ids_invariant_refuted_when.
Print Assumptions C04_ids_pure_full.
Print Assumptions C04_ids_pure_partial.
Print Assumptions C04_ids_pure_refuted_when.
