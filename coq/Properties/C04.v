(* Properties/C04.v — placeholder while the harness is brought up; replaced below. *)
From Coq Require Import List String Bool.
From SV Require Import Common.Prelude Model.Json Model.Identity Proofs.Json.
Theorem C04_dumps_perm_invariant : forall a b, jok a = true -> jeq a b -> dumps_sorted a = dumps_sorted b.
Proof. exact dumps_perm_invariant. Qed.
Print Assumptions C04_dumps_perm_invariant.
