(* Properties/C05.v — Identities discriminate: a change of meaning changes semantic and config ID.
   Collision-explicit, assumption-free statements (Collision f := two different preimages with one hash). *)
From Coq Require Import List String Bool NArith Permutation.
From SV Require Import Common.Prelude Model.Json Model.Expr Gen.SemanticIdGen Gen.IdentityGen Model.Identity
  Proofs.ExprInd Proofs.NormAC Proofs.Json Proofs.Identity.
Import ListNotations.
Local Open Scope string_scope.

(* ---- generated facts (hard obligations) *)
Lemma gen_canon_fields :
  canon_fields = ["role"; "processor_ref"; "params"; "ports"; "declaration_index"; "declaration_subindex"].
Proof. reflexivity. Qed.
Lemma gen_sem_fields : pipeline_sem_fields = ["name"; "node_uuid"; "payload_from"].
Proof. reflexivity. Qed.
Lemma gen_ui_only : ui_only_keys = ["preprocessor_view"].
Proof. reflexivity. Qed.
Lemma gen_dropped_key : node_sem_dropped_key = "expr".
Proof. reflexivity. Qed.

(* hash outputs are hex digits / uuid text *)
Definition hash_ok (f : string -> string) : Prop := forall s, str_ok (f s) = true.

(* ---- (1) injectivity of the sorted-key JSON text.  Token level (prefix code) for all JSON values;
   character level on the fragment jok (printable ASCII strings, printed numbers, unique keys). *)
Theorem C05_dumps_tokens_injective : forall a b, dumps_tokens a = dumps_tokens b -> canon a = canon b.
Proof. exact dumps_tokens_injective. Qed.
Theorem C05_dumps_text_injective : forall a b, jok a = true -> jok b = true ->
  dumps_sorted a = dumps_sorted b -> canon a = canon b.
Proof. exact dumps_sorted_inj. Qed.

(* ---- (2) within one pipeline node uuid preimages are pairwise distinct, even for identical nodes *)
Theorem C05_node_uuid_distinct_in_pipeline : forall i j n m, node_ok n = true -> node_ok m = true -> i <> j ->
  node_json i n <> node_json j m.
Proof. exact (node_uuid_distinct_in_pipeline gen_canon_fields). Qed.

(* ---- (3) what each identity determines *)
(* semantic id => per position: processor reference and the whole parameter JSON (hence number and order of nodes) *)
Theorem C05_semantic_id_discriminates : forall U5 H, hash_ok U5 -> hash_ok H ->
  forall c1 c2, forallb node_ok c1 = true -> forallb node_ok c2 = true ->
  semantic_id U5 H c1 = semantic_id U5 H c2 ->
  sem_fields c1 = sem_fields c2 \/ Collision U5 \/ Collision H.
Proof. intros U5 H HU HH. exact (semantic_id_discriminates U5 H HU HH gen_canon_fields gen_sem_fields). Qed.

(* node semantic id => the whole sanitized sweep block *)
Theorem C05_node_semantic_id_discriminates : forall H n m s s', n_sweep n = Some s -> n_sweep m = Some s' ->
  jok (strip_block (sweep_meta H n s)) = true -> jok (strip_block (sweep_meta H m s')) = true ->
  node_sem_id H n = node_sem_id H m -> sweep_block H n = sweep_block H m \/ Collision H.
Proof. exact node_sem_discriminates. Qed.

(* ... and the block determines every documented sweep field *)
Theorem C05_sweep_block_fields : forall H n m s s', n_sweep n = Some s -> n_sweep m = Some s' ->
  sweep_block H n = sweep_block H m ->
  pi_fqcn (n_info n) = pi_fqcn (n_info m) /\ sw_mode s = sw_mode s' /\ sw_broadcast s = sw_broadcast s' /\
  sw_collection s = sw_collection s' /\
  canon (pe_part s) = canon (pe_part s') /\
  canon (vars_part H s) = canon (vars_part H s').
Proof. intros H. exact (sweep_block_fields H gen_ui_only gen_dropped_key). Qed.

(* config id => the uuid-sorted list of (node uuid, node semantic id) pairs *)
Theorem C05_config_id_discriminates : forall U5 H, hash_ok U5 -> hash_ok H -> forall c1 c2,
  config_id U5 H c1 = config_id U5 H c2 ->
  ksort fst (pairs U5 H c1) = ksort fst (pairs U5 H c2) \/ Collision H.
Proof. intros U5 H HU HH. exact (config_id_pairs U5 H HU HH). Qed.

(* ---- (4) the mutation operators of the property change the identity-bearing fields *)
Lemma mut_processor : forall n m, n_sweep n = None -> n_sweep m = None -> n_proc n <> n_proc m ->
  node_fields n <> node_fields m.
Proof. intros n m Hn Hm Hp E. apply Hp. unfold node_fields, processor_ref in E. rewrite Hn, Hm in E. congruence. Qed.
Lemma mut_parameter_value : forall n m, canon (JObj (n_params n)) <> canon (JObj (n_params m)) ->
  node_fields n <> node_fields m.
Proof. intros n m Hp E. apply Hp. unfold node_fields in E. congruence. Qed.
Lemma mut_insert_delete : forall c1 c2, List.length c1 <> List.length c2 -> sem_fields c1 <> sem_fields c2.
Proof. intros c1 c2 Hl E. apply Hl. unfold sem_fields in E. apply (f_equal (@List.length _)) in E. rewrite !map_length in E. exact E. Qed.
Lemma mut_swap : forall (p : list node) a b q, node_fields a <> node_fields b ->
  sem_fields (p ++ a :: b :: q)%list <> sem_fields (p ++ b :: a :: q)%list.
Proof.
  intros p a b q Hab E. unfold sem_fields in E. rewrite !map_app in E. apply app_inv_head in E.
  apply (f_equal (@hd _ (node_fields a))) in E. cbn [map hd] in E. contradiction.
Qed.
Lemma mut_sweep_wrapped_processor : forall H n m s s', n_sweep n = Some s -> n_sweep m = Some s' ->
  pi_fqcn (n_info n) <> pi_fqcn (n_info m) -> sweep_block H n <> sweep_block H m.
Proof. intros H n m s s' En Em Hd E. apply Hd. apply (C05_sweep_block_fields H n m s s' En Em E). Qed.
Lemma mut_sweep_mode : forall H n m s s', n_sweep n = Some s -> n_sweep m = Some s' ->
  sw_mode s <> sw_mode s' -> sweep_block H n <> sweep_block H m.
Proof. intros H n m s s' En Em Hd E. apply Hd. apply (C05_sweep_block_fields H n m s s' En Em E). Qed.
Lemma mut_sweep_broadcast : forall H n m s s', n_sweep n = Some s -> n_sweep m = Some s' ->
  sw_broadcast s <> sw_broadcast s' -> sweep_block H n <> sweep_block H m.
Proof. intros H n m s s' En Em Hd E. apply Hd. apply (C05_sweep_block_fields H n m s s' En Em E). Qed.
Lemma mut_sweep_collection : forall H n m s s', n_sweep n = Some s -> n_sweep m = Some s' ->
  sw_collection s <> sw_collection s' -> sweep_block H n <> sweep_block H m.
Proof. intros H n m s s' En Em Hd E. apply Hd. apply (C05_sweep_block_fields H n m s s' En Em E). Qed.
(* a non-equivalent expression for one swept parameter (different normal form, C12).  With the scoped sanitiser
   (raw source dropped inside the entries only) this holds for EVERY parameter name; with the any-depth one the
   proof needs the name not to be one of the dropped keys -- and the hypothesis is not an artefact:
   C05_names_refuted_when below *)
Lemma mut_sweep_expression : forall H n m s s' p e e', n_sweep n = Some s -> n_sweep m = Some s' ->
  sw_exprs s = [(p, e)] -> sw_exprs s' = [(p, e')] -> node_sem_strip_scoped = true \/ dropped p = false ->
  wf e = true -> wf e' = true -> norm comm e <> norm comm e' -> sweep_block H n <> sweep_block H m.
Proof.
  intros H n m s s' p e e' En Em Es Es' Hp We We' Hd E. apply Hd.
  destruct (C05_sweep_block_fields H n m s s' En Em E) as (_ & _ & _ & _ & Ep & _).
  unfold pe_part, pe_json in Ep. rewrite Es, Es' in Ep. cbn [map fst snd] in Ep.
  destruct node_sem_strip_scoped.
  - unfold strip_entries, kmap, strip_entry, kfilter in Ep. rewrite gen_dropped_key in Ep.
    cbn [map filter fst snd String.eqb Ascii.eqb Bool.eqb negb] in Ep.
    simpl in Ep. injection Ep as Ep. apply (sig_norm comm e e' We We' Ep).
  - destruct Hp as [X|Hp]; [discriminate X|].
    rewrite !strip_obj in Ep. cbn [strip_m] in Ep. rewrite Hp in Ep.
    cbn [strip] in Ep. unfold dropped in Ep. rewrite gen_ui_only, gen_dropped_key in Ep. simpl in Ep.
    injection Ep as Ep. apply (sig_norm comm e e' We We' Ep).
Qed.
(* a different variable domain for one sweep variable *)
Definition vdom_part (H : string -> string) (d : vspec) : json :=
  if node_sem_strip_scoped then vspec_json H d else strip (vspec_json H d).
Lemma mut_sweep_variable_domain : forall H n m s s' v d d', n_sweep n = Some s -> n_sweep m = Some s' ->
  sw_vars s = [(v, d)] -> sw_vars s' = [(v, d')] -> node_sem_strip_scoped = true \/ dropped v = false ->
  canon (vdom_part H d) <> canon (vdom_part H d') -> sweep_block H n <> sweep_block H m.
Proof.
  intros H n m s s' v d d' En Em Es Es' Hv Hd E. apply Hd.
  destruct (C05_sweep_block_fields H n m s s' En Em E) as (_ & _ & _ & _ & _ & Ev).
  unfold vars_part, vars_json, vdom_part in *. rewrite Es, Es' in Ev. cbn [map fst snd] in Ev.
  destruct node_sem_strip_scoped.
  - rewrite !canon_obj in Ev. cbn [map cm ksort fold_right kinsert] in Ev. injection Ev; auto.
  - destruct Hv as [X|Hv]; [discriminate X|].
    rewrite !strip_obj in Ev. cbn [strip_m] in Ev. rewrite Hv in Ev.
    rewrite !canon_obj in Ev. cbn [map cm ksort fold_right kinsert] in Ev. injection Ev; auto.
Qed.

(* The any-depth sanitiser: a sweep VARIABLE that happens to be named like the raw-source field ("expr") vanishes
   from the node semantic id -- two sweeps over different domains (hence different results) share every identity,
   for every pair of hash functions. *)
Definition wit_named (var : string) (vals : list json) : config :=
  [{| n_proc := "FloatMultiplyOperation"; n_params := [];
      n_info := {| pi_fqcn := "semantiva.examples.test_utils.FloatMultiplyOperation"; pi_kind := KOp;
                   pi_required := ["factor"]; pi_created := []; pi_suppressed := [] |};
      n_ctxkey := None;
      n_sweep := Some {| sw_exprs := [("factor", Bin Mult (Var var) (Const 2))];
                         sw_vars := [(var, VSeq vals)];
                         sw_mode := "combinatorial"; sw_broadcast := false;
                         sw_collection := Some "semantiva.examples.test_utils.FloatDataCollection" |} |}].
Definition wn1 := wit_named "expr" [JNum "1.0"; JNum "2.0"].
Definition wn2 := wit_named "expr" [JNum "5.0"; JNum "7.0"].
Lemma ids_of_single U5 H n1 n2 : node_uuid U5 0 n1 = node_uuid U5 0 n2 -> node_sem_id H n1 = node_sem_id H n2 ->
  (exists s1, n_sweep n1 = Some s1) -> (exists s2, n_sweep n2 = Some s2) ->
  semantic_id U5 H [n1] = semantic_id U5 H [n2] /\ config_id U5 H [n1] = config_id U5 H [n2].
Proof.
  intros Eu Es [s1 E1] [s2 E2]. split.
  - unfold semantic_id, semantic_pre, semantic_struct. cbn [sem_entries]. unfold sem_entry.
    rewrite E1, E2, Eu, Es. reflexivity.
  - unfold config_id, config_pre, config_struct, pairs, uuids, node_sems. cbn [uuids_from map].
    rewrite Eu, Es. reflexivity.
Qed.
Theorem C05_names_refuted_when : node_sem_strip_scoped = false ->
  wn1 <> wn2 /\
  forall U5 H, node_sems H wn1 = node_sems H wn2 /\ semantic_id U5 H wn1 = semantic_id U5 H wn2 /\
               config_id U5 H wn1 = config_id U5 H wn2.
Proof.
  intros Hf. split; [intro X; discriminate X|]. intros U5 H.
  assert (N : node_sems H wn1 = node_sems H wn2).
  { unfold node_sems, node_sem_id, node_sem_pre, strip_block, wn1, wn2, wit_named. rewrite Hf.
    vm_compute. reflexivity. }
  split; [exact N|].
  apply (f_equal (fun l => hd EmptyString l)) in N.
  unfold wn1, wn2, wit_named in *. cbn [node_sems map hd] in N.
  apply ids_of_single; [vm_compute; reflexivity|exact N| |]; eexists; reflexivity.
Qed.
(* ... while with the scoped sanitiser the same two configurations are told apart (collision-explicit) *)
Theorem C05_names_full : node_sem_strip_scoped = true -> forall H n m s s' v d d',
  n_sweep n = Some s -> n_sweep m = Some s' -> sw_vars s = [(v, d)] -> sw_vars s' = [(v, d')] ->
  canon (vspec_json H d) <> canon (vspec_json H d') -> sweep_block H n <> sweep_block H m.
Proof.
  intros Hs H n m s s' v d d' En Em Es Es' Hd.
  apply (mut_sweep_variable_domain H n m s s' v d d' En Em Es Es' (or_introl Hs)).
  unfold vdom_part. rewrite Hs. exact Hd.
Qed.

(* ---- (5) the semantic id and the sweep definition.  Documented: "includes sanitized
   derive.parameter_sweep metadata".  The code's structure has name/node_uuid/payload_from only. *)
Definition fvds : procinfo :=
  {| pi_fqcn := "semantiva.examples.test_utils.FloatValueDataSource"; pi_kind := KSource;
     pi_required := ["value"]; pi_created := []; pi_suppressed := [] |}.
Definition fvds2 : procinfo :=
  {| pi_fqcn := "semantiva.examples.test_utils.FloatValueDataSourceWithDefault"; pi_kind := KSource;
     pi_required := []; pi_created := []; pi_suppressed := [] |}.
Definition wit (proc : string) (info : procinfo) (k : N) : config :=
  [{| n_proc := proc; n_params := []; n_info := info; n_ctxkey := None;
      n_sweep := Some {| sw_exprs := [("value", Bin Mult (Const k) (Var "t"))];
                         sw_vars := [("t", VSeq [JNum "1.0"; JNum "2.0"; JNum "3.0"])];
                         sw_mode := "combinatorial"; sw_broadcast := false;
                         sw_collection := Some "semantiva.examples.test_utils.FloatDataCollection" |} |}].
Definition w1 := wit "FloatValueDataSource" fvds 2.
Definition w2 := wit "FloatValueDataSource" fvds 3.
Definition w3 := wit "FloatValueDataSourceWithDefault" fvds2 2.
Definition idh (s : string) : string := s.

Theorem C05_refuted_when : sem_includes_sweep = false ->
  (* three configurations that differ in the swept expression / the wrapped processor ... *)
  map (sweep_block idh) w1 <> map (sweep_block idh) w2 /\ map (sweep_block idh) w1 <> map (sweep_block idh) w3 /\
  (* ... share one semantic id and even their node uuids, for every pair of hash functions *)
  forall U5 H, semantic_id U5 H w1 = semantic_id U5 H w2 /\ semantic_id U5 H w1 = semantic_id U5 H w3 /\
               uuids U5 w1 = uuids U5 w2 /\ uuids U5 w1 = uuids U5 w3.
Proof.
  intros Hf. split; [|split].
  - intro X. vm_compute in X. discriminate X.
  - intro X. vm_compute in X. discriminate X.
  - intros U5 H.
    assert (J2 : node_json 0 (hd (Build_node "" [] fvds None None) w1) = node_json 0 (hd (Build_node "" [] fvds None None) w2))
      by (vm_compute; reflexivity).
    assert (J3 : node_json 0 (hd (Build_node "" [] fvds None None) w1) = node_json 0 (hd (Build_node "" [] fvds None None) w3))
      by (vm_compute; reflexivity).
    cbv delta [semantic_id semantic_pre semantic_struct sem_entries sem_entry uuids uuids_from node_uuid w1 w2 w3 wit].
    cbv delta [w1 w2 w3 wit] in J2, J3. cbn [hd] in J2, J3.
    rewrite Hf. cbv beta iota. cbn [n_sweep]. rewrite <- J2, <- J3. repeat split; reflexivity.
Qed.

(* with the repaired structure (node semantic id of sweep nodes folded in) the semantic id also determines
   every node semantic id, hence (C05_node_semantic_id_discriminates, C05_sweep_block_fields) every sweep field *)
Theorem C05_full : sem_includes_sweep = true -> forall U5 H, hash_ok U5 -> hash_ok H ->
  forall c1 c2, forallb node_ok c1 = true -> forallb node_ok c2 = true ->
  semantic_id U5 H c1 = semantic_id U5 H c2 ->
  (sem_fields c1 = sem_fields c2 /\ node_sems H c1 = node_sems H c2) \/ Collision U5 \/ Collision H.
Proof.
  intros Hs U5 H HU HH c1 c2 W1 W2 E.
  destruct (semantic_id_full U5 H HU HH gen_sem_fields Hs c1 c2 E) as [[Eu En]|C]; auto.
  destruct (uuids_fields U5 gen_canon_fields c1 c2 0 W1 W2 Eu) as [Ef|C]; auto.
Qed.

(* everything except the sweep fields is discriminated by the semantic id (C05_semantic_id_discriminates);
   the sweep fields are discriminated by the node semantic id and the config id: *)
Theorem C05_partial : forall U5 H, hash_ok U5 -> hash_ok H ->
  (forall c1 c2, forallb node_ok c1 = true -> forallb node_ok c2 = true ->
     semantic_id U5 H c1 = semantic_id U5 H c2 -> sem_fields c1 = sem_fields c2 \/ Collision U5 \/ Collision H) /\
  (forall n m s s', n_sweep n = Some s -> n_sweep m = Some s' ->
     jok (strip_block (sweep_meta H n s)) = true -> jok (strip_block (sweep_meta H m s')) = true ->
     node_sem_id H n = node_sem_id H m -> sweep_block H n = sweep_block H m \/ Collision H) /\
  (forall c1 c2, config_id U5 H c1 = config_id U5 H c2 ->
     ksort fst (pairs U5 H c1) = ksort fst (pairs U5 H c2) \/ Collision H).
Proof.
  intros U5 H HU HH. split; [|split].
  - exact (C05_semantic_id_discriminates U5 H HU HH).
  - exact (C05_node_semantic_id_discriminates H).
  - exact (C05_config_id_discriminates U5 H HU HH).
Qed.

(* ---- non-vacuity *)
Example ex_hash_ok : hash_ok (fun _ => "0a1b-2c") /\ ~ hash_ok (fun s => s).
Proof. split; [intros s; reflexivity|]. intro X. specialize (X (String (Ascii.ascii_of_nat 34) "")). discriminate X. Qed.
Example ex_node_ok : forallb node_ok w1 = true /\ forallb node_ok w3 = true.
Proof. split; reflexivity. Qed.
Example ex_block_jok : jok (strip_block (sweep_meta (fun _ => "00") (hd (Build_node "" [] fvds None None) w1)
  {| sw_exprs := [("value", Bin Mult (Const 2) (Var "t"))]; sw_vars := [("t", VSeq [JNum "1.0"; JNum "2.0"; JNum "3.0"])];
     sw_mode := "combinatorial"; sw_broadcast := false;
     sw_collection := Some "semantiva.examples.test_utils.FloatDataCollection" |})) = true.
Proof. reflexivity. Qed.
Example ex_expr_mutation : wf (Bin Mult (Const 2) (Var "t")) = true /\
  norm comm (Bin Mult (Const 2) (Var "t")) <> norm comm (Bin Mult (Const 3) (Var "t")) /\ dropped "value" = false.
Proof. split; [reflexivity|]. split; [intro X; vm_compute in X; discriminate X|reflexivity]. Qed.
Example ex_identical_nodes_distinct :
  let n := hd (Build_node "" [] fvds None None) w1 in node_json 0 n <> node_json 1 n.
Proof. intro n. intro X. vm_compute in X. discriminate X. Qed.

(* the semantic id folds in the sweep fingerprint on the current tree (fix commit): hard obligation *)
Lemma gen_sem_includes_sweep : sem_includes_sweep = true.
Proof. reflexivity. Qed.
Theorem C05_semantic_id_discriminates_now : forall U5 H, hash_ok U5 -> hash_ok H ->
  forall c1 c2, forallb node_ok c1 = true -> forallb node_ok c2 = true ->
  semantic_id U5 H c1 = semantic_id U5 H c2 ->
  (sem_fields c1 = sem_fields c2 /\ node_sems H c1 = node_sems H c2) \/ Collision U5 \/ Collision H.
Proof. exact (C05_full gen_sem_includes_sweep). Qed.
(* the sanitiser is the scoped one on the current tree (fix commit 3bfdd4d): hard obligation, and the name-independent
   forms of the two sweep mutation lemmas *)
Lemma now_strip_scoped : node_sem_strip_scoped = true.
Proof. reflexivity. Qed.
Theorem C05_sweep_expression_discriminates_now : forall H n m s s' p e e', n_sweep n = Some s -> n_sweep m = Some s' ->
  sw_exprs s = [(p, e)] -> sw_exprs s' = [(p, e')] ->
  wf e = true -> wf e' = true -> norm comm e <> norm comm e' -> sweep_block H n <> sweep_block H m.
Proof. intros H n m s s' p e e' En Em Es Es'. exact (mut_sweep_expression H n m s s' p e e' En Em Es Es' (or_introl now_strip_scoped)). Qed.
Theorem C05_variable_domain_discriminates_now : forall H n m s s' v d d',
  n_sweep n = Some s -> n_sweep m = Some s' -> sw_vars s = [(v, d)] -> sw_vars s' = [(v, d')] ->
  canon (vspec_json H d) <> canon (vspec_json H d') -> sweep_block H n <> sweep_block H m.
Proof. exact (C05_names_full now_strip_scoped). Qed.
Example ex_named_expr_distinct : node_sems idh wn1 <> node_sems idh wn2.
Proof. intro X. vm_compute in X. discriminate X. Qed.
Print Assumptions C05_semantic_id_discriminates_now.
Print Assumptions C05_sweep_expression_discriminates_now.
Print Assumptions C05_variable_domain_discriminates_now.
Print Assumptions C05_dumps_tokens_injective.
Print Assumptions C05_dumps_text_injective.
Print Assumptions C05_node_uuid_distinct_in_pipeline.
Print Assumptions C05_semantic_id_discriminates.
Print Assumptions C05_node_semantic_id_discriminates.
Print Assumptions C05_sweep_block_fields.
Print Assumptions mut_sweep_expression.
Print Assumptions mut_sweep_variable_domain.
Print Assumptions C05_names_refuted_when.
Print Assumptions C05_names_full.
Print Assumptions C05_config_id_discriminates.
Print Assumptions mut_sweep_expression.
Print Assumptions mut_sweep_variable_domain.
Print Assumptions C05_full.
Print Assumptions C05_refuted_when.
Print Assumptions C05_partial.
