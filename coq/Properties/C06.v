(* Properties/C06.v -- Every run leaves a well-formed, schema-valid trace, whatever node fails.

   `execute_traced` (Model/Trace.v) is Model/Pipeline.v's executor threaded with the JSONL driver's handle
   state, with the protected-region structure of SemantivaOrchestrator.execute selected by `gen_facts`
   (read from orchestrator.py / jsonl.py on this run).  All theorems quantify over every pipeline `p`
   (every processor), every payload `s`, every failure point and kind (exec_node / construct may fail at any
   node with any error, including BaseException-class ones), every clock / run id / digest function. *)
From Coq Require Import List String ZArith NArith Bool.
From SV Require Import Model.Pipeline Model.PipelineLib Model.Trace Gen.OrchestratorGen Proofs.Trace.
Import ListNotations.
Open Scope string_scope.

(* ---- facts read from the source on this run that hold (hard obligations: a regression breaks them by name) ---- *)
Lemma gen_translated : translation_failed = false.
Proof. reflexivity. Qed.
Lemma gen_handlers_reraise : handlers_reraise = true.
Proof. reflexivity. Qed.
Lemma gen_start_before_try : start_before_try = true.
Proof. reflexivity. Qed.
Lemma gen_ser_in_both_arms : ser_in_both_arms = true.
Proof. reflexivity. Qed.
Lemma gen_end_in_both_arms : end_in_both_arms = true.
Proof. reflexivity. Qed.
Lemma gen_flush_close_in_finally : flush_close_in_finally = true.
Proof. reflexivity. Qed.
(* the shipped schemas (through the registry map) accept the top-level shape the driver writes *)
Lemma gen_tables_ok : tables_ok gen_layout gen_schema = true.
Proof. reflexivity. Qed.

Section C06.
Variables B D : Type.
Variable sd : data -> B.
Variable sc : ctx -> B.
Variable H : B -> D.
Notation exec E p s := (execute_traced B D sd sc H gen_facts E p s).

(* the three facts the full property needs; each is false on a tree that has the corresponding defect *)
Definition region_sound : Prop :=
  instantiate_inside_try = true /\ node_handler_catches_base = true /\ outer_handler_catches_base = true /\
  metadata_json_safe = true.

(* trace_well_formed: start . ser* . end; ids shared; SERs = the started nodes in order; upstream = canonical
   edges; statuses succeeded* . error?; end says ok exactly when the run returned; every record validates *)
Theorem C06_trace_well_formed :
  region_sound ->
  forall E p s,
    well_formed D gen_facts E p s (exec E p s) /\
    Forall (fun r => schema_ok gen_layout gen_schema r = true) (r_emitted (exec E p s)).
Proof.
  intros (Hi & Hn & Ho & Hm) E p s.
  assert (W : well_formed D gen_facts E p s (exec E p s)).
  { apply traced_well_formed; simpl; auto. apply meta_safe_no_opaque. exact Hm. }
  split; [exact W|].
  destruct W as (sers & q0 & t0 & q1 & t1 & ok & -> & _).
  constructor; [apply schema_ok_all; [exact gen_tables_ok|exact eq_refl]|].
  apply Forall_app. split.
  - apply Forall_forall. intros r I. apply in_map_iff in I as (x & <- & _).
    apply schema_ok_all; [exact gen_tables_ok|exact I].
  - constructor; [|constructor]. apply schema_ok_all; [exact gen_tables_ok|exact I].
Qed.

(* exception_unchanged: the traced call returns / raises exactly what the untraced executor does *)
Theorem C06_exception_unchanged :
  metadata_json_safe = true ->
  forall E p s, r_out (exec E p s) = TPlain (impl_run (nodes_of p) s).
Proof. intros Hm E p s. apply traced_outcome. apply meta_safe_no_opaque. exact Hm. Qed.

(* driver_closed_after: the handle is closed and everything emitted is on disk when the call returns/raises *)
Theorem C06_driver_closed_after :
  instantiate_inside_try = true ->
  forall E p s, r_drv (exec E p s) = Closed (r_emitted (exec E p s)).
Proof. intros Hi E p s. apply driver_closed; [exact gen_flush_close_in_finally|left; exact Hi]. Qed.

(* ---- the current tree ---------------------------------------------------------------------------------------- *)
(* construction after pipeline_start and outside the try: trace = [pipeline_start], still buffered, handle open *)
Theorem C06_refuted_when_construction :
  instantiate_inside_try = false ->
  forall E, exists p s st,
    r_emitted (exec E p s) = [st] /\ r_drv (exec E p s) = Open [st] [] /\
    (exists j e, r_out (exec E p s) = TPlain (CFailed j e)).
Proof.
  intros Hi E. exists wit_unknown_param, s0.
  destruct (construction_outside_try B D sd sc H gen_facts E wit_unknown_param Hi (or_introl eq_refl))
    as ((st & A & Bq) & C). exists st. auto.
Qed.

(* ... the same for a probe node without context_key *)
Theorem C06_refuted_when_construction_probe :
  instantiate_inside_try = false ->
  forall E, exists st,
    r_emitted (exec E wit_probe_nokey s0) = [st] /\ r_drv (exec E wit_probe_nokey s0) = Open [st] [].
Proof.
  intros Hi E.
  destruct (construction_outside_try B D sd sc H gen_facts E wit_probe_nokey Hi (or_intror eq_refl))
    as ((st & A & Bq) & C). exists st. auto.
Qed.

(* a BaseException-class abort: the node started but has no SER; and no pipeline_end *)
Theorem C06_refuted_when_interrupt :
  node_handler_catches_base = false ->
  forall E, exists p s,
    started p s = [0; 1] /\ map s_node (sers_in (r_emitted (exec E p s))) = [0] /\
    (outer_handler_catches_base = false -> ends_in (r_emitted (exec E p s)) = 0).
Proof. intros Hn E. exists wit_interrupt, s0. exact (interrupt_not_recorded B D sd sc H gen_facts E Hn). Qed.

(* sweep metadata that is not JSON: node 0 starts but gets no SER, and the trace has no schema-valid
   pipeline_start (either nothing is emitted, or the driver drops pipeline_spec_canonical, which the schema requires) *)
Theorem C06_refuted_when_metadata :
  metadata_json_safe = false ->
  forall E, exists p s,
    started p s = [0] /\ sers_in (r_emitted (exec E p s)) = [] /\
    (forall st, hd_error (r_emitted (exec E p s)) = Some st -> schema_ok gen_layout gen_schema st = false).
Proof.
  intros Hm E. exists wit_opaque, s0.
  destruct (opaque_changes_outcome B D sd sc H gen_facts E Hm) as (_ & _ & Hh & Hs & Hst).
  split; [exact Hst|]. split; [exact Hs|].
  intros st Hst'. destruct Hh as [Hh|(pd & rid & q & ts & Hh)]; rewrite Hh in Hst'; [discriminate|].
  injection Hst' as <-.
  apply schema_rejects_dropped_spec; [reflexivity|eexists; split; reflexivity].
Qed.

(* C06_partial: whatever the three facts are -- every run whose nodes can all be constructed, whose failure (at any
   node, of any kind) is an Exception-class error, and whose preprocessor metadata is JSON -- is well-formed,
   schema-valid, closed and flushed, with the exception unchanged *)
Theorem C06_partial :
  forall E p s,
    first_unconstructible 0 (nodes_of p) = None ->
    (forall j e, run (nodes_of p) s = Failed j e -> base_only e = false) ->
    (forall tn, In tn p -> t_meta tn <> MOpaque) ->
    well_formed D gen_facts E p s (exec E p s) /\
    Forall (fun r => schema_ok gen_layout gen_schema r = true) (r_emitted (exec E p s)) /\
    r_out (exec E p s) = TPlain (run (nodes_of p) s) /\
    r_drv (exec E p s) = Closed (r_emitted (exec E p s)).
Proof.
  intros E p s Hc Hb Hm.
  pose proof (no_meta_no_opaque gen_facts p Hm) as A.
  assert (W : well_formed D gen_facts E p s (exec E p s)).
  { apply traced_well_formed; auto. }
  split; [exact W|]. split; [|split].
  - destruct W as (sers & q0 & t0 & q1 & t1 & ok & -> & _).
    constructor; [apply schema_ok_all; [exact gen_tables_ok|exact eq_refl]|].
    apply Forall_app. split.
    + apply Forall_forall. intros r I. apply in_map_iff in I as (x & <- & _).
      apply schema_ok_all; [exact gen_tables_ok|exact I].
    + constructor; [|constructor]. apply schema_ok_all; [exact gen_tables_ok|exact I].
  - rewrite traced_outcome by exact A. unfold impl_run. rewrite Hc. reflexivity.
  - apply driver_closed; [exact gen_flush_close_in_finally|right; exact Hc].
Qed.
End C06.

(* ---- non-vacuity ------------------------------------------------------------------------------------------------ *)
Definition ex_env : env := mkEnv 7 0 false (fun k => Z.of_nat k) 0 true.
Definition ex_facts_good : facts := mkFacts true true true true true true true true true true false.
Definition ex_run (F : facts) (p : list tnode) (s : state) : result (data + ctx) :=
  execute_traced (data + ctx) (data + ctx) (fun d => inl d) (fun c => inr c) (fun x => x) F ex_env p s.

(* the hypotheses of C06_partial are satisfiable: a failing (ValueError) three-node pipeline *)
Definition ex_failing : list tnode := [src_node 3; mkT (mkNode lib_failing [] None) MNone TF; mkT (mkNode lib_square [] None) MNone TF].
Example ex_partial_hyps :
  first_unconstructible 0 (nodes_of ex_failing) = None /\
  (exists e, run (nodes_of ex_failing) s0 = Failed 1 e /\ base_only e = false) /\
  started ex_failing s0 = [0; 1].
Proof. vm_compute. repeat split. eexists. split; reflexivity. Qed.
(* with the repaired region the witnesses of the refutations close their brackets *)
Example ex_repaired_construction :
  map rtype (r_emitted (ex_run ex_facts_good wit_unknown_param s0)) = ["pipeline_start"; "pipeline_end"] /\
  drv_closed (r_drv (ex_run ex_facts_good wit_unknown_param s0)) = true.
Proof. vm_compute. auto. Qed.
Example ex_repaired_interrupt :
  map rtype (r_emitted (ex_run ex_facts_good wit_interrupt s0)) = ["pipeline_start"; "ser"; "ser"; "pipeline_end"] /\
  map s_ok (sers_in (r_emitted (ex_run ex_facts_good wit_interrupt s0))) = [true; false].
Proof. vm_compute. auto. Qed.
Example ex_current_construction :
  map rtype (r_emitted (ex_run gen_facts wit_unknown_param s0)) =
  if instantiate_inside_try then ["pipeline_start"; "pipeline_end"] else ["pipeline_start"].
Proof. vm_compute. reflexivity. Qed.
Example ex_base_only : base_only (perr "KeyboardInterrupt") = true /\ base_only (perr "ValueError") = false.
Proof. vm_compute. auto. Qed.

(* the defects found by this check are repaired on the current tree (fix commits): hard obligations *)
Lemma now_instantiate_inside_try : instantiate_inside_try = true.
Proof. reflexivity. Qed.
Lemma now_node_handler_catches_base : node_handler_catches_base = true.
Proof. reflexivity. Qed.
Lemma now_outer_handler_catches_base : outer_handler_catches_base = true.
Proof. reflexivity. Qed.
Lemma now_metadata_json_safe : metadata_json_safe = true.
Proof. reflexivity. Qed.
Lemma now_region_sound : region_sound.
Proof. repeat split. Qed.
Print Assumptions C06_trace_well_formed.
Print Assumptions C06_exception_unchanged.
Print Assumptions C06_driver_closed_after.
Print Assumptions C06_refuted_when_construction.
Print Assumptions C06_refuted_when_construction_probe.
Print Assumptions C06_refuted_when_interrupt.
Print Assumptions C06_refuted_when_metadata.
Print Assumptions C06_partial.
