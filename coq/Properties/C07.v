(* Properties/C07.v -- What a Semantic Execution Record says about its node is true.

   Every SER of every trace (`In (RSer x) (r_emitted (execute_traced ...))`) `describes` its node: it is built
   from the state the untraced executor reaches before that node (`pre`) and the state the node returned
   (`post`, = `pre` on failure).  The field-level theorems below then hold for every SER of every run of every
   pipeline, payload, clock, digest function. *)
From Coq Require Import List String ZArith NArith Bool Sorting.Sorted.
From SV Require Import Model.Pipeline Model.PipelineLib Model.Trace Gen.OrchestratorGen Proofs.Trace.
Import ListNotations.
Open Scope string_scope.

Lemma gen_translated : translation_failed = false.
Proof. reflexivity. Qed.

Section C07.
Variables B D : Type.
Variable sd : data -> B.          (* serialize *)
Variable sc : ctx -> B.
Variable H : B -> D.              (* the hash: every theorem holds for every H *)
Notation exec E p s := (execute_traced B D sd sc H gen_facts E p s).

(* each SER is the record of its own node's real pre / post states *)
Theorem C07_ser_describes_its_node E p s x :
  In (RSer x) (r_emitted (exec E p s)) ->
  exists j tn pre post q,
    nth_error p j = Some tn /\ s_node x = j /\
    run (nodes_of (firstn j p)) s = Done pre /\
    (if s_ok x then exec_node (t_node tn) pre = Ok post
     else post = pre /\ exists e, exec_node (t_node tn) pre = Fail e /\ s_err x = err_cls e) /\
    x = ser_of B D sd sc H gen_facts E (the_pid gen_facts E p) j tn pre post (s_ok x) (s_err x) q.
Proof. intros I. exact (trace_sers_describe B D sd sc H gen_facts E p s x I). Qed.

(* delta_exact: created = keys new after the node, updated = keys whose value changed (values replaced, not
   mutated in place: contexts are association lists of immutable values) *)
Theorem C07_delta_exact E pd j tn pre post ok ec q k :
  let x := ser_of B D sd sc H gen_facts E pd j tn pre post ok ec q in
  (In k (s_created x) <-> has k (snd post) = true /\ has k (snd pre) = false) /\
  (In k (s_updated x) <-> exists a b, lookup k (snd pre) = Some a /\ lookup k (snd post) = Some b /\ a <> b).
Proof. split; [apply created_exact|apply updated_exact]. Qed.

(* checks_iff: each built-in check says PASS exactly when its condition holds *)
Theorem C07_checks_iff E pd j tn pre post ok ec q :
  let x := ser_of B D sd sc H gen_facts E pd j tn pre post ok ec q in
  (s_req_ok x = true <-> forall k, In k (required_keys (t_node tn)) -> has k (snd pre) = true) /\
  (s_in_ok x = true <-> gate (pr_in (n_proc (t_node tn))) (fst pre) = true) /\
  (s_out_ok x = true <-> gate (t_out tn) (fst post) = true) /\
  (s_writes_ok x = true <-> forall k, In k (s_created x ++ s_updated x) -> has k (snd post) = true) /\
  s_writes_ok x = true.
Proof.
  simpl. split; [apply chk_required_iff|]. split; [tauto|]. split; [tauto|].
  split; [apply chk_writes_iff|apply chk_writes_delta].
Qed.

(* sources_truthful *)
Definition reported {D'} (x : ser D') (k : string) : option (val * chan) :=
  match alookup k (s_params x), alookup k (s_sources x) with
  | Some v, Some c => Some (v, c)
  | _, _ => None
  end.

Lemma reported_is_report_lookup E pd j tn pre post ok ec q k :
  reported (ser_of B D sd sc H gen_facts E pd j tn pre post ok ec q) k =
  report_lookup k (report gen_facts (t_node tn) (snd pre)).
Proof.
  unfold reported, report_lookup, alookup. simpl.
  induction (report gen_facts (t_node tn) (snd pre)) as [|[[k' v] c] tl IH]; simpl; auto.
  destruct (String.eqb k k'); auto.
Qed.

Theorem C07_sources_truthful :
  default_params_reported = true ->
  forall E pd j tn pre post ok ec q k v ch,
    In k (pr_params (n_proc (t_node tn))) ->
    actual (t_node tn) (snd pre) k = Some (v, ch) ->
    reported (ser_of B D sd sc H gen_facts E pd j tn pre post ok ec q) k = Some (v, ch).
Proof.
  intros Hd E pd j tn pre post ok ec q k v ch Ik A. rewrite reported_is_report_lookup.
  apply sources_truthful; auto.
Qed.

Theorem C07_sources_refuted_when :
  default_params_reported = false ->
  forall E pd j pre0 post ok ec q, exists tn c k v ch,
    In k (pr_params (n_proc (t_node tn))) /\ actual (t_node tn) c k = Some (v, ch) /\
    reported (ser_of B D sd sc H gen_facts E pd j tn (pre0, c) post ok ec q) k = None.
Proof.
  intros Hd E pd j pre0 post ok ec q.
  exists (mkT (mkNode (lib_mul true) [] None) MNone TF), [("factor", VNum 10)], "factor", (VNum 10), ChContext.
  destruct (default_not_reported gen_facts Hd) as (A & R & _).
  split; [left; reflexivity|]. split; [exact A|]. rewrite reported_is_report_lookup. exact R.
Qed.

Theorem C07_sources_partial :
  forall E pd j tn pre post ok ec q k v ch,
    In k (pr_params (n_proc (t_node tn))) ->
    has k (n_cfg (t_node tn)) = true \/ has k (pr_defaults (n_proc (t_node tn))) = false ->
    actual (t_node tn) (snd pre) k = Some (v, ch) ->
    reported (ser_of B D sd sc H gen_facts E pd j tn pre post ok ec q) k = Some (v, ch).
Proof.
  intros E pd j tn pre post ok ec q k v ch Ik Hc A. rewrite reported_is_report_lookup.
  apply sources_truthful_partial; auto.
Qed.

(* digest_chain: along the stream node k's output digest is node k+1's input digest (data and context), and
   digests are functions of content -- for every H *)
Theorem C07_digest_chain E p s : chained D (sers_in (r_emitted (exec E p s))).
Proof. apply trace_chained. Qed.

Theorem C07_digest_function_of_content E pd j tn pre post ok ec q pd' j' tn' pre' post' ok' ec' q' :
  fst post = fst pre' ->
  s_dout (ser_of B D sd sc H gen_facts E pd j tn pre post ok ec q) =
  s_din (ser_of B D sd sc H gen_facts E pd' j' tn' pre' post' ok' ec' q').
Proof. simpl. intros ->. reflexivity. Qed.

(* stamp_true: whatever the host zone offset, trace and outcome are those of offset 0, where every stamp is the
   clock reading itself (`stamp_utc`) *)
Theorem C07_stamp_true :
  timestamps_use_utc = true ->
  forall E off p s,
    r_emitted (exec (set_off E off) p s) = r_emitted (exec E p s) /\
    forall t, stamp timestamps_use_utc off t = t.
Proof.
  intros Hu E off p s.
  assert (U : iso_now_utc = true /\ driver_now_utc = true).
  { unfold timestamps_use_utc in Hu. revert Hu. unfold iso_now_utc, driver_now_utc. vm_compute. intros; split; congruence. }
  destruct U as [U1 U2]. split.
  - apply (trace_zone_independent B D sd sc H gen_facts E off p s); assumption.
  - intros t. rewrite Hu. reflexivity.
Qed.

Theorem C07_stamp_refuted_when :
  iso_now_utc = false ->
  forall E pd j tn pre post ok ec q, exists off,
    s_t0 (ser_of B D sd sc H gen_facts (set_off E off) pd j tn pre post ok ec q) <> e_clk E (S q).
Proof.
  intros Hu E pd j tn pre post ok ec q. exists 32400000%Z.
  change (stamp iso_now_utc 32400000 (e_clk E (S q)) <> e_clk E (S q)).
  rewrite Hu. apply (stamp_local 32400000 (e_clk E (S q))). discriminate.
Qed.

(* stamps_monotone, durations_nonneg: under a monotone clock oracle (the named assumption `mono`) *)
Theorem C07_durations_nonneg E p s :
  mono (e_clk E) ->
  Forall (fun x => (0 <= s_wall x)%Z) (sers_in (r_emitted (exec E p s))).
Proof.
  intros M. unfold execute_traced. destruct (f_prestart gen_facts && any_opaque gen_facts p); [constructor|].
  destruct (f_inst_in_try gen_facts).
  - rewrite protected_sers. simpl. unfold body.
    destruct (first_unconstructible 0 (nodes_of p)) as [[j e]|]; simpl; [constructor|]. apply loop_wall; exact M.
  - destruct (first_unconstructible 0 (nodes_of p)) as [[j e]|]; simpl; [constructor|].
    rewrite protected_sers. simpl. apply loop_wall; exact M.
Qed.

Theorem C07_stamps_monotone E p s :
  mono (e_clk E) -> iso_now_utc = true ->
  StronglySorted Z.le (ser_stamps D (sers_in (r_emitted (exec E p s)))).
Proof.
  intros M U. unfold execute_traced. destruct (f_prestart gen_facts && any_opaque gen_facts p); [constructor|].
  destruct (f_inst_in_try gen_facts).
  - rewrite protected_sers. simpl. unfold body.
    destruct (first_unconstructible 0 (nodes_of p)) as [[j e]|]; simpl; [constructor|].
    apply (loop_stamps B D sd sc H gen_facts E _ M U).
  - destruct (first_unconstructible 0 (nodes_of p)) as [[j e]|]; simpl; [constructor|].
    rewrite protected_sers. simpl. apply (loop_stamps B D sd sc H gen_facts E _ M U).
Qed.
End C07.

(* ---- non-vacuity ---------------------------------------------------------------------------------------------------- *)
Definition ex_env : env := mkEnv 7 0 false (fun k => Z.of_nat k) 0 true.
Example ex_mono : mono (e_clk ex_env).
Proof. intros a b Hab. simpl. apply Nat2Z.inj_le. exact Hab. Qed.
Definition ex_pipe : list tnode :=
  [src_node 3; mkT (mkNode (lib_mul true) [] None) MNone TF; mkT (mkNode lib_probe [] (Some "k")) MNone TAny;
   mkT (mkNode lib_square [] None) MNone TF; mkT (mkNode (lib_ctxwrite "k") [] None) MNone TF].
Definition ex_trace := r_emitted (execute_traced (data + ctx) (data + ctx) (fun d => inl d) (fun c => inr c) (fun x => x)
                                   gen_facts ex_env ex_pipe (DNone, [("factor", VNum 10)])).
Example ex_delta : map (fun x => (s_created x, s_updated x)) (sers_in ex_trace) = [([], []); ([], []); (["k"], []); ([], []); ([], ["k"])].
Proof. vm_compute. reflexivity. Qed.
Example ex_actual : actual (mkNode (lib_mul true) [] None) [("factor", VNum 10)] "factor" = Some (VNum 10, ChContext).
Proof. reflexivity. Qed.
Example ex_reported_when_repaired :
  report_lookup "factor" (report (mkFacts true true true true true true true true true true false) (mkNode (lib_mul true) [] None) [("factor", VNum 10)])
  = Some (VNum 10, ChContext).
Proof. reflexivity. Qed.

(* the defects found by this check are repaired on the current tree (fix commits): hard obligations *)
Lemma now_default_params_reported : default_params_reported = true.
Proof. reflexivity. Qed.
Lemma now_timestamps_use_utc : timestamps_use_utc = true.
Proof. reflexivity. Qed.
Lemma now_iso_now_utc : iso_now_utc = true.
Proof. reflexivity. Qed.
Lemma now_driver_now_utc : driver_now_utc = true.
Proof. reflexivity. Qed.
Print Assumptions C07_ser_describes_its_node.
Print Assumptions C07_delta_exact.
Print Assumptions C07_checks_iff.
Print Assumptions C07_sources_truthful.
Print Assumptions C07_sources_refuted_when.
Print Assumptions C07_sources_partial.
Print Assumptions C07_digest_chain.
Print Assumptions C07_digest_function_of_content.
Print Assumptions C07_stamp_true.
Print Assumptions C07_stamp_refuted_when.
Print Assumptions C07_durations_nonneg.
Print Assumptions C07_stamps_monotone.
