(* Properties/C08.v — Run-space expansion yields exactly the documented ordered list of runs. *)
From Coq Require Import List String ZArith NArith Bool Arith Permutation Sorted.
From SV Require Import Common.Prelude Model.RunSpace Gen.RunSpaceGen Proofs.RunSpace.
From SV Require Model.Loader Proofs.Loader Gen.LoaderGen Model.Rows Proofs.Rows Gen.RowsGen.
Import ListNotations.
Local Open Scope string_scope.

(* ---------- facts read from semantiva/execution/run_space.py on this run ---------- *)
Lemma gen_translated : translation_failed = false.
Proof. reflexivity. Qed.
Lemma gen_mode_names : mode_names = ["by_position"; "combinatorial"].
Proof. reflexivity. Qed.
Lemma gen_sorted_keys : v_sorted impl = true.
Proof. reflexivity. Qed.

Lemma impl_order e : order_keys impl e = ksort fst e.
Proof. unfold order_keys. rewrite gen_sorted_keys. reflexivity. Qed.

(* ---------- ordering inside one mapping of key -> values ---------- *)

(* Keys are taken in sorted order whatever the declared order. *)
Theorem C08_keys_sorted : forall e,
  StronglySorted (kle fst) (order_keys impl e) /\ Permutation e (order_keys impl e).
Proof. intros e. split; [apply order_keys_sorted; exact gen_sorted_keys|apply order_keys_perm]. Qed.

(* combinatorial: run i maps the j-th sorted key to its value number digit_j(i), last key fastest;
   there are exactly product-of-lengths runs. *)
Theorem C08_product_mixed_radix : forall e, e <> [] ->
  let o := ksort fst e in
  exists rs, expand_entries impl e Combinatorial = Ok rs /\
    List.length rs = prodl (lens o) /\
    forall i, i < prodl (lens o) -> nth i rs [] = digit_row o (digits (lens o) i).
Proof. intros e H. simpl. rewrite <- impl_order. exact (entries_comb_nth impl e H). Qed.

(* the digits are the mixed-radix digits of i: in range, and i is their weighted sum *)
Theorem C08_digits_mixed_radix : forall rs i, i < prodl rs ->
  Forall2 lt (digits rs i) rs /\ undigits rs (digits rs i) = i.
Proof. intros rs i H. split; [apply digits_bound|apply undigits_digits]; exact H. Qed.

(* by_position: run i takes position i of every list *)
Theorem C08_by_position_nth : forall e, e <> [] ->
  let o := ksort fst e in same_lengths o = true ->
  exists rs, expand_entries impl e ByPosition = Ok rs /\
    List.length rs = first_len o /\ forall i, i < first_len o -> nth i rs [] = row_at o i.
Proof. intros e H. simpl. rewrite <- impl_order. exact (entries_pos_nth impl e H). Qed.

(* ---------- one block: context part outer, source part inner ---------- *)
Theorem C08_block_comb_nth : forall ctx src sm runs,
  NoDup (keys ctx ++ keys src)%list ->
  expand_block impl ctx src Combinatorial sm = Ok runs ->
  exists cr sr, some_expand impl ctx Combinatorial = Ok cr /\ some_expand impl src sm = Ok sr /\
    List.length runs = List.length cr * List.length sr /\
    forall i j, i < List.length cr -> j < List.length sr ->
      nth (i * List.length sr + j) runs [] = (nth i cr [] ++ nth j sr [])%list.
Proof. exact (block_comb_nth impl). Qed.

Theorem C08_block_pos_nth : forall ctx src sm runs,
  NoDup (keys ctx ++ keys src)%list ->
  expand_block impl ctx src ByPosition sm = Ok runs ->
  exists cr sr, opt_expand impl ctx ByPosition = Ok cr /\ opt_expand impl src sm = Ok sr /\
    (forall c, cr = Some c -> List.length c = List.length runs) /\
    (forall s, sr = Some s -> List.length s = List.length runs) /\
    (cr = None -> sr = None -> runs = []) /\
    forall i, i < List.length runs -> nth i runs [] = (nth i (opt_list cr) [] ++ nth i (opt_list sr) [])%list.
Proof. exact (block_pos_nth impl). Qed.

(* ---------- whole specification: blocks in declaration order ---------- *)
(* combinatorial: run i is the concatenation of block j's run number digit_j(i), last block fastest;
   by_position: run i is the concatenation of every block's run i. *)
Theorem C08_combine_nth : forall s runs,
  wf_spec s = true -> sp_blocks s <> [] -> expand impl s = Ok runs ->
  exists bs, expand_blocks impl (sp_blocks s) [] = Ok bs /\ List.length bs = List.length (sp_blocks s) /\
    match sp_combine s with
    | Combinatorial =>
        List.length runs = prodl (map (@List.length run) bs) /\
        forall i, i < prodl (map (@List.length run) bs) ->
          nth i runs [] = List.concat (pick [] bs (digits (map (@List.length run) bs) i))
    | ByPosition =>
        (forall b, In b bs -> List.length b = List.length runs) /\
        forall i, i < List.length runs -> nth i runs [] = List.concat (map (fun b => nth i b []) bs)
    end.
Proof. exact (expand_nth impl). Qed.

(* every run carries exactly the keys of all blocks (block order, sorted inside each part), none twice *)
Theorem C08_keys_exact : forall s runs r,
  wf_spec s = true -> expand impl s = Ok runs -> In r runs ->
  keys r = spec_keys impl (sp_blocks s) /\ NoDup (spec_keys impl (sp_blocks s)).
Proof. exact (keys_exact impl). Qed.

(* ---------- rejections ---------- *)
Theorem C08_rejects_mismatched_lengths : forall e c1 c2,
  In c1 e -> In c2 e -> List.length (snd c1) <> List.length (snd c2) ->
  expand_entries impl e ByPosition = Err ELen.
Proof. exact (entries_mismatch_rejected impl). Qed.

Theorem C08_rejects_block_size : forall ctx src sm c s,
  opt_expand impl ctx ByPosition = Ok (Some c) -> opt_expand impl src sm = Ok (Some s) ->
  List.length c <> List.length s -> expand_block impl ctx src ByPosition sm = Err EBlockSize.
Proof. exact (block_size_mismatch_rejected impl). Qed.

Theorem C08_rejects_dup_in_block : forall b s sc k,
  b_src b = Some s -> process_source s = Ok sc -> In k (keys (b_ctx b)) -> In k (keys sc) ->
  block_entries b = Err EDupBlock.
Proof. exact dup_in_block_rejected. Qed.

Theorem C08_rejects_dup_across_blocks : forall b tl seen cs runs k,
  block_entries b = Ok cs ->
  expand_block impl (fst cs) (snd cs) (b_mode b) (src_mode b) = Ok runs ->
  In k seen -> In k (keys (fst cs) ++ keys (snd cs))%list ->
  expand_blocks impl (b :: tl) seen = Err EDupAcross.
Proof. exact (dup_across_rejected impl). Qed.

Theorem C08_rejects_rename_collision : forall ren columns,
  ~ NoDup (map (target ren) (keys columns)) -> rename_cols ren columns [] = Err ERename.
Proof. exact rename_collision_rejected. Qed.

Theorem C08_rejects_missing_select : forall columns sel k,
  In k sel -> ~ In k (keys columns) -> select_cols columns sel = Err ESelect.
Proof. exact select_missing_rejected. Qed.

Theorem C08_rejects_combine_size : forall maxr (bs : list (list run)) b1 b2,
  In b1 bs -> In b2 bs -> List.length b1 <> List.length b2 ->
  combine_runs impl ByPosition maxr bs = Err ECombineSize.
Proof. exact (combine_size_mismatch_rejected impl). Qed.

(* ---------- the arithmetic plan decides outcome, length and cap ---------- *)
(* `total` only multiplies and compares list lengths; it fixes every rejection, the number of runs
   and the cap verdict of the real expansion. *)
Theorem C08_outcome_from_sizes_partial : forall s,
  (0 <= sp_max_runs s)%Z -> sp_blocks s <> [] ->
  match total impl s with
  | Err x => x <> EMaxRuns /\ expand impl s = Err x
  | Ok t => if (t >? sp_max_runs s)%Z then expand impl s = Err EMaxRuns
            else exists runs, expand impl s = Ok runs /\ zlen runs = t
  end.
Proof. intros s H1 H2. apply expand_total; auto. Qed.

Theorem C08_cap_rejects_partial : forall s t,
  (0 <= sp_max_runs s)%Z -> sp_blocks s <> [] ->
  total impl s = Ok t -> (t > sp_max_runs s)%Z -> expand impl s = Err EMaxRuns.
Proof. intros s t H1 H2. apply cap_rejects; auto. Qed.

Theorem C08_length_exact_partial : forall s runs,
  (0 <= sp_max_runs s)%Z -> sp_blocks s <> [] ->
  expand impl s = Ok runs -> total impl s = Ok (zlen runs) /\ (zlen runs <= sp_max_runs s)%Z.
Proof. intros s runs H1 H2. apply length_exact; auto. Qed.

(* full statement (no-blocks specification included) holds when the no-blocks branch consults the cap *)
Theorem C08_cap_rejects : v_empty_cap impl = true -> forall s t,
  (0 <= sp_max_runs s)%Z ->
  total impl s = Ok t -> (t > sp_max_runs s)%Z -> expand impl s = Err EMaxRuns.
Proof. intros G s t H1. apply cap_rejects; auto. Qed.

(* the no-blocks branch consults the cap on the current tree (repaired by the fix commit): hard obligation *)
Lemma gen_empty_cap : v_empty_cap impl = true.
Proof. reflexivity. Qed.
Theorem C08_cap_rejects_all : forall s t,
  (0 <= sp_max_runs s)%Z ->
  total impl s = Ok t -> (t > sp_max_runs s)%Z -> expand impl s = Err EMaxRuns.
Proof. exact (C08_cap_rejects gen_empty_cap). Qed.

Theorem C08_cap_rejects_refuted_when : v_empty_cap impl = false ->
  exists s, (0 <= sp_max_runs s)%Z /\ total impl s = Ok 1%Z /\ (1 > sp_max_runs s)%Z /\ expand impl s = Ok [[]].
Proof. exact (cap_rejects_refuted_when impl). Qed.

(* ---------- rejected for the cap => nothing was materialised ---------- *)
Theorem C08_twin_faithful : forall s, snd (expand_eager_c impl s) = expand impl s.
Proof. exact (eager_result impl). Qed.

Theorem C08_cap_before_expansion : v_cap_first impl = true -> forall s,
  expand impl s = Err EMaxRuns -> (expand_cost impl s <= spec_size s)%N.
Proof. intros G s. apply cap_before_expansion. exact G. Qed.

(* sizes are computed arithmetically and the cap is tested before any run is built on the current tree
   (repaired by fix commit 7b147bf): hard obligation, and the unconditional statement *)
Lemma gen_cap_first : v_cap_first impl = true.
Proof. reflexivity. Qed.
Theorem C08_cap_before_expansion_all : forall s,
  expand impl s = Err EMaxRuns -> (expand_cost impl s <= spec_size s)%N.
Proof. exact (C08_cap_before_expansion gen_cap_first). Qed.
(* ... in fact nothing at all is built for a rejected or empty plan *)
Theorem C08_cap_rejection_builds_nothing : forall s,
  expand impl s = Err EMaxRuns -> expand_cost impl s = 0%N.
Proof.
  intros s H. unfold expand_cost. rewrite gen_cap_first.
  destruct (total impl s) as [t|e] eqn:T; [|reflexivity].
  rewrite (expand_cap_inv impl s t H T). reflexivity.
Qed.

Theorem C08_cap_before_expansion_refuted_when : v_cap_first impl = false ->
  exists s, wf_spec s = true /\ expand impl s = Err EMaxRuns /\ (spec_size s < expand_cost impl s)%N.
Proof. exact (cap_before_expansion_refuted_when impl). Qed.

(* what holds for either evaluation order: a cap rejection never builds the combined list *)
Theorem C08_cap_before_combination_partial : forall s,
  expand impl s = Err EMaxRuns ->
  (expand_cost impl s <= fst (expand_blocks_c impl (sp_blocks s) []))%N.
Proof. exact (cap_before_combination impl). Qed.

(* ---------- non-vacuity ---------- *)
Definition ex_entries : cols := [("k2", [VInt 1; VInt 2]); ("B", [VStr "x"; VStr "y"; VStr "z"]); ("k10", [VInt 7])].
Example ex_sorted_order : keys (order_keys impl ex_entries) = ["B"; "k10"; "k2"].
Proof. reflexivity. Qed.
Example ex_product :
  expand_entries impl ex_entries Combinatorial =
  Ok [[("B", VStr "x"); ("k10", VInt 7); ("k2", VInt 1)]; [("B", VStr "x"); ("k10", VInt 7); ("k2", VInt 2)];
      [("B", VStr "y"); ("k10", VInt 7); ("k2", VInt 1)]; [("B", VStr "y"); ("k10", VInt 7); ("k2", VInt 2)];
      [("B", VStr "z"); ("k10", VInt 7); ("k2", VInt 1)]; [("B", VStr "z"); ("k10", VInt 7); ("k2", VInt 2)]].
Proof. reflexivity. Qed.
Example ex_digits : digits [3; 1; 2] 5 = [2; 0; 1] /\ 5 < prodl [3; 1; 2].
Proof. split; [reflexivity|repeat constructor]. Qed.
Example ex_same_lengths : ex_entries <> [] /\ same_lengths (ksort fst [("b", [VInt 1; VInt 2]); ("a", [VInt 3; VInt 4])]) = true.
Proof. split; [discriminate|reflexivity]. Qed.

Definition ex_source : source :=
  mkSource [("c", [VInt 10; VInt 20; VInt 30]); ("a", [VStr "x"]); ("unused", [])] (Some ["c"; "a"; "c"]) [("a", "b")] Combinatorial.
Definition ex_spec : spec :=
  mkSpec Combinatorial 12
    [mkBlock Combinatorial [("z", [VInt 1; VInt 2])] (Some ex_source);
     mkBlock ByPosition [("q", [VInt 5; VInt 6]); ("p", [VInt 7; VInt 8])] None].
Example ex_spec_wf : wf_spec ex_spec = true /\ sp_blocks ex_spec <> [] /\ (0 <= sp_max_runs ex_spec)%Z.
Proof. repeat split; try reflexivity; discriminate. Qed.
Example ex_spec_total : total impl ex_spec = Ok 12%Z.
Proof. reflexivity. Qed.
Example ex_spec_runs : exists runs, expand impl ex_spec = Ok runs /\ List.length runs = 12 /\
  nth 0 runs [] = [("z", VInt 1); ("b", VStr "x"); ("c", VInt 10); ("p", VInt 7); ("q", VInt 5)] /\
  nth 1 runs [] = [("z", VInt 1); ("b", VStr "x"); ("c", VInt 10); ("p", VInt 8); ("q", VInt 6)] /\
  nth 11 runs [] = [("z", VInt 2); ("b", VStr "x"); ("c", VInt 30); ("p", VInt 8); ("q", VInt 6)] /\
  spec_keys impl (sp_blocks ex_spec) = ["z"; "b"; "c"; "p"; "q"].
Proof. eexists. split; [reflexivity|]. repeat split. Qed.
Example ex_block_nodup : NoDup (keys [("z", [VInt 1; VInt 2])] ++ keys [("c", [VInt 10]); ("b", [VStr "x"])])%list.
Proof. apply nodupb_NoDup. reflexivity. Qed.

Definition with_max (m : Z) (s : spec) : spec := mkSpec (sp_combine s) m (sp_blocks s).
Example ex_cap : total impl (with_max 11 ex_spec) = Ok 12%Z /\ (12 > 11)%Z /\ expand impl (with_max 11 ex_spec) = Err EMaxRuns.
Proof. repeat split. Qed.
Example ex_mismatch : expand_entries impl [("a", [VInt 1]); ("b", [])] ByPosition = Err ELen.
Proof. reflexivity. Qed.
Example ex_block_size :
  expand_block impl [("a", [VInt 1])] [("s", [VInt 1; VInt 2])] ByPosition ByPosition = Err EBlockSize.
Proof. reflexivity. Qed.
Example ex_dup_in_block :
  block_entries (mkBlock ByPosition [("b", [VInt 1])] (Some ex_source)) = Err EDupBlock.
Proof. reflexivity. Qed.
Example ex_dup_across :
  expand impl (mkSpec Combinatorial 100 [mkBlock ByPosition [("a", [VInt 1])] None; mkBlock ByPosition [("a", [VInt 2])] None])
  = Err EDupAcross.
Proof. reflexivity. Qed.
Example ex_rename_collision :
  process_source (mkSource [("a", [VInt 1]); ("b", [VInt 2])] None [("a", "b")] ByPosition) = Err ERename /\
  ~ NoDup (map (target [("a", "b")]) (keys [("a", [VInt 1]); ("b", [VInt 2])])).
Proof. split; [reflexivity|]. intro H. inversion H as [|? ? N _]. apply N. left. reflexivity. Qed.
Example ex_missing_select :
  process_source (mkSource [("a", [VInt 1])] (Some ["a"; "nope"]) [] ByPosition) = Err ESelect.
Proof. reflexivity. Qed.
Example ex_combine_size :
  expand impl (mkSpec ByPosition 100 [mkBlock ByPosition [("a", [VInt 1])] None; mkBlock ByPosition [("b", [VInt 2; VInt 3])] None])
  = Err ECombineSize.
Proof. reflexivity. Qed.
Example ex_eager_cost_grows :
  fst (expand_eager_c impl (with_max 1 (mkSpec Combinatorial 0
        [mkBlock Combinatorial [("a", [VInt 1; VInt 2; VInt 3]); ("b", [VInt 1; VInt 2; VInt 3])] None]))) = 18%N.
Proof. reflexivity. Qed.

(* ---------- the specification as WRITTEN (Model/Loader.v = _parse_run_space_block): what the expansion is defined on is what the
   loader reads back, whether every member is written or every member holding its documented default is left out.
   The loader's defaults are read from load_pipeline_from_yaml.py on this run and must be the documented ones (and the ones
   schema.py gives a specification built through the API): hard obligations. ---------- *)
Lemma gen_loader_translated : LoaderGen.translation_failed = false.
Proof. reflexivity. Qed.
Lemma gen_loader_defaults_documented : LoaderGen.impl = Loader.documented.
Proof. reflexivity. Qed.
Lemma gen_loader_schema_agrees : LoaderGen.schema_agrees = true.
Proof. reflexivity. Qed.

Theorem C08_written_specification_is_read_back : forall sp dry,
  Loader.load LoaderGen.impl (Loader.write_full sp dry) = (sp, dry) /\
  Loader.load LoaderGen.impl (Loader.write_minimal sp dry) = (sp, dry).
Proof.
  intros sp dry. rewrite gen_loader_defaults_documented. split.
  - apply Proofs.Loader.load_write_full.
  - apply Proofs.Loader.load_write_minimal.
Qed.
(* ... hence both spellings expand to the same runs *)
Corollary C08_spellings_expand_alike : forall sp dry,
  expand impl (fst (Loader.load LoaderGen.impl (Loader.write_minimal sp dry))) =
  expand impl (fst (Loader.load LoaderGen.impl (Loader.write_full sp dry))).
Proof. intros sp dry. destruct (C08_written_specification_is_read_back sp dry) as [F M]. rewrite F, M. reflexivity. Qed.
(* a loader whose source default follows the enclosing block reads another specification than the one written *)
Theorem C08_loader_source_mode_refuted_when :
  Loader.d_source_mode LoaderGen.impl = None ->
  exists sp, fst (Loader.load LoaderGen.impl (Loader.write_minimal sp false)) <> sp.
Proof. intros H. exists Proofs.Loader.follow_block_witness. apply Proofs.Loader.source_mode_refuted. exact H. Qed.
Example ex_loader_witness_runs :      (* the witness: 2 aligned rows as written, 4 runs when the columns are multiplied out *)
  option_map (@List.length run) (match expand impl Proofs.Loader.follow_block_witness with Ok r => Some r | Err _ => None end) = Some 2.
Proof. vm_compute. reflexivity. Qed.

(* ---------- "external sources loaded ... by_position aligning positions": the columns built from the ROWS of a source (JSON / YAML
   list of mappings, NDJSON lines) are aligned with the rows: position j of every column is a value of row j under that key,
   whatever keys the rows hold; rows that cannot be aligned are rejected.  Whether the loader tests the column length before it
   appends is read from run_space.py on this run (hard obligation); without the test the statement is false ---------- *)
Lemma gen_rows_checked : RowsGen.rows_checked = true.
Proof. reflexivity. Qed.
Definition loaded_rows (rows : list Rows.row) : option cols :=
  if RowsGen.rows_checked then Rows.load_rows rows else Some (Rows.load_rows_unchecked rows).
Theorem C08_source_rows_aligned : forall rows cs, loaded_rows rows = Some cs ->
  forall k col, lookup k cs = Some col ->
    List.length col <= List.length rows /\
    forall j, j < List.length col -> exists r, nth_error rows j = Some r /\ In (k, nth j col vdef) r.
Proof. unfold loaded_rows. rewrite gen_rows_checked. exact Proofs.Rows.rows_aligned. Qed.
Theorem C08_source_rows_refuted_when : RowsGen.rows_checked = false ->
  exists rows cs k col j, loaded_rows rows = Some cs /\ lookup k cs = Some col /\ j < List.length col /\
    forall r, nth_error rows j = Some r -> ~ In (k, nth j col vdef) r.
Proof.
  intros H. unfold loaded_rows. rewrite H.
  destruct Proofs.Rows.unchecked_misaligns as [rows [k [col [j [A [B C]]]]]].
  exists rows, (Rows.load_rows_unchecked rows), k, col, j. repeat split; assumption.
Qed.
Example ex_source_rows :
  map loaded_rows [[[("a", VInt 1); ("b", VInt 10)]; [("a", VInt 2); ("b", VInt 20)]];
                   [[("a", VInt 1); ("b", VInt 1)]; [("a", VInt 2)]; [("b", VInt 3)]]]
  = [Some [("a", [VInt 1; VInt 2]); ("b", [VInt 10; VInt 20])]; None].
Proof. reflexivity. Qed.
Print Assumptions C08_source_rows_aligned.
Print Assumptions C08_written_specification_is_read_back.
Print Assumptions C08_spellings_expand_alike.
Print Assumptions C08_loader_source_mode_refuted_when.
Print Assumptions C08_cap_rejects_all.
Print Assumptions C08_cap_before_expansion_all.
Print Assumptions C08_cap_rejection_builds_nothing.
Print Assumptions C08_keys_sorted.
Print Assumptions C08_product_mixed_radix.
Print Assumptions C08_digits_mixed_radix.
Print Assumptions C08_by_position_nth.
Print Assumptions C08_block_comb_nth.
Print Assumptions C08_block_pos_nth.
Print Assumptions C08_combine_nth.
Print Assumptions C08_keys_exact.
Print Assumptions C08_rejects_mismatched_lengths.
Print Assumptions C08_rejects_block_size.
Print Assumptions C08_rejects_dup_in_block.
Print Assumptions C08_rejects_dup_across_blocks.
Print Assumptions C08_rejects_rename_collision.
Print Assumptions C08_rejects_missing_select.
Print Assumptions C08_rejects_combine_size.
Print Assumptions C08_outcome_from_sizes_partial.
Print Assumptions C08_cap_rejects_partial.
Print Assumptions C08_length_exact_partial.
Print Assumptions C08_cap_rejects.
Print Assumptions C08_cap_rejects_refuted_when.
Print Assumptions C08_twin_faithful.
Print Assumptions C08_cap_before_expansion.
Print Assumptions C08_cap_before_expansion_refuted_when.
Print Assumptions C08_cap_before_combination_partial.
